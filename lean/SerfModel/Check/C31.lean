import SerfModel.Check.Core
import SerfModel.Model.Config
import SerfModel.Gen.MergeConfig
/-!
C31 checker.  A configuration is written as `-` (all fields zero) or
`Name=<val>;Name=<val>…` (non-zero fields, declaration order) with values
`s<hex>` string, `i<dec>` int/duration, `b1`, `tN` nil map / `tE` empty map /
`t<hexk>:<hexv>,…` (sorted by key), `lN` nil list / `lE` empty list / `l<hex>,…`.

Ops (all on the real `agent.MergeConfig` / `agent.ReadConfigPaths`):
  `merge A B`        → `<MergeConfig(A,B)> <ok|a-mutated|b-mutated|ab-mutated>` (inputs compared with deep copies)
  `assoc A B C`      → `<merge(merge(A,B),C)> <merge(A,merge(B,C))>`
  `reuse BASE B C`   → `<r1 = merge(BASE,B), read after the second call> <r2 = merge(BASE,C)> <ok|result-changed|input-storage-written|…+…>`
                       (the executor rebuilds BASE's lists with cap > len and compares their whole backing arrays)
  `decode CFG ORACLE u|-` → `<DecodeConfig of the JSON rendering of CFG's JSON-settable fields>` | `error`;
                       ORACLE = Go's `time.ParseDuration` on every non-empty `*Raw` string (`<hex>:<ns>|e;…`), `u` = the
                       file also carries an unknown key
  `read <path>…`     → `<result>` | `error`; path = `m` missing, `f:<cfg>` file, `f!` undecodable file,
                       `d:<hexname>~<j|b|s>~<cfg>|…` directory (j: file, b: undecodable file, s: sub-directory),
                       `=<k>` path k given again, `@<k>/<hexname>` the entry <name> of directory path k given explicitly

The model output interprets the regenerated rule table (`Gen.MergeConfig.table`), value
view for the result and heap view for the mutation flag.  The MONITOR does not use the
rule table: it judges the implementation's output against the documented layering
(`docOf`/`layerVal`, from field name and kind only), the mutation flags, equality of the
two association orders, and the documented source order for `read`.
-/
namespace SerfModel.Check.C31
open SerfModel SerfModel.Check SerfModel.Config
open SerfModel.Gen.MergeConfig (table)

def joinWith (sep : String) (l : List String) : String := sep.intercalate l

def showVal : FieldVal → String
  | .str s => "s" ++ hexOfString s
  | .int i => "i" ++ toString i
  | .bool b => if b then "b1" else "b0"
  | .tags none => "tN"
  | .tags (some []) => "tE"
  | .tags (some m) => "t" ++ joinWith "," ((sortTags m).map fun p => hexOfString p.1 ++ ":" ++ hexOfString p.2)
  | .list [] => "lE"
  | .list l => "l" ++ joinWith "," (l.map hexOfString)

def isZero : FieldVal → Bool
  | .str s => s == ""
  | .int i => i == 0
  | .bool b => !b
  | .tags m => m.isNone
  | .list l => l.isEmpty

def showCfg (t : List FieldSpec) (c : Config) : String :=
  let parts := t.filterMap fun fs =>
    let v := get c fs.name
    if isZero v then none else some (fs.name ++ "=" ++ showVal v)
  if parts.isEmpty then "-" else joinWith ";" parts

def tailOf (s : String) : String := String.ofList (s.toList.drop 1)

def parsePair (s : String) : Option (String × String) :=
  match s.splitOn ":" with
  | [k, v] => match stringOfHex? k, stringOfHex? v with
    | some k, some v => some (k, v)
    | _, _ => none
  | _ => none

def parseVal (k : Kind) (s : String) : Option FieldVal :=
  let body := tailOf s
  match k, s.toList.head? with
  | .str, some 's' => (stringOfHex? body).map .str
  | .int, some 'i' => body.toInt?.map .int
  | .dur, some 'i' => body.toInt?.map .int
  | .bool, some 'b' => if body == "1" then some (.bool true) else if body == "0" then some (.bool false) else none
  | .tags, some 't' =>
    if body == "N" then some (.tags none)
    else if body == "E" then some (.tags (some []))
    else ((body.splitOn ",").mapM parsePair).map fun m => .tags (some m)
  | .list, some 'l' =>
    if body == "N" || body == "E" then some (.list [])
    else ((body.splitOn ",").mapM stringOfHex?).map .list
  | _, _ => none

def parseCfg (t : List FieldSpec) (s : String) : Option Config :=
  if s == "-" then some (zero t) else
  (s.splitOn ";").foldlM (fun c item =>
    match item.splitOn "=" with
    | [name, val] =>
      match t.find? (·.name == name) with
      | some fs => (parseVal fs.kind val).map (setField c name)
      | none => none
    | _ => none) (zero t)

/-! heap view of the inputs: every non-nil map / non-empty slice gets its own object (a slice's backing
array has `spare` unused cells beyond its length) -/
def toRef (t : List FieldSpec) (h : Heap) (c : Config) (spare : Nat := 0) : Heap × RConfig :=
  t.foldl (fun (acc : Heap × RConfig) fs =>
    let (h, rc) := acc
    match get c fs.name with
    | .tags none => (h, rc ++ [(fs.name, .ref none)])
    | .tags (some m) => (h ++ [.tags m], rc ++ [(fs.name, .ref (some h.length))])
    | .list [] => (h, rc ++ [(fs.name, .slice none)])
    | .list l => (h ++ [.strs (l ++ List.replicate spare "")], rc ++ [(fs.name, .slice (some (h.length, l.length)))])
    | v => (h, rc ++ [(fs.name, .scalar v)])) (h, [])

def sameCfg (t : List FieldSpec) (x y : Config) : Bool :=
  t.all fun fs => sameVal (get x fs.name) (get y fs.name)

/-- model of op `merge`: value + mutation flag from the heap view -/
def modelMerge (a b : Config) : String :=
  let (h0, ra) := toRef table [] a
  let (h1, rb) := toRef table h0 b
  let (h2, rr) := mergeH table h1 ra rb
  let v := merge table a b
  if !(sameCfg table (deref table h2 rr) v) then "heap-and-value-views-disagree" else
  let ma := deref table h2 ra != deref table h1 ra
  let mb := deref table h2 rb != deref table h1 rb
  showCfg table v ++ " " ++ (match ma, mb with
    | false, false => "ok" | true, false => "a-mutated" | false, true => "b-mutated" | true, true => "ab-mutated")

/-- model of op `reuse`, entirely on the heap view: the same base is merged with `b`, then with
`c`; the first result is read again AFTER the second call, and every input is re-read. -/
def modelReuse (base b c : Config) : String :=
  let (h0, rbase) := toRef table [] base 3        -- the executor rebuilds the base's lists with cap = len + 3
  let (h1, rb) := toRef table h0 b
  let (h2, rc) := toRef table h1 c
  let (h3, r1) := mergeH table h2 rbase rb
  let (h4, r2) := mergeH table h3 rbase rc
  let changed := deref table h4 r1 != deref table h3 r1
  let written := deref table h4 rbase != deref table h2 rbase || deref table h4 rb != deref table h2 rb ||
    deref table h4 rc != deref table h2 rc
  let flag := match changed, written with
    | false, false => "ok"
    | true, false => "result-changed"
    | false, true => "input-storage-written"
    | true, true => "result-changed+input-storage-written"
  showCfg table (deref table h4 r1) ++ " " ++ showCfg table (deref table h4 r2) ++ " " ++ flag

/-- `time.ParseDuration` as observed by the harness: `_` | `<hexstring>:<ns>|e;…` -/
def parseOracle (s : String) : Option (List (String × Option Int)) :=
  if s == "_" then some [] else
  (s.splitOn ";").mapM fun item =>
    match item.splitOn ":" with
    | [h, r] => match stringOfHex? h with
      | some x => if r == "e" then some (x, none) else r.toInt?.map fun n => (x, some n)
      | none => none
    | _ => none

/-- the documented merge of two sources (fields without a documented rule keep the earlier value) -/
def specMerge (a b : Config) : Config :=
  table.map fun fs =>
    match docOf fs with
    | some d => (fs.name, layerVal d (get a fs.name) (get b fs.name))
    | none => (fs.name, get a fs.name)

/-- first documented field on which `r` differs from `spec` -/
def firstBad (spec r : Config) : Option String :=
  (table.find? fun fs => (docOf fs).isSome && !(sameVal (get r fs.name) (get spec fs.name))).map (·.name)

/-- judge a result against the documented layering -/
def judge (what : String) (spec r : Config) : Option (String × String) :=
  match firstBad spec r with
  | some f => some ("field-not-layered", s!"{what}: field {f} is {showVal (get r f)}, documented layering gives {showVal (get spec f)}")
  | none => none

structure DirSpec where
  ents : List DirEnt

def parseEnt (s : String) : Option DirEnt :=
  match s.splitOn "~" with
  | [n, ty, c] =>
    match stringOfHex? n with
    | none => none
    | some name =>
      if ty == "s" then some ⟨name, true, none⟩
      else if ty == "b" then some ⟨name, false, none⟩
      else if ty == "j" then (parseCfg table c).map fun c => ⟨name, false, some c⟩
      else none
  | _ => none

def parsePath (s : String) : Option PathArg :=
  if s == "m" then some .unreadable
  else if s == "f!" then some (.file none)
  else if s.startsWith "f:" then (parseCfg table (String.ofList (s.toList.drop 2))).map fun c => .file (some c)
  else if s == "d:" then some (.dir [])
  else if s.startsWith "d:" then
    (((String.ofList (s.toList.drop 2)).splitOn "|").mapM parseEnt).map .dir
  else none

/-- the path arguments of a `read` op, left to right; `=<k>` repeats path `k` (the same file or
directory given again), `@<k>/<hexname>` names explicitly the entry `<name>` of directory path `k` -/
def parsePaths : List String → List PathArg → Option (List PathArg)
  | [], acc => some acc
  | s :: rest, acc =>
    let one : Option PathArg :=
      if s.startsWith "=" then
        match (String.ofList (s.toList.drop 1)).toNat? with
        | some k => acc[k]?
        | none => none
      else if s.startsWith "@" then
        match (String.ofList (s.toList.drop 1)).splitOn "/" with
        | [ks, hn] =>
          match ks.toNat?, stringOfHex? hn with
          | some k, some name =>
            match acc[k]? with
            | some (.dir ents) =>
              match ents.find? (fun e => e.name == name && !e.isDir) with
              | some e => some (.file e.cfg)
              | none => none
            | _ => none
          | _, _ => none
        | _ => none
      else parsePath s
    match one with
    | some p => parsePaths rest (acc ++ [p])
    | none => none

/-- the monitor's own reading of the documentation: files as given, directories contribute
their non-directory `*.json` entries in lexical order; any unreadable / undecodable selected
source makes the whole read fail. -/
def specRead (ps : List PathArg) : Option Config :=
  (allOk (sources ps)).map fun cs => cs.foldl specMerge (zero table)

def step (s : Unit) (op : List String) (impl : String) : LineOut Unit :=
  match op with
  | ["merge", sa, sb] =>
    match parseCfg table sa, parseCfg table sb with
    | some a, some b =>
      let mon : Option (String × String) :=
        match impl.splitOn " " with
        | [rs, flag] =>
          if flag != "ok" then some ("input-mutated", s!"MergeConfig modified its input(s): {flag}")
          else match parseCfg table rs with
            | none => some ("malformed", impl)
            | some r => judge "merge" (specMerge a b) r
        | _ => some ("malformed", impl)
      { state := s, model := some (modelMerge a b), monitor := mon }
    | _, _ => { state := s, model := some "bad-op" }
  | ["reuse", sbase, sb, sc] =>
    match parseCfg table sbase, parseCfg table sb, parseCfg table sc with
    | some base, some b, some c =>
      { state := s, model := some (modelReuse base b c), monitor :=
        match impl.splitOn " " with
        | [r1s, r2s, flag] =>
          if flag != "ok" then
            if (flag.splitOn "+").contains "input-storage-written" then
              some ("input-storage-written", s!"MergeConfig(base, ·) called twice wrote into storage reachable from its inputs: {flag}")
            else some ("result-changed-later", s!"the result of MergeConfig(base, b) changed when MergeConfig(base, c) was called: {flag}")
          else match parseCfg table r1s, parseCfg table r2s with
            | some r1, some r2 =>
              match judge "reuse(first)" (specMerge base b) r1 with
              | some e => some e
              | none => judge "reuse(second)" (specMerge base c) r2
            | _, _ => some ("malformed", impl)
        | _ => some ("malformed", impl) }
    | _, _, _ => { state := s, model := some "bad-op" }
  | ["decode", sc, so, su] =>
    match parseCfg table sc, parseOracle so with
    | some c, some orc =>
      let parseDur := fun (x : String) => (alookup orc x).getD none
      let unknown := su == "u"
      let m := if unknown then "error" else
        match decodePost parseDur Gen.MergeConfig.durationPairs c with
        | none => "error"
        | some c' => showCfg table c'
      -- the monitor's own reading: a field X with a twin XRaw is a duration set from XRaw
      let twins := table.filterMap fun fs =>
        if endsWithRaw fs.name then some (fs.name, String.ofList (fs.name.toList.take (fs.name.length - 3))) else none
      let bad := twins.any fun tw => match get c tw.1 with
        | .str x => x != "" && (parseDur x).isNone
        | _ => false
      let exp : Option Config := if unknown || bad then none else
        some (twins.foldl (fun acc tw => match get c tw.1 with
          | .str x => if x != "" then setField acc tw.2 (.int ((parseDur x).getD 0)) else acc
          | _ => acc) c)
      let mon : Option (String × String) :=
        match exp with
        | none => if impl == "error" then none else some ("decode-mismatch", s!"an unknown key / unparsable duration must make DecodeConfig fail, got {impl}")
        | some e =>
          if impl == "error" then some ("decode-mismatch", "DecodeConfig failed on a decodable file")
          else match parseCfg table impl with
            | none => some ("malformed", impl)
            | some r =>
              match (table.find? fun fs => !(sameVal (get r fs.name) (get e fs.name))).map (·.name) with
              | some f => some ("decode-mismatch", s!"DecodeConfig: field {f} is {showVal (get r f)}, expected {showVal (get e f)}")
              | none => none
      { state := s, model := some m, monitor := mon }
    | _, _ => { state := s, model := some "bad-op" }
  | ["assoc", sa, sb, sc] =>
    match parseCfg table sa, parseCfg table sb, parseCfg table sc with
    | some a, some b, some c =>
      let l := merge table (merge table a b) c
      let r := merge table a (merge table b c)
      let mon : Option (String × String) :=
        match impl.splitOn " " with
        | [ls, rs] =>
          if ls != rs then some ("not-associative", s!"merge(merge(a,b),c) = {ls} but merge(a,merge(b,c)) = {rs}")
          else match parseCfg table ls with
            | none => some ("malformed", impl)
            | some lr => judge "assoc" (specMerge (specMerge a b) c) lr
        | _ => some ("malformed", impl)
      { state := s, model := some (showCfg table l ++ " " ++ showCfg table r), monitor := mon }
    | _, _, _ => { state := s, model := some "bad-op" }
  | "read" :: paths =>
    match parsePaths paths [] with
    | none => { state := s, model := some "bad-op" }
    | some ps =>
      let m := match readPathsS Gen.MergeConfig.readShape table ps with
        | none => "error"
        | some c => showCfg table c
      let mon : Option (String × String) :=
        match specRead ps with
        | none => if impl == "error" then none else some ("fold-mismatch", s!"a selected source is unreadable, yet the read returned {impl}")
        | some spec =>
          if impl == "error" then some ("fold-mismatch", "every selected source is readable, yet the read failed")
          else match parseCfg table impl with
            | none => some ("malformed", impl)
            | some r =>
              match firstBad spec r with
              | some f => some ("fold-mismatch", s!"read: field {f} is {showVal (get r f)}, merging the sources in documented order gives {showVal (get spec f)}")
              | none => none
      { state := s, model := some m, monitor := mon }
  | _ => { state := s, model := some "bad-op" }

def checker : Checker := { σ := Unit, init := (), step := step }

end SerfModel.Check.C31
