import SerfModel.Check.Core
import SerfModel.Check.C20
import SerfModel.Model.ERat
import SerfModel.Gen.CoordFormula
/-!
C21 checker.  Op: `dist <coordA> <coordB>` => `ns <d(a,b)> <d(b,a)>` | `panic-dim`.
Model output: `Coordinate.DistanceTo` of the model in both directions (Float instance, bit for bit).
Monitor (on the implementation's outputs, its own exact-arithmetic bookkeeping): for pairs in the property's
scope (finite, equal dimension, heights ≥ 0, |components|, heights ≤ 10^4 s) the result is non-negative, both
directions agree within 1 ns, and it is within 1 ns of the documented formula evaluated in EXACT rational
arithmetic (square root bracketed to 10^-20); different dimensions must give the dimensionality error.
The formula the documentation states (Gen.CoordFormula.docs) is evaluated as well.
-/
namespace SerfModel.Check.C21
open SerfModel SerfModel.Check SerfModel.Coord FloatLike
open SerfModel.Check.C20 (parseCoord parseInt? showCoord)

/-- exact value of a double -/
def eratOfFloat (x : Float) : ERat :=
  let b := x.toBits.toNat
  let neg := b / 2 ^ 63 == 1
  let e : Nat := (b / 2 ^ 52) % 2048
  let m : Nat := b % 2 ^ 52
  if x.isNaN then .nan
  else if e == 2047 then (if neg then .ninf else .pinf)
  else
    let (n, k) : Nat × Int := if e == 0 then (m, -1074) else (2 ^ 52 + m, Int.ofNat e - 1075)
    let q : Rat := if k ≥ 0 then ((n * 2 ^ k.toNat : Nat) : Rat) else Rat.divInt n ((2 ^ (-k).toNat : Nat) : Int)
    .fin (if neg then -q else q)

def eratCoord (c : Coordinate Float) : Coordinate ERat :=
  { vec := c.vec.map eratOfFloat, error := eratOfFloat c.error, adjustment := eratOfFloat c.adjustment,
    height := eratOfFloat c.height }

def absF (x : Float) : Float := x.abs

def tenK : Float := 10000.0
def million : Float := 1000000.0

/-- the property's scope: valid, non-negative heights, components and heights up to 10^4 s -/
def inScope (c : Coordinate Float) : Bool :=
  isValid c && decide (0 ≤ c.height) && decide (c.height ≤ tenK) && c.vec.all (fun x => decide (absF x ≤ tenK))

def ratAbs (q : Rat) : Rat := if q < 0 then -q else q

def intAbs (i : Int) : Int := if i < 0 then -i else i

def judge (a b : Coordinate Float) (impl : String) : Option (String × String) :=
  if a.vec.length != b.vec.length then
    (if impl == "panic-dim" then none
     else some ("dim-mismatch-compared", s!"coordinates of dimensions {a.vec.length} and {b.vec.length}: {impl} instead of the dimensionality error"))
  else
  match impl.splitOn " " with
  | ["ns", sab, sba] =>
    match parseInt? sab, parseInt? sba with
    | some ab, some ba =>
      -- the documentation's example, as written
      let docsNs := SerfModel.Gen.CoordFormula.docs.evalNs a b
      let docsFixed := ({ SerfModel.Gen.CoordFormula.docs with conv := .scaleThenTruncate } : Formula).evalNs a b
      let docsM : Option (String × String) :=
        if docsNs == ab then none
        else if docsFixed == ab && SerfModel.Gen.CoordFormula.docs.conv == .truncateThenScale then
          some ("docs-example-truncates-to-seconds", s!"the documented example returns {docsNs} ns (whole seconds) where DistanceTo returns {ab} ns")
        else some ("docs-formula-differs", s!"documented formula gives {docsFixed} ns, DistanceTo {ab} ns")
      if !(inScope a && inScope b) then docsM else
      let hugeAdj := decide (absF a.adjustment > million) || decide (absF b.adjustment > million)
      -- exact reference
      match distSeconds (eratCoord a) (eratCoord b) with
      | .fin q =>
        let exactNs : Rat := q * (1000000000 : Nat)
        let t : Int := exactNs.num.tdiv exactNs.den
        if t ≥ 9223372036854775807 then
          (if ab < 0 || ba < 0 then some ("negative-rtt-adjustment-overflow", s!"exact distance {t} ns exceeds int64: DistanceTo returns {ab} ns")
           else none)
        else if ab < 0 || ba < 0 then some ("negative-rtt", s!"d(a,b) = {ab} ns, d(b,a) = {ba} ns")
        else if hugeAdj then
          (if intAbs (ab - ba) > 1 then some ("asymmetry-huge-adjustment", s!"d(a,b) = {ab} ns, d(b,a) = {ba} ns with an adjustment beyond 10^6 s")
           else docsM)
        else if intAbs (ab - ba) > 1 then some ("asymmetric", s!"d(a,b) = {ab} ns but d(b,a) = {ba} ns")
        else if intAbs (ab - t) > 1 then some ("formula-mismatch", s!"DistanceTo = {ab} ns, documented formula in exact arithmetic = {t} ns")
        else docsM
      | _ => some ("exact-not-finite", "exact evaluation of an in-scope pair is not finite")
    | _, _ => some ("malformed", impl)
  | _ => some ("dist-failed", s!"DistanceTo on compatible coordinates answered {impl}")

def step (s : Unit) (op : List String) (impl : String) : LineOut Unit :=
  match op with
  | ["dist", a, b] =>
    match parseCoord a, parseCoord b with
    | some a, some b =>
      let out := match distanceTo a b, distanceTo b a with
        | .ok x, .ok y => s!"ns {x} {y}"
        | _, _ => "panic-dim"
      { state := s, model := some out, monitor := judge a b impl }
    | _, _ => { state := s, model := some "bad-op" }
  | _ => { state := s, model := some "bad-op" }

def checker : Checker := { σ := Unit, init := (), step := step }

end SerfModel.Check.C21
