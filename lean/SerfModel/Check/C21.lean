import SerfModel.Check.Core
import SerfModel.Check.C20
import SerfModel.Model.ERat
import SerfModel.Gen.CoordFormula
/-!
C21 checker.  Ops: `dist <coordA> <coordB>` => `ns <d(a,b)> <d(b,a)>` | `panic-dim`;
`conc <G> <iters> <pairs…>` => sequential estimates and the number of concurrent estimates that differ from them;
`law <x> <y>` => bits of x+y, y+x, (x-y)², (y-x)² (the `CommLaws` facts, judged on the real float64 results).
Model output: `Coordinate.DistanceTo` of the model in both directions (Float instance, bit for bit).
Monitor (on the implementation's outputs, its own exact-arithmetic bookkeeping): for pairs in the property's
scope (finite, equal dimension, heights ≥ 0, |components|, heights ≤ 10^4 s) the result is non-negative and it is
within 1 ns of the documented formula evaluated in EXACT rational
arithmetic (square root bracketed to 10^-20); different dimensions must give the dimensionality error.
For EVERY pair (in scope or not) both directions must agree exactly (C21_symm).
The formula the documentation states (Gen.CoordFormula.docs) is evaluated as well.
-/
namespace SerfModel.Check.C21
open SerfModel SerfModel.Check SerfModel.Coord FloatLike
open SerfModel.Check.C20 (parseCoord parseInt? showCoord)

/-- exact value of a double -/
def eratOfFloat (x : Float) : ERat :=
  let b := x.toBits.toNat
  let neg := b / 2 ^ 63 == 1
  let e : Nat := (b / 2 ^ 52) % 2048
  let m : Nat := b % 2 ^ 52
  if x.isNaN then .nan
  else if e == 2047 then (if neg then .ninf else .pinf)
  else
    let (n, k) : Nat × Int := if e == 0 then (m, -1074) else (2 ^ 52 + m, Int.ofNat e - 1075)
    let q : Rat := if k ≥ 0 then ((n * 2 ^ k.toNat : Nat) : Rat) else Rat.divInt n ((2 ^ (-k).toNat : Nat) : Int)
    .fin (if neg then -q else q)

def eratCoord (c : Coordinate Float) : Coordinate ERat :=
  { vec := c.vec.map eratOfFloat, error := eratOfFloat c.error, adjustment := eratOfFloat c.adjustment,
    height := eratOfFloat c.height }

def absF (x : Float) : Float := x.abs

def tenK : Float := 10000.0
def million : Float := 1000000.0

/-- the property's scope: valid, non-negative heights, components and heights up to 10^4 s -/
def inScope (c : Coordinate Float) : Bool :=
  isValid c && decide (0 ≤ c.height) && decide (c.height ≤ tenK) && c.vec.all (fun x => decide (absF x ≤ tenK))

def ratAbs (q : Rat) : Rat := if q < 0 then -q else q

def intAbs (i : Int) : Int := if i < 0 then -i else i

def judge (a b : Coordinate Float) (impl : String) : Option (String × String) :=
  if a.vec.length != b.vec.length then
    (if impl == "panic-dim" then none
     else some ("dim-mismatch-compared", s!"coordinates of dimensions {a.vec.length} and {b.vec.length}: {impl} instead of the dimensionality error"))
  else
  match impl.splitOn " " with
  | ["ns", sab, sba] =>
    match parseInt? sab, parseInt? sba with
    | some ab, some ba =>
      -- exact symmetry (theorem C21_symm) is judged on EVERY pair, in scope or not
      if ab != ba then some ("asymmetric", s!"d(a,b) = {ab} ns but d(b,a) = {ba} ns") else
      -- the documentation's example, as written
      let docsNs := SerfModel.Gen.CoordFormula.docs.evalNs a b
      let docsFixed := ({ SerfModel.Gen.CoordFormula.docs with conv := .scaleThenTruncate } : Formula).evalNs a b
      let docsM : Option (String × String) :=
        if docsNs == ab then none
        else if docsFixed == ab && SerfModel.Gen.CoordFormula.docs.conv == .truncateThenScale then
          some ("docs-example-truncates-to-seconds", s!"the documented example returns {docsNs} ns (whole seconds) where DistanceTo returns {ab} ns")
        else some ("docs-formula-differs", s!"documented formula gives {docsFixed} ns, DistanceTo {ab} ns")
      if !(inScope a && inScope b) then docsM else
      let hugeAdj := decide (absF a.adjustment > million) || decide (absF b.adjustment > million)
      -- exact reference: the unadjusted and the adjusted distance in exact rational arithmetic
      let ea := eratCoord a
      let eb := eratCoord b
      match rawDistanceTo ea eb, FloatLike.add (rawDistanceTo ea eb) (FloatLike.add ea.adjustment eb.adjustment) with
      | .fin rawE, .fin adjE =>
        let q : Rat := if 0 < adjE then adjE else rawE
        let truncNs (x : Rat) : Int := let y : Rat := x * (1000000000 : Nat); y.num.tdiv y.den
        let t : Int := truncNs q
        -- the formula is discontinuous where the adjusted distance is 0: within the accumulated rounding error of
        -- that threshold (cf. `Margin` in C21_accuracy_rounding) either branch is a correct rounding
        let scale : Rat := rawE + ratAbs (match ea.adjustment with | .fin x => x | _ => 0) + ratAbs (match eb.adjustment with | .fin x => x | _ => 0)
        let nearGuard : Bool := decide (ratAbs adjE * (35184372088832 : Nat) ≤ scale)   -- 2^45
        if t ≥ 9223372036854775807 then
          (if ab < 0 then some ("negative-rtt-adjustment-overflow", s!"exact distance {t} ns exceeds int64: DistanceTo returns {ab} ns")
           else none)
        else if ab < 0 then some ("negative-rtt", s!"d(a,b) = {ab} ns")
        else if hugeAdj then docsM
        else if nearGuard then
          (if intAbs (ab - truncNs rawE) ≤ 1 || (decide (0 < adjE) && intAbs (ab - truncNs adjE) ≤ 1) || intAbs ab ≤ 1 then docsM
           else some ("formula-mismatch", s!"DistanceTo = {ab} ns, near the guard threshold; exact unadjusted {truncNs rawE} ns, exact adjusted {truncNs adjE} ns"))
        else if intAbs (ab - t) > 1 then some ("formula-mismatch", s!"DistanceTo = {ab} ns, documented formula in exact arithmetic = {t} ns")
        else docsM
      | _, _ => some ("exact-not-finite", "exact evaluation of an in-scope pair is not finite")
    | _, _ => some ("malformed", impl)
  | _ => some ("dist-failed", s!"DistanceTo on compatible coordinates answered {impl}")

def step (s : Unit) (op : List String) (impl : String) : LineOut Unit :=
  match op with
  | ["dist", a, b] =>
    match parseCoord a, parseCoord b with
    | some a, some b =>
      let out := match distanceTo a b, distanceTo b a with
        | .ok x, .ok y => s!"ns {x} {y}"
        | _, _ => "panic-dim"
      { state := s, model := some out, monitor := judge a b impl }
    | _, _ => { state := s, model := some "bad-op" }
  | "conc" :: _g :: _iters :: cs =>
    -- the model is sequential: concurrent estimates of a pair must all equal its sequential estimate
    let rec pairs : List String → Option (List (Coordinate Float × Coordinate Float))
      | [] => some []
      | [_] => none
      | a :: b :: rest =>
        match parseCoord a, parseCoord b, pairs rest with
        | some a, some b, some r => some ((a, b) :: r)
        | _, _, _ => none
    match pairs cs with
    | none => { state := s, model := some "bad-op" }
    | some ps =>
      let ds := ps.map fun (a, b) => match distanceTo a b with | .ok x => toString x | .dimensionalityConflict => "panic-dim"
      let out := s!"seq {",".intercalate ds} mismatches=0 first=-"
      let m := match C20.field? impl "mismatches" with
        | some "0" => none
        | some n => some ("concurrent-estimate-differs", s!"{n} concurrent estimates differ from the sequential estimate of the same pair; first (pair:path:got:want) {(C20.field? impl "first").getD "?"} — DistanceTo is not a function of its arguments (shared state); schedule-dependent")
        | none => some ("malformed", impl)
      { state := s, model := some out, monitor := m }
  | ["law", x, y] =>
    match floatOfHex? x, floatOfHex? y with
    | some x, some y =>
      let d1 := x - y
      let d2 := y - x
      let out := s!"{showFloatBits (x + y)} {showFloatBits (y + x)} {showFloatBits (d1 * d1)} {showFloatBits (d2 * d2)}"
      -- the monitor judges the laws on the implementation's own float64 results
      let m := match impl.splitOn " " with
        | [s1, s2, q1, q2] =>
          if s1 != s2 then some ("law-add-comm", s!"x + y = {s1} but y + x = {s2}")
          else if q1 != q2 then some ("law-sub-sq-comm", s!"(x-y)^2 = {q1} but (y-x)^2 = {q2}")
          else none
        | _ => some ("malformed", impl)
      { state := s, model := some out, monitor := m }
    | _, _ => { state := s, model := some "bad-op" }
  | _ => { state := s, model := some "bad-op" }

def checker : Checker := { σ := Unit, init := (), step := step }

end SerfModel.Check.C21
