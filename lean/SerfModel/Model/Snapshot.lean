/-
Model of serf/snapshot.go (Snapshotter): the line format, the replay parser, the
in-memory state, append and compaction, together with the SEQUENCE OF FILE-SYSTEM
OPERATIONS the snapshotter issues (explicit output list, with byte payloads) and
the `bufio.Writer` that sits between the snapshotter and the file.

Bytes are `Char`s (the checker maps byte b to the character with code b, so
`List Char` lengths are byte counts); nothing below depends on a character being a
byte, so the theorems hold for every alphabet.

What is *not* modelled: I/O errors (every operation succeeds; `tryAppend`'s error
path is never taken), the tee goroutine dropping events when its channel is full
("the snapshot keeps up with the event stream").  Wall-clock time enters only as the
event `timePasses` (more than `flushInterval` has elapsed since the last flush).
Go map iteration order in `compact` is the oracle `ord`.
-/
import SerfModel.Prelude.Basic
namespace SerfModel.Snapshot
open SerfModel

abbrev Bytes := List Char
abbrev Name := List Char
abbrev Addr := List Char
abbrev AMap := List (Name × Addr)

/-! ## Decimal numbers (`fmt.Sprintf("%d")` of a uint64, `strconv.ParseUint(s, 10, 64)`) -/

def digitChar (d : Nat) : Char := Char.ofNat (48 + d)

def decDigits : Nat → Nat → Bytes
  | 0, _ => []
  | fuel + 1, n => if n < 10 then [digitChar n] else decDigits fuel (n / 10) ++ [digitChar (n % 10)]

/-- `%d` -/
def printDec (n : Nat) : Bytes := decDigits (n + 1) n

def parseDecAux (acc : Nat) : Bytes → Option Nat
  | [] => some acc
  | c :: cs => if '0' ≤ c ∧ c ≤ '9' then parseDecAux (acc * 10 + (c.toNat - 48)) cs else none

/-- `strconv.ParseUint(s, 10, 64)`: non-empty, decimal digits only (no sign, no
underscore in base 10), value below 2^64; `none` = error. -/
def parseUint64 (s : Bytes) : Option Nat :=
  if s = [] then none else
  match parseDecAux 0 s with
  | some n => if n < 18446744073709551616 then some n else none
  | none => none

/-! ## Lines -/

inductive Line where
  | alive (name : Name) (addr : Addr)
  | notAlive (name : Name)
  | clock (n : Nat)
  | eventClock (n : Nat)
  | queryClock (n : Nat)
  | leave
  deriving DecidableEq, Repr, Inhabited

def pAlive : Bytes := ['a', 'l', 'i', 'v', 'e', ':', ' ']
def pNotAlive : Bytes := ['n', 'o', 't', '-', 'a', 'l', 'i', 'v', 'e', ':', ' ']
def pClock : Bytes := ['c', 'l', 'o', 'c', 'k', ':', ' ']
def pEventClock : Bytes := ['e', 'v', 'e', 'n', 't', '-', 'c', 'l', 'o', 'c', 'k', ':', ' ']
def pQueryClock : Bytes := ['q', 'u', 'e', 'r', 'y', '-', 'c', 'l', 'o', 'c', 'k', ':', ' ']
def pCoordinate : Bytes := ['c', 'o', 'o', 'r', 'd', 'i', 'n', 'a', 't', 'e', ':', ' ']
def pLeave : Bytes := ['l', 'e', 'a', 'v', 'e']

/-- The line without its terminating newline (the `fmt.Sprintf` formats of
processMemberEvent / updateClock / processUserEvent / processQuery / compact). -/
def printBody : Line → Bytes
  | .alive n a => pAlive ++ (n ++ ' ' :: a)
  | .notAlive n => pNotAlive ++ n
  | .clock t => pClock ++ printDec t
  | .eventClock t => pEventClock ++ printDec t
  | .queryClock t => pQueryClock ++ printDec t
  | .leave => pLeave

def printLine (l : Line) : Bytes := printBody l ++ ['\n']

/-- `strings.CutPrefix` -/
def stripPrefix : Bytes → Bytes → Option Bytes
  | [], s => some s
  | _ :: _, [] => none
  | p :: ps, c :: cs => if p = c then stripPrefix ps cs else none

/-- `strings.LastIndex(info, " ")` and the two slices around it; `none` = -1. -/
def splitLastSpace : Bytes → Option (Bytes × Bytes)
  | [] => none
  | c :: cs =>
    match splitLastSpace cs with
    | some (n, a) => some (c :: n, a)
    | none => if c = ' ' then some ([], cs) else none

/-- One line of `replay` (newline already removed): the recognised line, or `none`
for everything replay skips (unparsable alive/clock lines, `coordinate: `, `#`
comments, unknown lines). The order of the prefix tests is the order in the code. -/
def parseLine (raw : Bytes) : Option Line :=
  match stripPrefix pAlive raw with
  | some info => (splitLastSpace info).map fun p => .alive p.1 p.2
  | none =>
  match stripPrefix pNotAlive raw with
  | some n => some (.notAlive n)
  | none =>
  match stripPrefix pClock raw with
  | some t => (parseUint64 t).map .clock
  | none =>
  match stripPrefix pEventClock raw with
  | some t => (parseUint64 t).map .eventClock
  | none =>
  match stripPrefix pQueryClock raw with
  | some t => (parseUint64 t).map .queryClock
  | none =>
  match stripPrefix pCoordinate raw with
  | some _ => none
  | none => if raw = pLeave then some .leave else none

/-- `reader.ReadString('\n')` until error: the newline-terminated lines of the file,
newline removed; an unterminated tail is dropped. -/
def splitLines : Bytes → List Bytes
  | [] => []
  | c :: cs =>
    if c = '\n' then [] :: splitLines cs
    else match splitLines cs with
      | [] => []
      | l :: ls => (c :: l) :: ls

/-! ## Recovered state -/

structure RecState where
  alive : AMap := []
  clock : Nat := 0
  eventClock : Nat := 0
  queryClock : Nat := 0
  deriving DecidableEq, Repr, Inhabited

/-- Effect of one recognised line in `replay`; `rj` = rejoinAfterLeave. -/
def applyLine (rj : Bool) (st : RecState) : Line → RecState
  | .alive n a => { st with alive := ainsert st.alive n a }
  | .notAlive n => { st with alive := aerase st.alive n }
  | .clock t => { st with clock := t }
  | .eventClock t => { st with eventClock := t }
  | .queryClock t => { st with queryClock := t }
  | .leave => if rj then st else {}

def applyRaw (rj : Bool) (st : RecState) (raw : Bytes) : RecState :=
  match parseLine raw with
  | some l => applyLine rj st l
  | none => st

/-- `Snapshotter.replay` on the bytes of the snapshot file. -/
def replay (rj : Bool) (file : Bytes) : RecState := (splitLines file).foldl (applyRaw rj) {}

/-! ## File-system operations and a model file system -/

inductive Path where
  | main   -- the snapshot path
  | tmp    -- path ++ ".compact"
  deriving DecidableEq, Repr, Inhabited

/-- What the snapshotter asks of the OS (and of its bufio writers), in order.
`flush` is the `bufio.Writer.Flush` call itself (no file-system effect; the bytes it
hands over follow as a `write`). Handles are named by the path they were opened on
(a handle never outlives a rename of its file in this code). -/
inductive FsOp where
  | openAppend (p : Path)            -- os.OpenFile(p, O_RDWR|O_APPEND|O_CREATE)
  | openTrunc (p : Path)             -- os.OpenFile(p, O_RDWR|O_TRUNC|O_CREATE)
  | write (p : Path) (data : Bytes)  -- (*os.File).Write / WriteString
  | flush (p : Path)                 -- (*bufio.Writer).Flush
  | sync (p : Path)
  | close (p : Path)
  | remove (p : Path)
  | rename (src dst : Path)
  | truncate (p : Path) (size : Nat)  -- (*os.File).Truncate(size)
  deriving DecidableEq, Repr, Inhabited

structure FS where
  main : Option Bytes := none
  tmp : Option Bytes := none
  deriving DecidableEq, Repr, Inhabited

def FS.get (fs : FS) : Path → Option Bytes
  | .main => fs.main
  | .tmp => fs.tmp

def FS.set (fs : FS) : Path → Option Bytes → FS
  | .main, v => { fs with main := v }
  | .tmp, v => { fs with tmp := v }

/-- Effect of one (successful) operation. A write through a handle whose file has
been unlinked does not reach the name space. -/
def FS.apply (fs : FS) : FsOp → FS
  | .openAppend p => match fs.get p with
    | some _ => fs
    | none => fs.set p (some [])
  | .openTrunc p => fs.set p (some [])
  | .write p d => match fs.get p with
    | some c => fs.set p (some (c ++ d))
    | none => fs
  | .flush _ => fs
  | .sync _ => fs
  | .close _ => fs
  | .remove p => fs.set p none
  | .rename s d => (fs.set d (fs.get s)).set s none
  | .truncate p n => match fs.get p with
    | some c => fs.set p (some (c.take n))
    | none => fs

def FS.applyAll (fs : FS) (ops : List FsOp) : FS := ops.foldl FS.apply fs

/-! ## bufio.Writer (4096-byte buffer) -/

def bufSize : Nat := 4096

/-- `(*bufio.Writer).WriteString(s)` on a writer holding `buf`, over an `*os.File`
(an `io.StringWriter`): the new buffer content and the payloads handed to the
file's `Write`, in order. (The loop of WriteString runs at most twice: once to
fill and flush a non-empty buffer, once to forward a still-too-large rest directly.) -/
def bufWrite (buf s : Bytes) : Bytes × List Bytes :=
  let avail := bufSize - buf.length
  if s.length ≤ avail then (buf ++ s, [])
  else if buf.length = 0 then ([], [s])
  else
    let s1 := s.take avail
    let s2 := s.drop avail
    if s2.length ≤ bufSize then (s2, [buf ++ s1]) else ([], [buf ++ s1, s2])

/-- Successive WriteStrings on one writer. -/
def bufWriteAll (buf : Bytes) : List Bytes → Bytes × List Bytes
  | [] => (buf, [])
  | l :: ls =>
    let r := bufWrite buf l
    let r' := bufWriteAll r.1 ls
    (r'.1, r.2 ++ r'.2)

/-- `Flush` on a writer holding `buf` over the file opened on `p`. -/
def flushOps (p : Path) (buf : Bytes) : List FsOp :=
  if buf = [] then [.flush p] else [.flush p, .write p buf]

/-! ## The snapshotter -/

/-- Go map iteration order in `compact`: given the number of compactions so far
and the alive map, the order in which the entries are written. The theorems assume
only that it is a permutation. -/
abbrev Order := Nat → AMap → AMap

def Order.id : Order := fun _ m => m

structure Snap where
  rejoin : Bool := false          -- rejoinAfterLeave
  minCompact : Nat := 0           -- minCompactSize
  alive : AMap := []              -- aliveNodes
  lastClock : Nat := 0
  lastEventClock : Nat := 0
  lastQueryClock : Nat := 0
  leaving : Bool := false
  offset : Nat := 0
  buf : Bytes := []               -- pending bytes of `buffered`
  flushDue : Bool := true         -- now - lastFlush > flushInterval (lastFlush starts as the zero time)
  ncompact : Nat := 0             -- compactions so far (index into the order oracle)
  /-- ghost (never read by the model): the alive entries at the head of the current
  file in the order the last compaction wrote them; lets the checker compare file
  bytes with the implementation modulo Go's map order -/
  block : AMap := []
  deriving DecidableEq, Repr, Inhabited

/-- Which of the start-up repairs the code has (all `true` = the code as it is now;
`Shape.old` = before the fixes 1e1bbff / 01e715c, kept for the regression witnesses). -/
structure Shape where
  /-- NewSnapshotter: `path` missing and `path.compact` present → rename it into place -/
  recoverRename : Bool := true
  /-- replay: an unterminated last line is cut off the file (`Truncate(valid)`) -/
  truncateTorn : Bool := true
  deriving DecidableEq, Repr, Inhabited

def Shape.old : Shape := { recoverRename := false, truncateTorn := false }

/-- `valid` in replay: the length of the longest prefix that ends with a newline -/
def completeLen : Bytes → Nat
  | [] => 0
  | c :: cs => if completeLen cs > 0 then completeLen cs + 1 else if c = '\n' then 1 else 0

/-- `NewSnapshotter` on the directory `fs`. -/
def Snap.openOn (rj : Bool) (mc : Nat) (fs : FS) (sh : Shape := {}) : Snap × List FsOp :=
  let doRename := sh.recoverRename && fs.main.isNone && fs.tmp.isSome
  let f := ((if doRename then fs.tmp else fs.main).getD [])
  let r := replay rj f
  let valid := completeLen f
  let trunc := sh.truncateTorn && decide (valid < f.length)
  ({ rejoin := rj, minCompact := mc, alive := r.alive, lastClock := r.clock,
     lastEventClock := r.eventClock, lastQueryClock := r.queryClock, offset := if trunc then valid else f.length },
   (if doRename then [.rename .tmp .main] else []) ++ [.openAppend .main] ++ (if trunc then [.truncate .main valid] else []))

def Snap.init (rj : Bool) (mc : Nat) : Snap × List FsOp := Snap.openOn rj mc {}

def snapshotBytesPerNode : Nat := 128
def snapshotCompactionThreshold : Nat := 2

/-- `snapshotMaxSize` -/
def maxSize (s : Snap) : Nat :=
  max (s.alive.length * snapshotBytesPerNode * snapshotCompactionThreshold) s.minCompact

/-- The lines `compact` writes. -/
def compactLines (ord : Order) (s : Snap) : List Bytes :=
  (ord s.ncompact s.alive).map (fun p => printLine (.alive p.1 p.2)) ++
    [printLine (.clock s.lastClock), printLine (.eventClock s.lastEventClock),
     printLine (.queryClock s.lastQueryClock)]

/-- `compact()` with every operation succeeding. -/
def compact (ord : Order) (s : Snap) : Snap × List FsOp :=
  let lines := compactLines ord s
  let w := bufWriteAll [] lines
  let ops : List FsOp :=
    [.openTrunc .tmp] ++ w.2.map (.write .tmp) ++ flushOps .tmp w.1 ++ [.sync .tmp, .close .tmp] ++
    flushOps .main s.buf ++ [.close .main, .remove .main, .rename .tmp .main, .openAppend .main]
  ({ s with buf := [], offset := lines.flatten.length, flushDue := false, ncompact := s.ncompact + 1,
            block := ord s.ncompact s.alive }, ops)

/-- The first half of `appendLine`: `buffered.WriteString(l)`, the periodic flush,
`offset += n`. -/
def appendBytes (s : Snap) (l : Bytes) : Snap × List FsOp :=
  let w := bufWrite s.buf l
  let ops1 : List FsOp := w.2.map (.write .main)
  if s.flushDue then
    ({ s with buf := [], flushDue := false, offset := s.offset + l.length }, ops1 ++ flushOps .main w.1)
  else ({ s with buf := w.1, offset := s.offset + l.length }, ops1)

/-- `appendLine` (hence `tryAppend`) with every operation succeeding. -/
def appendLine (ord : Order) (s : Snap) (l : Bytes) : Snap × List FsOp :=
  let r := appendBytes s l
  if r.1.offset > maxSize r.1 then
    let r' := compact ord r.1
    (r'.1, r.2 ++ r'.2)
  else r

/-- `s.clock.Time() - 1` in uint64 arithmetic (wraps at 0); 18446744073709551616 = 2^64. -/
def lastSeenOf (clk : Nat) : Nat := (clk + 18446744073709551615) % 18446744073709551616

/-- `updateClock` with `clk = s.clock.Time()`. -/
def updateClock (ord : Order) (s : Snap) (clk : Nat) : Snap × List FsOp :=
  let lastSeen := lastSeenOf clk
  if lastSeen > s.lastClock then
    appendLine ord { s with lastClock := lastSeen } (printLine (.clock lastSeen))
  else (s, [])

def joinMembers (ord : Order) : Snap → List (Name × Addr) → Snap × List FsOp
  | s, [] => (s, [])
  | s, (n, a) :: ms =>
    let r := appendLine ord { s with alive := ainsert s.alive n a } (printLine (.alive n a))
    let r' := joinMembers ord r.1 ms
    (r'.1, r.2 ++ r'.2)

def goneMembers (ord : Order) : Snap → List Name → Snap × List FsOp
  | s, [] => (s, [])
  | s, n :: ns =>
    let r := appendLine ord { s with alive := aerase s.alive n } (printLine (.notAlive n))
    let r' := goneMembers ord r.1 ns
    (r'.1, r.2 ++ r'.2)

/-- What happens to a snapshotter. `clk` is the value of the shared Lamport clock
(`s.clock.Time()`) when the snapshotter looks at it. -/
inductive Ev where
  | join (ms : List (Name × Addr)) (clk : Nat)   -- EventMemberJoin; addresses as net.TCPAddr.String() renders them
  | gone (ns : List Name) (clk : Nat)            -- EventMemberLeave / EventMemberFailed
  | memberOther (clk : Nat)                      -- EventMemberUpdate / EventMemberReap: only the clock is looked at
  | user (lt : Nat)                              -- UserEvent with that LTime
  | query (lt : Nat)                             -- *Query with that LTime
  | clockTick (clk : Nat)                        -- the clockUpdateInterval ticker
  | leave                                        -- Snapshotter.Leave()
  | timePasses                                   -- more than flushInterval elapses
  | forceCompact                                 -- compact() called directly (error recovery path / tests)
  deriving DecidableEq, Repr, Inhabited

/-- One iteration of `stream()`'s select loop. -/
def step (ord : Order) (s : Snap) : Ev → Snap × List FsOp
  | .join ms clk =>
    if s.leaving then (s, []) else
    let r := joinMembers ord s ms
    let r' := updateClock ord r.1 clk
    (r'.1, r.2 ++ r'.2)
  | .gone ns clk =>
    if s.leaving then (s, []) else
    let r := goneMembers ord s ns
    let r' := updateClock ord r.1 clk
    (r'.1, r.2 ++ r'.2)
  | .memberOther clk => if s.leaving then (s, []) else updateClock ord s clk
  | .user lt =>
    if s.leaving then (s, []) else
    if lt ≤ s.lastEventClock then (s, [])
    else appendLine ord { s with lastEventClock := lt } (printLine (.eventClock lt))
  | .query lt =>
    if s.leaving then (s, []) else
    if lt ≤ s.lastQueryClock then (s, [])
    else appendLine ord { s with lastQueryClock := lt } (printLine (.queryClock lt))
  | .clockTick clk => updateClock ord s clk
  | .leave =>
    let s1 := { s with leaving := true, alive := if s.rejoin then s.alive else [] }
    let r := appendLine ord s1 (printLine .leave)
    ({ r.1 with buf := [] }, r.2 ++ flushOps .main r.1.buf ++ [.sync .main])
  | .timePasses => ({ s with flushDue := true }, [])
  | .forceCompact => compact ord s

def run (ord : Order) : Snap → List Ev → Snap × List FsOp
  | s, [] => (s, [])
  | s, e :: es =>
    let r := step ord s e
    let r' := run ord r.1 es
    (r'.1, r.2 ++ r'.2)

/-- The shutdown branch of `stream()` (the event channel already drained). -/
def shutdown (ord : Order) (s : Snap) (clk : Nat) : Snap × List FsOp :=
  let r := updateClock ord s clk
  ({ r.1 with buf := [] }, r.2 ++ flushOps .main r.1.buf ++ [.sync .main, .close .main])

/-- A whole life: open on an existing directory state, events, shutdown. -/
def life (ord : Order) (rj : Bool) (mc : Nat) (fs : FS) (evs : List Ev) (clk : Nat) (sh : Shape := {}) : Snap × List FsOp :=
  let r0 := Snap.openOn rj mc fs sh
  let r1 := run ord r0.1 evs
  let r2 := shutdown ord r1.1 clk
  (r2.1, r0.2 ++ r1.2 ++ r2.2)

/-- The state a restart recovers from a directory. -/
def recover (rj : Bool) (fs : FS) (sh : Shape := {}) : RecState :=
  replay rj ((if sh.recoverRename && fs.main.isNone then fs.tmp else fs.main).getD [])

/-! ## Crashes (process-crash semantics: what was handed to the OS survives) -/

/-- the operations that reach the OS (`flush` is only the bufio call) -/
def osOps (ops : List FsOp) : List FsOp :=
  ops.filter fun o => match o with
    | .flush _ => false
    | _ => true

/-- The directory after a process crash just before operation `k` of `ops`; if that
operation is a write, `cut` of its bytes are already on disk (`cut = 0`: none). -/
def FS.crashAt (fs0 : FS) (ops : List FsOp) (k cut : Nat) : FS :=
  let fs := fs0.applyAll (ops.take k)
  match ops[k]? with
  | some (.write p d) => if cut = 0 then fs else fs.apply (.write p (d.take cut))
  | _ => fs

/-- The in-memory state, in the shape `replay` produces. -/
def Snap.mem (s : Snap) : RecState :=
  { alive := s.alive, clock := s.lastClock, eventClock := s.lastEventClock, queryClock := s.lastQueryClock }

end SerfModel.Snapshot
