/-
`ERat`: exact extended rationals `nan | -inf | +inf | fin q`, an exact `FloatLike` instance.
Arithmetic on finite values is exact rational arithmetic (core `Rat`); the special values follow the IEEE
rules (inf - inf, 0 * inf, 0/0, inf/inf = nan; x/0 = ±inf; comparisons with nan are false).  There is no
signed zero.  `sqrt` of a non-negative rational is the rational lower approximation
`⌊sqrt(q · 10^40)⌋ / 10^20` (absolute error < 10^-20), exact on squares of multiples of 10^-20.

Used (a) to prove the laws of `LawfulFloatLike` (Lemmas/ERatLaws.lean), so that the theorems assuming them
are not vacuous, and (b) by the C21 monitor as the exact reference value of a distance.
-/
import SerfModel.Model.FloatLike
namespace SerfModel

inductive ERat where
  | nan
  | ninf
  | pinf
  | fin (q : Rat)
  deriving DecidableEq, Repr

namespace ERat

def neg : ERat → ERat
  | nan => nan | ninf => pinf | pinf => ninf | fin q => fin (-q)

def add : ERat → ERat → ERat
  | nan, _ => nan
  | _, nan => nan
  | pinf, ninf => nan
  | ninf, pinf => nan
  | pinf, _ => pinf
  | _, pinf => pinf
  | ninf, _ => ninf
  | _, ninf => ninf
  | fin a, fin b => fin (a + b)

def sub (x y : ERat) : ERat := add x (neg y)

/-- sign of a finite value: 1, 0, -1 -/
def sgn (q : Rat) : Int := if q < 0 then -1 else if q = 0 then 0 else 1

def ofSign (s : Int) : ERat := if s < 0 then ninf else if s = 0 then nan else pinf

def esgn : ERat → Int
  | nan => 0 | ninf => -1 | pinf => 1 | fin q => sgn q

def mul : ERat → ERat → ERat
  | nan, _ => nan
  | _, nan => nan
  | fin a, fin b => fin (a * b)
  | x, y => ofSign (esgn x * esgn y)

def div : ERat → ERat → ERat
  | nan, _ => nan
  | _, nan => nan
  | fin a, fin b => if b = 0 then ofSign (sgn a) else fin (a / b)
  | fin _, pinf => fin 0
  | fin _, ninf => fin 0
  | pinf, fin b => if b < 0 then ninf else pinf
  | ninf, fin b => if b < 0 then pinf else ninf
  | pinf, pinf => nan
  | pinf, ninf => nan
  | ninf, pinf => nan
  | ninf, ninf => nan

/-- lower rational approximation of the square root, absolute error < 10^-20 -/
def sqrtQ (q : Rat) : Rat :=
  let scaled : Rat := q * (10 ^ 40 : Nat)
  Rat.divInt (Int.ofNat (Nat.sqrt scaled.floor.toNat)) (10 ^ 20 : Nat)

def sqrt : ERat → ERat
  | nan => nan
  | ninf => nan
  | pinf => pinf
  | fin q => if q < 0 then nan else fin (sqrtQ q)

def abs : ERat → ERat
  | nan => nan | ninf => pinf | pinf => pinf | fin q => fin (if q < 0 then -q else q)

/-- Go `math.Max` -/
def max : ERat → ERat → ERat
  | pinf, _ => pinf
  | _, pinf => pinf
  | nan, _ => nan
  | _, nan => nan
  | ninf, y => y
  | x, ninf => x
  | fin a, fin b => if b < a then fin a else fin b

def lt : ERat → ERat → Bool
  | nan, _ => false
  | _, nan => false
  | ninf, ninf => false
  | ninf, _ => true
  | _, ninf => false
  | pinf, _ => false
  | fin _, pinf => true
  | fin a, fin b => decide (a < b)

def le : ERat → ERat → Bool
  | nan, _ => false
  | _, nan => false
  | ninf, _ => true
  | _, pinf => true
  | pinf, _ => false
  | fin _, ninf => false
  | fin a, fin b => decide (a ≤ b)

def isNaN : ERat → Bool
  | nan => true | _ => false

def isInf : ERat → Bool
  | ninf => true | pinf => true | _ => false

/-- `int64(f)` as on amd64: truncation toward zero, -2^63 when NaN or out of range -/
def toInt64 : ERat → Int
  | fin q =>
    let t := q.num.tdiv q.den
    if t < -9223372036854775808 ∨ t > 9223372036854775807 then -9223372036854775808 else t
  | _ => -9223372036854775808

instance : FloatLike ERat where
  add := add
  sub := sub
  mul := mul
  div := div
  sqrt := sqrt
  abs := abs
  max := max
  lt := lt
  le := le
  isNaN := isNaN
  isInf := isInf
  ofInt n := fin n
  toInt64 := toInt64

end ERat
end SerfModel
