/-
Model of the relay selection of serf/query.go: `kRandomMembers` and the gate /
filter of `relayResponse`.

`rand.Intn(n)` is an ORACLE: the list `picks` supplies the successive results
(reduced mod n so that the model is total; `rand.Intn(n)` is `< n`).  The loop
probes at most `3·n` times and stops as soon as `k` members are selected.  If the
oracle list is shorter than the number of probes the loop ends early — the
theorems hold for every oracle list, in particular for the long ones.
-/
import SerfModel.Prelude.Basic
namespace SerfModel.Relay
open SerfModel

/-- MemberStatus of serf/serf.go: 0 none, 1 alive, 2 leaving, 3 left, 4 failed. -/
structure Member where
  name : String
  status : Nat
  protoMax : Nat
  /-- identifies the member record (address, tags, …) so that two records with the
  same name are distinguishable -/
  tag : Nat
  deriving DecidableEq, Repr, Inhabited

def statusAlive : Nat := 1

/-- The filter closure of `relayResponse`: true = do NOT relay through this member. -/
def ineligible (self : String) (m : Member) : Bool :=
  m.status != statusAlive || m.protoMax < 5 || m.name == self

/-- One disjunct of the relay candidate filter as written in `relayResponse` (regenerated from the source
into `SerfModel.Gen.RelayFilter.rejectAtoms`). -/
inductive FilterAtom where
  | statusNe (v : Nat)      -- `m.Status != <const>`
  | statusEq (v : Nat)      -- `m.Status == <const>`
  | protoMaxLt (n : Nat)    -- `m.ProtocolMax < n`
  | nameIsSelf              -- `m.Name == localName`
  deriving DecidableEq, Repr

def FilterAtom.holds (self : String) (m : Member) : FilterAtom → Bool
  | .statusNe v => m.status != v
  | .statusEq v => m.status == v
  | .protoMaxLt n => m.protoMax < n
  | .nameIsSelf => m.name == self

/-- A member is rejected when any atom holds. -/
def rejectedBy (atoms : List FilterAtom) (self : String) (m : Member) : Bool :=
  atoms.any (·.holds self m)

/-- Shape of the probe loop of `kRandomMembers` (regenerated: `SerfModel.Gen.RelayFilter.selectShape`). -/
structure SelectShape where
  /-- `i < probeFactor*n` -/
  probeFactor : Nat
  /-- the other conjunct of the loop condition -/
  stopCond : String
  /-- statements of the loop body in order -/
  order : List String
  /-- the field the duplicate test compares -/
  dedupField : String
  deriving DecidableEq, Repr

/-- The shape `selectLoop` below transcribes. -/
def SelectShape.asModelled (s : SelectShape) : Bool :=
  s.stopCond == "len(kMembers) < k" && s.order == ["pick", "read", "filter", "dedup", "append"] && s.dedupField == "Name"

/-- The body of the `for` loop of `kRandomMembers`; `fuel` = probes left
(`3*n - i`), `acc` = `kMembers`. -/
def selectLoop (k : Nat) (ms : List Member) (filt : Member → Bool) :
    Nat → List Nat → List Member → List Member
  | 0, _, acc => acc
  | fuel + 1, picks, acc =>
    if acc.length < k then
      match picks with
      | [] => acc
      | p :: ps =>
        match ms[p % ms.length]? with
        | none => acc
        | some m =>
          if filt m then selectLoop k ms filt fuel ps acc
          else if acc.any (fun x => x.name == m.name) then selectLoop k ms filt fuel ps acc
          else selectLoop k ms filt fuel ps (acc ++ [m])
    else acc

/-- `kRandomMembers` with the probe budget factor as a parameter. -/
def kRandomMembersG (factor : Nat) (k : Nat) (ms : List Member) (filt : Member → Bool) (picks : List Nat) : List Member :=
  selectLoop k ms filt (factor * ms.length) picks []

/-- `kRandomMembers(k, members, filterFunc)`. -/
def kRandomMembers (k : Nat) (ms : List Member) (filt : Member → Bool) (picks : List Nat) : List Member :=
  selectLoop k ms filt (3 * ms.length) picks []

/-- The members `relayResponse(relayFactor, …)` relays through: nothing for relay
factor 0, nothing when fewer than `k+1` members are known, else the selection. -/
def relayTargets (k : Nat) (ms : List Member) (self : String) (picks : List Nat) : List Member :=
  if k = 0 then []
  else if ms.length < k + 1 then []
  else kRandomMembers k ms (ineligible self) picks

/-- `relayTargets` with the guard of `relayResponse` as a parameter: `minMembers k` is the least member
count for which relaying proceeds (translated from the source into `SerfModel.Gen.RelayGuard`, with Go's
integer typing — a uint8 addition wraps), `zeroReturns` says whether `relayFactor == 0` returns at once. -/
def relayTargetsG (minMembers : Nat → Nat) (zeroReturns : Bool) (k : Nat) (ms : List Member) (self : String)
    (picks : List Nat) : List Member :=
  if zeroReturns && k == 0 then []
  else if ms.length < minMembers k then []
  else kRandomMembers k ms (ineligible self) picks

/-- Destinations of a reply: the origin first, then the relays. -/
inductive Dest where
  | origin
  | relay (m : Member)
  deriving DecidableEq, Repr

def replySends (k : Nat) (ms : List Member) (self : String) (picks : List Nat) : List Dest :=
  Dest.origin :: (relayTargets k ms self picks).map Dest.relay

end SerfModel.Relay
