/-
Model of the name-conflict vote: serf/serf.go `resolveNodeConflict` (the counting
loop over the response channel and the majority test) and the reply format of
serf/internal_query.go `handleConflict`.

The msgpack decoder is external code: it is the parameter `decode` (bytes after
the type byte ↦ `none` = decode error, `some none` = a nil member, i.e. "unknown
to me", `some (some a)` = a member at address/port `a`).
-/
import SerfModel.Prelude.Basic
namespace SerfModel.Conflict
open SerfModel

abbrev Bytes := List UInt8

/-- `messageConflictResponseType` (serf/messages.go, iota = 6). -/
def conflictResponseType : UInt8 := 6

structure MAddr where
  addr : Bytes
  port : Nat
  deriving DecidableEq, Repr, Inhabited

abbrev Decoder := Bytes → Option (Option MAddr)

def v4InV6Prefix : Bytes := [0, 0, 0, 0, 0, 0, 0, 0, 0, 0, 0xff, 0xff]

/-- `net.IP.Equal`. -/
def ipEqual (ip x : Bytes) : Bool :=
  if ip.length == x.length then ip == x
  else if ip.length == 4 && x.length == 16 then x.take 12 == v4InV6Prefix && ip == x.drop 12
  else if ip.length == 16 && x.length == 4 then ip.take 12 == v4InV6Prefix && ip.drop 12 == x
  else false

/-- A reply is valid when its first byte is the conflict-response type and the rest
decodes as a member; the result is the decoded member (`none` = nil member). -/
def valid? (decode : Decoder) (payload : Bytes) : Option (Option MAddr) :=
  match payload with
  | [] => none
  | t :: rest => if t == conflictResponseType then decode rest else none

/-- `member.Addr.Equal(local.Addr) && member.Port == local.Port` (a nil member has
a nil address and port 0). -/
def mine (addr : Bytes) (port : Nat) : Option MAddr → Bool
  | none => ipEqual [] addr && port == 0
  | some m => ipEqual m.addr addr && m.port == port

structure Tally where
  responses : Nat := 0
  matching : Nat := 0
  deriving DecidableEq, Repr, Inhabited

/-- One iteration of `for r := range respCh`. -/
def count (decode : Decoder) (addr : Bytes) (port : Nat) (t : Tally) (payload : Bytes) : Tally :=
  match valid? decode payload with
  | none => t
  | some m => { responses := t.responses + 1, matching := if mine addr port m then t.matching + 1 else t.matching }

def tally (decode : Decoder) (addr : Bytes) (port : Nat) (rs : List Bytes) : Tally :=
  rs.foldl (count decode addr port) {}

/-- `majority := responses/2 + 1; if matching >= majority { return }; Shutdown()`. -/
def shutsDown (t : Tally) : Bool := !(t.matching ≥ t.responses / 2 + 1)

def resolve (decode : Decoder) (addr : Bytes) (port : Nat) (rs : List Bytes) : Bool :=
  shutsDown (tally decode addr port rs)

/-! ### The loop with its decode target made explicit

`resolveNodeConflict` decodes each reply into `var member Member`.  msgpack assigns only the fields
present in the reply, so what a reply "decodes to" depends on what the variable held before.  The
decoder is therefore a function of the previous contents; `fresh = true` (the declaration sits inside
the loop: regenerated fact `Gen.ConflictVote.shape.memberFresh`) starts every reply from a zero Member. -/

/-- The address fields of the decode target. -/
structure MemberVar where
  addr : Bytes := []
  port : Nat := 0
  deriving DecidableEq, Repr, Inhabited

/-- previous contents ↦ bytes after the type byte ↦ `none` (decode error) or the new contents -/
abbrev DecoderInto := MemberVar → Bytes → Option MemberVar

def countInto (fresh : Bool) (dec : DecoderInto) (addr : Bytes) (port : Nat)
    (st : Tally × MemberVar) (payload : Bytes) : Tally × MemberVar :=
  match payload with
  | [] => st
  | t :: rest =>
    if t == conflictResponseType then
      let start : MemberVar := if fresh then {} else st.2
      match dec start rest with
      | none => (st.1, start)
      | some m =>
        ({ responses := st.1.responses + 1,
           matching := if ipEqual m.addr addr && m.port == port then st.1.matching + 1 else st.1.matching }, m)
    else st

def tallyInto (fresh : Bool) (dec : DecoderInto) (addr : Bytes) (port : Nat) (rs : List Bytes) : Tally :=
  (rs.foldl (countInto fresh dec addr port) ({}, {})).1

/-- With a fresh target per reply the stateful decoder is an ordinary one (a zero Member has a nil
address and port 0, exactly what `mine none` tests). -/
def DecoderInto.fromZero (dec : DecoderInto) : Decoder := fun b =>
  (dec {} b).map fun m => some ⟨m.addr, m.port⟩

/-- Shape of the vote as written (regenerated: `SerfModel.Gen.ConflictVote.shape`). -/
structure VoteShape where
  /-- classified statements of the loop body, in order -/
  order : List String
  /-- `var member Member` is declared inside the loop body -/
  memberFresh : Bool
  /-- condition of `matching++` -/
  matchTest : String
  /-- `if matching <op> majority { return }` -/
  surviveOp : String
  /-- `s.Shutdown()` follows -/
  shutdownAfter : Bool
  deriving DecidableEq, Repr

/-- The shape `count` / `shutsDown` transcribe. -/
def VoteShape.asModelled (v : VoteShape) : Bool :=
  v.order == ["typeCheck", "declMember", "decode", "countResponse", "countMatching"] && v.memberFresh &&
  v.matchTest == "member.Addr.Equal(local.Addr) && member.Port == local.Port" && v.surviveOp == ">=" && v.shutdownAfter

/-- The decision with the majority function as a parameter. -/
def shutsDownG (majority : Nat → Nat) (t : Tally) : Bool := !(t.matching ≥ majority t.responses)

end SerfModel.Conflict
