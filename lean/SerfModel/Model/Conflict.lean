/-
Model of the name-conflict vote: serf/serf.go `resolveNodeConflict` (the counting
loop over the response channel and the majority test) and the reply format of
serf/internal_query.go `handleConflict`.

The msgpack decoder is external code: it is the parameter `decode` (bytes after
the type byte ↦ `none` = decode error, `some none` = a nil member, i.e. "unknown
to me", `some (some a)` = a member at address/port `a`).
-/
import SerfModel.Prelude.Basic
namespace SerfModel.Conflict
open SerfModel

abbrev Bytes := List UInt8

/-- `messageConflictResponseType` (serf/messages.go, iota = 6). -/
def conflictResponseType : UInt8 := 6

structure MAddr where
  addr : Bytes
  port : Nat
  deriving DecidableEq, Repr, Inhabited

abbrev Decoder := Bytes → Option (Option MAddr)

def v4InV6Prefix : Bytes := [0, 0, 0, 0, 0, 0, 0, 0, 0, 0, 0xff, 0xff]

/-- `net.IP.Equal`. -/
def ipEqual (ip x : Bytes) : Bool :=
  if ip.length == x.length then ip == x
  else if ip.length == 4 && x.length == 16 then x.take 12 == v4InV6Prefix && ip == x.drop 12
  else if ip.length == 16 && x.length == 4 then ip.take 12 == v4InV6Prefix && ip.drop 12 == x
  else false

/-- A reply is valid when its first byte is the conflict-response type and the rest
decodes as a member; the result is the decoded member (`none` = nil member). -/
def valid? (decode : Decoder) (payload : Bytes) : Option (Option MAddr) :=
  match payload with
  | [] => none
  | t :: rest => if t == conflictResponseType then decode rest else none

/-- `member.Addr.Equal(local.Addr) && member.Port == local.Port` (a nil member has
a nil address and port 0). -/
def mine (addr : Bytes) (port : Nat) : Option MAddr → Bool
  | none => ipEqual [] addr && port == 0
  | some m => ipEqual m.addr addr && m.port == port

structure Tally where
  responses : Nat := 0
  matching : Nat := 0
  deriving DecidableEq, Repr, Inhabited

/-- One iteration of `for r := range respCh`. -/
def count (decode : Decoder) (addr : Bytes) (port : Nat) (t : Tally) (payload : Bytes) : Tally :=
  match valid? decode payload with
  | none => t
  | some m => { responses := t.responses + 1, matching := if mine addr port m then t.matching + 1 else t.matching }

def tally (decode : Decoder) (addr : Bytes) (port : Nat) (rs : List Bytes) : Tally :=
  rs.foldl (count decode addr port) {}

/-- `majority := responses/2 + 1; if matching >= majority { return }; Shutdown()`. -/
def shutsDown (t : Tally) : Bool := !(t.matching ≥ t.responses / 2 + 1)

def resolve (decode : Decoder) (addr : Bytes) (port : Nat) (rs : List Bytes) : Bool :=
  shutsDown (tally decode addr port rs)

end SerfModel.Conflict
