/-
serf's wire codecs on top of the msgpack model (serf/messages.go, serf/serf.go
encodeTags/decodeTags, serf/delegate.go relay branch).

Facts read off the code and confirmed against the real library:
* a Go struct is written as a map keyed by field name, fields in *sorted name
  order* (go-msgpack sorts struct fields), e.g. messageUserEvent = CC, LTime, Name, Payload;
* a nil slice / nil map / nil pointer is written as msgpack nil, an empty one as an
  empty container, and the decoder preserves the difference: nil-able fields are `Option`;
* the decoder is name-directed: unknown keys are skipped, a repeated key overwrites,
  a nil value leaves the zero value, unsigned fields accept any non-negative integer
  format that fits the field width, `time.Duration` accepts both integer families
  (the uint64 format wraps), strings/bytes accept raw, str8 and bin.
* Go strings are arbitrary byte strings: `Bytes` everywhere.

`R.exotic` marks decoder inputs outside the modelled subset (arrays for structs or
byte strings, integers for booleans, …): the checker does not compare those.
-/
import SerfModel.Model.Msgpack
namespace SerfModel.Codec
open SerfModel.Msgpack

/-- outcome of a typed decode -/
inductive R (α : Type) where
  | ok (a : α)
  | err
  | exotic
  deriving Repr, DecidableEq

def R.bind {α β} (r : R α) (f : α → R β) : R β :=
  match r with
  | .ok a => f a
  | .err => .err
  | .exotic => .exotic

def R.map {α β} (f : α → β) (r : R α) : R β := r.bind (fun a => .ok (f a))

/-! ### field decoders (go-msgpack `DecodeUint64`, `DecodeInt64`, `DecodeBytes`, `DecodeBool`, kSlice, kMap) -/

def getUint (bits : Nat) : MP → R Nat
  | .uint n => if n < 2 ^ bits then .ok n else .err
  | .int i => if i < 0 then .err else if i.toNat < 2 ^ bits then .ok i.toNat else .err
  | .nil => .ok 0
  | _ => .err

def getInt64 : MP → R Int
  | .int i => .ok i
  | .uint n => .ok (if n < 9223372036854775808 then (n : Int) else (n : Int) - 18446744073709551616)
  | .nil => .ok 0
  | _ => .err

def getStr : MP → R Bytes
  | .raw bs => .ok bs
  | .nil => .ok []
  | .arr _ => .exotic
  | _ => .err

def getBytes : MP → R (Option Bytes)
  | .raw bs => .ok (some bs)
  | .nil => .ok none
  | .arr _ => .exotic
  | .map _ => .exotic
  | _ => .err

def getBool : MP → R Bool
  | .bool b => .ok b
  | .nil => .ok false
  | .uint _ => .exotic
  | .int _ => .exotic
  | _ => .err

def mapMR {α β} (f : α → R β) : List α → R (List β)
  | [] => .ok []
  | x :: xs => (f x).bind fun y => (mapMR f xs).bind fun ys => .ok (y :: ys)

def getSlice {α} (elem : MP → R α) : MP → R (Option (List α))
  | .arr xs => (mapMR elem xs).map some
  | .nil => .ok none
  | .map _ => .exotic
  | _ => .err

/-- association-list insert used for decoded Go maps (a repeated key overwrites) -/
def minsert {β} (m : List (Bytes × β)) (k : Bytes) (v : β) : List (Bytes × β) :=
  if m.any (·.1 == k) then m.map (fun p => if p.1 == k then (k, v) else p) else m ++ [(k, v)]

def getKey : MP → R Bytes
  | .raw bs => .ok bs
  | .nil => .ok []
  | .arr _ => .exotic
  | _ => .err

/-- a struct field name: the library indexes the first byte of the key, an empty key
is a (recovered) runtime error -/
def getFieldKey : MP → R Bytes
  | .raw [] => .err
  | .raw bs => .ok bs
  | .arr _ => .exotic
  | _ => .err

def foldPairsR {σ} (key : MP → R Bytes) (f : σ → Bytes → MP → R σ) : σ → List (MP × MP) → R σ
  | s, [] => .ok s
  | s, (k, v) :: r => (key k).bind fun kb => (f s kb v).bind fun s' => foldPairsR key f s' r

def getStrMap {β} (val : MP → R β) : MP → R (Option (List (Bytes × β)))
  | .map kvs => (foldPairsR getKey (fun m k v => (val v).map (minsert m k)) [] kvs).map some
  | .nil => .ok none
  | .arr _ => .exotic
  | .raw _ => .exotic
  | _ => .err

/-- a Go struct: map → fields by name; nil → zero value -/
def getStruct {σ} (zero : σ) (setField : σ → Bytes → MP → R σ) : MP → R σ
  | .map kvs => foldPairsR getFieldKey setField zero kvs
  | .nil => .ok zero
  | .arr _ => .exotic
  | _ => .err

def getPtr {σ} (zero : σ) (setField : σ → Bytes → MP → R σ) : MP → R (Option σ)
  | .nil => .ok none
  | v => (getStruct zero setField v).map some

/-! ### field encoders -/

def putBytes : Option Bytes → MP
  | none => .nil
  | some bs => .raw bs

/-- `EncodeInt`: 0…127 is the (sign-agnostic) positive fixint -/
def putInt (i : Int) : MP := if 0 ≤ i ∧ i ≤ 127 then .uint i.toNat else .int i

def putSlice {α} (f : α → MP) : Option (List α) → MP
  | none => .nil
  | some xs => .arr (xs.map f)

def putStrMap {β} (f : β → MP) : Option (List (Bytes × β)) → MP
  | none => .nil
  | some kvs => .map (kvs.map fun p => (.raw p.1, f p.2))

/-! ### field names (ASCII) -/

def kAddr : Bytes := [65, 100, 100, 114]
def kCC : Bytes := [67, 67]
def kDestAddr : Bytes := [68, 101, 115, 116, 65, 100, 100, 114]
def kDestName : Bytes := [68, 101, 115, 116, 78, 97, 109, 101]
def kEventLTime : Bytes := [69, 118, 101, 110, 116, 76, 84, 105, 109, 101]
def kEvents : Bytes := [69, 118, 101, 110, 116, 115]
def kExpr : Bytes := [69, 120, 112, 114]
def kFilters : Bytes := [70, 105, 108, 116, 101, 114, 115]
def kFlags : Bytes := [70, 108, 97, 103, 115]
def kFrom : Bytes := [70, 114, 111, 109]
def kID : Bytes := [73, 68]
def kIP : Bytes := [73, 80]
def kLTime : Bytes := [76, 84, 105, 109, 101]
def kLeftMembers : Bytes := [76, 101, 102, 116, 77, 101, 109, 98, 101, 114, 115]
def kName : Bytes := [78, 97, 109, 101]
def kNode : Bytes := [78, 111, 100, 101]
def kPayload : Bytes := [80, 97, 121, 108, 111, 97, 100]
def kPort : Bytes := [80, 111, 114, 116]
def kPrune : Bytes := [80, 114, 117, 110, 101]
def kQueryLTime : Bytes := [81, 117, 101, 114, 121, 76, 84, 105, 109, 101]
def kRelayFactor : Bytes := [82, 101, 108, 97, 121, 70, 97, 99, 116, 111, 114]
def kSourceNode : Bytes := [83, 111, 117, 114, 99, 101, 78, 111, 100, 101]
def kStatusLTimes : Bytes := [83, 116, 97, 116, 117, 115, 76, 84, 105, 109, 101, 115]
def kTag : Bytes := [84, 97, 103]
def kTimeout : Bytes := [84, 105, 109, 101, 111, 117, 116]
def kZone : Bytes := [90, 111, 110, 101]

/-! ### message kinds -/

/-- messageJoin -/
structure Join where
  ltime : Nat := 0
  node : Bytes := []
  deriving Repr, DecidableEq

def Join.toMP (m : Join) : MP := .map [(.raw kLTime, .uint m.ltime), (.raw kNode, .raw m.node)]
def Join.set (s : Join) (k : Bytes) (v : MP) : R Join :=
  if k = kLTime then (getUint 64 v).map fun x => { s with ltime := x }
  else if k = kNode then (getStr v).map fun x => { s with node := x }
  else .ok s
def Join.ofMP : MP → R Join := getStruct {} Join.set
def Join.valid (m : Join) : Bool := m.ltime < 2 ^ 64 && m.node.length < 2 ^ 32

/-- messageLeave -/
structure Leave where
  ltime : Nat := 0
  node : Bytes := []
  prune : Bool := false
  deriving Repr, DecidableEq

def Leave.toMP (m : Leave) : MP :=
  .map [(.raw kLTime, .uint m.ltime), (.raw kNode, .raw m.node), (.raw kPrune, .bool m.prune)]
def Leave.set (s : Leave) (k : Bytes) (v : MP) : R Leave :=
  if k = kLTime then (getUint 64 v).map fun x => { s with ltime := x }
  else if k = kNode then (getStr v).map fun x => { s with node := x }
  else if k = kPrune then (getBool v).map fun x => { s with prune := x }
  else .ok s
def Leave.ofMP : MP → R Leave := getStruct {} Leave.set
def Leave.valid (m : Leave) : Bool := m.ltime < 2 ^ 64 && m.node.length < 2 ^ 32

/-- messageUserEvent -/
structure UserEv where
  ltime : Nat := 0
  name : Bytes := []
  payload : Option Bytes := none
  cc : Bool := false
  deriving Repr, DecidableEq

def UserEv.toMP (m : UserEv) : MP :=
  .map [(.raw kCC, .bool m.cc), (.raw kLTime, .uint m.ltime), (.raw kName, .raw m.name),
        (.raw kPayload, putBytes m.payload)]
def UserEv.set (s : UserEv) (k : Bytes) (v : MP) : R UserEv :=
  if k = kCC then (getBool v).map fun x => { s with cc := x }
  else if k = kLTime then (getUint 64 v).map fun x => { s with ltime := x }
  else if k = kName then (getStr v).map fun x => { s with name := x }
  else if k = kPayload then (getBytes v).map fun x => { s with payload := x }
  else .ok s
def UserEv.ofMP : MP → R UserEv := getStruct {} UserEv.set
def optLen (o : Option Bytes) : Nat := match o with | none => 0 | some b => b.length
def UserEv.valid (m : UserEv) : Bool :=
  m.ltime < 2 ^ 64 && m.name.length < 2 ^ 32 && optLen m.payload < 2 ^ 32

/-- messageQuery -/
structure Query where
  ltime : Nat := 0
  id : Nat := 0
  addr : Option Bytes := none
  port : Nat := 0
  sourceNode : Bytes := []
  filters : Option (List (Option Bytes)) := none
  flags : Nat := 0
  relayFactor : Nat := 0
  timeout : Int := 0
  name : Bytes := []
  payload : Option Bytes := none
  deriving Repr, DecidableEq

def Query.toMP (m : Query) : MP :=
  .map [(.raw kAddr, putBytes m.addr), (.raw kFilters, putSlice putBytes m.filters),
        (.raw kFlags, .uint m.flags), (.raw kID, .uint m.id), (.raw kLTime, .uint m.ltime),
        (.raw kName, .raw m.name), (.raw kPayload, putBytes m.payload), (.raw kPort, .uint m.port),
        (.raw kRelayFactor, .uint m.relayFactor), (.raw kSourceNode, .raw m.sourceNode),
        (.raw kTimeout, putInt m.timeout)]
def Query.set (s : Query) (k : Bytes) (v : MP) : R Query :=
  if k = kAddr then (getBytes v).map fun x => { s with addr := x }
  else if k = kFilters then (getSlice getBytes v).map fun x => { s with filters := x }
  else if k = kFlags then (getUint 32 v).map fun x => { s with flags := x }
  else if k = kID then (getUint 32 v).map fun x => { s with id := x }
  else if k = kLTime then (getUint 64 v).map fun x => { s with ltime := x }
  else if k = kName then (getStr v).map fun x => { s with name := x }
  else if k = kPayload then (getBytes v).map fun x => { s with payload := x }
  else if k = kPort then (getUint 16 v).map fun x => { s with port := x }
  else if k = kRelayFactor then (getUint 8 v).map fun x => { s with relayFactor := x }
  else if k = kSourceNode then (getStr v).map fun x => { s with sourceNode := x }
  else if k = kTimeout then (getInt64 v).map fun x => { s with timeout := x }
  else .ok s
def Query.ofMP : MP → R Query := getStruct {} Query.set
def optBytesValid (o : Option Bytes) : Bool := optLen o < 2 ^ 32
def Query.valid (m : Query) : Bool :=
  m.ltime < 2 ^ 64 && m.id < 2 ^ 32 && optBytesValid m.addr && m.port < 2 ^ 16
  && m.sourceNode.length < 2 ^ 32
  && (match m.filters with | none => true | some fs => fs.length < 2 ^ 32 && fs.all optBytesValid)
  && m.flags < 2 ^ 32 && m.relayFactor < 2 ^ 8
  && (-9223372036854775808 ≤ m.timeout && m.timeout < 9223372036854775808)
  && m.name.length < 2 ^ 32 && optBytesValid m.payload

/-- messageQueryResponse -/
structure QueryResp where
  ltime : Nat := 0
  id : Nat := 0
  from_ : Bytes := []
  flags : Nat := 0
  payload : Option Bytes := none
  deriving Repr, DecidableEq

def QueryResp.toMP (m : QueryResp) : MP :=
  .map [(.raw kFlags, .uint m.flags), (.raw kFrom, .raw m.from_), (.raw kID, .uint m.id),
        (.raw kLTime, .uint m.ltime), (.raw kPayload, putBytes m.payload)]
def QueryResp.set (s : QueryResp) (k : Bytes) (v : MP) : R QueryResp :=
  if k = kFlags then (getUint 32 v).map fun x => { s with flags := x }
  else if k = kFrom then (getStr v).map fun x => { s with from_ := x }
  else if k = kID then (getUint 32 v).map fun x => { s with id := x }
  else if k = kLTime then (getUint 64 v).map fun x => { s with ltime := x }
  else if k = kPayload then (getBytes v).map fun x => { s with payload := x }
  else .ok s
def QueryResp.ofMP : MP → R QueryResp := getStruct {} QueryResp.set
def QueryResp.valid (m : QueryResp) : Bool :=
  m.ltime < 2 ^ 64 && m.id < 2 ^ 32 && m.from_.length < 2 ^ 32 && m.flags < 2 ^ 32 && optBytesValid m.payload

/-- userEvent (element of userEvents.Events) -/
structure UEvent where
  name : Bytes := []
  payload : Option Bytes := none
  deriving Repr, DecidableEq

def UEvent.toMP (m : UEvent) : MP := .map [(.raw kName, .raw m.name), (.raw kPayload, putBytes m.payload)]
def UEvent.set (s : UEvent) (k : Bytes) (v : MP) : R UEvent :=
  if k = kName then (getStr v).map fun x => { s with name := x }
  else if k = kPayload then (getBytes v).map fun x => { s with payload := x }
  else .ok s
def UEvent.ofMP : MP → R UEvent := getStruct {} UEvent.set
def UEvent.valid (m : UEvent) : Bool := m.name.length < 2 ^ 32 && optBytesValid m.payload

/-- userEvents (element of messagePushPull.Events, by pointer) -/
structure UEvents where
  ltime : Nat := 0
  events : Option (List UEvent) := none
  deriving Repr, DecidableEq

def UEvents.toMP (m : UEvents) : MP :=
  .map [(.raw kEvents, putSlice UEvent.toMP m.events), (.raw kLTime, .uint m.ltime)]
def UEvents.set (s : UEvents) (k : Bytes) (v : MP) : R UEvents :=
  if k = kEvents then (getSlice UEvent.ofMP v).map fun x => { s with events := x }
  else if k = kLTime then (getUint 64 v).map fun x => { s with ltime := x }
  else .ok s
def UEvents.ofMP : MP → R UEvents := getStruct {} UEvents.set
def UEvents.valid (m : UEvents) : Bool :=
  m.ltime < 2 ^ 64 && (match m.events with | none => true | some es => es.length < 2 ^ 32 && es.all UEvent.valid)

def putPtrUEvents : Option UEvents → MP
  | none => .nil
  | some e => e.toMP

/-- messagePushPull -/
structure PushPull where
  ltime : Nat := 0
  statusLTimes : Option (List (Bytes × Nat)) := none
  leftMembers : Option (List Bytes) := none
  eventLTime : Nat := 0
  events : Option (List (Option UEvents)) := none
  queryLTime : Nat := 0
  deriving Repr, DecidableEq

def PushPull.toMP (m : PushPull) : MP :=
  .map [(.raw kEventLTime, .uint m.eventLTime), (.raw kEvents, putSlice putPtrUEvents m.events),
        (.raw kLTime, .uint m.ltime), (.raw kLeftMembers, putSlice MP.raw m.leftMembers),
        (.raw kQueryLTime, .uint m.queryLTime), (.raw kStatusLTimes, putStrMap MP.uint m.statusLTimes)]
def PushPull.set (s : PushPull) (k : Bytes) (v : MP) : R PushPull :=
  if k = kEventLTime then (getUint 64 v).map fun x => { s with eventLTime := x }
  else if k = kEvents then (getSlice (getPtr {} UEvents.set) v).map fun x => { s with events := x }
  else if k = kLTime then (getUint 64 v).map fun x => { s with ltime := x }
  else if k = kLeftMembers then (getSlice getStr v).map fun x => { s with leftMembers := x }
  else if k = kQueryLTime then (getUint 64 v).map fun x => { s with queryLTime := x }
  else if k = kStatusLTimes then (getStrMap (getUint 64) v).map fun x => { s with statusLTimes := x }
  else .ok s
def PushPull.ofMP : MP → R PushPull := getStruct {} PushPull.set

/-- keys pairwise distinct (a Go map has no duplicate keys) -/
def keysNodup {β} : List (Bytes × β) → Bool
  | [] => true
  | p :: r => !(r.any (·.1 == p.1)) && keysNodup r

def PushPull.valid (m : PushPull) : Bool :=
  m.ltime < 2 ^ 64 && m.eventLTime < 2 ^ 64 && m.queryLTime < 2 ^ 64
  && (match m.statusLTimes with
      | none => true
      | some kvs => kvs.length < 2 ^ 32 && keysNodup kvs && kvs.all (fun p => p.1.length < 2 ^ 32 && p.2 < 2 ^ 64))
  && (match m.leftMembers with | none => true | some l => l.length < 2 ^ 32 && l.all (·.length < 2 ^ 32))
  && (match m.events with
      | none => true
      | some es => es.length < 2 ^ 32 && es.all (fun o => match o with | none => true | some e => e.valid))

/-- relayHeader{DestAddr net.UDPAddr{IP, Port int, Zone}, DestName} -/
structure RelayHdr where
  ip : Option Bytes := none
  port : Int := 0
  zone : Bytes := []
  destName : Bytes := []
  deriving Repr, DecidableEq

structure UDPAddr where
  ip : Option Bytes := none
  port : Int := 0
  zone : Bytes := []
  deriving Repr, DecidableEq

def UDPAddr.set (s : UDPAddr) (k : Bytes) (v : MP) : R UDPAddr :=
  if k = kIP then (getBytes v).map fun x => { s with ip := x }
  else if k = kPort then (getInt64 v).map fun x => { s with port := x }
  else if k = kZone then (getStr v).map fun x => { s with zone := x }
  else .ok s

def RelayHdr.toMP (m : RelayHdr) : MP :=
  .map [(.raw kDestAddr, .map [(.raw kIP, putBytes m.ip), (.raw kPort, putInt m.port), (.raw kZone, .raw m.zone)]),
        (.raw kDestName, .raw m.destName)]
def RelayHdr.set (s : RelayHdr) (k : Bytes) (v : MP) : R RelayHdr :=
  if k = kDestAddr then
    (getStruct { ip := s.ip, port := s.port, zone := s.zone : UDPAddr } UDPAddr.set v).map fun a =>
      { s with ip := a.ip, port := a.port, zone := a.zone }
  else if k = kDestName then (getStr v).map fun x => { s with destName := x }
  else .ok s
def RelayHdr.ofMP : MP → R RelayHdr := getStruct {} RelayHdr.set
def RelayHdr.valid (m : RelayHdr) : Bool :=
  optBytesValid m.ip && (-9223372036854775808 ≤ m.port && m.port < 9223372036854775808)
  && m.zone.length < 2 ^ 32 && m.destName.length < 2 ^ 32

/-- filterNode = []string -/
abbrev FilterNode := Option (List Bytes)
def FilterNode.toMP (m : FilterNode) : MP := putSlice MP.raw m
def FilterNode.ofMP : MP → R FilterNode := getSlice getStr
def FilterNode.valid (m : FilterNode) : Bool :=
  match m with | none => true | some l => l.length < 2 ^ 32 && l.all (·.length < 2 ^ 32)

/-- filterTag -/
structure FilterTag where
  tag : Bytes := []
  expr : Bytes := []
  deriving Repr, DecidableEq

def FilterTag.toMP (m : FilterTag) : MP := .map [(.raw kExpr, .raw m.expr), (.raw kTag, .raw m.tag)]
def FilterTag.set (s : FilterTag) (k : Bytes) (v : MP) : R FilterTag :=
  if k = kExpr then (getStr v).map fun x => { s with expr := x }
  else if k = kTag then (getStr v).map fun x => { s with tag := x }
  else .ok s
def FilterTag.ofMP : MP → R FilterTag := getStruct {} FilterTag.set
def FilterTag.valid (m : FilterTag) : Bool := m.tag.length < 2 ^ 32 && m.expr.length < 2 ^ 32

/-! ### the wire: encodeMessage / decodeMessage / encodeFilter / encodeRelayMessage -/

/-- `encodeMessage(t, msg)`: the type byte, then the msgpack encoding -/
def encodeMessage (t : UInt8) (body : MP) : Bytes := t :: encode body

/-- what a receiver does (delegate.go NotifyMsg): `decodeMessage(buf[1:], &out)` -/
def decodeBody {α} (ofMP : MP → R α) (buf : Bytes) : R α :=
  match decode buf.tail with
  | some (v, _) => ofMP v
  | none => .err

/-- `encodeRelayMessage(t, addr, name, msg)` -/
def encodeRelay (hdr : RelayHdr) (t : UInt8) (body : MP) : Bytes :=
  9 :: (encode hdr.toMP ++ encodeMessage t body)

/-- delegate.go NotifyMsg, `case messageRelayType`: decode the header from `buf[1:]`,
forward *the remaining bytes* to the destination. -/
def relayForward (buf : Bytes) : R (RelayHdr × Bytes) :=
  match decode buf.tail with
  | some (v, rest) => (RelayHdr.ofMP v).map fun h => (h, rest)
  | none => .err

/-! ### tags (serf.go encodeTags / decodeTags) -/

abbrev Tags := List (Bytes × Bytes)

def kRole : Bytes := [114, 111, 108, 101]

def tagLookup (t : Tags) (k : Bytes) : Bytes :=
  match t.find? (·.1 == k) with
  | some p => p.2
  | none => []

/-- `encodeTags`: role only before protocol 3; magic byte 0xFF + msgpack map from 3 on.
`none` is a nil Go map. The list order is the iteration order Go happened to use. -/
def encodeTags (proto : Nat) (tags : Option Tags) : Bytes :=
  if proto < 3 then tagLookup (tags.getD []) kRole
  else 255 :: encode (putStrMap MP.raw tags)

/-- `decodeTags` (independent of the protocol version: decided by the first byte).
A decode failure is only logged and whatever was decoded so far is returned; the model
returns the tags decoded so far as well (`foldTags`). -/
def foldTags : Tags → List (MP × MP) → Tags × Bool
  | m, [] => (m, true)
  | m, (k, v) :: r =>
    match getKey k, getStr v with
    | .ok key, .ok val => foldTags (minsert m key val) r
    | _, _ => (m, false)

/-- result: the tag map and whether the msgpack decode succeeded without anomaly
(`false` = logged error or input outside the modelled subset). -/
def decodeTags (buf : Bytes) : Tags × Bool :=
  match buf with
  | 255 :: rest =>
    match decode rest with
    | some (.map kvs, _) => foldTags [] kvs
    | some (.nil, _) => ([], true)
    | _ => ([], false)
  | _ => ([(kRole, buf)], true)

/-- serf.go Create / SetTags: `len(encodeTags(tags)) > memberlist.MetaMaxSize` rejects -/
def metaMaxSize : Nat := 512
def tagsAccepted (proto : Nat) (tags : Option Tags) : Bool := (encodeTags proto tags).length ≤ metaMaxSize

def tagsValid (t : Tags) : Bool :=
  t.length < 2 ^ 32 && keysNodup t && t.all (fun p => p.1.length < 2 ^ 32 && p.2.length < 2 ^ 32)

end SerfModel.Codec
