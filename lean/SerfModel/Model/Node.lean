/-
Model of ONE serf node's membership state machine (serf/serf.go, serf/delegate.go).
Shared by C02, C03, C04, C15 (and the basis for C01's cluster model).

State  (`Node`)
  members   : map name → {status, statusLTime, leaveTime}   (assoc list; Go `s.members`)
  failed    : the Go slice `s.failedMembers`  (as a LIST of names, order kept)
  left      : the Go slice `s.leftMembers`
  intents   : `s.recentIntents` (newest buffered intent per not-yet-known member)
  clock     : the member Lamport clock `s.clock` (uint64: `+1` wraps at 2^64 exactly as in Go)
  life      : `s.state` (SerfAlive / SerfLeaving / SerfLeft / SerfShutdown)
  pending   : refuting joins started with `go s.broadcastJoin(s.clock.Time())` and not yet run;
              the argument is evaluated at spawn, so the Lamport time is fixed here
Inputs (`Op`)   memberlist notifications, gossip intents (NotifyMsg), push/pull merge
                (MergeRemoteState), local Leave (split into its atomic parts) / force-leave /
                Shutdown, the reaper with an explicit `now` and per-member timeout override.
Outputs (`Out`) member events sent to EventCh (in order), the NotifyMsg rebroadcast decision,
                messages the node queues itself (refuting join, leave, force-leave).

Conventions.  Lamport times are `Nat`; every `+1` the Go code performs on a uint64 is written
`% two64` so the executable model wraps where Go wraps; theorems that need "no wrap" carry an
explicit `< 2^64 - 1` hypothesis.  Wall-clock time never enters as a clock: `nodeLeave` carries
the leave time, `reap` carries `now`, intents carry the wall time they were stamped with.
The slices hold `*memberState` in Go; the model holds names.  Under the bookkeeping invariant
(C15: list entries are exactly the failed/left members, no duplicates) a name identifies the
pointer; `leaveTime` is read from the member record as of the start of the reap loop, which is
what reading through the pointer gives.
Tags, addresses and protocol versions are not modelled (no property here depends on them).
Core Lean only.
-/
import SerfModel.Prelude.Basic
namespace SerfModel.Node
open SerfModel

abbrev Name := String
/-- 2^64 -/
abbrev two64 : Nat := 18446744073709551616

/-- `MemberStatus` of a stored member (StatusNone is never stored). -/
inductive Status where
  | alive | leaving | left | failed
  deriving DecidableEq, Repr, Inhabited

/-- `SerfState`. -/
inductive Life where
  | alive | leaving | left | shutdown
  deriving DecidableEq, Repr, Inhabited

/-- `memberState`: status, statusLTime, leaveTime. -/
structure Member where
  status : Status
  ltime : Nat
  leaveTime : Nat := 0
  deriving DecidableEq, Repr, Inhabited

/-- `nodeIntent`. -/
structure Intent where
  isLeave : Bool
  ltime : Nat
  wall : Nat
  deriving DecidableEq, Repr, Inhabited

/-- `messageJoin` / `messageLeave`. -/
inductive Msg where
  | join (node : Name) (ltime : Nat)
  | leave (node : Name) (ltime : Nat) (prune : Bool)
  deriving DecidableEq, Repr, Inhabited

def Msg.node : Msg → Name
  | .join x _ => x
  | .leave x _ _ => x

def Msg.ltime : Msg → Nat
  | .join _ t => t
  | .leave _ t _ => t

def Msg.isPrune : Msg → Bool
  | .leave _ _ p => p
  | _ => false

inductive EvKind where
  | join | leave | failed | update | reap
  deriving DecidableEq, Repr, Inhabited

structure Config where
  /-- ReconnectTimeout -/
  reconnect : Nat := 10
  /-- TombstoneTimeout -/
  tombstone : Nat := 20
  /-- RecentIntentTimeout -/
  intentTimeout : Nat := 5
  deriving DecidableEq, Repr, Inhabited

structure Node where
  name : Name
  cfg : Config := {}
  life : Life := .alive
  clock : Nat := 1
  members : List (Name × Member) := []
  failed : List Name := []
  left : List Name := []
  intents : List (Name × Intent) := []
  pending : List Nat := []
  deriving Repr, Inhabited

/-- What an operation makes visible. -/
structure Out where
  /-- member events sent on EventCh, in order -/
  events : List (EvKind × Name) := []
  /-- NotifyMsg re-queues the received message -/
  rebroadcast : Bool := false
  /-- messages the node queues on its own initiative -/
  queued : List Msg := []
  deriving Repr, Inhabited

/-- A node right after `serf.Create`: the clock was incremented once and memberlist has
announced the local node (NotifyJoin of self). -/
def Node.init (name : Name) (cfg : Config := {}) : Node :=
  { name := name, cfg := cfg, members := [(name, { status := .alive, ltime := 0 })] }

def statusOf (n : Node) (x : Name) : Option Status := (alookup n.members x).map (·.status)
def ltimeOf (n : Node) (x : Name) : Option Nat := (alookup n.members x).map (·.ltime)
def known (n : Node) (x : Name) : Bool := (alookup n.members x).isSome
def intentOf (n : Node) (x : Name) : Option Intent := alookup n.intents x

/-- `LamportClock.Witness` (lamport.go): `if v < cur {return}; cur = v + 1` on uint64. -/
def witness (c v : Nat) : Nat := if v < c then c else (v + 1) % two64

/-- `old[i], old[n-1] = old[n-1], nil; old = old[:n-1]` — put the last element at position `i`
and cut the last slot. -/
def swapRemove : List Name → Nat → List Name
  | [], _ => []
  | _ :: xs, 0 => match xs.getLast? with
    | none => []
    | some z => z :: xs.dropLast
  | x :: xs, i + 1 => x :: swapRemove xs i

/-- `removeOldMember`: the first entry with that name is overwritten by the last entry, and the
slice shrinks by one. -/
def removeOld : List Name → Name → List Name
  | [], _ => []
  | x :: xs, name =>
    if x = name then
      match xs.getLast? with
      | none => []
      | some z => z :: xs.dropLast
    else x :: removeOld xs name

/-- `upsertIntent`: true iff there was no entry or the new time is strictly newer. -/
def upsertIntent (ints : List (Name × Intent)) (x : Name) (isLeave : Bool) (lt wall : Nat) :
    List (Name × Intent) × Bool :=
  match alookup ints x with
  | some i => if i.ltime < lt then (ainsert ints x ⟨isLeave, lt, wall⟩, true) else (ints, false)
  | none => (ainsert ints x ⟨isLeave, lt, wall⟩, true)

/-- `hasAliveMembers`: some OTHER member is alive. -/
def hasAliveOthers (n : Node) : Bool :=
  n.members.any (fun p => p.1 ≠ n.name && p.2.status = .alive)

/-- `handleNodeJoin` (memberlist NotifyJoin). -/
def handleNodeJoin (n : Node) (x : Name) : Node × Out :=
  match alookup n.members x with
  | none =>
    -- recentIntent(join) then recentIntent(leave): there is one buffered intent per node
    let m : Member := match alookup n.intents x with
      | some i => if i.isLeave then { status := .leaving, ltime := i.ltime } else { status := .alive, ltime := i.ltime }
      | none => { status := .alive, ltime := 0 }
    ({ n with members := ainsert n.members x m }, { events := [(.join, x)] })
  | some m =>
    let n1 := { n with members := ainsert n.members x { m with status := .alive, leaveTime := 0 } }
    let n2 := if m.status = .failed ∨ m.status = .left then
        { n1 with failed := removeOld n1.failed x, left := removeOld n1.left x } else n1
    (n2, { events := [(.join, x)] })

/-- `handleNodeLeave` (memberlist NotifyLeave); `at` is the `time.Now()` stored as leaveTime. -/
def handleNodeLeave (n : Node) (x : Name) (at_ : Nat) : Node × Out :=
  match alookup n.members x with
  | none => (n, {})
  | some m =>
    match m.status with
    | .leaving =>
      ({ n with members := ainsert n.members x { m with status := .left, leaveTime := at_ },
                left := n.left ++ [x] }, { events := [(.leave, x)] })
    | .alive =>
      ({ n with members := ainsert n.members x { m with status := .failed, leaveTime := at_ },
                failed := n.failed ++ [x] }, { events := [(.failed, x)] })
    | _ => (n, {})

/-- `handleNodeUpdate`: only the event is visible here (tags/address are not modelled). -/
def handleNodeUpdate (n : Node) (x : Name) : Node × Out :=
  match alookup n.members x with
  | none => (n, {})
  | some _ => (n, { events := [(.update, x)] })

/-- `eraseNode`. -/
def eraseNode (n : Node) (x : Name) : Node := { n with members := aerase n.members x }

/-- `handlePrune` (the sleep for a Leaving member is not modelled). -/
def handlePrune (n : Node) (x : Name) : Node × List (EvKind × Name) :=
  let n1 := match statusOf n x with
    | some .leaving => { n with left := removeOld n.left x }
    | some .left => { n with left := removeOld n.left x }
    | _ => n
  (eraseNode n1 x, [(.reap, x)])

/-- `handleNodeLeaveIntent`.  Returns the rebroadcast decision in `Out.rebroadcast`. -/
def handleLeaveIntent (n : Node) (x : Name) (lt : Nat) (prune : Bool) (wall : Nat) : Node × Out :=
  let life := n.life                                     -- state := s.State()
  let n := { n with clock := witness n.clock lt }        -- s.clock.Witness(leaveMsg.LTime)
  match alookup n.members x with
  | none =>
    let r := upsertIntent n.intents x true lt wall
    ({ n with intents := r.1 }, { rebroadcast := r.2 })
  | some m =>
    if lt ≤ m.ltime then (n, {})
    else if x = n.name ∧ life = .alive then
      -- go s.broadcastJoin(s.clock.Time()): time fixed now, runs later
      ({ n with pending := n.pending ++ [n.clock] }, {})
    else
      match m.status with
      | .alive =>
        let n1 := { n with members := ainsert n.members x { m with ltime := lt, status := .leaving } }
        if prune then
          let r := handlePrune n1 x
          (r.1, { events := r.2, rebroadcast := true })
        else (n1, { rebroadcast := true })
      | .failed =>
        let n1 := { n with members := ainsert n.members x { m with ltime := lt, status := .left },
                           failed := removeOld n.failed x, left := n.left ++ [x] }
        if prune then
          let r := handlePrune n1 x
          (r.1, { events := (.leave, x) :: r.2, rebroadcast := true })
        else (n1, { events := [(.leave, x)], rebroadcast := true })
      | _ =>   -- StatusLeaving, StatusLeft
        let n1 := { n with members := ainsert n.members x { m with ltime := lt } }
        if prune then
          let r := handlePrune n1 x
          (r.1, { events := r.2, rebroadcast := true })
        else (n1, { rebroadcast := true })

/-- `handleNodeJoinIntent`. -/
def handleJoinIntent (n : Node) (x : Name) (lt : Nat) (wall : Nat) : Node × Out :=
  let n := { n with clock := witness n.clock lt }
  match alookup n.members x with
  | none =>
    let r := upsertIntent n.intents x false lt wall
    ({ n with intents := r.1 }, { rebroadcast := r.2 })
  | some m =>
    if lt ≤ m.ltime then (n, {})
    else
      let st := if m.status = .leaving then Status.alive else m.status
      ({ n with members := ainsert n.members x { m with ltime := lt, status := st } }, { rebroadcast := true })

/-- `broadcastJoin(ltime)`: witness, apply the join intent locally, queue it. -/
def broadcastJoin (n : Node) (t : Nat) (wall : Nat) : Node × Out :=
  let n1 := { n with clock := witness n.clock t }
  ((handleJoinIntent n1 n.name t wall).1, { queued := [.join n.name t] })

/-- Run the oldest pending refuting join. -/
def runPending (n : Node) (wall : Nat) : Node × Out :=
  match n.pending with
  | [] => (n, {})
  | t :: rest => broadcastJoin { n with pending := rest } t wall

/-- MergeRemoteState, first loop: every left member becomes a leave intent at
`StatusLTimes[name] + 1` (0 + 1 if absent; uint64 wrap). Results are ignored, events are not. -/
def mergeLefts (n : Node) (status : List (Name × Nat)) (wall : Nat) : List Name → Node × List (EvKind × Name)
  | [] => (n, [])
  | x :: xs =>
    let t := (((alookup status x).getD 0) + 1) % two64
    let r := handleLeaveIntent n x t false wall
    let r2 := mergeLefts r.1 status wall xs
    (r2.1, r.2.events ++ r2.2)

/-- MergeRemoteState, second loop: every other entry becomes a join intent. -/
def mergeJoins (n : Node) (left : List Name) (wall : Nat) : List (Name × Nat) → Node
  | [] => n
  | (x, t) :: rest =>
    if x ∈ left then mergeJoins n left wall rest
    else mergeJoins (handleJoinIntent n x t wall).1 left wall rest

/-- `MergeRemoteState` (membership part). -/
def merge (n : Node) (lt : Nat) (status : List (Name × Nat)) (left : List Name) (wall : Nat) : Node × Out :=
  let n0 := if 0 < lt then { n with clock := witness n.clock (lt - 1) } else n
  let r := mergeLefts n0 status wall left
  (mergeJoins r.1 left wall status, { events := r.2 })

/-- `forceLeave` (RemoveFailedNode / RemoveFailedNodePrune). -/
def forceLeave (n : Node) (x : Name) (prune : Bool) (wall : Nat) : Node × Out :=
  let lt := n.clock
  let r := handleLeaveIntent { n with clock := (n.clock + 1) % two64 } x lt prune wall
  (r.1, { events := r.2.events, queued := if hasAliveOthers r.1 then [.leave x lt prune] else [] })

/-- First part of `Leave()`: state check, SerfLeaving, own leave intent, broadcast. -/
def leaveBegin (n : Node) (wall : Nat) : Node × Out :=
  if n.life ≠ .alive then (n, {})
  else
    let lt := n.clock
    let r := handleLeaveIntent { n with life := .leaving, clock := (n.clock + 1) % two64 } n.name lt false wall
    (r.1, { events := r.2.events, queued := if hasAliveOthers r.1 then [.leave n.name lt false] else [] })

/-- Last part of `Leave()`: `if s.state != SerfShutdown { s.state = SerfLeft }`. -/
def leaveEnd (n : Node) : Node := if n.life = .leaving then { n with life := .left } else n

/-- Is list entry `x` past its timeout?  `now.Sub(m.leaveTime) > memberTimeout`. -/
def expired (members : List (Name × Member)) (now : Nat) (ov : Name → Nat → Nat) (timeout : Nat) (x : Name) : Bool :=
  decide (now - ((alookup members x).map (·.leaveTime)).getD 0 > ov x timeout)

/-- The loop of `reap`: `for i := 0; i < n; i++ { if keep {continue}; swap-delete; n--; i-- }`.
`fuel` = number of iterations left (`old.length - i` decreases by one each time).
Returns the remaining slice and the erased names in erase order. -/
def reapLoop (exp : Name → Bool) : Nat → List Name → Nat → List Name → List Name × List Name
  | 0, old, _, acc => (old, acc)
  | fuel + 1, old, i, acc =>
    match old[i]? with
    | none => (old, acc)
    | some m =>
      if exp m then reapLoop exp fuel (swapRemove old i) i (acc ++ [m])
      else reapLoop exp fuel old (i + 1) acc

def eraseAll (members : List (Name × Member)) : List Name → List (Name × Member)
  | [] => members
  | x :: xs => eraseAll (aerase members x) xs

/-- One pass of `s.reap(old, now, timeout)` over a list. -/
def reapList (members : List (Name × Member)) (old : List Name) (now : Nat) (ov : Name → Nat → Nat) (timeout : Nat) :
    List Name × List Name :=
  reapLoop (expired members now ov timeout) old.length old 0 []

/-- `reapIntents`. -/
def reapIntents (ints : List (Name × Intent)) (now timeout : Nat) : List (Name × Intent) :=
  ints.filter (fun p => !(decide (now - p.2.wall > timeout)))

/-- One tick of `handleReap` at wall time `now` with override `ov` (`ReconnectTimeoutOverride`). -/
def reap (n : Node) (now : Nat) (ov : Name → Nat → Nat) : Node × Out :=
  let r1 := reapList n.members n.failed now ov n.cfg.reconnect
  let n1 := { n with failed := r1.1, members := eraseAll n.members r1.2 }
  let r2 := reapList n1.members n1.left now ov n.cfg.tombstone
  let n2 := { n1 with left := r2.1, members := eraseAll n1.members r2.2 }
  ({ n2 with intents := reapIntents n2.intents now n.cfg.intentTimeout },
   { events := (r1.2 ++ r2.2).map (fun x => (EvKind.reap, x)) })

inductive Op where
  | nodeJoin (x : Name)
  | nodeLeave (x : Name) (at_ : Nat)
  | nodeUpdate (x : Name)
  /-- NotifyMsg with a messageJoin -/
  | joinMsg (x : Name) (lt : Nat) (wall : Nat)
  /-- NotifyMsg with a messageLeave -/
  | leaveMsg (x : Name) (lt : Nat) (prune : Bool) (wall : Nat)
  /-- MergeRemoteState -/
  | merge (lt : Nat) (status : List (Name × Nat)) (left : List Name) (wall : Nat)
  | forceLeave (x : Name) (prune : Bool) (wall : Nat)
  /-- `broadcastJoin(s.clock.Time())` as done at the end of `Join` -/
  | ownJoin (wall : Nat)
  | leaveBegin (wall : Nat)
  | leaveEnd
  | shutdown
  | reap (now : Nat) (ov : Name → Nat → Nat)
  /-- the scheduler runs the oldest spawned refuting join -/
  | runPending (wall : Nat)

def step (n : Node) : Op → Node × Out
  | .nodeJoin x => handleNodeJoin n x
  | .nodeLeave x a => handleNodeLeave n x a
  | .nodeUpdate x => handleNodeUpdate n x
  | .joinMsg x lt w => handleJoinIntent n x lt w
  | .leaveMsg x lt p w => handleLeaveIntent n x lt p w
  | .merge lt st lf w => merge n lt st lf w
  | .forceLeave x p w => forceLeave n x p w
  | .ownJoin w => broadcastJoin n n.clock w
  | .leaveBegin w => leaveBegin n w
  | .leaveEnd => (leaveEnd n, {})
  | .shutdown => ({ n with life := .shutdown }, {})
  | .reap now ov => reap n now ov
  | .runPending w => runPending n w

def run (n : Node) : List Op → Node
  | [] => n
  | op :: ops => run (step n op).1 ops

/-- The message a NotifyMsg op carries (for C04). -/
def Op.msg? : Op → Option Msg
  | .joinMsg x lt _ => some (.join x lt)
  | .leaveMsg x lt p _ => some (.leave x lt p)
  | _ => none

/-- The messages re-queued by NotifyMsg along a run, in order. -/
def rebroadcasts (n : Node) : List Op → List Msg
  | [] => []
  | op :: ops =>
    let r := step n op
    match op.msg? with
    | some m => if r.2.rebroadcast then m :: rebroadcasts r.1 ops else rebroadcasts r.1 ops
    | none => rebroadcasts r.1 ops

/-- `Stats()["failed"]`, `["left"]`, `["members"]`. -/
def statsFailed (n : Node) : Nat := n.failed.length
def statsLeft (n : Node) : Nat := n.left.length
def statsMembers (n : Node) : Nat := n.members.length

/-- Number of listed members with a given status (what `Members()` shows). -/
def countStatus (n : Node) (s : Status) : Nat := (n.members.filter (fun p => p.2.status = s)).length

end SerfModel.Node
