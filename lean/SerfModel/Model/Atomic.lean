/-
Atomic-instruction IR for the Lamport clock (serf/lamport.go) and its
small-step interleaving semantics over `BitVec 64`.

The three clock methods are *translated* from the Go source into this IR by
/verif/extract (see `SerfModel/Gen/Lamport.lean`); the semantics here is
hand-written and is the trusted reading of `sync/atomic`'s Load / Add /
CompareAndSwap on a `uint64` under sequentially consistent interleaving.
-/
namespace SerfModel.Atomic

abbrev W := BitVec 64

/-- One atomic action (or a thread-local one) of a clock method.  Registers are
numbered; only registers 0 and 1 exist. -/
inductive Instr where
  /-- `r := counter.Load()` -/
  | load (dst : Nat)
  /-- `r := counter.Add(k)` (returns the new value) -/
  | add (dst : Nat) (k : Nat)
  /-- `r := uint64(v)` where `v` is the method's argument -/
  | arg (dst : Nat)
  /-- `if r_a < r_b { return }` -/
  | retIfLt (a b : Nat)
  /-- `if r_a <= r_b { return }` (not produced by the unchanged source; exists so
  that a changed comparison still translates and the search can run) -/
  | retIfLe (a b : Nat)
  /-- `if !counter.CompareAndSwap(r_old, r_new + k) { goto fail }` -/
  | casPlus (old new : Nat) (k : Nat) (fail : Nat)
  /-- `return r` / `return` -/
  | ret (r : Option Nat)
  deriving DecidableEq, Repr, Inhabited

abbrev Prog := List Instr

inductive Call where
  | time
  | increment
  | witness (v : W)
  deriving DecidableEq, Repr, Inhabited

/-- The three translated programs a semantics is parameterised by. -/
structure Progs where
  time : Prog
  increment : Prog
  witness : Prog
  deriving Repr

def Progs.of (p : Progs) : Call → Prog
  | .time => p.time
  | .increment => p.increment
  | .witness _ => p.witness

/-- An in-progress call of one thread. -/
structure Frame where
  call : Call
  pc : Nat
  r0 : W
  r1 : W
  deriving DecidableEq, Repr, Inhabited

def Frame.get (f : Frame) (r : Nat) : W := if r = 0 then f.r0 else f.r1
def Frame.set (f : Frame) (r : Nat) (v : W) : Frame :=
  if r = 0 then { f with r0 := v } else { f with r1 := v }

def Call.argVal : Call → W
  | .witness v => v
  | _ => 0#64

/-- A finished call with its return value (if any). -/
structure Done where
  call : Call
  result : Option W
  deriving DecidableEq, Repr, Inhabited

structure Thread where
  frame : Option Frame
  todo : List Call
  done : List Done
  deriving DecidableEq, Repr, Inhabited

structure Sys where
  counter : W
  threads : List Thread
  /-- every value an `add` returned so far, newest first -/
  incs : List W
  deriving DecidableEq, Repr, Inhabited

def Sys.init (c : W) (calls : List (List Call)) : Sys :=
  { counter := c, threads := calls.map (fun cs => { frame := none, todo := cs, done := [] }), incs := [] }

/-- Result of executing one instruction of a frame against the counter. -/
structure StepOut where
  counter : W
  frame : Option Frame       -- `none`: the call returned
  result : Option W          -- return value when it returned
  inc : Option W             -- value returned by an `add`
  deriving Repr

def execInstr (c : W) (f : Frame) (i : Instr) : StepOut :=
  match i with
  | .load d => { counter := c, frame := some ((f.set d c) |> fun f => { f with pc := f.pc + 1 }), result := none, inc := none }
  | .add d k =>
    let n := c + BitVec.ofNat 64 k
    { counter := n, frame := some ((f.set d n) |> fun f => { f with pc := f.pc + 1 }), result := none, inc := some n }
  | .arg d => { counter := c, frame := some ((f.set d f.call.argVal) |> fun f => { f with pc := f.pc + 1 }), result := none, inc := none }
  | .retIfLt a b =>
    if f.get a < f.get b then { counter := c, frame := none, result := none, inc := none }
    else { counter := c, frame := some { f with pc := f.pc + 1 }, result := none, inc := none }
  | .retIfLe a b =>
    if f.get a ≤ f.get b then { counter := c, frame := none, result := none, inc := none }
    else { counter := c, frame := some { f with pc := f.pc + 1 }, result := none, inc := none }
  | .casPlus o n k fail =>
    if c = f.get o then
      { counter := f.get n + BitVec.ofNat 64 k, frame := some { f with pc := f.pc + 1 }, result := none, inc := none }
    else { counter := c, frame := some { f with pc := fail }, result := none, inc := none }
  | .ret r => { counter := c, frame := none, result := r.map f.get, inc := none }

/-- One scheduling step of thread `t`.  A thread without a frame starts its next
call (a thread-local action); a thread whose pc runs off the program returns. -/
def stepThread (p : Progs) (c : W) (th : Thread) : W × Thread × Option W :=
  match th.frame with
  | none =>
    match th.todo with
    | [] => (c, th, none)
    | call :: rest => (c, { th with frame := some { call := call, pc := 0, r0 := 0#64, r1 := 0#64 }, todo := rest }, none)
  | some f =>
    match (p.of f.call)[f.pc]? with
    | none => (c, { th with frame := none, done := ⟨f.call, none⟩ :: th.done }, none)
    | some i =>
      let o := execInstr c f i
      match o.frame with
      | some f' => (o.counter, { th with frame := some f' }, o.inc)
      | none => (o.counter, { th with frame := none, done := ⟨f.call, o.result⟩ :: th.done }, o.inc)

def step (p : Progs) (s : Sys) (t : Nat) : Sys :=
  match s.threads[t]? with
  | none => s
  | some th =>
    let (c, th', inc) := stepThread p s.counter th
    { counter := c, threads := s.threads.set t th',
      incs := match inc with | some v => v :: s.incs | none => s.incs }

def run (p : Progs) (s : Sys) (sched : List Nat) : Sys := sched.foldl (step p) s

/-- The step about to be taken overflows the 64-bit counter: an `add` at the
maximum value, or a successful CAS that installs `v + k` wrapped.  These are
exactly the steps excluded by the `NoOverflow` hypothesis of the theorems. -/
def threadOverflow (p : Progs) (c : W) (th : Thread) : Bool :=
  match th.frame with
  | none => false
  | some f =>
    match (p.of f.call)[f.pc]? with
    | some (.add _ k) => decide (c.toNat + k ≥ 2 ^ 64)
    | some (.casPlus o n k _) => decide (c = f.get o ∧ (f.get n).toNat + k ≥ 2 ^ 64)
    | _ => false

def overflowStep (p : Progs) (s : Sys) (t : Nat) : Bool :=
  match s.threads[t]? with
  | none => false
  | some th => threadOverflow p s.counter th

/-- No step of the run overflows. -/
def NoOverflow (p : Progs) : Sys → List Nat → Prop
  | _, [] => True
  | s, t :: rest => overflowStep p s t = false ∧ NoOverflow p (step p s t) rest

instance (p : Progs) : (s : Sys) → (sched : List Nat) → Decidable (NoOverflow p s sched)
  | _, [] => isTrue trivial
  | s, t :: rest =>
    have := instDecidableNoOverflow p (step p s t) rest
    (inferInstance : Decidable (_ ∧ _))

/-- Run a single call to completion on a private clock (the sequential contract).
`fuel` bounds the retry loop; sequentially a CAS never fails, so the programs
finish within their length. -/
def runSeq (p : Progs) (c : W) (call : Call) (fuel : Nat := 8) : W × Option W :=
  let s0 : Sys := Sys.init c [[call]]
  let s := run p s0 (List.replicate fuel 0)
  (s.counter, match s.threads with
    | [th] => (th.done.head?.bind (·.result))
    | _ => none)

end SerfModel.Atomic
