/-
Model of serf/coalesce.go: the `coalescer` interface and `coalesceLoop`.

The loop is a state machine whose inputs are exactly the four cases of its
`select`: an event arriving on `inCh`, the quantum timer, the quiescent timer,
and `shutdownCh`.  A timer input is enabled only while the timer is armed (a
receive from a nil channel blocks forever); the model treats a disabled input as
a no-op, so theorems may quantify over *all* input sequences.  One step is one
iteration of the loop body including the `FLUSH:` block: an unhandled event is
sent to `outCh` inside the very step that received it, i.e. before the next
input is taken.  After a shutdown flush the goroutine has returned: later
inputs produce nothing.
-/
import SerfModel.Prelude.Basic
namespace SerfModel.CoalesceLoop

/-- `type coalescer interface { Handle; Coalesce; Flush }` -/
structure Coalescer (ε : Type) where
  σ : Type
  init : σ
  handle : ε → Bool
  coalesce : σ → ε → σ
  flush : σ → σ × List ε

inductive In (ε : Type) where
  | ev (e : ε)
  | quantum
  | quiescent
  | shutdown
  deriving Repr

structure St {ε : Type} (C : Coalescer ε) where
  c : C.σ
  /-- `quantum != nil` -/
  quantum : Bool := false
  /-- `quiescent != nil` -/
  quiescent : Bool := false
  /-- the goroutine returned (shutdown flush done) -/
  done : Bool := false

def init {ε : Type} (C : Coalescer ε) : St C := { c := C.init }

/-- `FLUSH:` — `c.Flush(outCh)`, then back to `INGEST:` (timers reset) unless shut down. -/
def flushNow {ε : Type} (C : Coalescer ε) (s : St C) (shutdown : Bool) : St C × List ε :=
  let r := C.flush s.c
  ({ c := r.1, quantum := false, quiescent := false, done := shutdown }, r.2)

/-- One iteration of the loop: the new state and what was sent to `outCh`. -/
def step {ε : Type} (C : Coalescer ε) (s : St C) : In ε → St C × List ε
  | .ev e =>
    if s.done then (s, [])
    else if !C.handle e then (s, [e])
    else ({ s with c := C.coalesce s.c e, quantum := true, quiescent := true }, [])
  | .quantum => if s.done || !s.quantum then (s, []) else flushNow C s false
  | .quiescent => if s.done || !s.quiescent then (s, []) else flushNow C s false
  | .shutdown => if s.done then (s, []) else flushNow C s true

/-- Run the loop over a sequence of inputs; one output list per input. -/
def run {ε : Type} (C : Coalescer ε) (s : St C) : List (In ε) → St C × List (List ε)
  | [] => (s, [])
  | i :: is =>
    let r := step C s i
    let r' := run C r.1 is
    (r'.1, r.2 :: r'.2)

end SerfModel.CoalesceLoop
