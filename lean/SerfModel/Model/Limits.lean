/-
C33 model: the size-limit functions are *interpreted from the generated step lists*
(Gen/Limits.lean), with the numeric operands supplied by an environment; encoded lengths
come from the msgpack/codec model, so they are exact.
-/
import SerfModel.Gen.Limits
import SerfModel.Model.Codec
namespace SerfModel.Limits
open SerfModel.LimitSteps SerfModel.Msgpack SerfModel.Codec

structure Cfg where
  ueLimit : Nat   -- Config.UserEventSizeLimit
  qLimit : Nat    -- Config.QuerySizeLimit
  rLimit : Nat    -- Config.QueryResponseSizeLimit
  deriving Repr

def hard : Nat := Gen.Limits.userEventSizeLimitConst

/-- UserEvent(name, payload, coalesce): parameters 0 and 1 are the name and the payload -/
def ueEnv (cfg : Cfg) (nameLen payloadLen encLen : Nat) : Opnd → Nat
  | .sumLenParams is => if is = [0, 1] then nameLen + payloadLen else 0
  | .lenEnc _ _ _ => encLen
  | .cfg f => if f = "UserEventSizeLimit" then cfg.ueLimit else 0
  | .const n => n
  | .other _ => 0

/-- (*Serf).UserEvent with `len(name)`, `len(payload)` and the encoded length given -/
def userEvent (cfg : Cfg) (nameLen payloadLen encLen : Nat) : Outcome :=
  run (ueEnv cfg nameLen payloadLen encLen) (fun _ => false) Gen.Limits.userEvent []

/-- encoded length of a user event: exact, from the codec model -/
def ueEncLen (ltime : Nat) (name : Bytes) (payload : Option Bytes) (cc : Bool) : Nat :=
  (encodeMessage 3 (UserEv.toMP { ltime := ltime, name := name, payload := payload, cc := cc })).length

def qEnv (cfg : Cfg) (encLen : Nat) : Opnd → Nat
  | .lenEnc _ _ _ => encLen
  | .cfg f => if f = "QuerySizeLimit" then cfg.qLimit else 0
  | .const n => n
  | _ => 0

/-- (*Serf).Query; `tf` decides the non-size tests (protocol version too old) -/
def queryT (cfg : Cfg) (encLen : Nat) (tf : String → Bool) : Outcome :=
  run (qEnv cfg encLen) tf Gen.Limits.query []

def query (cfg : Cfg) (encLen : Nat) : Outcome := queryT cfg encLen (fun _ => false)

def qEncLen (q : Query) : Nat := (encodeMessage 4 q.toMP).length

def rEnv (cfg : Cfg) (len : Nat) : Opnd → Nat
  | .sumLenParams is => if is = [0] then len else 0
  | .lenEnc _ _ _ => len
  | .cfg f => if f = "QueryResponseSizeLimit" then cfg.rLimit else 0
  | .const n => n
  | .other _ => 0

/-- (*Query).respondWithMessageAndResponse(raw, resp): parameter 0 is the ENCODED response;
`tf` decides the non-size tests (already responded, past the deadline) -/
def respondWithT (cfg : Cfg) (respLen : Nat) (tf : String → Bool) : Outcome :=
  run (rEnv cfg respLen) tf Gen.Limits.respondWithMessageAndResponse []

def respondWith (cfg : Cfg) (respLen : Nat) : Outcome := respondWithT cfg respLen (fun _ => false)

/-- (*Serf).relayResponse once it has decided to relay -/
def relay (cfg : Cfg) (relayLen : Nat) : Outcome :=
  run (rEnv cfg relayLen) (fun _ => false) Gen.Limits.relayResponse []

def respEncLen (r : QueryResp) : Nat := (encodeMessage 5 r.toMP).length
def relayEncLen (h : RelayHdr) (r : QueryResp) : Nat := (encodeRelay h 5 r.toMP).length

end SerfModel.Limits
