/-
C33 model: the size-limit functions are *interpreted from the generated statement
lists* (Gen/Limits.lean), with the numeric operands supplied by an environment; encoded
lengths come from the msgpack/codec model, so they are exact.
-/
import SerfModel.Gen.Limits
import SerfModel.Model.Codec
namespace SerfModel.Limits
open SerfModel.LimitSteps SerfModel.Msgpack SerfModel.Codec

structure Cfg where
  ueLimit : Nat   -- Config.UserEventSizeLimit
  qLimit : Nat    -- Config.QuerySizeLimit
  rLimit : Nat    -- Config.QueryResponseSizeLimit
  deriving Repr

def hard : Nat := Gen.Limits.userEventSizeLimitConst

def ueEnv (cfg : Cfg) (nameLen payloadLen encLen : Nat) (s : String) : Nat :=
  if s = "len(name) + len(payload)" then nameLen + payloadLen
  else if s = "len(raw)" then encLen
  else if s = "s.config.UserEventSizeLimit" then cfg.ueLimit
  else if s = "UserEventSizeLimit" then hard
  else 0

/-- (*Serf).UserEvent with `len(name)`, `len(payload)` and `len(raw)` given -/
def userEvent (cfg : Cfg) (nameLen payloadLen encLen : Nat) : Outcome :=
  run (ueEnv cfg nameLen payloadLen encLen) (fun _ => false) Gen.Limits.userEvent []

/-- `len(raw)` of a user event: exact, from the codec model -/
def ueEncLen (ltime : Nat) (name : Bytes) (payload : Option Bytes) (cc : Bool) : Nat :=
  (encodeMessage 3 (UserEv.toMP { ltime := ltime, name := name, payload := payload, cc := cc })).length

def qEnv (cfg : Cfg) (encLen : Nat) (s : String) : Nat :=
  if s = "len(raw)" then encLen
  else if s = "s.config.QuerySizeLimit" then cfg.qLimit
  else 0

/-- (*Serf).Query from the point where the message is built -/
def query (cfg : Cfg) (encLen : Nat) : Outcome :=
  run (qEnv cfg encLen) (fun _ => false) Gen.Limits.query []

def qEncLen (q : Query) : Nat := (encodeMessage 4 q.toMP).length

def rEnv (cfg : Cfg) (len : Nat) (s : String) : Nat :=
  if s = "len(resp)" then len
  else if s = "len(raw)" then len
  else if s = "q.serf.config.QueryResponseSizeLimit" then cfg.rLimit
  else if s = "s.config.QueryResponseSizeLimit" then cfg.rLimit
  else 0

/-- (*Query).respondWithMessageAndResponse: the `check` step runs checkResponseSize on the same length -/
def respondWith (cfg : Cfg) (respLen : Nat) : Outcome :=
  run (rEnv cfg respLen)
    (fun c => c = "q.checkResponseSize(raw)" && !(run (rEnv cfg respLen) (fun _ => false) Gen.Limits.checkResponseSize []).ok)
    Gen.Limits.respondWithMessageAndResponse []

/-- (*Serf).relayResponse once it has decided to relay -/
def relay (cfg : Cfg) (relayLen : Nat) : Outcome :=
  run (rEnv cfg relayLen) (fun _ => false) Gen.Limits.relayResponse []

def respEncLen (r : QueryResp) : Nat := (encodeMessage 5 r.toMP).length
def relayEncLen (h : RelayHdr) (r : QueryResp) : Nat := (encodeRelay h 5 r.toMP).length

end SerfModel.Limits
