/-
Shapes extracted from cmd/serf/command/agent/ipc*.go for C25 (reply headers carry
the sequence number of the request / stream).  See extract/ipcheaders.go.
-/
namespace SerfModel.IpcHeaders

/-- one `responseHeader{Seq: <seqExpr>, …}` composite literal -/
structure HeaderSite where
  func : String
  /-- receiver variable and type of the enclosing function -/
  recv : String
  recvType : String
  seqExpr : String
  /-- where the enclosing function's variable `seq` comes from: `param`, `local:<expr>` or `none` -/
  seqOrigin : String
  /-- writes to `seq` in the enclosing function other than its definition -/
  seqWrites : Nat
  deriving Repr, DecidableEq

/-- a stream constructor's composite literal -/
structure CtorSite where
  typ : String
  func : String
  seqFieldExpr : String
  hasSeqParam : Bool
  seqWrites : Nat
  deriving Repr, DecidableEq

/-- a call that passes a sequence number on (to a handler or a stream constructor) -/
structure CallSite where
  caller : String
  callee : String
  seqArg : String
  deriving Repr, DecidableEq

def streamTypes : List String := ["eventStream", "queryResponseStream", "logStream"]

/-- The header's Seq is the handler's own `seq` (its parameter, or in handleRequest the
local read from the request header, never written again), or the stream's stored field. -/
def HeaderSite.ok (s : HeaderSite) : Bool :=
  (s.seqExpr == "seq" && (s.seqOrigin == "param" || s.seqOrigin == "local:reqHeader.Seq") && s.seqWrites == 0 &&
      !streamTypes.contains s.recvType)
  || (s.recv != "" && s.seqExpr == s.recv ++ ".seq" && streamTypes.contains s.recvType)

def CtorSite.ok (c : CtorSite) : Bool :=
  c.seqFieldExpr == "seq" && c.hasSeqParam && c.seqWrites == 0

def CallSite.ok (c : CallSite) : Bool := c.seqArg == "seq"

end SerfModel.IpcHeaders
