/-
A formal msgpack value type and the encoder / decoder of
github.com/hashicorp/go-msgpack/v2 (codec/msgpack.go) with the *default*
`MsgpackHandle{}` serf uses everywhere (messages.go, serf.go encodeTags):

* `WriteExt = false`: Go `string` and `[]byte` are both written with the legacy
  "raw" family — fixraw (len < 32), raw16 (0xda), raw32 (0xdb).  str8 (0xd9) and
  the bin family (0xc4–0xc6) are never produced, but the decoder accepts them.
  So the wire does not distinguish strings from byte strings: one constructor `raw`.
* unsigned integers (`EncodeUint`): positive fixint ≤ 127, then uint8/16/32/64.
* signed integers (`EncodeInt`, `PositiveIntUnsigned = false`): −32…127 one byte
  (fixint), < −32: int8/16/32/64, > 127: int16/int32/int64 (never int8, never the
  uint family).  A non-negative fixint byte is the same for signed and unsigned
  sources, so a canonical value uses `uint` for 0…127 and `int` otherwise.
* arrays fixarray/array16/array32, maps fixmap/map16/map32, nil 0xc0, bool 0xc2/0xc3,
  float32 0xca / float64 0xcb (carried as bit patterns).
* lengths are truncated to 32 bits by the library, hence the explicit
  well-formedness predicate `wf` (sizes < 2^32, integers in 64-bit range).

ext types and 0xc1 are not modelled: `decode` rejects them (the checker classifies
inputs containing such bytes as outside the modelled subset).
Core Lean only.
-/
namespace SerfModel.Msgpack

abbrev Bytes := List UInt8

inductive MP where
  | nil
  | bool (b : Bool)
  | uint (n : Nat)
  | int (i : Int)
  | f32 (bits : Nat)
  | f64 (bits : Nat)
  | raw (bs : Bytes)
  | arr (xs : List MP)
  | map (kvs : List (MP × MP))
  deriving Inhabited

/-! ### big-endian integers -/

/-- `k` big-endian bytes of `n` (the low `8k` bits, as Go's `uintN(n)` conversion). -/
def beBytes : Nat → Nat → Bytes
  | 0, _ => []
  | k + 1, n => beBytes k (n / 256) ++ [UInt8.ofNat (n % 256)]

def beNat (bs : Bytes) : Nat := bs.foldl (fun acc b => acc * 256 + b.toNat) 0

/-- Split off exactly `k` bytes. -/
def takeN (k : Nat) (bs : Bytes) : Option (Bytes × Bytes) :=
  if k ≤ bs.length then some (bs.take k, bs.drop k) else none

def readLen (k : Nat) (bs : Bytes) : Option (Nat × Bytes) :=
  match takeN k bs with
  | some (h, r) => some (beNat h, r)
  | none => none

/-! ### encoder (go-msgpack's choices) -/

/-- `writeContainerLen(msgpackContainerRawLegacy, l)` -/
def rawHdr (l : Nat) : Bytes :=
  if l < 32 then [UInt8.ofNat (0xa0 + l)]
  else if l < 65536 then 0xda :: beBytes 2 l
  else 0xdb :: beBytes 4 l

/-- `writeContainerLen(msgpackContainerList, l)` -/
def arrHdr (l : Nat) : Bytes :=
  if l < 16 then [UInt8.ofNat (0x90 + l)]
  else if l < 65536 then 0xdc :: beBytes 2 l
  else 0xdd :: beBytes 4 l

/-- `writeContainerLen(msgpackContainerMap, l)` -/
def mapHdr (l : Nat) : Bytes :=
  if l < 16 then [UInt8.ofNat (0x80 + l)]
  else if l < 65536 then 0xde :: beBytes 2 l
  else 0xdf :: beBytes 4 l

/-- `EncodeUint` -/
def encUint (n : Nat) : Bytes :=
  if n ≤ 127 then [UInt8.ofNat n]
  else if n ≤ 255 then 0xcc :: beBytes 1 n
  else if n ≤ 65535 then 0xcd :: beBytes 2 n
  else if n ≤ 4294967295 then 0xce :: beBytes 4 n
  else 0xcf :: beBytes 8 n

/-- `EncodeInt` with `PositiveIntUnsigned = false`, `NoFixedNum = false` -/
def encInt (i : Int) : Bytes :=
  if i > 127 then
    if i ≤ 32767 then 0xd1 :: beBytes 2 i.toNat
    else if i ≤ 2147483647 then 0xd2 :: beBytes 4 i.toNat
    else 0xd3 :: beBytes 8 i.toNat
  else if i ≥ 0 then [UInt8.ofNat i.toNat]
  else if i ≥ -32 then [UInt8.ofNat (i + 256).toNat]
  else if i ≥ -128 then 0xd0 :: beBytes 1 (i + 256).toNat
  else if i ≥ -32768 then 0xd1 :: beBytes 2 (i + 65536).toNat
  else if i ≥ -2147483648 then 0xd2 :: beBytes 4 (i + 4294967296).toNat
  else 0xd3 :: beBytes 8 (i + 18446744073709551616).toNat

mutual
def encode : MP → Bytes
  | .nil => [0xc0]
  | .bool b => [if b then 0xc3 else 0xc2]
  | .uint n => encUint n
  | .int i => encInt i
  | .f32 bits => 0xca :: beBytes 4 bits
  | .f64 bits => 0xcb :: beBytes 8 bits
  | .raw bs => rawHdr bs.length ++ bs
  | .arr xs => arrHdr xs.length ++ encodeList xs
  | .map kvs => mapHdr kvs.length ++ encodePairs kvs
def encodeList : List MP → Bytes
  | [] => []
  | x :: xs => encode x ++ encodeList xs
def encodePairs : List (MP × MP) → Bytes
  | [] => []
  | (k, v) :: r => encode k ++ (encode v ++ encodePairs r)
end

/-! ### well-formedness: what the encoder represents faithfully -/

mutual
def wf : MP → Bool
  | .nil => true
  | .bool _ => true
  | .uint n => n < 18446744073709551616
  | .int i => (i < 0 || 127 < i) && (-9223372036854775808 ≤ i && i < 9223372036854775808)
  | .f32 bits => bits < 4294967296
  | .f64 bits => bits < 18446744073709551616
  | .raw bs => bs.length < 4294967296
  | .arr xs => xs.length < 4294967296 && wfList xs
  | .map kvs => kvs.length < 4294967296 && wfPairs kvs
def wfList : List MP → Bool
  | [] => true
  | x :: xs => wf x && wfList xs
def wfPairs : List (MP × MP) → Bool
  | [] => true
  | (k, v) :: r => wf k && (wf v && wfPairs r)
end

/-! Nesting depth (the decoder's fuel). -/
mutual
def depth : MP → Nat
  | .arr xs => 1 + depthList xs
  | .map kvs => 1 + depthPairs kvs
  | _ => 1
def depthList : List MP → Nat
  | [] => 0
  | x :: xs => max (depth x) (depthList xs)
def depthPairs : List (MP × MP) → Nat
  | [] => 0
  | (k, v) :: r => max (depth k) (max (depth v) (depthPairs r))
end

/-! ### decoder (accepts every format go-msgpack's decoder accepts for these kinds) -/

def decList (dec : Bytes → Option (MP × Bytes)) : Nat → Bytes → Option (List MP × Bytes)
  | 0, bs => some ([], bs)
  | n + 1, bs =>
    match dec bs with
    | none => none
    | some (x, r) =>
      match decList dec n r with
      | none => none
      | some (xs, r') => some (x :: xs, r')

def decPairs (dec : Bytes → Option (MP × Bytes)) : Nat → Bytes → Option (List (MP × MP) × Bytes)
  | 0, bs => some ([], bs)
  | n + 1, bs =>
    match dec bs with
    | none => none
    | some (k, r) =>
      match dec r with
      | none => none
      | some (v, r') =>
        match decPairs dec n r' with
        | none => none
        | some (kvs, r'') => some ((k, v) :: kvs, r'')

def mkRaw (l : Nat) (bs : Bytes) : Option (MP × Bytes) :=
  match takeN l bs with
  | some (d, r) => some (.raw d, r)
  | none => none

def mkArr (dec : Bytes → Option (MP × Bytes)) (l : Nat) (bs : Bytes) : Option (MP × Bytes) :=
  match decList dec l bs with
  | some (xs, r) => some (.arr xs, r)
  | none => none

def mkMap (dec : Bytes → Option (MP × Bytes)) (l : Nat) (bs : Bytes) : Option (MP × Bytes) :=
  match decPairs dec l bs with
  | some (kvs, r) => some (.map kvs, r)
  | none => none

/-- two's complement reading of a `k`-byte big-endian field -/
def signedOf (k : Nat) (n : Nat) : Int :=
  if n < 2 ^ (8 * k - 1) then (n : Int) else (n : Int) - (2 ^ (8 * k) : Nat)

def withLen (k : Nat) (bs : Bytes) (f : Nat → Bytes → Option (MP × Bytes)) : Option (MP × Bytes) :=
  match readLen k bs with
  | some (n, r) => f n r
  | none => none

/-- One msgpack value from the front of the input; `fuel` bounds the nesting depth. -/
def decodeF : Nat → Bytes → Option (MP × Bytes)
  | 0, _ => none
  | _ + 1, [] => none
  | fuel + 1, b :: rest =>
    let t := b.toNat
    if t < 0x80 then some (.uint t, rest)
    else if t < 0x90 then mkMap (decodeF fuel) (t - 0x80) rest
    else if t < 0xa0 then mkArr (decodeF fuel) (t - 0x90) rest
    else if t < 0xc0 then mkRaw (t - 0xa0) rest
    else if 0xe0 ≤ t then some (.int ((t : Int) - 256), rest)
    else if t = 0xc0 then some (.nil, rest)
    else if t = 0xc2 then some (.bool false, rest)
    else if t = 0xc3 then some (.bool true, rest)
    else if t = 0xc4 then withLen 1 rest mkRaw
    else if t = 0xc5 then withLen 2 rest mkRaw
    else if t = 0xc6 then withLen 4 rest mkRaw
    else if t = 0xca then withLen 4 rest (fun n r => some (.f32 n, r))
    else if t = 0xcb then withLen 8 rest (fun n r => some (.f64 n, r))
    else if t = 0xcc then withLen 1 rest (fun n r => some (.uint n, r))
    else if t = 0xcd then withLen 2 rest (fun n r => some (.uint n, r))
    else if t = 0xce then withLen 4 rest (fun n r => some (.uint n, r))
    else if t = 0xcf then withLen 8 rest (fun n r => some (.uint n, r))
    else if t = 0xd0 then withLen 1 rest (fun n r => some (.int (signedOf 1 n), r))
    else if t = 0xd1 then withLen 2 rest (fun n r => some (.int (signedOf 2 n), r))
    else if t = 0xd2 then withLen 4 rest (fun n r => some (.int (signedOf 4 n), r))
    else if t = 0xd3 then withLen 8 rest (fun n r => some (.int (signedOf 8 n), r))
    else if t = 0xd9 then withLen 1 rest mkRaw
    else if t = 0xda then withLen 2 rest mkRaw
    else if t = 0xdb then withLen 4 rest mkRaw
    else if t = 0xdc then withLen 2 rest (mkArr (decodeF fuel))
    else if t = 0xdd then withLen 4 rest (mkArr (decodeF fuel))
    else if t = 0xde then withLen 2 rest (mkMap (decodeF fuel))
    else if t = 0xdf then withLen 4 rest (mkMap (decodeF fuel))
    else none

/-- Decode one value; nesting can never exceed the number of input bytes. -/
def decode (bs : Bytes) : Option (MP × Bytes) := decodeF (bs.length + 1) bs

/-- bytes outside the modelled subset (0xc1, ext family) -/
def exoticByte (b : UInt8) : Bool :=
  b == 0xc1 || (0xc7 ≤ b && b ≤ 0xc9) || (0xd4 ≤ b && b ≤ 0xd8)

end SerfModel.Msgpack
