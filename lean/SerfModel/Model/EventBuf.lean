/-
Model of the de-duplication buffers of serf/serf.go: `handleUserEvent` (user
events, items = (name, payload)) and the front half of `handleQuery` (queries,
items = query ids), and of the event replay of `delegate.MergeRemoteState`
(serf/delegate.go).

The Lamport clock is advanced with the *generated* `Witness` program
(`SerfModel.Gen.Lamport`, regenerated from serf/lamport.go on every run), so the
64-bit behaviour — including the wrap at 2^64−1 — is whatever the source says.

All arithmetic is `uint64` (`BitVec 64`) exactly as in Go: `LamportTime(len(buf))`
is `BitVec.ofNat 64 N`, `curTime - N` wraps, `LTime % N` is unsigned remainder.
-/
import SerfModel.Model.Atomic
import SerfModel.Gen.Lamport
namespace SerfModel.EventBuf
open SerfModel.Atomic

/-- `clock.Witness(v)` run sequentially through the generated program. -/
def witness (cur v : W) : W := (runSeq SerfModel.Gen.Lamport.progs cur (.witness v)).1

/-- One node's de-dup buffer: `eventClock`/`queryClock`, `eventMinTime`/`queryMinTime`,
`eventBuffer`/`queryBuffer` (a slot is `nil` or `{LTime, items}`). -/
structure Buf (α : Type) where
  clock : W
  minTime : W
  slots : List (Option (W × List α))
  deriving Repr

/-- State right after `Create` without a snapshot: clocks incremented once, empty
buffer of the configured size. -/
def Buf.init {α : Type} (N : Nat) : Buf α := { clock := 1#64, minTime := 0#64, slots := List.replicate N none }

/-- State after `Create` in general: a snapshot restores the clock (`Witness(old)`)
and sets the cut-off (`old + 1`); the theorems hold for any such start. -/
def Buf.start {α : Type} (N : Nat) (clock minTime : W) : Buf α :=
  { clock := clock, minTime := minTime, slots := List.replicate N none }

inductive Res where
  | belowMin | tooOld | dup | delivered
  deriving DecidableEq, Repr, Inhabited

/-- `LamportTime(len(s.eventBuffer))` -/
def nW (N : Nat) : W := BitVec.ofNat 64 N

/-- `curTime > LamportTime(len(buf)) && LTime < curTime-LamportTime(len(buf))` -/
def tooOld (N : Nat) (cur lt : W) : Bool := decide (nW N < cur ∧ lt < cur - nW N)

/-- `idx := LTime % LamportTime(len(buf))` -/
def slotIdx (N : Nat) (lt : W) : Nat := (lt % nW N).toNat

/-- The items already recorded for time `lt`: `seen.Events` if the slot holds the
same time, otherwise the fresh `&userEvents{LTime: lt}` (no items). -/
def seenAt {α : Type} (slots : List (Option (W × List α))) (idx : Nat) (lt : W) : List α :=
  match slots[idx]? with
  | some (some (t, xs)) => if t = lt then xs else []
  | _ => []

/-- `handleUserEvent` / front half of `handleQuery`:
witness; drop below the minimum time; drop when too old; slot lookup; drop a
duplicate; otherwise (overwrite the slot if it holds another time and) append. -/
def handle {α : Type} [DecidableEq α] (b : Buf α) (lt : W) (x : α) : Buf α × Res :=
  let N := b.slots.length
  let cur := witness b.clock lt
  if lt < b.minTime then ({ b with clock := cur }, .belowMin)
  else if tooOld N cur lt then ({ b with clock := cur }, .tooOld)
  else
    let idx := slotIdx N lt
    let prev := seenAt b.slots idx lt
    if x ∈ prev then ({ b with clock := cur }, .dup)
    else ({ b with clock := cur, slots := b.slots.set idx (some (lt, prev ++ [x])) }, .delivered)

/-- Inputs of one node's user-event buffer. -/
inductive In (α : Type) where
  /-- a user event message delivered by gossip (`NotifyMsg`) -/
  | gossip (lt : W) (x : α)
  /-- a push/pull state (`MergeRemoteState`): the remote event clock, whether the
  cut-off is raised (`isJoin ∧ eventJoinIgnore`), and the remote buffer image -/
  | pushPull (eventLTime : W) (raise : Bool) (image : List (Option (W × List α)))
  deriving Repr

/-- The replay order of `MergeRemoteState`: slots in order, events in order, nil slots skipped. -/
def flatten {α : Type} (image : List (Option (W × List α))) : List (W × α) :=
  image.flatMap fun
    | none => []
    | some (t, xs) => xs.map (fun x => (t, x))

/-- Feed a list of (time, item) through `handle`, collecting the deliveries. -/
def handleAll {α : Type} [DecidableEq α] (b : Buf α) : List (W × α) → Buf α × List (W × α)
  | [] => (b, [])
  | (t, x) :: rest =>
    let (b1, r) := handle b t x
    let (b2, ds) := handleAll b1 rest
    (b2, if r = .delivered then (t, x) :: ds else ds)

/-- `if pp.EventLTime > 0 { eventClock.Witness(pp.EventLTime - 1) }` -/
def witnessRemote {α : Type} (b : Buf α) (e : W) : Buf α :=
  if 0#64 < e then { b with clock := witness b.clock (e - 1#64) } else b

/-- `if isJoin && eventJoinIgnore { if pp.EventLTime > eventMinTime { eventMinTime = pp.EventLTime } }` -/
def raiseMin {α : Type} (b : Buf α) (raise : Bool) (e : W) : Buf α :=
  if raise ∧ b.minTime < e then { b with minTime := e } else b

def stepIn {α : Type} [DecidableEq α] (b : Buf α) : In α → Buf α × List (W × α)
  | .gossip lt x => handleAll b [(lt, x)]
  | .pushPull e raise image => handleAll (raiseMin (witnessRemote b e) raise e) (flatten image)

/-- Run a history; the result is the final buffer and everything handed to the
application, in order. -/
def run {α : Type} [DecidableEq α] (b : Buf α) : List (In α) → Buf α × List (W × α)
  | [] => (b, [])
  | i :: rest =>
    let (b1, d1) := stepIn b i
    let (b2, d2) := run b1 rest
    (b2, d1 ++ d2)

def deliveries {α : Type} [DecidableEq α] (b : Buf α) (ins : List (In α)) : List (W × α) := (run b ins).2

/-- The user-event part of `delegate.MergeRemoteState` as source text fragments,
regenerated from serf/delegate.go (`SerfModel/Gen/PushPullReplay.lean`). -/
structure ReplayShape where
  /-- guard and argument of `eventClock.Witness(…)` -/
  witnessGuard : String
  witnessArg : String
  /-- where `eventJoinIgnore` is read from -/
  ignoreFrom : String
  /-- outer guard, inner test and assignment of the cut-off raise -/
  raiseGuard : String
  raiseTest : String
  raiseAssign : String
  /-- the test-and-assign runs between `eventLock.Lock()` and `eventLock.Unlock()` -/
  raiseUnderLock : Bool
  /-- order of the three parts in the function body -/
  order : List String
  /-- the replay loop: what it ranges over, whether nil slots are skipped, where time,
  name and payload of each replayed message come from, and the handler call -/
  rangeOver : String
  skipsNil : Bool
  ltimeFrom : String
  innerRange : String
  nameFrom : String
  payloadFrom : String
  handlerArg : String
  /-- number of `handleUserEvent` calls in the whole function (all inside the loop) -/
  handlerCalls : Nat
  deriving DecidableEq, Repr, Inhabited

/-- The shape `witnessRemote`, `raiseMin`, `flatten` and `stepIn` model:
`if pp.EventLTime > 0 { eventClock.Witness(pp.EventLTime - 1) }`, then
`if isJoin && eventJoinIgnore { lock; if pp.EventLTime > eventMinTime { eventMinTime = pp.EventLTime }; unlock }`,
then every event of every non-nil slot, in order, through `handleUserEvent`. -/
def modelledReplayShape : ReplayShape :=
  { witnessGuard := "pp.EventLTime > 0", witnessArg := "pp.EventLTime - 1",
    ignoreFrom := "d.serf.eventJoinIgnore.Load().(bool)", raiseGuard := "isJoin && eventJoinIgnore",
    raiseTest := "pp.EventLTime > d.serf.eventMinTime", raiseAssign := "d.serf.eventMinTime = pp.EventLTime",
    raiseUnderLock := true, order := ["witness", "raise", "replay"],
    rangeOver := "pp.Events", skipsNil := true, ltimeFrom := "slot.LTime", innerRange := "slot.Events",
    nameFrom := "event.Name", payloadFrom := "event.Payload", handlerArg := "&userEvent", handlerCalls := 1 }

/-- Every Lamport time carried by an input. -/
def In.times {α : Type} : In α → List W
  | .gossip lt _ => [lt]
  | .pushPull _ _ image => (flatten image).map (·.1)

end SerfModel.EventBuf
