/-
The statement-level IR of the size-limit functions (generated into Gen/Limits.lean by
extract/limits.go) and its interpreter.  A function body is a list of steps executed in
order; a guard whose left operand exceeds its right operand returns an error; effects
(deliver, queue, send, register, clock increment) are recorded.
-/
namespace SerfModel.LimitSteps

inductive Step where
  /-- `if lhs > rhs { return error }` -/
  | guard (lhs rhs : String)
  /-- `if err := call; err != nil { return err }` -/
  | check (call : String)
  /-- no observable effect -/
  | pure (what : String)
  /-- delivers / queues / sends / registers / advances a clock -/
  | effect (what : String) (args : String)
  | ret
  deriving DecidableEq, Repr

/-- result of running a body: `ok = false` when a guard (or failing check) returned an
error; `effects` = the effects performed before returning, in order -/
structure Outcome where
  ok : Bool
  effects : List String
  deriving DecidableEq, Repr

/-- `env` gives the numeric value of guard operands; `checks` says whether a `check`
call fails. -/
def run (env : String → Nat) (checkFails : String → Bool) : List Step → List String → Outcome
  | [], acc => ⟨true, acc.reverse⟩
  | .guard l r :: rest, acc => if env l > env r then ⟨false, acc.reverse⟩ else run env checkFails rest acc
  | .check c :: rest, acc => if checkFails c then ⟨false, acc.reverse⟩ else run env checkFails rest acc
  | .pure _ :: rest, acc => run env checkFails rest acc
  | .effect w _ :: rest, acc => run env checkFails rest (w :: acc)
  | .ret :: _, acc => ⟨true, acc.reverse⟩

def guards : List Step → List (String × String)
  | [] => []
  | .guard l r :: rest => (l, r) :: guards rest
  | _ :: rest => guards rest

end SerfModel.LimitSteps
