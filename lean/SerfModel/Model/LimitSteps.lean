/-
The statement-level IR of the size-limit functions (generated into Gen/Limits.lean by
extract/limits.go) and its interpreter.  A function body is a list of steps executed in
order; a guard whose left operand exceeds its right operand returns an error.  Two kinds
of side effects are recorded, in order, in the trace:
  * CLOCK steps — Increment / Witness of one of the node's Lamport clocks (also when the
    call sits inside the message literal).  Advancing the node's own clock is not
    something property C33 forbids for a rejected event;
  * OBSERVABLE effects — local delivery (handleUserEvent / handleQuery), QueueBroadcast,
    registerQueryResponse, SendToAddress, relay.
-/
namespace SerfModel.LimitSteps

inductive Step where
  /-- `if lhs > rhs { return error }` -/
  | guard (lhs rhs : String)
  /-- `if err := call; err != nil { return err }` -/
  | check (call : String)
  /-- no side effect -/
  | pure (what : String)
  /-- a Lamport clock step (`what` = "<clock>.<method>"), `stmt` = the statement text -/
  | clock (what : String) (stmt : String)
  /-- delivers / queues / sends / registers -/
  | effect (what : String) (args : String)
  | ret
  deriving DecidableEq, Repr

inductive Ev where
  | clock (what : String)
  | effect (what : String)
  deriving DecidableEq, Repr

/-- result of running a body: `ok = false` when a guard (or failing check) returned an
error; `trace` = the clock steps and observable effects performed before returning, in order -/
structure Outcome where
  ok : Bool
  trace : List Ev
  deriving DecidableEq, Repr

/-- the observable effects of a trace, in order -/
def observable : List Ev → List String
  | [] => []
  | .effect w :: r => w :: observable r
  | .clock _ :: r => observable r

def clocks : List Ev → List String
  | [] => []
  | .clock w :: r => w :: clocks r
  | .effect _ :: r => clocks r

def Outcome.effects (o : Outcome) : List String := observable o.trace

/-- `env` gives the numeric value of guard operands; `checkFails` says whether a `check`
call fails. -/
def run (env : String → Nat) (checkFails : String → Bool) : List Step → List Ev → Outcome
  | [], acc => ⟨true, acc.reverse⟩
  | .guard l r :: rest, acc => if env l > env r then ⟨false, acc.reverse⟩ else run env checkFails rest acc
  | .check c :: rest, acc => if checkFails c then ⟨false, acc.reverse⟩ else run env checkFails rest acc
  | .pure _ :: rest, acc => run env checkFails rest acc
  | .clock w _ :: rest, acc => run env checkFails rest (.clock w :: acc)
  | .effect w _ :: rest, acc => run env checkFails rest (.effect w :: acc)
  | .ret :: _, acc => ⟨true, acc.reverse⟩

def guards : List Step → List (String × String)
  | [] => []
  | .guard l r :: rest => (l, r) :: guards rest
  | _ :: rest => guards rest

def isGate : Step → Bool
  | .guard _ _ => true
  | .check _ => true
  | _ => false

def isEffect : Step → Bool
  | .effect _ _ => true
  | _ => false

/-- every observable effect comes after every guard/check: once an effect has been
performed no size test can still reject -/
def effectsAfterGates : List Step → Bool
  | [] => true
  | s :: rest => (if isEffect s then !(rest.any isGate) else true) && effectsAfterGates rest

/-- the kinds of side-effecting steps in order (guards as "guard", checks as "check") — the
skeleton the `decide` obligations pin down -/
def skeleton : List Step → List String
  | [] => []
  | .guard _ _ :: r => "guard" :: skeleton r
  | .check _ :: r => "check" :: skeleton r
  | .clock w _ :: r => ("clock:" ++ w) :: skeleton r
  | .effect w _ :: r => ("effect:" ++ w) :: skeleton r
  | _ :: r => skeleton r

end SerfModel.LimitSteps
