/-
The step-level IR of the size-limit functions (generated into Gen/Limits.lean by
extract/limits.go) and its interpreter.  A function body is reduced to the ordered list of
  * guards  — the function returns an error iff `lhs > rhs` (a size comparison, however it is spelled),
  * tests   — any other `if cond { return error }` (deadline passed, already responded, protocol too old),
  * CLOCK steps — Increment / Witness of one of the node's Lamport clocks (also inside the
    message literal).  Advancing the node's own clock is not something C33 forbids for a rejected event;
  * OBSERVABLE effects — local delivery (handleUserEvent / handleQuery), QueueBroadcast,
    registerQueryResponse, SendToAddress, relay.
Everything else (assignments, locks, encoding, error propagation, effect-free helpers) is
dropped by the extractor; operands and arguments are alpha-normalised and classified.
-/
namespace SerfModel.LimitSteps

/-- a guard operand -/
inductive Opnd where
  /-- `len(p_i) + …` over the function's parameters -/
  | sumLenParams (is : List Nat)
  /-- length of the result of encodeMessage / encodeRelayMessage: normalised call text, "fn:messageType",
  the keyed fields of the encoded message literal -/
  | lenEnc (desc typ : String) (fields : List (String × String))
  /-- `<recv>[.serf].config.<field>` -/
  | cfg (field : String)
  | const (n : Nat)
  | other (txt : String)
  deriving DecidableEq, Repr

/-- an effect argument -/
inductive Arg where
  /-- the result of an encode call (possibly wrapped, e.g. `&broadcast{msg: raw}`): "fn:messageType", call text -/
  | enc (typ desc : String)
  | param (i : Nat)
  | other (txt : String)
  deriving DecidableEq, Repr

inductive Step where
  | guard (lhs rhs : Opnd)
  | test (cond : String)
  | clock (what : String)
  | effect (what : String) (args : List Arg)
  deriving DecidableEq, Repr

inductive Ev where
  | clock (what : String)
  | effect (what : String)
  deriving DecidableEq, Repr

/-- `ok = false` when a guard or test returned an error; `trace` = the clock steps and
observable effects performed before returning, in order -/
structure Outcome where
  ok : Bool
  trace : List Ev
  deriving DecidableEq, Repr

def observable : List Ev → List String
  | [] => []
  | .effect w :: r => w :: observable r
  | .clock _ :: r => observable r

def clocks : List Ev → List String
  | [] => []
  | .clock w :: r => w :: clocks r
  | .effect _ :: r => clocks r

def Outcome.effects (o : Outcome) : List String := observable o.trace

/-- `env` gives the numeric value of guard operands; `testFails` says which tests return an error. -/
def run (env : Opnd → Nat) (testFails : String → Bool) : List Step → List Ev → Outcome
  | [], acc => ⟨true, acc.reverse⟩
  | .guard l r :: rest, acc => if env l > env r then ⟨false, acc.reverse⟩ else run env testFails rest acc
  | .test c :: rest, acc => if testFails c then ⟨false, acc.reverse⟩ else run env testFails rest acc
  | .clock w :: rest, acc => run env testFails rest (.clock w :: acc)
  | .effect w _ :: rest, acc => run env testFails rest (.effect w :: acc)

def guards : List Step → List (Opnd × Opnd)
  | [] => []
  | .guard l r :: rest => (l, r) :: guards rest
  | _ :: rest => guards rest

/-- an operand without the text of the encode call (what the obligations pin) -/
def Opnd.shape : Opnd → Opnd
  | .lenEnc _ typ _ => .lenEnc "" typ []
  | o => o

/-- an argument without the text of the encode call -/
def Arg.shape : Arg → Arg
  | .enc typ _ => .enc typ ""
  | a => a

def guardShapes (s : List Step) : List (Opnd × Opnd) := (guards s).map fun p => (p.1.shape, p.2.shape)

/-- the encode calls whose length is guarded: (typ, desc, fields) -/
def guardedEncs : List Step → List (String × String × List (String × String))
  | [] => []
  | .guard (.lenEnc d t f) _ :: rest => (t, d, f) :: guardedEncs rest
  | _ :: rest => guardedEncs rest

def effectArgs (name : String) : List Step → List (List Arg)
  | [] => []
  | .effect w a :: rest => if w = name then a :: effectArgs name rest else effectArgs name rest
  | _ :: rest => effectArgs name rest

def fieldOf (fields : List (String × String)) (k : String) : Option String :=
  match fields.find? (·.1 = k) with
  | some p => some p.2
  | none => none

def isGate : Step → Bool
  | .guard _ _ => true
  | .test _ => true
  | _ => false

def isEffect : Step → Bool
  | .effect _ _ => true
  | _ => false

/-- every observable effect comes after every guard / test -/
def effectsAfterGates : List Step → Bool
  | [] => true
  | s :: rest => (if isEffect s then !(rest.any isGate) else true) && effectsAfterGates rest

/-- the kinds of steps in order — the skeleton the `decide` obligations pin down -/
def skeleton : List Step → List String
  | [] => []
  | .guard _ _ :: r => "guard" :: skeleton r
  | .test c :: r => ("test:" ++ c) :: skeleton r
  | .clock w :: r => ("clock:" ++ w) :: skeleton r
  | .effect w _ :: r => ("effect:" ++ w) :: skeleton r

end SerfModel.LimitSteps
