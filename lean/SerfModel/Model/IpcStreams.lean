/-
IPC streams — models of cmd/serf/command/agent/ipc_event_stream.go (eventStream:
filters, the buffered `eventCh` with its non-blocking `HandleEvent`, the `stream`
loop) and ipc_query_response_stream.go (the `select` loop of
`queryResponseStream.Stream` over ackCh / respCh / done, as repaired: a closed
channel is dropped from the select).
-/
import SerfModel.Prelude.Basic
namespace SerfModel.IpcStreams

/-! ## Event stream -/

/-- What a filter can see of a serf event: `EventType().String()` and the user/query name. -/
structure Ev where
  kind : String
  name : String := ""
  /-- identity (payload / Lamport time), so that distinct events stay distinct -/
  id : Nat := 0
  deriving DecidableEq, Repr, Inhabited

/-- `EventFilter` -/
structure Filter where
  event : String
  name : String := ""
  deriving DecidableEq, Repr, Inhabited

/-- `EventFilter.Invoke` -/
def Filter.invoke (f : Filter) (e : Ev) : Bool :=
  if f.event == "*" then true
  else if e.kind != f.event then false
  else if f.event == "user" && f.name != "" then e.name == f.name
  else if f.event == "query" && f.name != "" then e.name == f.name
  else true

/-- `EventFilter.Valid` -/
def Filter.valid (f : Filter) : Bool :=
  ["member-join", "member-leave", "member-failed", "member-update", "member-reap", "user", "query", "*"].contains f.event

def dropPrefix (s : String) (n : Nat) : String := String.ofList (s.toList.drop n)

/-- `ParseEventFilter` -/
def parseFilters (v : String) : List Filter :=
  let v := if v == "" then "*" else v
  (v.splitOn ",").map fun ev =>
    if ev.startsWith "user:" then { event := "user", name := dropPrefix ev 5 }
    else if ev.startsWith "query:" then { event := "query", name := dropPrefix ev 6 }
    else { event := ev }

/-- the filter loop at the head of `HandleEvent` -/
def wanted (fs : List Filter) (e : Ev) : Bool := fs.any (·.invoke e)

/-- A schedule: events arriving at `HandleEvent`, interleaved with iterations of the
`stream` goroutine (receive one event from `eventCh` and send it to the client). -/
inductive Act
  | arrive (e : Ev)
  | consume
  /-- the goroutine receives one event but `client.Send` fails: `stream` logs and returns -/
  | consumeFail
  /-- `Stop()` (stop request or client disconnect): sets `stopped`, closes `eventCh` -/
  | stop
  deriving DecidableEq, Repr, Inhabited

structure ES where
  /-- contents of `eventCh`, oldest first -/
  buf : List Ev := []
  /-- records sent to the client, oldest first -/
  sent : List Ev := []
  /-- ghost: every wanted arrival at a live stream with its fate (`true` = entered the buffer) -/
  log : List (Ev × Bool) := []
  /-- `es.stopped` (HandleEvent returns early; the goroutine still drains what is buffered) -/
  stopped : Bool := false
  /-- the event whose `client.Send` failed (at most one: the goroutine returns) -/
  lost : List Ev := []
  /-- the `stream` goroutine has returned after a failed send -/
  dead : Bool := false
  deriving Repr, Inhabited

def esStep (fs : List Filter) (cap : Nat) (s : ES) : Act → ES
  | .arrive e =>
    if s.stopped then s                               -- `if es.stopped { return }`
    else if wanted fs e then
      if s.buf.length < cap then { s with buf := s.buf ++ [e], log := s.log ++ [(e, true)] }
      else { s with log := s.log ++ [(e, false)] }   -- `default:` branch: dropped
    else s
  | .consume =>
    if s.dead then s
    else match s.buf with
      | [] => s
      | e :: r => { s with buf := r, sent := s.sent ++ [e] }
  | .consumeFail =>
    if s.dead then s
    else match s.buf with
      | [] => s
      | e :: r => { s with buf := r, lost := [e], dead := true }
  | .stop => { s with stopped := true }

def esRun (fs : List Filter) (cap : Nat) (sched : List Act) : ES := sched.foldl (esStep fs cap) {}

/-- Variant (regression witness only): the filter loop does not stop at the first matching filter
but attempts one enqueue per matching filter. -/
def esStepPerFilter (fs : List Filter) (cap : Nat) (s : ES) : Act → ES
  | .arrive e =>
    (fs.filter (·.invoke e)).foldl (fun s _ =>
      if s.stopped then s
      else if s.buf.length < cap then { s with buf := s.buf ++ [e], log := s.log ++ [(e, true)] }
      else { s with log := s.log ++ [(e, false)] }) s
  | a => esStep fs cap s a

def esRunPerFilter (fs : List Filter) (cap : Nat) (sched : List Act) : ES := sched.foldl (esStepPerFilter fs cap) {}

/-! ### HandleEvent versus Stop

The agent's `eventLoop` snapshots the handler list, releases the lock and calls
`HandleEvent` on every copied handler, so `HandleEvent` can run after (or concurrently
with) `Stop()`.  How the two methods are serialised is extracted from the source
(`Gen/EventStreamStop.lean`).  When both hold `es.stopLock` each call is one atomic action
(mutex region), and any concurrent execution is a sequence of calls. -/

/-- Facts extracted from `eventStream.HandleEvent` / `eventStream.Stop`. -/
structure StopShape where
  /-- HandleEvent: `es.stopLock.Lock(); defer Unlock()` before every send on `eventCh` -/
  handleLock : Bool
  /-- HandleEvent: `if es.stopped { return }` under the lock, before every send -/
  handleTest : Bool
  /-- Stop: `es.stopLock.Lock(); defer Unlock()` before the close -/
  stopLock : Bool
  /-- Stop: `if es.stopped { return }` under the lock, before the close -/
  stopTest : Bool
  /-- Stop: `es.stopped = true` under the lock, before the close -/
  stopSetsBeforeClose : Bool
  /-- sends on / closes of `eventCh` in any other function of the file -/
  otherChannelOps : Nat
  deriving DecidableEq, Repr, Inhabited

def StopShape.ok (sh : StopShape) : Bool :=
  sh.handleLock && sh.handleTest && sh.stopLock && sh.stopTest && sh.stopSetsBeforeClose && sh.otherChannelOps == 0

/-- the repaired code -/
def goodShape : StopShape :=
  { handleLock := true, handleTest := true, stopLock := true, stopTest := true, stopSetsBeforeClose := true, otherChannelOps := 0 }

/-- the code before the repair: HandleEvent just sends, Stop just closes -/
def oldShape : StopShape :=
  { handleLock := false, handleTest := false, stopLock := false, stopTest := false, stopSetsBeforeClose := false, otherChannelOps := 0 }

inductive Call
  | handle (e : Ev)
  | stop
  deriving DecidableEq, Repr, Inhabited

structure SS where
  /-- `es.stopped` -/
  stopped : Bool := false
  /-- `eventCh` is closed -/
  closed : Bool := false
  buf : List Ev := []
  /-- a send on, or a close of, the closed channel happened: the process panics -/
  panicked : Bool := false
  /-- successful `close(eventCh)` executions -/
  closes : Nat := 0
  deriving DecidableEq, Repr, Inhabited

/-- One whole call (an atomic action when the method holds the lock; for a shape without
locks this is merely the sequential execution of the call). -/
def callStep (sh : StopShape) (fs : List Filter) (cap : Nat) (s : SS) : Call → SS
  | .handle e =>
    if !wanted fs e then s
    else if sh.handleTest && s.stopped then s
    else if s.closed then { s with panicked := true }          -- send on closed channel
    else if s.buf.length < cap then { s with buf := s.buf ++ [e] }
    else s                                                       -- `default:` dropped
  | .stop =>
    if sh.stopTest && s.stopped then s
    else if s.closed then { s with stopped := s.stopped || sh.stopSetsBeforeClose, panicked := true }  -- close of closed channel
    else { s with stopped := s.stopped || sh.stopSetsBeforeClose, closed := true, closes := s.closes + 1 }

def callRun (sh : StopShape) (fs : List Filter) (cap : Nat) (s : SS) (calls : List Call) : SS :=
  calls.foldl (callStep sh fs cap) s

/-- the events dispatched to the stream while it is open (before the first `stop`) -/
def liveArrivals : List Act → List Ev
  | [] => []
  | .arrive e :: r => e :: liveArrivals r
  | .consume :: r => liveArrivals r
  | .consumeFail :: r => liveArrivals r
  | .stop :: _ => []

/-- capacity of `eventCh` in `newEventStream` -/
def ipcChanCap : Nat := 512

/-! ## Query response stream -/

inductive Rec
  | ack (src : String)
  | response (src : String) (payload : String)
  | done
  deriving DecidableEq, Repr, Inhabited

/-- environment (Serf + timers) and stream-goroutine actions -/
inductive QAct
  /-- Serf delivered an ack / a response into the channel (`sendAck`/`sendResponse` succeeded) -/
  | pushAck (src : String)
  | pushResp (src : String) (payload : String)
  /-- `QueryResponse.Close()` -/
  | close
  /-- the stream's own `time.After(remaining)` fired -/
  | fire
  /-- the `select` takes the ackCh / respCh / done case (no-op if that case is not ready);
  `ok` = `client.Send` succeeded -/
  | selAck (ok : Bool)
  | selResp (ok : Bool)
  | selDone (ok : Bool)
  deriving DecidableEq, Repr, Inhabited

structure QS where
  ackQ : List String := []
  respQ : List (String × String) := []
  closed : Bool := false
  /-- local `ackCh` / `respCh` set to nil (a nil channel is never ready) -/
  ackNil : Bool := false
  respNil : Bool := false
  fired : Bool := false
  /-- `Stream` has returned -/
  stopped : Bool := false
  /-- a `client.Send` failed -/
  failed : Bool := false
  out : List Rec := []
  /-- ghost: everything Serf put into the channels -/
  pushedAcks : List String := []
  pushedResps : List (String × String) := []
  deriving Repr, Inhabited

/-- The repaired loop (`a, ok := <-ackCh; if !ok { ackCh = nil; continue }`). -/
def qStep (s : QS) : QAct → QS
  | .pushAck a => if s.closed then s else { s with ackQ := s.ackQ ++ [a], pushedAcks := s.pushedAcks ++ [a] }
  | .pushResp f p => if s.closed then s else { s with respQ := s.respQ ++ [(f, p)], pushedResps := s.pushedResps ++ [(f, p)] }
  | .close => { s with closed := true }
  | .fire => { s with fired := true }
  | .selAck ok =>
    if s.stopped || s.ackNil then s
    else match s.ackQ with
      | a :: r => if ok then { s with ackQ := r, out := s.out ++ [.ack a] } else { s with ackQ := r, stopped := true, failed := true }
      | [] => if s.closed then { s with ackNil := true } else s
  | .selResp ok =>
    if s.stopped || s.respNil then s
    else match s.respQ with
      | (f, p) :: r => if ok then { s with respQ := r, out := s.out ++ [.response f p] } else { s with respQ := r, stopped := true, failed := true }
      | [] => if s.closed then { s with respNil := true } else s
  | .selDone ok =>
    if s.stopped || !s.fired then s
    else if ok then { s with stopped := true, out := s.out ++ [.done] } else { s with stopped := true, failed := true }

def qRun (init : QS) (sched : List QAct) : QS := sched.foldl qStep init

/-- The loop as it was before the repair: `case a := <-ackCh:` without the ok flag — a
closed, empty channel is always ready and yields the zero value. -/
def qStepOld (s : QS) : QAct → QS
  | .selAck ok =>
    if s.stopped || s.ackNil then s
    else match s.ackQ with
      | a :: r => if ok then { s with ackQ := r, out := s.out ++ [.ack a] } else { s with ackQ := r, stopped := true, failed := true }
      | [] => if s.closed then (if ok then { s with out := s.out ++ [.ack ""] } else { s with stopped := true, failed := true }) else s
  | .selResp ok =>
    if s.stopped || s.respNil then s
    else match s.respQ with
      | (f, p) :: r => if ok then { s with respQ := r, out := s.out ++ [.response f p] } else { s with respQ := r, stopped := true, failed := true }
      | [] => if s.closed then (if ok then { s with out := s.out ++ [.response "" ""] } else { s with stopped := true, failed := true }) else s
  | a => qStep s a

def qRunOld (init : QS) (sched : List QAct) : QS := sched.foldl qStepOld init

def acksOf : List Rec → List String
  | [] => []
  | .ack a :: r => a :: acksOf r
  | _ :: r => acksOf r

def respsOf : List Rec → List (String × String)
  | [] => []
  | .response f p :: r => (f, p) :: respsOf r
  | _ :: r => respsOf r

def Rec.isDone : Rec → Bool
  | .done => true
  | _ => false

/-- well-formed record sequence of a finished stream: acks/responses, then exactly one `done` -/
def wellFormed (out : List Rec) : Bool :=
  match out.reverse with
  | .done :: pre => pre.all (!·.isDone)
  | _ => false

/-! ## Shapes regenerated from the source (`Gen/IpcStreamShape.lean`)

Expression text is normalised by the extractor (extract/normalise.go): roles ($es $qs $resp $req
$filters $ackCh $respCh $done $remaining $v $ok $f $e) instead of identifier names, constants by value,
operands ordered, one-line helpers inlined, definitions sorted. -/

/-- `handleStream`: how the client's filter string reaches the stream -/
structure StreamRequestShape where
  parseCalls : Nat
  /-- argument of `ParseEventFilter(…)` -/
  parseArg : String
  /-- right-hand side of `filters := …` -/
  filtersFrom : String
  /-- second argument of `newEventStream(…)` -/
  ctorFilterArg : String
  /-- assignments to `req`, `req.Type` or `filters` after their definition -/
  writes : Nat
  deriving DecidableEq, Repr, Inhabited

/-- the string the client sent is parsed verbatim and the parsed filters are the stream's filters -/
def StreamRequestShape.ok (s : StreamRequestShape) : Bool :=
  s.parseCalls == 1 && s.parseArg == "$req.Type" && s.filtersFrom == "ParseEventFilter($req.Type)" &&
  s.ctorFilterArg == "$filters" && s.writes == 0

structure EventStreamShape where
  /-- `for _, f := range <filterRange>` at the head of HandleEvent -/
  filterRange : String
  filterCond : String
  matchJumps : Bool
  /-- the statement after the loop is `return` (no filter matched) -/
  unmatchedReturns : Bool
  chanCap : Nat
  /-- `for event := range <streamRange>` in `stream` -/
  streamRange : String
  deriving DecidableEq, Repr, Inhabited

def EventStreamShape.ok (s : EventStreamShape) : Bool :=
  s.filterRange == "$es.filters" && s.filterCond == "$f.Invoke($e)" && s.matchJumps && s.unmatchedReturns &&
  s.chanCap == ipcChanCap && s.streamRange == "$es.eventCh"

/-- one receive case of the select in `queryResponseStream.Stream` -/
structure RecvShape where
  ch : String
  /-- `v, ok := <-ch` -/
  okFlag : Bool
  /-- the first statement is exactly `if !ok { ch = nil; continue }` -/
  closedBranchExact : Bool
  send : String
  sendFailureReturns : Bool
  extraStmts : Nat
  deriving DecidableEq, Repr, Inhabited

structure QueryLoopShape where
  recvs : List RecvShape
  loopHasCondition : Bool
  doneCases : Nat
  /-- the `<-done` case is `if err := qs.sendDone(); … ; return` -/
  doneCaseSendsAndReturns : Bool
  /-- calls of `qs.sendDone` in `Stream` -/
  sendDoneSites : Nat
  breaksOrGotos : Nat
  /-- the `name := expr` statements before the loop, in order -/
  prologue : List (String × String)
  /-- statements before the loop that are not such definitions (an `if … { return }`, …) -/
  prologueOther : Nat
  /-- statements after the loop -/
  afterLoop : Nat
  deriving DecidableEq, Repr, Inhabited

/-- the deadline timer is armed unconditionally from the query's deadline, the channels are the query's -/
def canonicalPrologue : List (String × String) :=
  [("$ackCh", "$resp.AckCh()"), ("$done", "time.After($remaining)"),
   ("$remaining", "time.Until($resp.Deadline())"), ("$respCh", "$resp.ResponseCh()")]

def canonicalRecvs : List RecvShape :=
  [{ ch := "$ackCh", okFlag := true, closedBranchExact := true, send := "$qs.sendAck($v)", sendFailureReturns := true, extraStmts := 0 },
   { ch := "$respCh", okFlag := true, closedBranchExact := true, send := "$qs.sendResponse($v.From, $v.Payload)", sendFailureReturns := true, extraStmts := 0 }]

/-- Variation points of the select loop. -/
structure QVariant where
  /-- the ack / response receive handles a closed channel (`ok` flag, `ch = nil; continue`) -/
  ackOk : Bool := true
  respOk : Bool := true
  /-- a completion record is (also) sent when the response channel is found closed and the loop goes on
  (a `break` inside the select leaves only the select) -/
  doneOnRespClose : Bool := false
  /-- `Stream` returns before the loop when the deadline has already passed (no `done` at all) -/
  returnIfExpired : Bool := false
  deriving DecidableEq, Repr, Inhabited

def goodQ : QVariant := {}

/-- the variant the extracted loop shape denotes -/
def qVariantOf (sh : QueryLoopShape) : QVariant :=
  let find := fun (c : String) => sh.recvs.find? (·.ch == c)
  let okOf := fun (c : String) => match find c with
    | some r => r.okFlag && r.closedBranchExact && r.sendFailureReturns && r.extraStmts == 0
    | none => false
  { ackOk := okOf "$ackCh" && (find "$ackCh").map (·.send) == some "$qs.sendAck($v)",
    respOk := okOf "$respCh" && (find "$respCh").map (·.send) == some "$qs.sendResponse($v.From, $v.Payload)",
    doneOnRespClose := !(sh.sendDoneSites == 1 && sh.breaksOrGotos == 0 && sh.doneCases == 1 && sh.doneCaseSendsAndReturns &&
        !sh.loopHasCondition && sh.recvs.length == 2),
    returnIfExpired := !(sh.prologue == canonicalPrologue && sh.prologueOther == 0 && sh.afterLoop == 0) }

/-- The state in which the loop starts.  `expired`: the query's deadline has already passed when
the stream goroutine starts — `time.After` of a non-positive duration fires at once. -/
def qStart (v : QVariant) (ackNil expired : Bool) : QS :=
  if v.returnIfExpired && expired then { ackNil := ackNil, fired := true, stopped := true }
  else { ackNil := ackNil, fired := expired }

/-- the select loop for a variant; `qStepV goodQ = qStep` -/
def qStepV (v : QVariant) (s : QS) : QAct → QS
  | .selAck ok =>
    if s.stopped || s.ackNil then s
    else match s.ackQ with
      | a :: r => if ok then { s with ackQ := r, out := s.out ++ [.ack a] } else { s with ackQ := r, stopped := true, failed := true }
      | [] =>
        if s.closed then
          if v.ackOk then { s with ackNil := true }
          else if ok then { s with out := s.out ++ [.ack ""] } else { s with stopped := true, failed := true }
        else s
  | .selResp ok =>
    if s.stopped || s.respNil then s
    else match s.respQ with
      | (f, p) :: r => if ok then { s with respQ := r, out := s.out ++ [.response f p] } else { s with respQ := r, stopped := true, failed := true }
      | [] =>
        if s.closed then
          if v.doneOnRespClose then { s with respNil := true, out := s.out ++ [.done] }
          else if v.respOk then { s with respNil := true }
          else if ok then { s with out := s.out ++ [.response "" ""] } else { s with stopped := true, failed := true }
        else s
  | a => qStep s a

def qRunV (v : QVariant) (init : QS) (sched : List QAct) : QS := sched.foldl (qStepV v) init

end SerfModel.IpcStreams
