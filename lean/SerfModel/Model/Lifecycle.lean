/-
Lifecycle state machine of a Serf node (serf/serf.go: Leave, Shutdown, Join) over
the `stateLock` regions extracted into `SerfModel.Gen.Lifecycle`.  Each region is
one atomic action (the mutex is held throughout); a call is a list of regions;
concurrent calls interleave at region granularity.
-/
import SerfModel.Prelude.Basic
namespace SerfModel.Lifecycle

inductive St where
  | alive | leaving | left | shutdown
  deriving DecidableEq, Repr, Inhabited

def St.rank : St → Nat
  | .alive => 0 | .leaving => 1 | .left => 2 | .shutdown => 3

def St.all : List St := [.alive, .leaving, .left, .shutdown]

def St.toString : St → String
  | .alive => "alive" | .leaving => "leaving" | .left => "left" | .shutdown => "shutdown"

inductive Res where
  | ok | err
  deriving DecidableEq, Repr, Inhabited

/-- Guarded commands on `s.state` inside one `stateLock` region. -/
inductive Cmd where
  /-- `switch s.state { case …: return res }` / `if s.state == x { return res }` -/
  | retIfIn (states : List St) (res : Res)
  /-- `if s.State() != x { return res }` -/
  | retIfNe (st : St) (res : Res)
  /-- `s.state = x` -/
  | set (st : St)
  /-- `if s.state != guard { s.state = x }` -/
  | setUnlessEq (guard : St) (st : St)
  deriving DecidableEq, Repr, Inhabited

abbrev Region := List Cmd

structure Progs where
  leave : List Region
  shutdown : List Region
  join : List Region
  deriving Repr

inductive Call where
  | leave | shutdown | join
  deriving DecidableEq, Repr, Inhabited

def Progs.of (p : Progs) : Call → List Region
  | .leave => p.leave | .shutdown => p.shutdown | .join => p.join

/-- Execute a region atomically: the new state and, if the call returned inside it, its result. -/
def execRegion : Region → St → St × Option Res
  | [], s => (s, none)
  | .retIfIn sts r :: rest, s => if sts.contains s then (s, some r) else execRegion rest s
  | .retIfNe x r :: rest, s => if s != x then (s, some r) else execRegion rest s
  | .set x :: rest, _ => execRegion rest x
  | .setUnlessEq g x :: rest, s => if s != g then execRegion rest x else execRegion rest s

structure Thr where
  /-- the call in progress and its remaining regions -/
  cur : Option (Call × List Region) := none
  todo : List Call := []
  results : List (Call × Res) := []      -- oldest first
  deriving DecidableEq, Repr, Inhabited

structure Sys where
  state : St := .alive
  threads : List Thr := []
  /-- every value `state` has had, oldest first (what `State()` could have reported) -/
  history : List St := [.alive]
  deriving DecidableEq, Repr, Inhabited

def Sys.init (progs : List (List Call)) : Sys := { threads := progs.map fun p => { todo := p } }

/-- One scheduling step of thread `t`: start the next call (local) or run the next region. -/
def step (p : Progs) (s : Sys) (t : Nat) : Sys :=
  match s.threads[t]? with
  | none => s
  | some th =>
    match th.cur with
    | none =>
      match th.todo with
      | [] => s
      | c :: rest => { s with threads := s.threads.set t { th with cur := some (c, p.of c), todo := rest } }
    | some (c, []) =>
      -- all regions done without an explicit return: the call returns nil
      { s with threads := s.threads.set t { th with cur := none, results := th.results ++ [(c, .ok)] } }
    | some (c, r :: rest) =>
      let (st', res) := execRegion r s.state
      let th' := match res with
        | some x => { th with cur := none, results := th.results ++ [(c, x)] }
        | none => { th with cur := some (c, rest) }
      { state := st', threads := s.threads.set t th', history := s.history ++ [st'] }

def run (p : Progs) (s : Sys) (sched : List Nat) : Sys := sched.foldl (step p) s

/-- Run one call to completion sequentially (for the correspondence check). -/
def callSeq (p : Progs) (st : St) (c : Call) : St × Res :=
  let rec go : List Region → St → St × Res
    | [], s => (s, .ok)
    | r :: rest, s =>
      match execRegion r s with
      | (s', some x) => (s', x)
      | (s', none) => go rest s'
  go (p.of c) st

end SerfModel.Lifecycle
