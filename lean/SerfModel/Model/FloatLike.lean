/-
`FloatLike F`: the floating-point operations the coordinate code (coordinate/*.go)
performs, as an interface.  The model of the Vivaldi client (Model/Coord.lean) is
polymorphic over it.  Two instances:

* `Float` (Lean's IEEE-754 binary64, the same format and the same correctly
  rounded `+ - * / sqrt` as Go's `float64` on amd64 without FMA contraction): used
  by `serfdriver`, so the correspondence with the real code is bit-for-bit;
* `ERat` (Model/ERat.lean): exact extended rationals, for which the laws of
  `LawfulFloatLike` (SerfProofs/Lemmas/FloatLaws.lean) are proved.

Go specifics mirrored here: `math.Max` (NaN and +Inf rules, signed zeros), the
conversion `int64(f)` as amd64 performs it (CVTTSD2SQ: NaN / out of range gives
-2^63), `float64(int64)`.
-/
import SerfModel.Prelude.Basic
namespace SerfModel

class FloatLike (F : Type) where
  add : F → F → F
  sub : F → F → F
  mul : F → F → F
  div : F → F → F
  sqrt : F → F
  abs : F → F
  /-- Go `math.Max` -/
  max : F → F → F
  lt : F → F → Bool
  le : F → F → Bool
  isNaN : F → Bool
  isInf : F → Bool
  /-- Go `float64(n)` for an integer `n` -/
  ofInt : Int → F
  /-- Go `int64(f)` (amd64) -/
  toInt64 : F → Int

namespace FloatLike
variable {F : Type} [FloatLike F]

def zero : F := ofInt 0
def one : F := ofInt 1
/-- `x > y` in Go is `y < x` -/
def gt (x y : F) : Bool := lt y x
/-- `1.0e-6`: the correctly rounded quotient `1 / 10^6` is the double nearest to 10^-6, i.e. the Go literal -/
def zeroThreshold : F := div (ofInt 1) (ofInt 1000000)
/-- `secondsToNanoseconds = 1.0e9` -/
def nanos : F := ofInt 1000000000
/-- `0.5` -/
def half : F := div (ofInt 1) (ofInt 2)
/-- `componentIsValid` (coordinate.go:83): neither NaN nor ±Inf -/
def finite (x : F) : Bool := !isInf x && !isNaN x

end FloatLike

/-! ### The `Float` instance -/

def floatSignBit (x : Float) : Bool := x.toBits >>> 63 == 1

def posInfF : Float := Float.ofBits 0x7ff0000000000000

/-- Go `math.Max` (src/math/dim.go). -/
def goMax (x y : Float) : Float :=
  if (x.isInf && x > 0) || (y.isInf && y > 0) then posInfF
  else if x.isNaN || y.isNaN then Float.ofBits 0x7ff8000000000001
  else if x == 0 && x == y then (if floatSignBit x then y else x)
  else if x > y then x else y

def two63F : Float := Float.ofBits 0x43e0000000000000  -- 2^63

/-- Go `int64(f)` on amd64 (CVTTSD2SQ): truncation toward zero; NaN and values
outside [-2^63, 2^63) give the "integer indefinite" value -2^63. -/
def goToInt64 (x : Float) : Int :=
  if x.isNaN || x >= two63F || x < -two63F then -9223372036854775808 else x.toInt64.toInt

instance : FloatLike Float where
  add := (· + ·)
  sub := (· - ·)
  mul := (· * ·)
  div := (· / ·)
  sqrt := Float.sqrt
  abs := Float.abs
  max := goMax
  lt x y := decide (x < y)
  le x y := decide (x ≤ y)
  isNaN := Float.isNaN
  isInf := Float.isInf
  ofInt := Float.ofInt
  toInt64 := goToInt64

/-! ### Bit-pattern printing (the line protocol carries `math.Float64bits` in hex) -/

def hexOfNat (n : Nat) : String := String.ofList (Nat.toDigits 16 n)

def natOfHex? (s : String) : Option Nat :=
  if s.isEmpty then none else
  s.toList.foldl (fun acc c => match acc, hexVal? c with
    | some a, some d => some (16 * a + d)
    | _, _ => none) (some 0)

def showFloatBits (x : Float) : String := if x.isNaN then "nan" else hexOfNat x.toBits.toNat

def floatOfHex? (s : String) : Option Float :=
  match natOfHex? s with
  | some n => if n < 2 ^ 64 then some (Float.ofBits (UInt64.ofNat n)) else none
  | none => none

end SerfModel
