/-
Model of `Serf.handleQuery` (serf/serf.go), `Serf.shouldProcessQuery`
(serf/query.go) and the internal-query interception of `serfQueries.stream`
(serf/internal_query.go).

The front half of `handleQuery` is the de-dup buffer of `SerfModel.EventBuf`
with query ids as items.  Filters are modelled *after* msgpack decoding (the
decoder is external code); regular-expression matching is an ORACLE parameter
`re : pattern → value → Option Bool` (`none` = the pattern does not compile) —
the harness fills it with Go's `regexp.MatchString`.
-/
import SerfModel.Model.EventBuf
import SerfModel.Prelude.Basic
namespace SerfModel.QueryHandle
open SerfModel SerfModel.Atomic SerfModel.EventBuf

/-- One entry of `messageQuery.Filters`, as `shouldProcessQuery` sees it. -/
inductive Filter where
  /-- a zero-length entry -/
  | empty
  /-- `filterNodeType` whose body decodes to this list of node names -/
  | node (names : List String)
  /-- `filterTagType` whose body decodes to this tag / expression -/
  | tag (tag expr : String)
  /-- a known type byte with a body that does not decode -/
  | undecodable
  /-- any other type byte -/
  | unknownType
  deriving DecidableEq, Repr, Inhabited

abbrev Oracle := String → String → Option Bool

structure NodeCfg where
  name : String
  tags : List (String × String)
  deriving Repr, Inhabited

/-- `tags[filt.Tag]` of a Go map: a missing tag reads as the empty string. -/
def tagValue (cfg : NodeCfg) (t : String) : String := (alookup cfg.tags t).getD ""

/-- `shouldProcessQuery`: the loop with its early returns. -/
def shouldProcess (re : Oracle) (cfg : NodeCfg) : List Filter → Bool
  | [] => true
  | f :: rest =>
    match f with
    | .empty => false
    | .node names => if names.contains cfg.name then shouldProcess re cfg rest else false
    | .tag t e =>
      match re e (tagValue cfg t) with
      | none => false
      | some matched => if !matched then false else shouldProcess re cfg rest
    | .undecodable => false
    | .unknownType => false

/-- The property's reading of one filter: a node filter selects the node iff its
name is in the list; a tag filter iff the pattern compiles and matches the tag's
value (missing = empty); anything else (empty entry, undecodable body, unknown
type) excludes the node. -/
def passes (re : Oracle) (cfg : NodeCfg) : Filter → Bool
  | .node names => names.contains cfg.name
  | .tag t e => re e (tagValue cfg t) == some true
  | _ => false

structure QueryMsg where
  lt : W
  id : Nat
  flags : Nat
  name : String
  filters : List Filter
  deriving Repr, Inhabited

def flagAck : Nat := 1
def flagNoBroadcast : Nat := 2

/-- `query.Ack()` / `query.NoBroadcast()` -/
def QueryMsg.ack (q : QueryMsg) : Bool := q.flags &&& flagAck != 0
def QueryMsg.noBroadcast (q : QueryMsg) : Bool := q.flags &&& flagNoBroadcast != 0

structure QOut where
  /-- the de-dup outcome of the front half -/
  res : Res
  /-- a `*Query` was sent on the node's event channel -/
  delivered : Bool
  /-- an ack was sent to the query's source -/
  acked : Bool
  /-- return value: the message is re-broadcast -/
  rebroadcast : Bool
  deriving DecidableEq, Repr, Inhabited

/-- `handleQuery`. -/
def handleQuery (re : Oracle) (cfg : NodeCfg) (b : Buf Nat) (q : QueryMsg) : Buf Nat × QOut :=
  let (b', r) := handle b q.lt q.id
  if r ≠ .delivered then (b', { res := r, delivered := false, acked := false, rebroadcast := false })
  else
    let rebroadcast := !q.noBroadcast
    if !shouldProcess re cfg q.filters then
      (b', { res := r, delivered := false, acked := false, rebroadcast := rebroadcast })
    else
      (b', { res := r, delivered := true, acked := q.ack, rebroadcast := rebroadcast })

/-- `InternalQueryPrefix` -/
def internalPrefix : String := "_serf_"

/-- What travels on the node's event channel. -/
inductive AppEv where
  | query (lt : W) (name : String)
  | other (tag : String)
  deriving DecidableEq, Repr, Inhabited

/-- `strings.HasPrefix(s, p)`, on the characters (kernel-reducible, unlike
`String.startsWith`; the same on valid UTF-8). -/
def hasPrefix (p s : String) : Bool := p.toList.isPrefixOf s.toList

def AppEv.isInternalQuery : AppEv → Bool
  | .query _ name => hasPrefix internalPrefix name
  | .other _ => false

/-- `serfQueries.stream`: internal queries are handled, everything else is forwarded. -/
def forwardedToApp (evs : List AppEv) : List AppEv := evs.filter (fun e => !e.isInternalQuery)

/-! ### Routing of the node's event channel (`serfQueries.stream` and the switch of
`serfQueries.handleQuery`), parameterised by the shape regenerated from
serf/internal_query.go (`SerfModel/Gen/InternalQueries.lean`). -/

/-- The `case e := <-s.inCh` arm of `serfQueries.stream`. -/
structure StreamShape where
  /-- value of the constant `InternalQueryPrefix` -/
  prefixConst : String
  /-- the test is `q, ok := e.(*Query); ok && strings.HasPrefix(q.Name, InternalQueryPrefix)` -/
  guardIsQueryWithPrefix : Bool
  /-- the then-branch is exactly `go s.handleQuery(q)` (nothing is sent on `outCh`) -/
  thenOnlySpawnsHandler : Bool
  /-- the else-branch is `if s.outCh != nil { s.outCh <- e }` -/
  elseForwards : Bool
  deriving DecidableEq, Repr, Inhabited

/-- The switch of `serfQueries.handleQuery`. -/
structure SwitchShape where
  /-- the switch tag is `q.Name[len(InternalQueryPrefix):]` -/
  tagStripsPrefix : Bool
  /-- (value of the case constant, handler method called with `q`; `""` = empty case) in source order -/
  cases : List (String × String)
  /-- the default branch only logs (no handler call, no send on any channel) -/
  defaultOnlyLogs : Bool
  deriving DecidableEq, Repr, Inhabited

/-- Where one event of the node's event channel ends up. -/
inductive Route where
  /-- forwarded on `outCh` to the application (and the snapshotter) -/
  | app
  /-- consumed by the internal handler `h` (`""` = the empty `ping` case) -/
  | handler (h : String)
  /-- consumed: the default branch logs "Unhandled internal query" and drops it -/
  | dropped
  /-- the regenerated shape is not one the model understands -/
  | unknownShape
  deriving DecidableEq, Repr, Inhabited

def shapesUnderstood (st : StreamShape) (sw : SwitchShape) : Bool :=
  st.guardIsQueryWithPrefix && st.thenOnlySpawnsHandler && st.elseForwards && sw.tagStripsPrefix && sw.defaultOnlyLogs

/-- `stream` followed by `handleQuery`'s switch, for an event that is a `*Query`
with the given name (`isQuery = false`: any other event type). -/
def route (st : StreamShape) (sw : SwitchShape) (isQuery : Bool) (name : String) : Route :=
  if !shapesUnderstood st sw then .unknownShape
  else if isQuery && hasPrefix st.prefixConst name then
    match alookup sw.cases (String.ofList (name.toList.drop st.prefixConst.length)) with
    | some h => .handler h
    | none => .dropped
  else .app

/-- Run a history of query messages; collects, in order, the (time, id) of the
queries delivered to the event channel and of those re-broadcast. -/
def runQ (re : Oracle) (cfg : NodeCfg) (b : Buf Nat) : List QueryMsg → Buf Nat × List (W × Nat) × List (W × Nat)
  | [] => (b, [], [])
  | q :: rest =>
    let (b1, o) := handleQuery re cfg b q
    let (b2, ds, rs) := runQ re cfg b1 rest
    (b2, if o.delivered then (q.lt, q.id) :: ds else ds, if o.rebroadcast then (q.lt, q.id) :: rs else rs)

/-- Inputs of a node over time: query messages and `SetTags` calls on the same node. -/
inductive QIn where
  | query (q : QueryMsg)
  /-- `Serf.SetTags`: `s.config.Tags = tags` — buffers, clocks and name unchanged -/
  | setTags (tags : List (String × String))
  deriving Repr, Inhabited

/-- The tags in effect after a history: those of the last `SetTags`, else the initial ones. -/
def tagsAfter (tags : List (String × String)) : List QIn → List (String × String)
  | [] => tags
  | .query _ :: rest => tagsAfter tags rest
  | .setTags t :: rest => tagsAfter t rest

/-- Run a history with tag changes: `shouldProcessQuery` reads `s.config.Tags` afresh for
every filter of every query, so each query is handled under the tags in effect when it
arrives.  Result: the node's configuration and buffer afterwards and, per query in order,
what `handleQuery` did. -/
def runQT (re : Oracle) (cfg : NodeCfg) (b : Buf Nat) : List QIn → NodeCfg × Buf Nat × List QOut
  | [] => (cfg, b, [])
  | .query q :: rest =>
    let (b1, o) := handleQuery re cfg b q
    let (cfg2, b2, os) := runQT re cfg b1 rest
    (cfg2, b2, o :: os)
  | .setTags t :: rest => runQT re { cfg with tags := t } b rest

end SerfModel.QueryHandle
