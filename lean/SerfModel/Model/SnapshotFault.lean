/-
The snapshotter model (Model/Snapshot.lean) with ONE file-system operation failing
(serf/snapshot.go error paths): `tryAppend` → `appendLine` error → recovery
compaction; `compact()` returning early at each of its operations; the handles
`s.buffered` / `s.fh` being nil after a failure of remove / rename / reopen; the
sticky error of a `bufio.Writer`; nil-pointer panics.

Operation indices count the operations that reach the OS (open, write, sync, close,
remove, rename), starting at 0 with NewSnapshotter's open; the operation with index
`fault` is not performed and returns an error.
-/
import SerfModel.Model.Snapshot
namespace SerfModel.SnapshotFault
open SerfModel SerfModel.Snapshot

structure FSnap where
  s : Snap := {}
  /-- `s.buffered != nil` -/
  writer : Bool := true
  /-- the bufio writer carries a sticky error (every later write/flush fails at once) -/
  sticky : Bool := false
  /-- `s.fh != nil` -/
  fh : Bool := true
  /-- a recovery compaction was attempted less than snapshotErrorRecoveryInterval ago -/
  attempted : Bool := false
  /-- operations issued to the OS so far (including a failed one) -/
  nops : Nat := 0
  fault : Option Nat := none
  /-- the operation that failed -/
  failed : Option FsOp := none
  panicked : Bool := false
  /-- operations actually performed, in order -/
  done : List FsOp := []
  /-- all operations issued, with their outcome -/
  log : List (FsOp × Bool) := []
  deriving Repr, Inhabited

/-- issue one OS operation: performed unless it is the faulty one -/
def doOp (st : FSnap) (op : FsOp) : FSnap × Bool :=
  if st.fault = some st.nops then ({ st with nops := st.nops + 1, failed := some op, log := st.log ++ [(op, false)] }, false)
  else ({ st with nops := st.nops + 1, done := st.done ++ [op], log := st.log ++ [(op, true)] }, true)

/-- successive writes to `p`; stops at the first failure -/
def doWrites (st : FSnap) (p : Path) : List Bytes → FSnap × Bool
  | [] => (st, true)
  | w :: ws =>
    let r := doOp st (.write p w)
    if r.2 then doWrites r.1 p ws else (r.1, false)

inductive Res where
  | ok | err | panic
  deriving DecidableEq, Repr, Inhabited

/-- `buffered.WriteString(l)` + periodic flush + `offset += n` (first half of appendLine) -/
def fAppendBytes (st : FSnap) (l : Bytes) : FSnap × Res :=
  if !st.writer then ({ st with panicked := true }, .panic)
  else if st.sticky then (st, .err)
  else
    let w := bufWrite st.s.buf l
    let r := doWrites st .main w.2
    if !r.2 then ({ r.1 with sticky := true }, .err)
    else
      let st1 := { r.1 with s := { r.1.s with buf := w.1 } }
      if st1.s.flushDue then
        let st2 := { st1 with s := { st1.s with flushDue := false } }
        if st2.s.buf = [] then ({ st2 with s := { st2.s with offset := st2.s.offset + l.length } }, .ok)
        else
          let r2 := doOp st2 (.write .main st2.s.buf)
          if !r2.2 then ({ r2.1 with sticky := true }, .err)
          else ({ r2.1 with s := { r2.1.s with buf := [], offset := r2.1.s.offset + l.length } }, .ok)
      else ({ st1 with s := { st1.s with offset := st1.s.offset + l.length } }, .ok)

/-- `compact()`, first half: write, sync and close `path.compact`; `true` = complete -/
def fCompactFront (st : FSnap) (lines : List Bytes) : FSnap × Bool :=
  let r1 := doOp st (.openTrunc .tmp)
  if !r1.2 then (r1.1, false) else
  let w := bufWriteAll [] lines
  let r2 := doWrites r1.1 .tmp w.2
  if !r2.2 then ((doOp r2.1 (.close .tmp)).1, false) else        -- WriteString error: fh.Close(); return
  let r3 := if w.1 = [] then (r2.1, true) else doOp r2.1 (.write .tmp w.1)   -- buf.Flush()
  if !r3.2 then (r3.1, false) else
  let r4 := doOp r3.1 (.sync .tmp)
  if !r4.2 then ((doOp r4.1 (.close .tmp)).1, false) else
  ((doOp r4.1 (.close .tmp)).1, true)                            -- fh.Close(), result ignored

/-- `compact()`, second half: drop the old handles, remove, rename, reopen -/
def fCompactSwap (st : FSnap) (total : Nat) : FSnap × Res :=
  -- `_ = s.buffered.Flush(); s.buffered = nil`
  if !st.writer then ({ st with panicked := true }, .panic) else
  let r6 := if st.sticky || st.s.buf = [] then st else (doOp st (.write .main st.s.buf)).1
  let r6 := { r6 with writer := false, sticky := false }
  -- `s.fh.Close(); s.fh = nil`  ((*os.File)(nil).Close() is an error, not a panic)
  let r7 := if r6.fh then (doOp r6 (.close .main)).1 else r6
  let r7 := { r7 with fh := false }
  let r8 := doOp r7 (.remove .main)
  if !r8.2 then (r8.1, .err) else
  let r9 := doOp r8.1 (.rename .tmp .main)
  if !r9.2 then (r9.1, .err) else
  let r10 := doOp r9.1 (.openAppend .main)
  if !r10.2 then (r10.1, .err) else
  let r11 := r10.1
  let s1 : Snap := r11.s
  let s' : Snap := { s1 with buf := [], offset := total, flushDue := false, ncompact := s1.ncompact + 1, block := s1.alive }
  ({ r11 with writer := true, sticky := false, fh := true, s := s' }, .ok)

/-- `compact()` -/
def fCompact (st : FSnap) : FSnap × Res :=
  let lines := compactLines Order.id st.s
  let r := fCompactFront st lines
  if !r.2 then (r.1, .err) else fCompactSwap r.1 lines.flatten.length

/-- `appendLine` -/
def fAppendLine (st : FSnap) (l : Bytes) : FSnap × Res :=
  let r := fAppendBytes st l
  match r.2 with
  | .ok => if r.1.s.offset > maxSize r.1.s then fCompact r.1 else r
  | _ => r

/-- `tryAppend`: on an error, a recovery compaction unless one was attempted recently -/
def fTryAppend (st : FSnap) (l : Bytes) : FSnap :=
  let r := fAppendLine st l
  match r.2 with
  | .ok => r.1
  | .panic => r.1
  | .err =>
    if r.1.attempted then r.1
    else (fCompact { r.1 with attempted := true }).1

def fUpdateClock (st : FSnap) (clk : Nat) : FSnap :=
  let lastSeen := lastSeenOf clk
  if lastSeen > st.s.lastClock then
    fTryAppend { st with s := { st.s with lastClock := lastSeen } } (printLine (.clock lastSeen))
  else st

def fJoin : FSnap → List (Name × Addr) → FSnap
  | st, [] => st
  | st, (n, a) :: ms =>
    if st.panicked then st else
    fJoin (fTryAppend { st with s := { st.s with alive := ainsert st.s.alive n a } } (printLine (.alive n a))) ms

def fGone : FSnap → List Name → FSnap
  | st, [] => st
  | st, n :: ns =>
    if st.panicked then st else
    fGone (fTryAppend { st with s := { st.s with alive := aerase st.s.alive n } } (printLine (.notAlive n))) ns

/-- `s.buffered.Flush()` outside appendLine (leave, shutdown): error only logged -/
def fFlush (st : FSnap) : FSnap :=
  if st.panicked then st
  else if !st.writer then { st with panicked := true }
  else if st.sticky || st.s.buf = [] then st
  else
    let r := doOp st (.write .main st.s.buf)
    if r.2 then { r.1 with s := { r.1.s with buf := [] } } else { r.1 with sticky := true }

/-- the in-memory effect of a leave -/
def leaveState (st : FSnap) : FSnap :=
  { st with s := { st.s with leaving := true, alive := if st.s.rejoin then st.s.alive else [] } }

/-- events; `recoveryTimePasses`: snapshotErrorRecoveryInterval elapses -/
inductive FEv where
  | ev (e : Ev)
  | recoveryTimePasses
  deriving Repr, Inhabited

def fStep (st : FSnap) : FEv → FSnap
  | .recoveryTimePasses => { st with attempted := false }
  | .ev e =>
    if st.panicked then st else
    match e with
    | .join ms clk => if st.s.leaving then st else
        let r := fJoin st ms
        if r.panicked then r else fUpdateClock r clk
    | .gone ns clk => if st.s.leaving then st else
        let r := fGone st ns
        if r.panicked then r else fUpdateClock r clk
    | .memberOther clk => if st.s.leaving then st else fUpdateClock st clk
    | .user lt => if st.s.leaving then st else if lt ≤ st.s.lastEventClock then st
        else fTryAppend { st with s := { st.s with lastEventClock := lt } } (printLine (.eventClock lt))
    | .query lt => if st.s.leaving then st else if lt ≤ st.s.lastQueryClock then st
        else fTryAppend { st with s := { st.s with lastQueryClock := lt } } (printLine (.queryClock lt))
    | .clockTick clk => fUpdateClock st clk
    | .leave =>
      let r := fFlush (fTryAppend (leaveState st) (printLine .leave))
      if r.panicked then r else if r.fh then (doOp r (.sync .main)).1 else r
    | .timePasses => { st with s := { st.s with flushDue := true } }
    | .forceCompact => (fCompact st).1

def fRun (st : FSnap) : List FEv → FSnap
  | [] => st
  | e :: es => fRun (fStep st e) es

def fShutdown (st : FSnap) (clk : Nat) : FSnap :=
  if st.panicked then st else
  let r := fUpdateClock st clk
  let r := fFlush r
  if r.panicked then r else
  let r := if r.fh then (doOp r (.sync .main)).1 else r
  if r.fh then (doOp r (.close .main)).1 else r

/-- NewSnapshotter on a fresh directory (its own open is operation 0 and is not faulted here) -/
def fInit (rj : Bool) (mc : Nat) (fault : Option Nat) : FSnap :=
  { s := (Snap.init rj mc).1, nops := 1, fault := fault, done := [.openAppend .main], log := [(.openAppend .main, true)] }

def fLife (rj : Bool) (mc : Nat) (fault : Option Nat) (evs : List FEv) (clk : Nat) : FSnap :=
  fShutdown (fRun (fInit rj mc fault) evs) clk

/-- the faults after which the handles are nil: compact()'s remove, rename, reopen -/
def badFault : Option FsOp → Bool
  | some (.remove .main) => true
  | some (.rename .tmp .main) => true
  | some (.openAppend .main) => true
  | _ => false

end SerfModel.SnapshotFault
