/-
The snapshotter model (Model/Snapshot.lean) with ONE file-system operation failing
(serf/snapshot.go error paths): `tryAppend` → `appendLine` error → recovery
compaction; `compact()` returning early at each of its operations; the handles
`s.buffered` / `s.fh` being nil after a failure of remove / rename / reopen; the
sticky error of a `bufio.Writer`; nil-pointer panics.

Operation indices count the operations that reach the OS (open, write, sync, close,
remove, rename), starting at 0 with NewSnapshotter's open; the operation with index
`fault` is not performed and returns an error.

Since e2c64f9 compact() keeps the CLOSED old handles in place until the new ones are
installed: after a failed remove / rename / reopen nothing is nil; writes through the
stale writer reach the closed file and fail for real ("file already closed"), a second
Close is an ignored error, and a remove of the already removed snapshot fails for real — which compact() ignores since
d3a31c2 (`removeMissingFails := true` is the code before, kept for the regression witness).
`nilOnSwap := true` is the code before that fix (handles set to nil first), kept for the
regression witness.
-/
import SerfModel.Model.Snapshot
namespace SerfModel.SnapshotFault
open SerfModel SerfModel.Snapshot

structure FSnap where
  s : Snap := {}
  /-- `s.buffered != nil` -/
  writer : Bool := true
  /-- the bufio writer carries a sticky error (every later write/flush fails at once) -/
  sticky : Bool := false
  /-- `s.fh != nil` -/
  fh : Bool := true
  /-- a recovery compaction was attempted less than snapshotErrorRecoveryInterval ago -/
  attempted : Bool := false
  /-- operations issued to the OS so far (including a failed one) -/
  nops : Nat := 0
  fault : Option Nat := none
  /-- the operation that failed -/
  failed : Option FsOp := none
  panicked : Bool := false
  /-- operations actually performed, in order -/
  done : List FsOp := []
  /-- all operations issued; `false` = the injected fault (operations that fail for real —
  on a closed handle, remove of a missing file — are logged `true`: the shim sees them as issued) -/
  log : List (FsOp × Bool) := []
  /-- the code before e2c64f9: compact() sets the handles to nil before remove/rename/reopen -/
  nilOnSwap : Bool := false
  /-- `s.fh` is a closed file (compact() closed it and has not installed a new one) -/
  fhClosed : Bool := false
  /-- the snapshot file exists in the directory -/
  mainExists : Bool := true
  /-- the code before d3a31c2: compact() returned when os.Remove failed because the snapshot
  file was already gone (after a failed rename); now os.IsNotExist is ignored -/
  removeMissingFails : Bool := false
  deriving Repr, Inhabited

/-- issue one OS operation: not performed if it is the faulty one; `works = false`: it is
issued but fails for real (closed handle, missing file) -/
def doOpW (st : FSnap) (op : FsOp) (works : Bool) : FSnap × Bool :=
  if st.fault = some st.nops then ({ st with nops := st.nops + 1, failed := some op, log := st.log ++ [(op, false)] }, false)
  else if works then ({ st with nops := st.nops + 1, done := st.done ++ [op], log := st.log ++ [(op, true)] }, true)
  else ({ st with nops := st.nops + 1, log := st.log ++ [(op, true)] }, false)

def doOp (st : FSnap) (op : FsOp) : FSnap × Bool := doOpW st op true

/-- successive writes to `p`; stops at the first failure -/
def doWrites (st : FSnap) (p : Path) (works : Bool) : List Bytes → FSnap × Bool
  | [] => (st, true)
  | w :: ws =>
    let r := doOpW st (.write p w) works
    if r.2 then doWrites r.1 p works ws else (r.1, false)

inductive Res where
  | ok | err | panic
  deriving DecidableEq, Repr, Inhabited

/-- the periodic flush of appendLine (`lastFlush` already refreshed) and `offset += n` -/
def fFlushDue (st2 : FSnap) (n : Nat) : FSnap × Res :=
  if st2.s.buf = [] then ({ st2 with s := { st2.s with offset := st2.s.offset + n } }, .ok)
  else
    let r2 := doOpW st2 (.write .main st2.s.buf) (!st2.fhClosed)
    if !r2.2 then ({ r2.1 with sticky := true }, .err)
    else ({ r2.1 with s := { r2.1.s with buf := [], offset := r2.1.s.offset + n } }, .ok)

/-- the periodic flush and `offset += n` of appendLine, once the line is in the buffer -/
def fAfterWrite (st1 : FSnap) (n : Nat) : FSnap × Res :=
  if st1.s.flushDue then fFlushDue { st1 with s := { st1.s with flushDue := false } } n
  else ({ st1 with s := { st1.s with offset := st1.s.offset + n } }, .ok)

/-- `buffered.WriteString(l)` + periodic flush + `offset += n` (first half of appendLine) -/
def fAppendBytes (st : FSnap) (l : Bytes) : FSnap × Res :=
  if !st.writer then ({ st with panicked := true }, .panic)
  else if st.sticky then (st, .err)
  else
    let w := bufWrite st.s.buf l
    let r := doWrites st .main (!st.fhClosed) w.2
    if !r.2 then ({ r.1 with sticky := true }, .err)
    else fAfterWrite { r.1 with s := { r.1.s with buf := w.1 } } l.length

/-- `compact()`, first half: write, sync and close `path.compact`; `true` = complete -/
def fCompactFront (st : FSnap) (lines : List Bytes) : FSnap × Bool :=
  let r1 := doOp st (.openTrunc .tmp)
  if !r1.2 then (r1.1, false) else
  let w := bufWriteAll [] lines
  let r2 := doWrites r1.1 .tmp true w.2
  if !r2.2 then ((doOp r2.1 (.close .tmp)).1, false) else        -- WriteString error: fh.Close(); return
  let r3 := if w.1 = [] then (r2.1, true) else doOp r2.1 (.write .tmp w.1)   -- buf.Flush()
  if !r3.2 then (r3.1, false) else
  let r4 := doOp r3.1 (.sync .tmp)
  if !r4.2 then ((doOp r4.1 (.close .tmp)).1, false) else
  ((doOp r4.1 (.close .tmp)).1, true)                            -- fh.Close(), result ignored

/-- `_ = s.buffered.Flush()` in compact(): the result is ignored, a failure leaves the bufio error -/
def fOldFlush (st : FSnap) : FSnap :=
  if st.sticky || st.s.buf = [] then st
  else
    let r := doOpW st (.write .main st.s.buf) (!st.fhClosed)
    if r.2 then { r.1 with s := { r.1.s with buf := [] } } else { r.1 with sticky := true }

/-- `s.fh.Close()` in compact() (a second Close of a closed file is an ignored error);
before e2c64f9 (`nil = true`) the two handles were also set to nil here -/
def fOldClose (nil : Bool) (st : FSnap) : FSnap :=
  let r7 : FSnap := if st.fh then (doOp st (.close .main)).1 else st
  if nil then { r7 with writer := false, sticky := false, fh := false } else { r7 with fhClosed := true }

/-- remove, rename, reopen, install the new handles -/
def fSwapTail (r7 : FSnap) (total : Nat) : FSnap × Res :=
  let r8 := doOpW r7 (.remove .main) (r7.mainExists || !r7.removeMissingFails)
  if !r8.2 then (r8.1, .err) else
  let r8' : FSnap := { r8.1 with mainExists := false }
  let r9 := doOp r8' (.rename .tmp .main)
  if !r9.2 then (r9.1, .err) else
  let r9' : FSnap := { r9.1 with mainExists := true }
  let r10 := doOp r9' (.openAppend .main)
  if !r10.2 then (r10.1, .err) else
  let r11 := r10.1
  let s1 : Snap := r11.s
  let s' : Snap := { s1 with buf := [], offset := total, flushDue := false, ncompact := s1.ncompact + 1, block := s1.alive }
  ({ r11 with writer := true, sticky := false, fh := true, fhClosed := false, s := s' }, .ok)

/-- `compact()`, second half: flush and close the old handles, remove, rename, reopen -/
def fCompactSwap (st : FSnap) (total : Nat) : FSnap × Res :=
  if !st.writer then ({ st with panicked := true }, .panic) else
  fSwapTail (fOldClose st.nilOnSwap (fOldFlush st)) total

/-- `compact()` -/
def fCompact (st : FSnap) : FSnap × Res :=
  let lines := compactLines Order.id st.s
  let r := fCompactFront st lines
  if !r.2 then (r.1, .err) else fCompactSwap r.1 lines.flatten.length

/-- `appendLine` -/
def fAppendLine (st : FSnap) (l : Bytes) : FSnap × Res :=
  let r := fAppendBytes st l
  match r.2 with
  | .ok => if r.1.s.offset > maxSize r.1.s then fCompact r.1 else r
  | _ => r

/-- `tryAppend`: on an error, a recovery compaction unless one was attempted recently -/
def fTryAppend (st : FSnap) (l : Bytes) : FSnap :=
  let r := fAppendLine st l
  match r.2 with
  | .ok => r.1
  | .panic => r.1
  | .err =>
    if r.1.attempted then r.1
    else (fCompact { r.1 with attempted := true }).1

def fUpdateClock (st : FSnap) (clk : Nat) : FSnap :=
  let lastSeen := lastSeenOf clk
  if lastSeen > st.s.lastClock then
    fTryAppend { st with s := { st.s with lastClock := lastSeen } } (printLine (.clock lastSeen))
  else st

def fJoin : FSnap → List (Name × Addr) → FSnap
  | st, [] => st
  | st, (n, a) :: ms =>
    if st.panicked then st else
    fJoin (fTryAppend { st with s := { st.s with alive := ainsert st.s.alive n a } } (printLine (.alive n a))) ms

def fGone : FSnap → List Name → FSnap
  | st, [] => st
  | st, n :: ns =>
    if st.panicked then st else
    fGone (fTryAppend { st with s := { st.s with alive := aerase st.s.alive n } } (printLine (.notAlive n))) ns

/-- `s.buffered.Flush()` outside appendLine (leave, shutdown): error only logged -/
def fFlush (st : FSnap) : FSnap :=
  if st.panicked then st
  else if !st.writer then { st with panicked := true }
  else if st.sticky || st.s.buf = [] then st
  else
    let r := doOpW st (.write .main st.s.buf) (!st.fhClosed)
    if r.2 then { r.1 with s := { r.1.s with buf := [] } } else { r.1 with sticky := true }

/-- the in-memory effect of a leave -/
def leaveState (st : FSnap) : FSnap :=
  { st with s := { st.s with leaving := true, alive := if st.s.rejoin then st.s.alive else [] } }

/-- events; `recoveryTimePasses`: snapshotErrorRecoveryInterval elapses -/
inductive FEv where
  | ev (e : Ev)
  | recoveryTimePasses
  deriving Repr, Inhabited

def fStep (st : FSnap) : FEv → FSnap
  | .recoveryTimePasses => { st with attempted := false }
  | .ev e =>
    if st.panicked then st else
    match e with
    | .join ms clk => if st.s.leaving then st else
        let r := fJoin st ms
        if r.panicked then r else fUpdateClock r clk
    | .gone ns clk => if st.s.leaving then st else
        let r := fGone st ns
        if r.panicked then r else fUpdateClock r clk
    | .memberOther clk => if st.s.leaving then st else fUpdateClock st clk
    | .user lt => if st.s.leaving then st else if lt ≤ st.s.lastEventClock then st
        else fTryAppend { st with s := { st.s with lastEventClock := lt } } (printLine (.eventClock lt))
    | .query lt => if st.s.leaving then st else if lt ≤ st.s.lastQueryClock then st
        else fTryAppend { st with s := { st.s with lastQueryClock := lt } } (printLine (.queryClock lt))
    | .clockTick clk => fUpdateClock st clk
    | .leave =>
      let r := fFlush (fTryAppend (leaveState st) (printLine .leave))
      if r.panicked then r else if r.fh then (doOp r (.sync .main)).1 else r
    | .timePasses => { st with s := { st.s with flushDue := true } }
    | .forceCompact => (fCompact st).1

def fRun (st : FSnap) : List FEv → FSnap
  | [] => st
  | e :: es => fRun (fStep st e) es

def fShutdown (st : FSnap) (clk : Nat) : FSnap :=
  if st.panicked then st else
  let r := fUpdateClock st clk
  let r := fFlush r
  if r.panicked then r else
  let r := if r.fh then (doOp r (.sync .main)).1 else r
  if r.fh then (doOp r (.close .main)).1 else r

/-- NewSnapshotter on a fresh directory (its own open is operation 0 and is not faulted here) -/
def fInit (rj : Bool) (mc : Nat) (fault : Option Nat) (nilOnSwap : Bool := false) (removeMissingFails : Bool := false) : FSnap :=
  { s := (Snap.init rj mc).1, nops := 1, fault := fault, done := [.openAppend .main], log := [(.openAppend .main, true)],
    nilOnSwap := nilOnSwap, removeMissingFails := removeMissingFails }

def fLife (rj : Bool) (mc : Nat) (fault : Option Nat) (evs : List FEv) (clk : Nat) (nilOnSwap : Bool := false)
    (removeMissingFails : Bool := false) : FSnap :=
  fShutdown (fRun (fInit rj mc fault nilOnSwap removeMissingFails) evs) clk

/-- the faults after which the handles are nil: compact()'s remove, rename, reopen -/
def badFault : Option FsOp → Bool
  | some (.remove .main) => true
  | some (.rename .tmp .main) => true
  | some (.openAppend .main) => true
  | _ => false

end SerfModel.SnapshotFault
