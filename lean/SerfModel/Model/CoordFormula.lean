/-
Expression trees for the round-trip-time formula.  `extract/coordformula.go` emits two of them into
`Gen/CoordFormula.lean`: the formula the code computes (Coordinate.DistanceTo with rawDistanceTo, magnitude
and diff inlined) and the formula the documentation states (the Go example in
docs/internals/coordinates.html.markdown).  `eval` gives them meaning over any `FloatLike`.
-/
import SerfModel.Model.Coord
namespace SerfModel.Coord
open SerfModel FloatLike

/-- vector-valued sub-expressions -/
inductive VExpr where
  | vecA | vecB
  /-- component-wise `x[i] - y[i]` -/
  | diff (x y : VExpr)
  deriving DecidableEq, Repr

/-- scalar sub-expressions (seconds) -/
inductive SExpr where
  | heightA | heightB | adjA | adjB
  /-- the literal `0.0` -/
  | zeroLit
  | add (x y : SExpr)
  | sqrt (x : SExpr)
  /-- `s := 0.0; for i { s += v[i] * v[i] }` -/
  | sumsq (v : VExpr)
  /-- `if cand > 0.0 { cand } else { fallback }` -/
  | guardPos (cand fallback : SExpr)
  deriving DecidableEq, Repr

/-- how the seconds value becomes a `time.Duration` -/
inductive Conv where
  /-- `time.Duration(x * 1.0e9)`: nanosecond resolution -/
  | scaleThenTruncate
  /-- `time.Duration(x) * time.Second`: `x` is truncated to WHOLE SECONDS first -/
  | truncateThenScale
  deriving DecidableEq, Repr

/-- what happens when the two coordinates have different dimensions -/
inductive DimCheck where
  /-- `panic(DimensionalityConflictError{})`: a typed error value -/
  | panicDimensionalityConflict
  /-- `panic("…")`: a string -/
  | panicMessage
  deriving DecidableEq, Repr

structure Formula where
  seconds : SExpr
  conv : Conv
  dimCheck : DimCheck
  deriving DecidableEq, Repr

variable {F : Type} [FloatLike F]

def VExpr.eval (a b : Coordinate F) : VExpr → List F
  | .vecA => a.vec
  | .vecB => b.vec
  | .diff x y => diffv (x.eval a b) (y.eval a b)

def SExpr.eval (a b : Coordinate F) : SExpr → F
  | .heightA => a.height
  | .heightB => b.height
  | .adjA => a.adjustment
  | .adjB => b.adjustment
  | .zeroLit => zero
  | .add x y => FloatLike.add (x.eval a b) (y.eval a b)
  | .sqrt x => FloatLike.sqrt (x.eval a b)
  | .sumsq v => SerfModel.Coord.sumsq (v.eval a b)
  | .guardPos c f => if gt (c.eval a b) zero then c.eval a b else f.eval a b

/-- `time.Duration(x) * time.Second` (int64 multiplication wraps) -/
def wrapInt64 (n : Int) : Int := (n + 9223372036854775808) % 18446744073709551616 - 9223372036854775808

def Conv.eval : Conv → F → Int
  | .scaleThenTruncate, x => toInt64 (mul x nanos)
  | .truncateThenScale, x => wrapInt64 (toInt64 x * 1000000000)

def Formula.evalNs (f : Formula) (a b : Coordinate F) : Int := f.conv.eval (f.seconds.eval a b)

end SerfModel.Coord
