/-
Executable model of the Vivaldi coordinate client: coordinate/coordinate.go,
coordinate/client.go, coordinate/config.go and the coordinate part of
serf/ping_delegate.go, statement by statement, polymorphic over `FloatLike F`.

Randomness (`unitVectorAt` draws `rng.Float64()` per dimension when two points
coincide) is an oracle: a list of the drawn values, consumed left to right.
Panics are explicit outcomes.
-/
import SerfModel.Model.FloatLike
namespace SerfModel.Coord
open SerfModel FloatLike

/-- coordinate.Config (config.go:29); `MetricLabels` does not influence behaviour, `rand` is the oracle. -/
structure Config (F : Type) where
  dim : Nat
  errorMax : F
  ce : F
  cc : F
  adjWindow : Nat
  heightMin : F
  latencyFilterSize : Nat
  gravityRho : F

/-- coordinate.Coordinate (coordinate.go:15) -/
structure Coordinate (F : Type) where
  vec : List F
  error : F
  adjustment : F
  height : F

/-- coordinate.Client (client.go:20); `origin` is `newCoordinate cfg` and never mutated; `config` is a parameter. -/
structure Client (F : Type) where
  coord : Coordinate F
  adjIndex : Nat
  adjSamples : List F
  latency : List (String × List F)
  resets : Nat

variable {F : Type} [FloatLike F]

/-- NewCoordinate (coordinate.go:58) -/
def newCoordinate (cfg : Config F) : Coordinate F :=
  { vec := List.replicate cfg.dim zero, error := cfg.errorMax, adjustment := zero, height := cfg.heightMin }

/-- NewClient (client.go:57): `none` = "dimensionality must be >0" -/
def newClient (cfg : Config F) : Option (Client F) :=
  if cfg.dim == 0 then none else
  some { coord := newCoordinate cfg, adjIndex := 0, adjSamples := List.replicate cfg.adjWindow zero,
         latency := [], resets := 0 }

/-- IsValid (coordinate.go:89) -/
def isValid (c : Coordinate F) : Bool :=
  c.vec.all finite && (finite c.error && finite c.adjustment && finite c.height)

/-- IsCompatibleWith (coordinate.go:104) -/
def isCompatibleWith (a b : Coordinate F) : Bool := a.vec.length == b.vec.length

/-- add / diff / mul (coordinate.go:147-177); only called on equal lengths (else Go panics on the index) -/
def addv (v1 v2 : List F) : List F := List.zipWith add v1 v2
def diffv (v1 v2 : List F) : List F := List.zipWith sub v1 v2
def mulv (v : List F) (k : F) : List F := v.map (fun x => mul x k)

/-- the loop of `magnitude` (coordinate.go:171): `sum := 0.0; sum += vec[i]*vec[i]` -/
def sumsq (v : List F) : F := v.foldl (fun s x => add s (mul x x)) zero

/-- magnitude (coordinate.go:170) -/
def magnitude (v : List F) : F := sqrt (sumsq v)

/-- take `n` draws from the oracle; an exhausted oracle yields zeros -/
def draws : Nat → List F → List F × List F
  | 0, r => ([], r)
  | n + 1, [] => (zero :: (draws n []).1, (draws n []).2)
  | n + 1, x :: r => (x :: (draws n r).1, (draws n r).2)

/-- the last-resort unit vector `ret[0] = 1.0` (coordinate.go:211); length 0 cannot occur (NewClient rejects it) -/
def firstAxis : Nat → List F
  | 0 => []
  | n + 1 => one :: List.replicate n zero

/-- unitVectorAt (coordinate.go:185) with the oracle threaded through -/
def unitVectorAt (rnd : List F) (v1 v2 : List F) : (List F × F) × List F :=
  let ret := diffv v1 v2
  let mag := magnitude ret
  if gt mag zeroThreshold then ((mulv ret (div one mag), mag), rnd)
  else
    let dr := draws ret.length rnd
    let ret2 := dr.1.map (fun x => sub x half)
    let mag2 := magnitude ret2
    if gt mag2 zeroThreshold then ((mulv ret2 (div one mag2), zero), dr.2)
    else ((firstAxis ret.length, zero), dr.2)

/-- ApplyForce (coordinate.go:107), compatible case (the incompatible case panics; the
client only calls it after `checkCoordinate`, or with its own `origin`). -/
def applyForce (cfg : Config F) (rnd : List F) (c : Coordinate F) (force : F) (other : Coordinate F) :
    Coordinate F × List F :=
  let u := unitVectorAt rnd c.vec other.vec   -- ((unit, mag), rest of the oracle)
  ({ c with
      vec := addv c.vec (mulv u.1.1 force),
      height :=
        if gt u.1.2 zeroThreshold then
          FloatLike.max (add (div (mul (add c.height other.height) force) u.1.2) c.height) cfg.heightMin
        else c.height },
   u.2)

/-- rawDistanceTo (coordinate.go:141) -/
def rawDistanceTo (a b : Coordinate F) : F :=
  add (magnitude (diffv a.vec b.vec)) (add a.height b.height)

/-- the seconds value computed by DistanceTo before the conversion (coordinate.go:129-133) -/
def distSeconds (a b : Coordinate F) : F :=
  let dist := rawDistanceTo a b
  let adjusted := add dist (add a.adjustment b.adjustment)
  if gt adjusted zero then adjusted else dist

/-- `time.Duration(dist * secondsToNanoseconds)` (coordinate.go:134) -/
def distanceNs (a b : Coordinate F) : Int := toInt64 (mul (distSeconds a b) nanos)

inductive DistResult where
  | ok (ns : Int)
  /-- `panic(DimensionalityConflictError{})` (coordinate.go:125) -/
  | dimensionalityConflict
  deriving DecidableEq, Repr

/-- DistanceTo (coordinate.go:123) -/
def distanceTo (a b : Coordinate F) : DistResult :=
  if !isCompatibleWith a b then .dimensionalityConflict else .ok (distanceNs a b)

/-- `time.Duration.Seconds()`: `float64(d / Second) + float64(d % Second) / 1e9` (Go truncated division) -/
def durSeconds (d : Int) : F :=
  add (ofInt (d.tdiv 1000000000)) (div (ofInt (d.tmod 1000000000)) nanos)

/-- insertion into an ascending list (`sort.Float64s` on ≤ LatencyFilterSize finite values) -/
def insertAsc (x : F) : List F → List F
  | [] => [x]
  | y :: ys => if lt y x then y :: insertAsc x ys else x :: y :: ys

def sortAsc (l : List F) : List F := l.foldr insertAsc []

inductive Reject where
  | dimension   -- "dimensions aren't compatible"
  | invalid     -- "coordinate is invalid"
  | rtt         -- "round trip time not in valid range"
  deriving DecidableEq, Repr

/-- checkCoordinate (client.go:112) -/
def checkCoordinate (cl : Client F) (c : Coordinate F) : Option Reject :=
  if !isCompatibleWith cl.coord c then some .dimension
  else if !isValid c then some .invalid
  else none

/-- latencyFilter (client.go:126): new state of the per-node samples and the median;
`none` as median = `sorted[len(sorted)/2]` indexes an empty slice (LatencyFilterSize = 0): panic -/
def latencyFilter (cfg : Config F) (cl : Client F) (node : String) (rtt : F) : Client F × Option F :=
  let samples := (alookup cl.latency node).getD []
  let samples := samples ++ [rtt]
  let samples := if samples.length > cfg.latencyFilterSize then samples.drop 1 else samples
  let cl' := { cl with latency := ainsert cl.latency node samples }
  let sorted := sortAsc samples
  (cl', sorted[sorted.length / 2]?)

/-- updateVivaldi (client.go:148) -/
def vivaldiError (cfg : Config F) (e otherError dist rtt : F) : F :=
  let wrongness := div (abs (sub dist rtt)) rtt
  let totalError := add e otherError
  let totalError := if lt totalError zeroThreshold then zeroThreshold else totalError
  let weight := div e totalError
  let err := add (mul (mul cfg.ce weight) wrongness) (mul e (sub one (mul cfg.ce weight)))
  if gt err cfg.errorMax then cfg.errorMax else err

def vivaldiForce (cfg : Config F) (e otherError dist rtt : F) : F :=
  let totalError := add e otherError
  let totalError := if lt totalError zeroThreshold then zeroThreshold else totalError
  let weight := div e totalError
  let delta := mul cfg.cc weight
  mul delta (sub rtt dist)

def updateVivaldi (cfg : Config F) (rnd : List F) (cl : Client F) (other : Coordinate F) (rtt : F) :
    Client F × List F :=
  let dist : F := durSeconds (distanceNs cl.coord other)
  let rtt := if lt rtt zeroThreshold then zeroThreshold else rtt
  let err := vivaldiError cfg cl.coord.error other.error dist rtt
  let force := vivaldiForce cfg cl.coord.error other.error dist rtt
  let r := applyForce cfg rnd { cl.coord with error := err } force other
  ({ cl with coord := r.1 }, r.2)

/-- updateAdjustment (client.go:175) -/
def updateAdjustment (cfg : Config F) (cl : Client F) (other : Coordinate F) (rtt : F) : Client F :=
  if cfg.adjWindow == 0 then cl else
  let dist := rawDistanceTo cl.coord other
  let samples := cl.adjSamples.set cl.adjIndex (sub rtt dist)
  let idx := (cl.adjIndex + 1) % cfg.adjWindow
  let sum := samples.foldl add zero
  let adj := div sum (mul (ofInt 2) (ofInt cfg.adjWindow))
  { cl with coord := { cl.coord with adjustment := adj }, adjIndex := idx, adjSamples := samples }

/-- `math.Pow(x, 2.0)`: equals the correctly rounded `x*x` (Go's Pow multiplies the
mantissas once and rescales) outside the subnormal range -/
def sq (x : F) : F := mul x x

/-- updateGravity (client.go:197) -/
def updateGravity (cfg : Config F) (rnd : List F) (cl : Client F) : Client F × List F :=
  let origin := newCoordinate cfg
  let dist : F := durSeconds (distanceNs origin cl.coord)
  let force := mul (ofInt (-1)) (sq (div dist cfg.gravityRho))
  let r := applyForce cfg rnd cl.coord force origin
  ({ cl with coord := r.1 }, r.2)

inductive UpdateResult where
  | ok
  | rejected (r : Reject)
  /-- index out of range in latencyFilter (LatencyFilterSize = 0) -/
  | panic
  deriving DecidableEq, Repr

/-- `rtt.Seconds()` -/
def rttSeconds (rttNs : Int) : F := durSeconds rttNs

/-- why an observation is rejected, if it is (client.go:209-222) -/
def rejection (cl : Client F) (other : Coordinate F) (rttNs : Int) : Option Reject :=
  match checkCoordinate cl other with
  | some r => some r
  | none => if rttNs < 0 || rttNs > 10000000000 then some .rtt else none

/-- Update (client.go:205).  `rnd` = the values `rng.Float64()` returns, in order. -/
def update (cfg : Config F) (cl : Client F) (node : String) (other : Coordinate F) (rttNs : Int)
    (rnd : List F) : Client F × UpdateResult :=
  match rejection cl other rttNs with
  | some r => (cl, .rejected r)
  | none =>
    match (latencyFilter cfg cl node (rttSeconds rttNs)).2 with
    | none => ((latencyFilter cfg cl node (rttSeconds rttNs)).1, .panic)
    | some rtt =>
      let cl1 := (latencyFilter cfg cl node (rttSeconds rttNs)).1
      let v := updateVivaldi cfg rnd cl1 other rtt
      let cl3 := updateAdjustment cfg v.1 other rtt
      let cl4 := (updateGravity cfg v.2 cl3).1
      if !isValid cl4.coord then
        ({ cl4 with resets := cl4.resets + 1, coord := newCoordinate cfg }, .ok)
      else (cl4, .ok)

/-- SetCoordinate (client.go:82) -/
def setCoordinate (cl : Client F) (c : Coordinate F) : Client F × Option Reject :=
  match checkCoordinate cl c with
  | some r => (cl, some r)
  | none => ({ cl with coord := c }, none)

/-- ForgetNode (client.go:95) -/
def forgetNode (cl : Client F) (node : String) : Client F :=
  { cl with latency := aerase cl.latency node }

/-- Client.DistanceTo (client.go:241) -/
def clientDistanceTo (cl : Client F) (other : Coordinate F) : DistResult := distanceTo cl.coord other

/-! ### The coordinate part of a Serf node: ping delegate and cache (serf/ping_delegate.go, serf.go:353, :1533) -/

/-- what `NotifyPingComplete` makes of the ack payload before the coordinate is used: msgpack decoding is
external code; the harness states what the payload is -/
inductive Payload (F : Type) where
  | empty                      -- len(payload) == 0
  | badVersion                 -- payload[0] != PingVersion
  | undecodable                -- dec.Decode fails
  | coord (c : Coordinate F)   -- decodes to c

structure Node (F : Type) where
  name : String
  client : Client F
  cache : List (String × Coordinate F)

/-- serf.Create (serf.go:316-355) with coordinates enabled -/
def newNode (cfg : Config F) (name : String) : Option (Node F) :=
  (newClient cfg).map fun cl => { name := name, client := cl, cache := [(name, cl.coord)] }

/-- NotifyPingComplete (ping_delegate.go:54).  Returns whether the peer's coordinate was cached. -/
def notifyPingComplete (cfg : Config F) (n : Node F) (peer : String) (rttNs : Int) (p : Payload F)
    (rnd : List F) : Node F × Bool :=
  match p with
  | .empty | .badVersion | .undecodable => (n, false)
  | .coord c =>
    match update cfg n.client peer c rttNs rnd with
    | (cl', .ok) =>
      ({ n with client := cl', cache := ainsert (ainsert n.cache peer c) n.name cl'.coord }, true)
    | (cl', _) => ({ n with client := cl' }, false)

/-- handleNodeLeaveIntent/eraseNode side (serf.go:1533): forget the node and drop its cache entry -/
def nodeForget (n : Node F) (peer : String) : Node F :=
  { n with client := forgetNode n.client peer, cache := aerase n.cache peer }

end SerfModel.Coord
