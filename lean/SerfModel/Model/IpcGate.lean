/-
IPC connection gate — model of `handleClient` / `handleRequest` and the handlers'
request decoding in cmd/serf/command/agent/ipc.go (as it is now).

The INPUT of a connection is the sequence of msgpack objects the client writes.
`handleClient` decodes one object into the REUSED `reqHeader` variable (fields
absent from the object keep their previous value), `handleRequest` applies the
handshake gate (error reply, connection closed), the auth gate (error reply,
connection continues — the request body is NOT consumed, so it is decoded next
as a header), and otherwise dispatches; a handler of a command with a request
body consumes the next object.

The decoder (go-msgpack) is a PARAMETER (`Codec`): the theorems hold for every
decoder, in particular for the concrete one in `Model/IpcCodec.lean` which the
correspondence check compares with the real library.
-/
import SerfModel.Prelude.Basic
namespace SerfModel.IpcGate

/-- `requestHeader` -/
structure Hdr where
  cmd : String := ""
  seq : Nat := 0
  deriving DecidableEq, Repr, Inhabited

/-- What the msgpack decoder does with one wire object (`none` = Decode returned an error). -/
structure Codec (Obj : Type) where
  /-- `client.dec.Decode(&reqHeader)` into the reused variable holding `prev` -/
  hdr : Hdr → Obj → Option Hdr
  /-- `Decode(&handshakeRequest)` → `Version` -/
  version : Obj → Option Int
  /-- `Decode(&authRequest)` → `AuthKey` -/
  authKey : Obj → Option String
  /-- request body of any other command → canonical rendering of the decoded request.
  (`none` also covers a handler that returns an error without replying: members-filtered
  with an uncompilable regexp.) -/
  body : String → Obj → Option String

inductive Err
  | ok | handshakeRequired | authRequired | invalidToken | unsupportedVersion
  | duplicateHandshake | unsupportedCommand
  /-- reply of an accepted command: `errToString` of whatever the agent returned -/
  | handler
  deriving DecidableEq, Repr, Inhabited

/-- Things that happen on a connection, in order. -/
inductive Out
  /-- `client.version` set by a successful handshake -/
  | handshakeOk
  /-- an auth request was evaluated against the configured key -/
  | auth (presented : String) (ok : Bool)
  /-- an accepted command ran its handler (event fired, join attempted, leave, tags …) -/
  | effect (cmd : String) (args : String)
  /-- a reply header was sent; `data` = a response body follows it -/
  | reply (seq : Nat) (err : Err) (data : Bool)
  deriving DecidableEq, Repr, Inhabited

inductive Mode
  | header
  /-- the handler of `hdr.cmd` is waiting for its request object -/
  | body
  deriving DecidableEq, Repr, Inhabited

/-- `IPCClient.version`, `IPCClient.didAuth`, the reused `reqHeader`, where the
reader is, and whether `handleClient` has returned. -/
structure St where
  version : Int := 0
  didAuth : Bool := false
  hdr : Hdr := {}
  mode : Mode := .header
  closed : Bool := false
  deriving DecidableEq, Repr, Inhabited

def minIPCVersion : Int := 1
def maxIPCVersion : Int := 1

/-- The dispatch table of `handleRequest` for commands other than handshake/auth:
(handler decodes a request body, handler sends a response body). -/
def cmdInfo : String → Option (Bool × Bool)
  | "event" => some (true, false)
  | "force-leave" => some (true, false)
  | "join" => some (true, true)
  | "members" => some (false, true)
  | "members-filtered" => some (true, true)
  | "stream" => some (true, false)
  | "monitor" => some (true, false)
  | "stop" => some (true, false)
  | "leave" => some (false, false)
  | "install-key" => some (true, true)
  | "use-key" => some (true, true)
  | "remove-key" => some (true, true)
  | "list-keys" => some (false, true)
  | "tags" => some (true, false)
  | "query" => some (true, false)
  | "respond" => some (true, false)
  | "stats" => some (false, true)
  | "get-coordinate" => some (true, true)
  | _ => none

def returnsData (cmd : String) : Bool :=
  match cmdInfo cmd with
  | some (_, d) => d
  | none => false

/-- `handleRequest` up to the point where the handler would read its body. -/
def onHeader (key : String) (s0 : St) (h : Hdr) : St × List Out :=
  let s := { s0 with hdr := h }
  if h.cmd != "handshake" && s.version == 0 then
    ({ s with closed := true }, [.reply h.seq .handshakeRequired false])
  else if key != "" && !s.didAuth && h.cmd != "auth" && h.cmd != "handshake" then
    (s, [.reply h.seq .authRequired false])
  else if h.cmd == "handshake" || h.cmd == "auth" then
    ({ s with mode := .body }, [])
  else
    match cmdInfo h.cmd with
    | none => ({ s with closed := true }, [.reply h.seq .unsupportedCommand false])
    | some (true, _) => ({ s with mode := .body }, [])
    | some (false, d) => (s, [.effect h.cmd "", .reply h.seq .handler d])

/-- The handler of `s.hdr.cmd` after `Decode(&req)` of the object `o`. -/
def onBody {Obj : Type} (cd : Codec Obj) (key : String) (s : St) (o : Obj) : St × List Out :=
  let s' := { s with mode := .header }
  if s.hdr.cmd == "handshake" then
    match cd.version o with
    | none => ({ s with closed := true }, [])
    | some v =>
      if v < minIPCVersion || v > maxIPCVersion then (s', [.reply s.hdr.seq .unsupportedVersion false])
      else if s.version != 0 then (s', [.reply s.hdr.seq .duplicateHandshake false])
      else ({ s' with version := v }, [.handshakeOk, .reply s.hdr.seq .ok false])
  else if s.hdr.cmd == "auth" then
    match cd.authKey o with
    | none => ({ s with closed := true }, [])
    | some k =>
      if k == key then ({ s' with didAuth := true }, [.auth k true, .reply s.hdr.seq .ok false])
      else (s', [.auth k false, .reply s.hdr.seq .invalidToken false])
  else
    match cd.body s.hdr.cmd o with
    | none => ({ s with closed := true }, [])
    | some a => (s', [.effect s.hdr.cmd a, .reply s.hdr.seq .handler (returnsData s.hdr.cmd)])

/-- One wire object. -/
def step {Obj : Type} (cd : Codec Obj) (key : String) (s : St) (o : Obj) : St × List Out :=
  if s.closed then (s, [])
  else
    match s.mode with
    | .header =>
      match cd.hdr s.hdr o with
      | none => ({ s with closed := true }, [])
      | some h => onHeader key s h
    | .body => onBody cd key s o

def runFrom {Obj : Type} (cd : Codec Obj) (key : String) : St → List Obj → St × List Out
  | s, [] => (s, [])
  | s, o :: rest =>
    let r := step cd key s o
    let r' := runFrom cd key r.1 rest
    (r'.1, r.2 ++ r'.2)

/-- Everything a connection does for the object sequence `objs` (agent key `key`). -/
def run {Obj : Type} (cd : Codec Obj) (key : String) (objs : List Obj) : List Out :=
  (runFrom cd key {} objs).2

/-- State after the objects `objs`. -/
def stateAfter {Obj : Type} (cd : Codec Obj) (key : String) (objs : List Obj) : St :=
  (runFrom cd key {} objs).1

/-! ### The property as a scan of the output list -/

/-- takes effect / returns data: needs a preceding successful handshake -/
def Out.isEffect : Out → Bool
  | .handshakeOk => false
  | .auth _ _ => true
  | .effect _ _ => true
  /- a reply that carries data, or any non-error reply (the handshake's own `ok` reply follows
  its `handshakeOk`, so it is preceded by a successful handshake too) -/
  | .reply _ e d => d || e == .ok || e == .handler

/-- needs the correct key first (when one is configured): command effects, data, and the
non-error reply of any command other than handshake/auth -/
def Out.isGuarded : Out → Bool
  | .effect _ _ => true
  | .reply _ e d => d || e == .handler
  | _ => false

def Out.isHandshakeOk : Out → Bool
  | .handshakeOk => true
  | _ => false

def Out.isAuthOk : Out → Bool
  | .auth _ ok => ok
  | _ => false

/-- `hs` / `au`: a successful handshake / authentication has been seen so far. -/
def gateOK (keySet : Bool) : Bool → Bool → List Out → Bool
  | _, _, [] => true
  | hs, au, o :: rest =>
    (!o.isEffect || hs) && (!o.isGuarded || !keySet || au)
      && gateOK keySet (hs || o.isHandshakeOk) (au || o.isAuthOk) rest

/-- The gate rejects a decoded header in state `s` (exactly the two early returns of `handleRequest`). -/
def rejects (key : String) (s : St) (h : Hdr) : Option Err :=
  if h.cmd != "handshake" && s.version == 0 then some .handshakeRequired
  else if key != "" && !s.didAuth && h.cmd != "auth" && h.cmd != "handshake" then some .authRequired
  else none

/-! ### Code-shape variants

The decisive shapes of `handleHandshake` / `handleAuth` are regenerated from the source
(`Gen/IpcGate.lean`).  `Shape` names the two variation points a plausible edit changes; the
model above is the `good` shape (`onBodyV good = onBody`), the other shapes exist so that the
property can be shown to FAIL for them (regression witnesses). -/

structure Shape where
  /-- `client.version = req.Version` executed before the range check (and the duplicate check
  first): a rejected handshake with a non-zero unsupported version leaves `version != 0` -/
  hsAssignBeforeRangeCheck : Bool := false
  /-- the presented key is compared only over its own length (a non-empty proper prefix matches) -/
  authPrefixMatch : Bool := false
  deriving DecidableEq, Repr, Inhabited

def good : Shape := {}

def keyMatches (sh : Shape) (given want : String) : Bool :=
  if sh.authPrefixMatch then
    given.length != 0 && given.length ≤ want.length && given.toList == want.toList.take given.length
  else given == want

def onBodyV {Obj : Type} (sh : Shape) (cd : Codec Obj) (key : String) (s : St) (o : Obj) : St × List Out :=
  let s' := { s with mode := .header }
  if s.hdr.cmd == "handshake" then
    match cd.version o with
    | none => ({ s with closed := true }, [])
    | some v =>
      if sh.hsAssignBeforeRangeCheck then
        if s.version != 0 then (s', [.reply s.hdr.seq .duplicateHandshake false])
        else if v < minIPCVersion || v > maxIPCVersion then ({ s' with version := v }, [.reply s.hdr.seq .unsupportedVersion false])
        else ({ s' with version := v }, [.handshakeOk, .reply s.hdr.seq .ok false])
      else if v < minIPCVersion || v > maxIPCVersion then (s', [.reply s.hdr.seq .unsupportedVersion false])
      else if s.version != 0 then (s', [.reply s.hdr.seq .duplicateHandshake false])
      else ({ s' with version := v }, [.handshakeOk, .reply s.hdr.seq .ok false])
  else if s.hdr.cmd == "auth" then
    match cd.authKey o with
    | none => ({ s with closed := true }, [])
    | some k =>
      if keyMatches sh k key then ({ s' with didAuth := true }, [.auth k true, .reply s.hdr.seq .ok false])
      else (s', [.auth k false, .reply s.hdr.seq .invalidToken false])
  else
    match cd.body s.hdr.cmd o with
    | none => ({ s with closed := true }, [])
    | some a => (s', [.effect s.hdr.cmd a, .reply s.hdr.seq .handler (returnsData s.hdr.cmd)])

def stepV {Obj : Type} (sh : Shape) (cd : Codec Obj) (key : String) (s : St) (o : Obj) : St × List Out :=
  if s.closed then (s, [])
  else
    match s.mode with
    | .header =>
      match cd.hdr s.hdr o with
      | none => ({ s with closed := true }, [])
      | some h => onHeader key s h
    | .body => onBodyV sh cd key s o

def runFromV {Obj : Type} (sh : Shape) (cd : Codec Obj) (key : String) : St → List Obj → St × List Out
  | s, [] => (s, [])
  | s, o :: rest =>
    let r := stepV sh cd key s o
    let r' := runFromV sh cd key r.1 rest
    (r'.1, r.2 ++ r'.2)

def runV {Obj : Type} (sh : Shape) (cd : Codec Obj) (key : String) (objs : List Obj) : List Out :=
  (runFromV sh cd key {} objs).2

/-- canonical (normalised, see extract/normalise.go) text of the extracted shapes for the `good`
model: roles instead of identifier names, constants by value, operands ordered -/
def canonicalHandshakeChain : List (String × String) :=
  [(s!"$req.Version < {minIPCVersion} || $req.Version > {maxIPCVersion}", "error:Unsupported IPC version"),
   ("$client.version != 0", "error:Handshake already performed"),
   ("else", "assign:$client.version=$req.Version")]

def canonicalAuthChain : List (String × String) :=
  [("$ipc.authKey == $req.AuthKey", "assign:$client.didAuth=true"), ("else", "error:Invalid authentication token")]

def canonicalHandshakeGate : String × String × Bool :=
  ("$client.version == 0 && $command != \"handshake\"", "Handshake required", true)

def canonicalAuthGate : String × String × Bool :=
  ("!$client.didAuth && $command != \"auth\" && $command != \"handshake\" && $ipc.authKey != \"\"", "Authentication required", false)

/-- the shape the extracted chains denote -/
def shapeOf (hsChain authChain : List (String × String)) : Shape :=
  { hsAssignBeforeRangeCheck := hsChain != canonicalHandshakeChain, authPrefixMatch := authChain != canonicalAuthChain }

/-- the dispatch table of the source agrees with `cmdInfo` (every command other than
handshake/auth) and handshake/auth decode a body and send none -/
def dispatchAgrees (rows : List (String × Bool × Bool)) : Bool :=
  rows.all (fun r =>
    if r.1 == "handshake" || r.1 == "auth" then r.2.1 && !r.2.2
    else cmdInfo r.1 == some (r.2.1, r.2.2)) &&
  ["event", "force-leave", "join", "members", "members-filtered", "stream", "monitor", "stop", "leave", "install-key",
   "use-key", "remove-key", "list-keys", "tags", "query", "respond", "stats", "get-coordinate", "handshake", "auth"].all
    (fun c => rows.any (·.1 == c)) &&
  rows.length == 20

end SerfModel.IpcGate
