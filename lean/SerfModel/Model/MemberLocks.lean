/-
How the serf package holds `memberLock` around its MemberEvent sends, as read off the
source by /verif/extract (memberlocks.go → Gen/MemberLocks.lean).

A handler changes a member's status and announces it.  The pipeline model of C16 starts
from "the emitted history" and takes it to be ordered like the status changes; that is so
exactly when status change and send happen inside one exclusive critical section of
memberLock.  `allSendsUnderLock` is that condition on the extracted facts.
-/
namespace SerfModel.MemberLocks

structure Handler where
  name : String
  /-- number of `s.config.EventCh <- MemberEvent{…}` statements in the body -/
  sends : Nat
  /-- `"Lock"`, `"RLock"` or `"none"` -/
  lockCall : String
  /-- `"deferred"` (Lock; defer Unlock), `"region"` (Lock … Unlock in one block), `"none"`
  (memberLock not mentioned: callers must hold it), `"other"` -/
  shape : String
  /-- memberLock is touched again inside the section (an early unlock), or the member table is
  read before the lock -/
  earlyUnlock : Bool
  /-- every send lies inside the section, on the locking goroutine -/
  sendsInside : Bool
  /-- for shape `"none"`: every call site in the package, with "inside the caller's section" -/
  callSites : List (String × Bool)
  deriving DecidableEq, Repr, Inhabited

/-- `f` runs with memberLock held exclusively for its whole body (its own section, or — when it
does not lock — at every call site, recursively). -/
def holdsLock (hs : List Handler) : Nat → String → Bool
  | 0, _ => false
  | fuel + 1, f =>
    match hs.find? (·.name == f) with
    | none => false
    | some h =>
      if h.shape == "deferred" || h.shape == "region" then h.lockCall == "Lock" && !h.earlyUnlock
      else if h.shape == "none" then
        !h.callSites.isEmpty && h.callSites.all (fun cs => cs.2 && holdsLock hs fuel cs.1)
      else false

/-- `f` sends its member events while memberLock is held. -/
def sendsUnderLock (hs : List Handler) (f : String) : Bool :=
  match hs.find? (·.name == f) with
  | none => false
  | some h => h.sends > 0 && h.sendsInside && holdsLock hs 8 f

def allSendsUnderLock (hs : List Handler) : Bool :=
  hs.all (fun h => h.sends == 0 || sendsUnderLock hs h.name)

end SerfModel.MemberLocks
