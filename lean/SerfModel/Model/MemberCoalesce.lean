/-
Model of serf/coalesce_member.go (memberEventCoalescer).

`lastEvents`  : kind last *sent* to the application per member name
`latestEvents`: latest event *received* per member name since the previous flush
Go map iteration order is unspecified; the model keeps insertion order and all
comparisons with the implementation are made on sorted output.
-/
import SerfModel.Prelude.Basic
namespace SerfModel.MemberCoalesce
open SerfModel

inductive Kind where
  | join | leave | failed | update | reap
  deriving DecidableEq, Repr, Inhabited

def Kind.toString : Kind → String
  | .join => "join" | .leave => "leave" | .failed => "failed" | .update => "update" | .reap => "reap"

def Kind.ofString? : String → Option Kind
  | "join" => some .join | "leave" => some .leave | "failed" => some .failed
  | "update" => some .update | "reap" => some .reap | _ => none

/-- One member inside a member event: the name and an opaque version of the member
record (tags/address/status snapshot), so that "the latest event" is identifiable. -/
structure MEv where
  kind : Kind
  name : String
  ver : Nat
  deriving DecidableEq, Repr, Inhabited

structure MC where
  lastEvents : List (String × Kind) := []
  latest : List (String × MEv) := []
  deriving Repr, Inhabited

/-- `Coalesce` for one member of an event. -/
def coalesce (c : MC) (e : MEv) : MC := { c with latest := ainsert c.latest e.name e }

/-- Is the pending event suppressed (same kind as the last one sent, and not an update)? -/
def suppressed (last : List (String × Kind)) (e : MEv) : Bool :=
  alookup last e.name == some e.kind && e.kind != .update

/-- The loop of `Flush` over `latestEvents`. -/
def flushLoop : List (String × MEv) → List (String × Kind) → List MEv → List (String × Kind) × List MEv
  | [], last, out => (last, out.reverse)
  | (_, e) :: rest, last, out =>
    if suppressed last e then flushLoop rest last out
    else flushLoop rest (ainsert last e.name e.kind) (e :: out)

/-- `Flush`: the events handed to the application (ungrouped; the implementation
groups them by kind into one MemberEvent per kind) and the coalescer afterwards. -/
def flush (c : MC) : MC × List MEv :=
  let (last, out) := flushLoop c.latest c.lastEvents []
  ({ lastEvents := last, latest := [] }, out)

/-- A quantum: the member events received between two flushes. -/
def runQuantum (c : MC) (q : List MEv) : MC × List MEv := flush (q.foldl coalesce c)

def runQuanta (c : MC) : List (List MEv) → MC × List (List MEv)
  | [] => (c, [])
  | q :: qs =>
    let (c1, o) := runQuantum c q
    let (c2, os) := runQuanta c1 qs
    (c2, o :: os)

end SerfModel.MemberCoalesce
