/-
Model of serf/coalesce_user.go (userEventCoalescer).

`events map[string]*latestUserEvents` is an association list name ↦ (LTime, Events).
Lamport times are compared with `<` and `==` only, so `Nat` is faithful for every
uint64 value.  Go map iteration order is unspecified: the model keeps insertion
order, and every statement / comparison is made per event name (where the order
is fixed by the code: the `Events` slice is sent front to back).
-/
import SerfModel.Model.CoalesceLoop
namespace SerfModel.UserCoalesce
open SerfModel

/-- A user event; `id` stands for the payload (identifies the event). -/
structure UserEv where
  name : String
  lt : Nat
  coalesce : Bool
  id : Nat
  deriving DecidableEq, Repr, Inhabited

/-- `map[string]*latestUserEvents` -/
abbrev UC := List (String × (Nat × List UserEv))

/-- `(*userEventCoalescer).Coalesce` -/
def coalesce (c : UC) (e : UserEv) : UC :=
  match alookup c e.name with
  | none => ainsert c e.name (e.lt, [e])
  | some (lt, evs) =>
    if lt < e.lt then ainsert c e.name (e.lt, [e])
    else if lt = e.lt then ainsert c e.name (lt, evs ++ [e])
    else c

/-- `(*userEventCoalescer).Flush`: every stored event, name by name, then a fresh map. -/
def flush (c : UC) : UC × List UserEv := ([], c.flatMap (·.2.2))

/-- A quantum: the coalescable user events received between two flushes. -/
def runQuantum (c : UC) (q : List UserEv) : UC × List UserEv := flush (q.foldl coalesce c)

def runQuanta (c : UC) : List (List UserEv) → UC × List (List UserEv)
  | [] => (c, [])
  | q :: qs =>
    let r := runQuantum c q
    let r' := runQuanta r.1 qs
    (r'.1, r.2 :: r'.2)

/-! Specification vocabulary (also used by the monitor on the implementation's outputs). -/

/-- Highest Lamport time among the events named `n` (0 if there are none). -/
def maxLt (p : List UserEv) (n : String) : Nat :=
  p.foldl (fun acc e => if e.name == n then max acc e.lt else acc) 0

/-- The events named `n` carrying the highest Lamport time for `n`, in arrival order. -/
def newest (p : List UserEv) (n : String) : List UserEv :=
  p.filter (fun e => e.name == n && e.lt == maxLt p n)

/-! Events as the coalesce loop sees them: user events and everything else. -/

inductive Ev where
  | user (u : UserEv)
  /-- member events, queries: anything whose `EventType()` is not `EventUser` -/
  | other (id : Nat)
  deriving DecidableEq, Repr, Inhabited

/-- `(*userEventCoalescer).Handle` -/
def handles : Ev → Bool
  | .user u => u.coalesce
  | .other _ => false

def userCoalescer : CoalesceLoop.Coalescer Ev where
  σ := UC
  init := []
  handle := handles
  coalesce := fun c e => match e with
    | .user u => coalesce c u
    | .other _ => c          -- unreachable: the loop calls Coalesce only after Handle
  flush := fun c => ((flush c).1, (flush c).2.map Ev.user)

end SerfModel.UserCoalesce
