/-
Model of the cluster key operations:

* serf/keymanager.go `streamKeyResp` (aggregation of the per-node replies) and the
  error conditions of `handleKeyRequest`;
* serf/internal_query.go `keyListResponseWithCorrectSize` (the truncation loop).

Go maps are association lists (compared sorted).  msgpack decoding is external
code: a reply arrives already classified (`badType` — empty payload or wrong type
byte; `undecodable`; `decoded r`).  The encoded size of a key-list reply is the
parameter `size` of the truncation loop.
-/
import SerfModel.Prelude.Basic
namespace SerfModel.KeyAgg
open SerfModel

/-- `nodeKeyResponse`. -/
structure NodeKeyResp where
  result : Bool
  message : String
  keys : List String
  primary : String
  deriving DecidableEq, Repr, Inhabited

inductive Payload where
  | badType
  | undecodable
  | decoded (r : NodeKeyResp)
  deriving DecidableEq, Repr, Inhabited

/-- `NodeResponse{From, Payload}`. -/
structure NR where
  sender : String
  payload : Payload
  deriving DecidableEq, Repr, Inhabited

/-- Entries of `KeyResponse.Messages`. -/
inductive Msg where
  | invalidType      -- "Invalid key query response type: …"
  | decodeFailed     -- "Failed to decode key query response: …"
  | text (s : String)
  deriving DecidableEq, Repr, Inhabited

structure KeyResponse where
  messages : List (String × Msg) := []
  numNodes : Nat := 0
  numResp : Nat := 0
  numErr : Nat := 0
  keys : List (String × Nat) := []
  primary : List (String × Nat) := []
  deriving DecidableEq, Repr, Inhabited

/-- `m[k]++` on a Go map with zero default. -/
def inc (m : List (String × Nat)) (k : String) : List (String × Nat) :=
  ainsert m k ((alookup m k).getD 0 + 1)

/-- Value of a counter map at a key (0 when absent). -/
def cnt (m : List (String × Nat)) (k : String) : Nat := (alookup m k).getD 0

/-- One iteration of the loop body of `streamKeyResp` (up to the `NEXT:` label). -/
def stepOne (resp : KeyResponse) (r : NR) : KeyResponse :=
  let resp := { resp with numResp := resp.numResp + 1 }
  match r.payload with
  | .badType => { resp with messages := ainsert resp.messages r.sender .invalidType, numErr := resp.numErr + 1 }
  | .undecodable => { resp with messages := ainsert resp.messages r.sender .decodeFailed, numErr := resp.numErr + 1 }
  | .decoded n =>
    let resp := if !n.result then
        { resp with messages := ainsert resp.messages r.sender (.text n.message), numErr := resp.numErr + 1 }
      else resp
    let resp := if n.result && n.message.length > 0 then
        { resp with messages := ainsert resp.messages r.sender (.text n.message) }
      else resp
    { resp with keys := n.keys.foldl inc resp.keys, primary := inc resp.primary n.primary }

/-- `for r := range ch { …; if resp.NumResp == resp.NumNodes { return } }`. -/
def streamLoop (resp : KeyResponse) : List NR → KeyResponse
  | [] => resp
  | r :: rs =>
    let resp' := stepOne resp r
    if resp'.numResp == resp'.numNodes then resp' else streamLoop resp' rs

/-- `streamKeyResp` on the fresh `KeyResponse` of `handleKeyRequest`. -/
def streamKeyResp (numNodes : Nat) (rs : List NR) : KeyResponse :=
  streamLoop { numNodes := numNodes } rs

inductive KeyErr where
  | failures (numErr numNodes : Nat)   -- "%d/%d nodes reported failure"
  | missing (numResp numNodes : Nat)   -- "%d/%d nodes reported success"
  deriving DecidableEq, Repr

/-- The two checks at the end of `handleKeyRequest`. -/
def keyRequestError (resp : KeyResponse) : Option KeyErr :=
  if resp.numErr != 0 then some (.failures resp.numErr resp.numNodes)
  else if resp.numResp != resp.numNodes then some (.missing resp.numResp resp.numNodes)
  else none

/-! ### The loop as written (regenerated: `SerfModel.Gen.KeyStream`) -/

structure StreamShape where
  /-- classified statements of the loop body, in order -/
  order : List String
  /-- `var nodeResponse nodeKeyResponse` is declared inside the loop -/
  targetFresh : Bool
  /-- the wrong-type branch does `NumErr++` and `goto NEXT` -/
  typeErrCounts : Bool
  /-- the decode-error branch does `NumErr++` and `goto NEXT` -/
  decodeErrCounts : Bool
  /-- condition of the early return at NEXT -/
  stopTest : String
  deriving DecidableEq, Repr

/-- The shape `stepOne` / `streamLoop` transcribe. -/
def StreamShape.asModelled (s : StreamShape) : Bool :=
  s.order == ["declTarget", "countResp", "typeCheck", "decode", "effects", "next"] && s.targetFresh &&
  s.typeErrCounts && s.decodeErrCounts && s.stopTest == "resp.NumResp == resp.NumNodes"

/-- `stepOne` with the path conditions of the four effects of a decoded reply as parameters
(regenerated from the source as `Gen.KeyStream.{errGuard,msgGuard,keysGuard,primaryGuard}`). -/
def stepOneG (errG msgG keysG primG : NodeKeyResp → Bool) (resp : KeyResponse) (r : NR) : KeyResponse :=
  let resp := { resp with numResp := resp.numResp + 1 }
  match r.payload with
  | .badType => { resp with messages := ainsert resp.messages r.sender .invalidType, numErr := resp.numErr + 1 }
  | .undecodable => { resp with messages := ainsert resp.messages r.sender .decodeFailed, numErr := resp.numErr + 1 }
  | .decoded n =>
    let resp := if errG n then { resp with numErr := resp.numErr + 1 } else resp
    let resp := if msgG n then { resp with messages := ainsert resp.messages r.sender (.text n.message) } else resp
    { resp with keys := if keysG n then n.keys.foldl inc resp.keys else resp.keys,
                primary := if primG n then inc resp.primary n.primary else resp.primary }

/-! ### The loop over raw payloads with its decode target made explicit

msgpack assigns only the fields present in a reply, so what a reply decodes to depends on what
`nodeResponse` held before: the decoder is a function of the previous contents.  `fresh = true`
(the declaration sits inside the loop) starts every reply from the zero value. -/

abbrev Bytes := List UInt8

/-- `messageKeyResponseType` (serf/messages.go, iota = 8). -/
def keyResponseType : UInt8 := 8

abbrev DecoderInto := NodeKeyResp → Bytes → Option NodeKeyResp

def zeroResp : NodeKeyResp := ⟨false, "", [], ""⟩

/-- Type check and decode of one payload into a target holding `start`: the classification the
aggregation sees, and the target afterwards. -/
def classifyInto (dec : DecoderInto) (start : NodeKeyResp) (payload : Bytes) : Payload × NodeKeyResp :=
  match payload with
  | [] => (.badType, start)
  | t :: rest =>
    if t == keyResponseType then
      match dec start rest with
      | none => (.undecodable, start)
      | some n => (.decoded n, n)
    else (.badType, start)

def streamRawLoop (fresh : Bool) (dec : DecoderInto) (resp : KeyResponse) (var : NodeKeyResp) :
    List (String × Bytes) → KeyResponse
  | [] => resp
  | (sender, p) :: rs =>
    let c := classifyInto dec (if fresh then zeroResp else var) p
    let resp' := stepOne resp ⟨sender, c.1⟩
    if resp'.numResp == resp'.numNodes then resp' else streamRawLoop fresh dec resp' c.2 rs

/-- `streamKeyResp` on raw payloads. -/
def streamKeyRespRaw (fresh : Bool) (dec : DecoderInto) (numNodes : Nat) (rs : List (String × Bytes)) : KeyResponse :=
  streamRawLoop fresh dec { numNodes := numNodes } zeroResp rs

/-! ### The truncation loop -/

/-- What a reply says about truncation: `none` = the handler's original message,
`some i` = "truncated key list response, showing first i of <actual> keys". -/
abbrev Notice := Option Nat

/-- Encoded size of the reply showing the first `n` keys with the given notice. -/
abbrev SizeFn := Nat → Notice → Nat

inductive KLResult where
  | ok (rawLen shown : Nat) (notice : Notice)
  | error
  deriving DecidableEq, Repr

/-- The loop `for i := maxListKeys; i >= 0; i--`; `j = i + 1` iterations remain,
`shown`/`notice` are the current `len(resp.Keys)` / `resp.Message`. -/
def klLoop (size : SizeFn) (limit : Nat) : Nat → Nat → Notice → KLResult
  | 0, _, _ => .error
  | i + 1, shown, notice =>
    if size shown notice > limit then klLoop size limit i i (some i)
    else .ok (size shown notice) shown notice

/-- `minEncodedKeyLength`. -/
def minEncodedKeyLength : Nat := 25

def maxListKeys (limit actual : Nat) : Nat := min (limit / minEncodedKeyLength) actual

/-- `keyListResponseWithCorrectSize` for a reply holding `actual` keys. -/
def keyListResponse (size : SizeFn) (limit actual : Nat) : KLResult :=
  klLoop size limit (maxListKeys limit actual + 1) actual none

/-- The (prefix length, notice) pairs the loop encodes, in order: the untruncated
list first, then the prefixes of length M, M-1, …, 1 each announcing its own length. -/
def tried (limit actual : Nat) : List (Nat × Notice) :=
  (actual, none) :: ((List.range (maxListKeys limit actual)).reverse.map fun j => (j + 1, some (j + 1)))

end SerfModel.KeyAgg
