import SerfModel.Prelude.Basic
/-!
Control skeleton of the network-facing handlers (serf/delegate.go NotifyMsg, MergeRemoteState;
serf/serf.go handleUserEvent, handleQuery, handleQueryResponse; serf/query.go shouldProcessQuery,
QueryResponse.sendAck/sendResponse; serf/internal_query.go stream/handleQuery and the key handlers)
over raw bytes and an ABSTRACT decoder.

Every place where the real code indexes, slices, takes a modulo, writes to a map that may be nil or
sends on a channel that may be closed is a *checked* operation here with an explicit `.panic site`
outcome, guarded exactly as the source guards it.  The site names are those of
`SerfModel.Gen.PanicSites` (regenerated from the source); `coveredSites` lists the ones this
skeleton embodies and `SerfProofs.C09.C09_skeleton_covers_generated_sites` checks that list against
the generated inventory of the modelled functions.  The decoder is a parameter: any total function
to `Option` (go-msgpack turns its internal panics into errors; that is the assumed law).  Bytes are
`Nat`s; Lamport times are `Nat`s below 2^64 with the wrap-around of `uint64` made explicit.
-/
namespace SerfModel.Handlers

inductive Outcome where
  | ok (rebroadcast : Bool)
  | ignored (why : String)
  | panic (site : String)
  deriving Repr, DecidableEq

/-- result of a helper that may hit a panic site -/
inductive Res (α : Type) where
  | val : α → Res α
  | panic : String → Res α

def twoPow64 : Nat := 18446744073709551616

/-- serf/lamport.go Witness on `uint64`: `if v < cur { return }; cur = v + 1` (the addition wraps). -/
def witness (cur v : Nat) : Nat := if v < cur then cur else (v + 1) % twoPow64

structure Cfg where
  eventBuffer : Nat
  queryBuffer : Nat
  encryption : Bool := true

structure Query where
  ltime : Nat
  id : Nat
  name : List Nat
  payload : List Nat
  filters : List (List Nat)
  ack : Bool
  noBroadcast : Bool

structure Response where
  ltime : Nat
  id : Nat
  ack : Bool

structure PushPull where
  leftMembers : List (List Nat)
  /-- `none` = a nil slot in the decoded `Events` slice; `some (ltime, n)` = an entry with n events -/
  events : List (Option (Nat × Nat))

/-- the msgpack decoder, abstract: `none` = decode error -/
structure Dec where
  leave : List Nat → Option Nat
  join : List Nat → Option Nat
  userEvent : List Nat → Option Nat
  query : List Nat → Option Query
  queryResponse : List Nat → Option Response
  /-- relay header; the result is `raw`, the bytes behind the header (forwarded untouched) -/
  relayHeader : List Nat → Option (List Nat)
  pushPull : List Nat → Option PushPull
  /-- node filter: decoded, and whether our name is listed -/
  filterNode : List Nat → Option Bool
  /-- tag filter: decoded, and whether the regexp compiles and matches -/
  filterTag : List Nat → Option Bool
  keyRequest : List Nat → Option (List Nat)

def rejectAll : Dec :=
  { leave := fun _ => none, join := fun _ => none, userEvent := fun _ => none, query := fun _ => none,
    queryResponse := fun _ => none, relayHeader := fun _ => none, pushPull := fun _ => none,
    filterNode := fun _ => none, filterTag := fun _ => none, keyRequest := fun _ => none }

/-- a query this node has issued and still tracks (serf/query.go QueryResponse) -/
structure OpenQuery where
  ltime : Nat
  id : Nat
  /-- `ackCh != nil` / `acks != nil` (both made by newQueryResponse iff the query requested acks) -/
  ackCh : Bool
  acksMap : Bool
  /-- `responses != nil` -/
  responsesMap : Bool := true
  /-- the `closed` flag, and whether the channels have actually been closed -/
  closed : Bool := false
  chClosed : Bool := false

structure State where
  /-- one slot per buffer entry: the Lamport time stored there (`none` = nil pointer) -/
  eventBuf : List (Option Nat)
  queryBuf : List (Option Nat)
  eventMin : Nat := 0
  queryMin : Nat := 0
  eventClock : Nat := 0
  queryClock : Nat := 0
  openQueries : List OpenQuery := []

/-- scheduling facts the handler cannot control: is there room in the reply channel, has the query's deadline passed -/
structure Sched where
  space : Bool := true
  deadlinePassed : Bool := false

def defaultCfg : Cfg := { eventBuffer := 4, queryBuffer := 4 }
def initState : State := { eventBuf := List.replicate 4 none, queryBuf := List.replicate 4 none }

/-- invariants of an open query: established by newQueryResponse / Close (checked against the source by the
extractor: `[inv]` hypotheses of the sendAck/sendResponse sites) -/
def OpenQuery.WF (q : OpenQuery) : Prop :=
  (q.ackCh = true → q.acksMap = true) ∧ q.responsesMap = true ∧ (q.chClosed = true → q.closed = true)

/-- configuration precondition + shape of the state: Create makes the buffers with the configured sizes,
which must be positive (`LTime % len(buffer)`); open queries satisfy their invariants. -/
def WF (cfg : Cfg) (st : State) : Prop :=
  0 < cfg.eventBuffer ∧ 0 < cfg.queryBuffer ∧ st.eventBuf.length = cfg.eventBuffer ∧ st.queryBuf.length = cfg.queryBuffer ∧
  ∀ q ∈ st.openQueries, q.WF

/-- `x[1:]`, checked -/
def slice1 (site : String) (x : List Nat) : Res (List Nat) :=
  if 1 ≤ x.length then .val (x.drop 1) else .panic site

/-- the de-duplication buffers: `idx := ltime % len(buf); seen := buf[idx]; …; buf[idx] = seen`
(handleUserEvent / handleQuery; `clock` is the clock after witnessing the message) -/
def bufferStep (siteDiv siteIdx siteIdx2 : String) (buf : List (Option Nat)) (minT clock ltime : Nat) : Res (List (Option Nat) × Bool) :=
  if ltime < minT then .val (buf, false)
  else if clock > buf.length ∧ ltime < clock - buf.length then .val (buf, false)
  else if buf.length = 0 then .panic siteDiv
  else
    let idx := ltime % buf.length
    match buf[idx]? with
    | none => .panic siteIdx
    | some (some t) => if t = ltime then .val (buf, true)   -- same time: entry kept
                       else if idx < buf.length then .val (buf.set idx (some ltime), true) else .panic siteIdx2
    | some none => if idx < buf.length then .val (buf.set idx (some ltime), true) else .panic siteIdx2

/-- serf/query.go shouldProcessQuery -/
def shouldProcess (d : Dec) : List (List Nat) → Res Bool
  | [] => .val true
  | filter :: rest =>
    if filter.length = 0 then .val false
    else match filter[0]? with
      | none => .panic "site_Serf_shouldProcessQuery_index_filter_0"
      | some t =>
        if t = 0 then
          match slice1 "site_Serf_shouldProcessQuery_slice_filter_1" filter with
          | .panic s => .panic s
          | .val body => match d.filterNode body with
            | some true => shouldProcess d rest
            | _ => .val false
        else if t = 1 then
          match slice1 "site_Serf_shouldProcessQuery_slice_filter_1_2" filter with
          | .panic s => .panic s
          | .val body => match d.filterTag body with
            | some true => shouldProcess d rest
            | _ => .val false
        else
          -- default: the warning prints filter[0] once more
          match filter[0]? with
          | none => .panic "site_Serf_shouldProcessQuery_index_filter_0_2"
          | some _ => .val false

def internalPrefix : List Nat := "_serf_".toList.map (·.toNat)

/-- serf/internal_query.go: a key handler (`handleInstallKey`/`handleUseKey`/`handleRemoveKey`) -/
def keyHandler (site : String) (d : Dec) (payload : List Nat) : Outcome :=
  if payload.length < 1 then .ignored "empty key payload: error response"
  else match slice1 site payload with
    | .panic s => .panic s
    | .val body => match d.keyRequest body with
      | none => .ignored "key request does not decode: error response"
      | some _ => .ok false

/-- serf/internal_query.go stream + handleQuery: dispatch on the name after the prefix -/
def internalQuery (d : Dec) (q : Query) : Outcome :=
  if internalPrefix.isPrefixOf q.name then
    -- queryName := q.Name[len(InternalQueryPrefix):]
    if internalPrefix.length ≤ q.name.length then
      let nm := String.ofList ((q.name.drop internalPrefix.length).map Char.ofNat)
      if nm = "install-key" then keyHandler "site_serfQueries_handleInstallKey_slice_q_Payload_1" d q.payload
      else if nm = "use-key" then keyHandler "site_serfQueries_handleUseKey_slice_q_Payload_1" d q.payload
      else if nm = "remove-key" then keyHandler "site_serfQueries_handleRemoveKey_slice_q_Payload_1" d q.payload
      else .ok false
    else .panic "site_serfQueries_handleQuery_slice_q_Name_len_InternalQueryPrefix"
  else .ok false  -- handed to the application

/-- serf/serf.go handleQuery followed by the internal-query stage -/
def handleQuery (d : Dec) (st : State) (q : Query) : State × Outcome :=
  let clock := witness st.queryClock q.ltime
  match bufferStep "site_Serf_handleQuery_div_LamportTime_len_s_queryBuffer" "site_Serf_handleQuery_index_s_queryBuffer_idx"
      "site_Serf_handleQuery_index_s_queryBuffer_idx_2" st.queryBuf st.queryMin clock q.ltime with
  | .panic s => (st, .panic s)
  | .val (_, false) => ({ st with queryClock := clock }, .ok false)
  | .val (buf, true) =>
    let st' := { st with queryBuf := buf, queryClock := clock }
    match shouldProcess d q.filters with
    | .panic s => (st', .panic s)
    | .val false => (st', .ok (!q.noBroadcast))
    | .val true =>
      match internalQuery d q with
      | .panic s => (st', .panic s)
      | _ => (st', .ok (!q.noBroadcast))

/-- serf/serf.go handleUserEvent -/
def handleUserEvent (st : State) (ltime : Nat) : State × Outcome :=
  let clock := witness st.eventClock ltime
  match bufferStep "site_Serf_handleUserEvent_div_LamportTime_len_s_eventBuffer" "site_Serf_handleUserEvent_index_s_eventBuffer_idx"
      "site_Serf_handleUserEvent_index_s_eventBuffer_idx_2" st.eventBuf st.eventMin clock ltime with
  | .panic s => (st, .panic s)
  | .val (buf, b) => ({ st with eventBuf := buf, eventClock := clock }, .ok b)

/-- serf/query.go sendAck: under closeLock; `if r.closed return`; `select { case r.ackCh <- from: r.acks[from] = …; default: error }`.
A send on a nil channel is never selected; a send on a closed channel is selected and panics. -/
def sendAck (q : OpenQuery) (sc : Sched) : Outcome :=
  if q.closed then .ignored "query closed"
  else if q.ackCh && (sc.space || q.chClosed) then
    if q.chClosed then .panic "site_QueryResponse_sendAck_send_r_ackCh"
    else if q.acksMap then .ok false else .panic "site_QueryResponse_sendAck_mapwrite_r_acks"
  else .ignored "dropped"

/-- serf/query.go sendResponse -/
def sendResponse (q : OpenQuery) (sc : Sched) : Outcome :=
  if q.closed then .ignored "query closed"
  else if sc.space || q.chClosed then
    if q.chClosed then .panic "site_QueryResponse_sendResponse_send_r_respCh"
    else if q.responsesMap then .ok false else .panic "site_QueryResponse_sendResponse_mapwrite_r_responses"
  else .ignored "dropped"

/-- serf/serf.go handleQueryResponse -/
def handleQueryResponse (st : State) (r : Response) (sc : Sched) : Outcome :=
  match st.openQueries.find? (fun q => q.ltime == r.ltime) with
  | none => .ignored "reply for non-running query"
  | some q =>
    if q.id ≠ r.id then .ignored "id mismatch"
    else if q.closed || sc.deadlinePassed then .ignored "finished"
    else if r.ack then sendAck q sc else sendResponse q sc

/-- serf/delegate.go NotifyMsg -/
def notifyMsg (d : Dec) (st : State) (buf : List Nat) (sc : Sched) : State × Outcome :=
  if buf.length = 0 then (st, .ignored "empty")
  else match buf[0]? with
    | none => (st, .panic "site_delegate_NotifyMsg_index_buf_0")
    | some t =>
      if t = 0 then match slice1 "site_delegate_NotifyMsg_slice_buf_1" buf with
        | .panic s => (st, .panic s)
        | .val body => match d.leave body with
          | none => (st, .ignored "leave does not decode") | some _ => (st, .ok true)
      else if t = 1 then match slice1 "site_delegate_NotifyMsg_slice_buf_1_2" buf with
        | .panic s => (st, .panic s)
        | .val body => match d.join body with
          | none => (st, .ignored "join does not decode") | some _ => (st, .ok true)
      else if t = 3 then match slice1 "site_delegate_NotifyMsg_slice_buf_1_3" buf with
        | .panic s => (st, .panic s)
        | .val body => match d.userEvent body with
          | none => (st, .ignored "user event does not decode") | some lt => handleUserEvent st lt
      else if t = 4 then match slice1 "site_delegate_NotifyMsg_slice_buf_1_4" buf with
        | .panic s => (st, .panic s)
        | .val body => match d.query body with
          | none => (st, .ignored "query does not decode") | some q => handleQuery d st q
      else if t = 5 then match slice1 "site_delegate_NotifyMsg_slice_buf_1_5" buf with
        | .panic s => (st, .panic s)
        | .val body => match d.queryResponse body with
          | none => (st, .ignored "response does not decode") | some r => (st, handleQueryResponse st r sc)
      else if t = 9 then match slice1 "site_delegate_NotifyMsg_slice_buf_1_6" buf with
        | .panic s => (st, .panic s)
        | .val body => match d.relayHeader body with
          | none => (st, .ignored "relay header does not decode")
          | some _raw => (st, .ok false)  -- raw is forwarded as it is: never inspected, may be empty
      else (st, .ignored "unknown type")

/-- the event loop of MergeRemoteState: nil slots are skipped (`if events == nil { continue }`) -/
def mergeEvents (st : State) : List (Option (Nat × Nat)) → State × Outcome
  | [] => (st, .ok false)
  | none :: rest => mergeEvents st rest
  | some (lt, _) :: rest =>
    match handleUserEvent st lt with
    | (st', .panic s) => (st', .panic s)
    | (st', _) => mergeEvents st' rest

/-- serf/delegate.go MergeRemoteState -/
def mergeRemoteState (d : Dec) (st : State) (buf : List Nat) : State × Outcome :=
  if buf.length = 0 then (st, .ignored "empty")
  else match buf[0]? with
    | none => (st, .panic "site_delegate_MergeRemoteState_index_buf_0")
    | some t =>
      if t ≠ 2 then
        -- the error message prints buf[0] once more
        match buf[0]? with
        | none => (st, .panic "site_delegate_MergeRemoteState_index_buf_0_2")
        | some _ => (st, .ignored "bad type prefix")
      else match slice1 "site_delegate_MergeRemoteState_slice_buf_1" buf with
        | .panic s => (st, .panic s)
        | .val body => match d.pushPull body with
          | none => (st, .ignored "push/pull does not decode")
          | some pp => mergeEvents st pp.events

inductive Input where
  | msg (buf : List Nat) (sc : Sched := {})
  | merge (buf : List Nat)

def handle (_cfg : Cfg) (d : Dec) (st : State) : Input → State × Outcome
  | .msg b sc => notifyMsg d st b sc
  | .merge b => mergeRemoteState d st b

/-- a whole history of inputs; stops at the first panic -/
def run (cfg : Cfg) (d : Dec) : State → List Input → State × Outcome
  | st, [] => (st, .ok false)
  | st, i :: rest =>
    match handle cfg d st i with
    | (st', .panic s) => (st', .panic s)
    | (st', _) => run cfg d st' rest

/-- the functions of the source this skeleton follows (names as in `Gen.PanicSites.sitesByFunction`) -/
def modelledFunctions : List String :=
  ["delegate_NotifyMsg", "delegate_MergeRemoteState", "Serf_handleUserEvent", "Serf_handleQuery", "Serf_shouldProcessQuery",
   "serfQueries_handleQuery", "serfQueries_handleInstallKey", "serfQueries_handleUseKey", "serfQueries_handleRemoveKey",
   "QueryResponse_sendAck", "QueryResponse_sendResponse"]

/-- the kinds of site the skeleton represents as checked operations -/
def modelledKinds : List String := ["index", "slice", "div", "mapwrite", "send"]

/-- every `.panic` site name that occurs in the skeleton -/
def coveredSites : List String :=
  ["site_delegate_NotifyMsg_index_buf_0", "site_delegate_NotifyMsg_slice_buf_1", "site_delegate_NotifyMsg_slice_buf_1_2",
   "site_delegate_NotifyMsg_slice_buf_1_3", "site_delegate_NotifyMsg_slice_buf_1_4", "site_delegate_NotifyMsg_slice_buf_1_5",
   "site_delegate_NotifyMsg_slice_buf_1_6",
   "site_delegate_MergeRemoteState_index_buf_0", "site_delegate_MergeRemoteState_index_buf_0_2", "site_delegate_MergeRemoteState_slice_buf_1",
   "site_Serf_handleUserEvent_div_LamportTime_len_s_eventBuffer", "site_Serf_handleUserEvent_index_s_eventBuffer_idx",
   "site_Serf_handleUserEvent_index_s_eventBuffer_idx_2",
   "site_Serf_handleQuery_div_LamportTime_len_s_queryBuffer", "site_Serf_handleQuery_index_s_queryBuffer_idx",
   "site_Serf_handleQuery_index_s_queryBuffer_idx_2",
   "site_Serf_shouldProcessQuery_index_filter_0", "site_Serf_shouldProcessQuery_slice_filter_1",
   "site_Serf_shouldProcessQuery_slice_filter_1_2", "site_Serf_shouldProcessQuery_index_filter_0_2",
   "site_serfQueries_handleQuery_slice_q_Name_len_InternalQueryPrefix",
   "site_serfQueries_handleInstallKey_slice_q_Payload_1", "site_serfQueries_handleUseKey_slice_q_Payload_1",
   "site_serfQueries_handleRemoveKey_slice_q_Payload_1",
   "site_QueryResponse_sendAck_send_r_ackCh", "site_QueryResponse_sendAck_mapwrite_r_acks",
   "site_QueryResponse_sendResponse_send_r_respCh", "site_QueryResponse_sendResponse_mapwrite_r_responses"]

/-- sites of the modelled functions that are trivially safe in the source and have no checked counterpart here
(a map made two lines earlier; sends on channels the library never closes) -/
def triviallySafe : List String :=
  ["site_delegate_MergeRemoteState_mapwrite_leftMap", "site_Serf_handleUserEvent_send_s_config_EventCh",
   "site_Serf_handleQuery_send_s_config_EventCh"]

end SerfModel.Handlers
