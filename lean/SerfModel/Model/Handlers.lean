import SerfModel.Prelude.Basic
/-!
Control skeleton of the network-facing handlers (serf/delegate.go NotifyMsg, MergeRemoteState;
serf/serf.go handleUserEvent, handleQuery; serf/query.go shouldProcessQuery; serf/internal_query.go
stream/handleQuery and the key handlers) over raw bytes and an ABSTRACT decoder.

Every place where the real code indexes, slices or takes a modulo is a *checked* operation here
with an explicit `.panic site` outcome (the site names are those of `SerfModel.Gen.PanicSites`),
guarded exactly as the source guards it.  The decoder is a parameter: any total function (go-msgpack
turns its internal panics into errors; that is the assumed law).  Bytes are `Nat`s.
-/
namespace SerfModel.Handlers

inductive Outcome where
  | ok (rebroadcast : Bool)
  | ignored (why : String)
  | panic (site : String)
  deriving Repr, DecidableEq

/-- result of a helper that may hit a panic site -/
inductive Res (α : Type) where
  | val : α → Res α
  | panic : String → Res α

structure Cfg where
  eventBuffer : Nat
  queryBuffer : Nat
  encryption : Bool := true

structure Query where
  ltime : Nat
  id : Nat
  name : List Nat
  payload : List Nat
  filters : List (List Nat)
  ack : Bool
  noBroadcast : Bool

structure PushPull where
  leftMembers : List (List Nat)
  /-- `none` = a nil slot in the decoded `Events` slice; `some (ltime, n)` = an entry with n events -/
  events : List (Option (Nat × Nat))

/-- the msgpack decoder, abstract: `none` = decode error -/
structure Dec where
  leave : List Nat → Option Nat
  join : List Nat → Option Nat
  userEvent : List Nat → Option Nat
  query : List Nat → Option Query
  queryResponse : List Nat → Option Nat
  relayHeader : List Nat → Option (List Nat)
  pushPull : List Nat → Option PushPull
  /-- node filter: decoded, and whether our name is listed -/
  filterNode : List Nat → Option Bool
  /-- tag filter: decoded, and whether the regexp compiles and matches -/
  filterTag : List Nat → Option Bool
  keyRequest : List Nat → Option (List Nat)

def rejectAll : Dec :=
  { leave := fun _ => none, join := fun _ => none, userEvent := fun _ => none, query := fun _ => none,
    queryResponse := fun _ => none, relayHeader := fun _ => none, pushPull := fun _ => none,
    filterNode := fun _ => none, filterTag := fun _ => none, keyRequest := fun _ => none }

structure State where
  /-- one slot per buffer entry: the Lamport time stored there (`none` = nil pointer) -/
  eventBuf : List (Option Nat)
  queryBuf : List (Option Nat)
  eventMin : Nat := 0
  queryMin : Nat := 0
  eventClock : Nat := 0
  queryClock : Nat := 0

def defaultCfg : Cfg := { eventBuffer := 4, queryBuffer := 4 }
def initState : State := { eventBuf := List.replicate 4 none, queryBuf := List.replicate 4 none }

/-- configuration precondition + buffer shape: Create makes the buffers with the configured sizes,
which must be positive (`LTime % len(buffer)` divides by the size). -/
def WF (cfg : Cfg) (st : State) : Prop :=
  0 < cfg.eventBuffer ∧ 0 < cfg.queryBuffer ∧ st.eventBuf.length = cfg.eventBuffer ∧ st.queryBuf.length = cfg.queryBuffer

/-- `x[1:]`, checked -/
def slice1 (site : String) (x : List Nat) : Res (List Nat) :=
  if 1 ≤ x.length then .val (x.drop 1) else .panic site

/-- the de-duplication buffers: `idx := ltime % len(buf); seen := buf[idx]` (handleUserEvent / handleQuery) -/
def bufferStep (siteDiv siteIdx : String) (buf : List (Option Nat)) (minT clock ltime : Nat) : Res (List (Option Nat) × Bool) :=
  if ltime < minT then .val (buf, false)
  else if clock > buf.length ∧ ltime < clock - buf.length then .val (buf, false)
  else if buf.length = 0 then .panic siteDiv
  else
    let idx := ltime % buf.length
    match buf[idx]? with
    | none => .panic siteIdx
    | some _ => .val (buf.set idx (some ltime), true)

/-- serf/query.go shouldProcessQuery -/
def shouldProcess (d : Dec) : List (List Nat) → Res Bool
  | [] => .val true
  | filter :: rest =>
    if filter.length = 0 then .val false
    else match filter[0]? with
      | none => .panic "site_Serf_shouldProcessQuery_index_filter_0"
      | some t =>
        if t = 0 then
          match slice1 "site_Serf_shouldProcessQuery_slice_filter_1" filter with
          | .panic s => .panic s
          | .val body => match d.filterNode body with
            | some true => shouldProcess d rest
            | _ => .val false
        else if t = 1 then
          match slice1 "site_Serf_shouldProcessQuery_slice_filter_1_2" filter with
          | .panic s => .panic s
          | .val body => match d.filterTag body with
            | some true => shouldProcess d rest
            | _ => .val false
        else .val false

def internalPrefix : List Nat := "_serf_".toList.map (·.toNat)

/-- serf/internal_query.go: a key handler (`handleInstallKey`/`handleUseKey`/`handleRemoveKey`) -/
def keyHandler (site : String) (d : Dec) (payload : List Nat) : Outcome :=
  if payload.length < 1 then .ignored "empty key payload: error response"
  else match slice1 site payload with
    | .panic s => .panic s
    | .val body => match d.keyRequest body with
      | none => .ignored "key request does not decode: error response"
      | some _ => .ok false

/-- serf/internal_query.go stream + handleQuery: dispatch on the name after the prefix -/
def internalQuery (d : Dec) (q : Query) : Outcome :=
  if internalPrefix.isPrefixOf q.name then
    -- queryName := q.Name[len(InternalQueryPrefix):]
    if internalPrefix.length ≤ q.name.length then
      let nm := String.ofList ((q.name.drop internalPrefix.length).map Char.ofNat)
      if nm = "install-key" then keyHandler "site_serfQueries_handleInstallKey_slice_q_Payload_1" d q.payload
      else if nm = "use-key" then keyHandler "site_serfQueries_handleUseKey_slice_q_Payload_1" d q.payload
      else if nm = "remove-key" then keyHandler "site_serfQueries_handleRemoveKey_slice_q_Payload_1" d q.payload
      else .ok false
    else .panic "site_serfQueries_handleQuery_slice_q_Name_len_InternalQueryPrefix"
  else .ok false  -- handed to the application

/-- serf/serf.go handleQuery followed by the internal-query stage -/
def handleQuery (d : Dec) (st : State) (q : Query) : State × Outcome :=
  match bufferStep "site_Serf_handleQuery_div_LamportTime_len_s_queryBuffer" "site_Serf_handleQuery_index_s_queryBuffer_idx"
      st.queryBuf st.queryMin (max st.queryClock (q.ltime + 1)) q.ltime with
  | .panic s => (st, .panic s)
  | .val (_, false) => ({ st with queryClock := max st.queryClock (q.ltime + 1) }, .ok false)
  | .val (buf, true) =>
    let st' := { st with queryBuf := buf, queryClock := max st.queryClock (q.ltime + 1) }
    match shouldProcess d q.filters with
    | .panic s => (st', .panic s)
    | .val false => (st', .ok (!q.noBroadcast))
    | .val true =>
      match internalQuery d q with
      | .panic s => (st', .panic s)
      | _ => (st', .ok (!q.noBroadcast))

/-- serf/serf.go handleUserEvent -/
def handleUserEvent (st : State) (ltime : Nat) : State × Outcome :=
  match bufferStep "site_Serf_handleUserEvent_div_LamportTime_len_s_eventBuffer" "site_Serf_handleUserEvent_index_s_eventBuffer_idx"
      st.eventBuf st.eventMin (max st.eventClock (ltime + 1)) ltime with
  | .panic s => (st, .panic s)
  | .val (buf, b) => ({ st with eventBuf := buf, eventClock := max st.eventClock (ltime + 1) }, .ok b)

/-- serf/delegate.go NotifyMsg -/
def notifyMsg (d : Dec) (st : State) (buf : List Nat) : State × Outcome :=
  if buf.length = 0 then (st, .ignored "empty")
  else match buf[0]? with
    | none => (st, .panic "site_delegate_NotifyMsg_index_buf_0")
    | some t =>
      match slice1 "site_delegate_NotifyMsg_slice_buf_1" buf with
      | .panic s => (st, .panic s)
      | .val body =>
        if t = 0 then match d.leave body with
          | none => (st, .ignored "leave does not decode") | some _ => (st, .ok true)
        else if t = 1 then match d.join body with
          | none => (st, .ignored "join does not decode") | some _ => (st, .ok true)
        else if t = 3 then match d.userEvent body with
          | none => (st, .ignored "user event does not decode") | some lt => handleUserEvent st lt
        else if t = 4 then match d.query body with
          | none => (st, .ignored "query does not decode") | some q => handleQuery d st q
        else if t = 5 then match d.queryResponse body with
          | none => (st, .ignored "response does not decode") | some _ => (st, .ok false)
        else if t = 9 then match d.relayHeader body with
          | none => (st, .ignored "relay header does not decode") | some _ => (st, .ok false)  -- forwarded, not processed here
        else (st, .ignored "unknown type")

/-- the event loop of MergeRemoteState: nil slots are skipped (`if events == nil { continue }`) -/
def mergeEvents (st : State) : List (Option (Nat × Nat)) → State × Outcome
  | [] => (st, .ok false)
  | none :: rest => mergeEvents st rest
  | some (lt, _) :: rest =>
    match handleUserEvent st lt with
    | (st', .panic s) => (st', .panic s)
    | (st', _) => mergeEvents st' rest

/-- serf/delegate.go MergeRemoteState -/
def mergeRemoteState (d : Dec) (st : State) (buf : List Nat) : State × Outcome :=
  if buf.length = 0 then (st, .ignored "empty")
  else match buf[0]? with
    | none => (st, .panic "site_delegate_MergeRemoteState_index_buf_0")
    | some t =>
      if t ≠ 2 then (st, .ignored "bad type prefix")
      else match slice1 "site_delegate_MergeRemoteState_slice_buf_1" buf with
        | .panic s => (st, .panic s)
        | .val body => match d.pushPull body with
          | none => (st, .ignored "push/pull does not decode")
          | some pp => mergeEvents st pp.events

inductive Input where
  | msg (buf : List Nat)
  | merge (buf : List Nat)

def handle (_cfg : Cfg) (d : Dec) (st : State) : Input → State × Outcome
  | .msg b => notifyMsg d st b
  | .merge b => mergeRemoteState d st b

/-- a whole history of inputs; stops at the first panic -/
def run (cfg : Cfg) (d : Dec) : State → List Input → State × Outcome
  | st, [] => (st, .ok false)
  | st, i :: rest =>
    match handle cfg d st i with
    | (st', .panic s) => (st', .panic s)
    | (st', _) => run cfg d st' rest

end SerfModel.Handlers
