import SerfModel.Prelude.Basic
/-!
Control skeleton of the network-facing handlers (serf/delegate.go NotifyMsg, MergeRemoteState;
serf/serf.go handleUserEvent, handleQuery, handleQueryResponse; serf/query.go shouldProcessQuery,
QueryResponse.sendAck/sendResponse; serf/internal_query.go stream/handleQuery and the key handlers)
over raw bytes and an ABSTRACT decoder.

Every place where the real code indexes, slices, takes a modulo, writes to a map that may be nil or
sends on a channel that may be closed is a *checked* operation here with an explicit `.panic site`
outcome, guarded exactly as the source guards it.  The site names are those of
`SerfModel.Gen.PanicSites` (regenerated from the source); `coveredSites` lists the ones this
skeleton embodies and `SerfProofs.C09.C09_skeleton_covers_generated_sites` checks that list against
the generated inventory of the modelled functions.  The decoder is a parameter: any total function
to `Option` (go-msgpack turns its internal panics into errors; that is the assumed law).  Bytes are
`Nat`s; Lamport times are `Nat`s below 2^64 with the wrap-around of `uint64` made explicit.
-/
namespace SerfModel.Handlers

inductive Outcome where
  | ok (rebroadcast : Bool)
  | ignored (why : String)
  | panic (site : String)
  deriving Repr, DecidableEq

/-- result of a helper that may hit a panic site -/
inductive Res (α : Type) where
  | val : α → Res α
  | panic : String → Res α

def twoPow64 : Nat := 18446744073709551616

/-- serf/lamport.go Witness on `uint64`: `if v < cur { return }; cur = v + 1` (the addition wraps). -/
def witness (cur v : Nat) : Nat := if v < cur then cur else (v + 1) % twoPow64

structure Cfg where
  eventBuffer : Nat
  queryBuffer : Nat
  encryption : Bool := true
  /-- dimensionality of the node's own network coordinate -/
  dimensionality : Nat := 8

structure Query where
  ltime : Nat
  id : Nat
  name : List Nat
  payload : List Nat
  filters : List (List Nat)
  ack : Bool
  noBroadcast : Bool

structure Response where
  ltime : Nat
  id : Nat
  ack : Bool

structure PushPull where
  leftMembers : List (List Nat)
  /-- `none` = a nil slot in the decoded `Events` slice; `some (ltime, n)` = an entry with n events -/
  events : List (Option (Nat × Nat))

/-- the msgpack decoder, abstract: `none` = decode error -/
structure Dec where
  leave : List Nat → Option Nat
  join : List Nat → Option Nat
  userEvent : List Nat → Option Nat
  query : List Nat → Option Query
  queryResponse : List Nat → Option Response
  /-- relay header; the result is `raw`, the bytes behind the header (forwarded untouched) -/
  relayHeader : List Nat → Option (List Nat)
  pushPull : List Nat → Option PushPull
  /-- node filter: decoded, and whether our name is listed -/
  filterNode : List Nat → Option Bool
  /-- tag filter: decoded, and whether the regexp compiles and matches -/
  filterTag : List Nat → Option Bool
  keyRequest : List Nat → Option (List Nat)
  /-- probe-ack payload: the decoded coordinate's number of dimensions -/
  coordinate : List Nat → Option Nat := fun _ => none
  /-- name-conflict reply (a Member) and key reply (a nodeKeyResponse) -/
  member : List Nat → Option Unit := fun _ => none
  keyResponse : List Nat → Option Unit := fun _ => none
  /-- tags blob behind the magic byte -/
  tags : List Nat → Option Unit := fun _ => none

def rejectAll : Dec :=
  { leave := fun _ => none, join := fun _ => none, userEvent := fun _ => none, query := fun _ => none,
    queryResponse := fun _ => none, relayHeader := fun _ => none, pushPull := fun _ => none,
    filterNode := fun _ => none, filterTag := fun _ => none, keyRequest := fun _ => none }

/-- a query this node has issued and still tracks (serf/query.go QueryResponse) -/
structure OpenQuery where
  ltime : Nat
  id : Nat
  /-- `ackCh != nil` / `acks != nil` (both made by newQueryResponse iff the query requested acks) -/
  ackCh : Bool
  acksMap : Bool
  /-- `responses != nil` -/
  responsesMap : Bool := true
  /-- the `closed` flag, and whether the channels have actually been closed -/
  closed : Bool := false
  chClosed : Bool := false

structure State where
  /-- one slot per buffer entry: the Lamport time stored there (`none` = nil pointer) -/
  eventBuf : List (Option Nat)
  queryBuf : List (Option Nat)
  eventMin : Nat := 0
  queryMin : Nat := 0
  eventClock : Nat := 0
  queryClock : Nat := 0
  openQueries : List OpenQuery := []

/-- scheduling facts the handler cannot control: is there room in the reply channel, has the query's deadline passed -/
structure Sched where
  space : Bool := true
  deadlinePassed : Bool := false

def defaultCfg : Cfg := { eventBuffer := 4, queryBuffer := 4 }
def initState : State := { eventBuf := List.replicate 4 none, queryBuf := List.replicate 4 none }

/-- invariants of an open query: established by newQueryResponse / Close (checked against the source by the
extractor: `[inv]` hypotheses of the sendAck/sendResponse sites) -/
def OpenQuery.WF (q : OpenQuery) : Prop :=
  (q.ackCh = true → q.acksMap = true) ∧ q.responsesMap = true ∧ (q.chClosed = true → q.closed = true)

/-- configuration precondition + shape of the state: Create makes the buffers with the configured sizes,
which must be positive (`LTime % len(buffer)`); open queries satisfy their invariants. -/
def WF (cfg : Cfg) (st : State) : Prop :=
  0 < cfg.eventBuffer ∧ 0 < cfg.queryBuffer ∧ st.eventBuf.length = cfg.eventBuffer ∧ st.queryBuf.length = cfg.queryBuffer ∧
  ∀ q ∈ st.openQueries, q.WF

/-- `x[1:]`, checked -/
def slice1 (site : String) (x : List Nat) : Res (List Nat) :=
  if 1 ≤ x.length then .val (x.drop 1) else .panic site

/-- the de-duplication buffers: `idx := ltime % len(buf); seen := buf[idx]; …; buf[idx] = seen`
(handleUserEvent / handleQuery; `clock` is the clock after witnessing the message) -/
def bufferStep (siteDiv siteIdx siteIdx2 : String) (buf : List (Option Nat)) (minT clock ltime : Nat) : Res (List (Option Nat) × Bool) :=
  if ltime < minT then .val (buf, false)
  else if clock > buf.length ∧ ltime < clock - buf.length then .val (buf, false)
  else if buf.length = 0 then .panic siteDiv
  else
    let idx := ltime % buf.length
    match buf[idx]? with
    | none => .panic siteIdx
    | some (some t) => if t = ltime then .val (buf, true)   -- same time: entry kept
                       else if idx < buf.length then .val (buf.set idx (some ltime), true) else .panic siteIdx2
    | some none => if idx < buf.length then .val (buf.set idx (some ltime), true) else .panic siteIdx2

/-- serf/query.go shouldProcessQuery -/
def shouldProcess (d : Dec) : List (List Nat) → Res Bool
  | [] => .val true
  | filter :: rest =>
    if filter.length = 0 then .val false
    else match filter[0]? with
      | none => .panic "site_Serf_shouldProcessQuery_index_1"
      | some t =>
        if t = 0 then
          match slice1 "site_Serf_shouldProcessQuery_slice_1" filter with
          | .panic s => .panic s
          | .val body => match d.filterNode body with
            | some true => shouldProcess d rest
            | _ => .val false
        else if t = 1 then
          match slice1 "site_Serf_shouldProcessQuery_slice_2" filter with
          | .panic s => .panic s
          | .val body => match d.filterTag body with
            | some true => shouldProcess d rest
            | _ => .val false
        else
          -- default: the warning prints filter[0] once more
          match filter[0]? with
          | none => .panic "site_Serf_shouldProcessQuery_index_2"
          | some _ => .val false

def internalPrefix : List Nat := "_serf_".toList.map (·.toNat)

/-- serf/internal_query.go: a key handler (`handleInstallKey`/`handleUseKey`/`handleRemoveKey`) -/
def keyHandler (site : String) (d : Dec) (payload : List Nat) : Outcome :=
  if payload.length < 1 then .ignored "empty key payload: error response"
  else match slice1 site payload with
    | .panic s => .panic s
    | .val body => match d.keyRequest body with
      | none => .ignored "key request does not decode: error response"
      | some _ => .ok false

/-- serf/internal_query.go stream + handleQuery: dispatch on the name after the prefix -/
def internalQuery (d : Dec) (q : Query) : Outcome :=
  if internalPrefix.isPrefixOf q.name then
    -- queryName := q.Name[len(InternalQueryPrefix):]
    if internalPrefix.length ≤ q.name.length then
      let nm := String.ofList ((q.name.drop internalPrefix.length).map Char.ofNat)
      if nm = "install-key" then keyHandler "site_serfQueries_handleInstallKey_slice_1" d q.payload
      else if nm = "use-key" then keyHandler "site_serfQueries_handleUseKey_slice_1" d q.payload
      else if nm = "remove-key" then keyHandler "site_serfQueries_handleRemoveKey_slice_1" d q.payload
      else .ok false
    else .panic "site_serfQueries_handleQuery_slice_1"
  else .ok false  -- handed to the application

/-- serf/serf.go handleQuery followed by the internal-query stage -/
def handleQuery (d : Dec) (st : State) (q : Query) : State × Outcome :=
  let clock := witness st.queryClock q.ltime
  match bufferStep "site_Serf_handleQuery_div_1" "site_Serf_handleQuery_index_1"
      "site_Serf_handleQuery_index_2" st.queryBuf st.queryMin clock q.ltime with
  | .panic s => (st, .panic s)
  | .val (_, false) => ({ st with queryClock := clock }, .ok false)
  | .val (buf, true) =>
    let st' := { st with queryBuf := buf, queryClock := clock }
    match shouldProcess d q.filters with
    | .panic s => (st', .panic s)
    | .val false => (st', .ok (!q.noBroadcast))
    | .val true =>
      match internalQuery d q with
      | .panic s => (st', .panic s)
      | _ => (st', .ok (!q.noBroadcast))

/-- serf/serf.go handleUserEvent -/
def handleUserEvent (st : State) (ltime : Nat) : State × Outcome :=
  let clock := witness st.eventClock ltime
  match bufferStep "site_Serf_handleUserEvent_div_1" "site_Serf_handleUserEvent_index_1"
      "site_Serf_handleUserEvent_index_2" st.eventBuf st.eventMin clock ltime with
  | .panic s => (st, .panic s)
  | .val (buf, b) => ({ st with eventBuf := buf, eventClock := clock }, .ok b)

/-- serf/query.go sendAck: under closeLock; `if r.closed return`; `select { case r.ackCh <- from: r.acks[from] = …; default: error }`.
A send on a nil channel is never selected; a send on a closed channel is selected and panics. -/
def sendAck (q : OpenQuery) (sc : Sched) : Outcome :=
  if q.closed then .ignored "query closed"
  else if q.ackCh && (sc.space || q.chClosed) then
    if q.chClosed then .panic "site_QueryResponse_sendAck_send_1"
    else if q.acksMap then .ok false else .panic "site_QueryResponse_sendAck_mapwrite_1"
  else .ignored "dropped"

/-- serf/query.go sendResponse -/
def sendResponse (q : OpenQuery) (sc : Sched) : Outcome :=
  if q.closed then .ignored "query closed"
  else if sc.space || q.chClosed then
    if q.chClosed then .panic "site_QueryResponse_sendResponse_send_1"
    else if q.responsesMap then .ok false else .panic "site_QueryResponse_sendResponse_mapwrite_1"
  else .ignored "dropped"

/-- serf/serf.go handleQueryResponse -/
def handleQueryResponse (st : State) (r : Response) (sc : Sched) : Outcome :=
  match st.openQueries.find? (fun q => q.ltime == r.ltime) with
  | none => .ignored "reply for non-running query"
  | some q =>
    if q.id ≠ r.id then .ignored "id mismatch"
    else if q.closed || sc.deadlinePassed then .ignored "finished"
    else if r.ack then sendAck q sc else sendResponse q sc

/-- serf/delegate.go NotifyMsg -/
def notifyMsg (d : Dec) (st : State) (buf : List Nat) (sc : Sched) : State × Outcome :=
  if buf.length = 0 then (st, .ignored "empty")
  else match buf[0]? with
    | none => (st, .panic "site_delegate_NotifyMsg_index_1")
    | some t =>
      if t = 0 then match slice1 "site_delegate_NotifyMsg_slice_1" buf with
        | .panic s => (st, .panic s)
        | .val body => match d.leave body with
          | none => (st, .ignored "leave does not decode") | some _ => (st, .ok true)
      else if t = 1 then match slice1 "site_delegate_NotifyMsg_slice_2" buf with
        | .panic s => (st, .panic s)
        | .val body => match d.join body with
          | none => (st, .ignored "join does not decode") | some _ => (st, .ok true)
      else if t = 3 then match slice1 "site_delegate_NotifyMsg_slice_3" buf with
        | .panic s => (st, .panic s)
        | .val body => match d.userEvent body with
          | none => (st, .ignored "user event does not decode") | some lt => handleUserEvent st lt
      else if t = 4 then match slice1 "site_delegate_NotifyMsg_slice_4" buf with
        | .panic s => (st, .panic s)
        | .val body => match d.query body with
          | none => (st, .ignored "query does not decode") | some q => handleQuery d st q
      else if t = 5 then match slice1 "site_delegate_NotifyMsg_slice_5" buf with
        | .panic s => (st, .panic s)
        | .val body => match d.queryResponse body with
          | none => (st, .ignored "response does not decode") | some r => (st, handleQueryResponse st r sc)
      else if t = 9 then match slice1 "site_delegate_NotifyMsg_slice_6" buf with
        | .panic s => (st, .panic s)
        | .val body => match d.relayHeader body with
          | none => (st, .ignored "relay header does not decode")
          | some _raw => (st, .ok false)  -- raw is forwarded as it is: never inspected, may be empty
      else (st, .ignored "unknown type")

/-- the event loop of MergeRemoteState: nil slots are skipped (`if events == nil { continue }`) -/
def mergeEvents (st : State) : List (Option (Nat × Nat)) → State × Outcome
  | [] => (st, .ok false)
  | none :: rest => mergeEvents st rest
  | some (lt, _) :: rest =>
    match handleUserEvent st lt with
    | (st', .panic s) => (st', .panic s)
    | (st', _) => mergeEvents st' rest

/-- serf/delegate.go MergeRemoteState -/
def mergeRemoteState (d : Dec) (st : State) (buf : List Nat) : State × Outcome :=
  if buf.length = 0 then (st, .ignored "empty")
  else match buf[0]? with
    | none => (st, .panic "site_delegate_MergeRemoteState_index_1")
    | some t =>
      if t ≠ 2 then
        -- the error message prints buf[0] once more
        match buf[0]? with
        | none => (st, .panic "site_delegate_MergeRemoteState_index_2")
        | some _ => (st, .ignored "bad type prefix")
      else match slice1 "site_delegate_MergeRemoteState_slice_1" buf with
        | .panic s => (st, .panic s)
        | .val body => match d.pushPull body with
          | none => (st, .ignored "push/pull does not decode")
          | some pp => mergeEvents st pp.events

/-- serf/ping_delegate.go NotifyPingComplete: version byte, coordinate behind it; Client.Update rejects a
coordinate of another dimensionality before any distance is computed. -/
def pingComplete (cfg : Cfg) (d : Dec) (payload : List Nat) : Outcome :=
  if payload.length = 0 then .ignored "empty"
  else match payload[0]? with
    | none => .panic "site_pingDelegate_NotifyPingComplete_index_1"
    | some v =>
      if v ≠ 1 then .ignored "unsupported ping version"
      else match slice1 "site_pingDelegate_NotifyPingComplete_slice_1" payload with
        | .panic s => .panic s
        | .val body => match d.coordinate body with
          | none => .ignored "coordinate does not decode"
          | some n => if n ≠ cfg.dimensionality then .ignored "rejected: dimensions are not compatible" else .ok false

/-- serf/serf.go decodeTags (member metadata): `if len(buf) == 0 || buf[0] != tagMagicByte { role } else decode buf[1:]` -/
def decodeTags (d : Dec) (buf : List Nat) : Outcome :=
  if buf.length = 0 then .ok false
  else match buf[0]? with
    | none => .panic "site_Serf_decodeTags_index_1"
    | some b =>
      if b ≠ 255 then .ok false
      else match slice1 "site_Serf_decodeTags_slice_1" buf with
        | .panic s => .panic s
        | .val body => match d.tags body with
          | none => .ignored "tags do not decode (logged; whatever was decoded is kept)"
          | some _ => .ok false

/-- a reply read by resolveNodeConflict (typ = 6, site prefix Serf_resolveNodeConflict) or by
KeyManager.streamKeyResp (typ = 8): `if len(p) < 1 || p[0] != typ { invalid } else decode p[1:]` -/
def typedReply (siteIdx siteSlice : String) (typ : Nat) (dec : List Nat → Option Unit) (p : List Nat) : Outcome :=
  if p.length < 1 then .ignored "invalid reply type"
  else match p[0]? with
    | none => .panic siteIdx
    | some t =>
      if t ≠ typ then .ignored "invalid reply type"
      else match slice1 siteSlice p with
        | .panic s => .panic s
        | .val body => match dec body with
          | none => .ignored "reply does not decode"
          | some _ => .ok false

def conflictReply (d : Dec) (p : List Nat) : Outcome :=
  typedReply "site_Serf_resolveNodeConflict_index_1" "site_Serf_resolveNodeConflict_slice_1" 6 d.member p

def keyReply (d : Dec) (p : List Nat) : Outcome :=
  typedReply "site_KeyManager_streamKeyResp_index_1" "site_KeyManager_streamKeyResp_slice_1" 8 d.keyResponse p

inductive Input where
  /-- a gossip message handed to NotifyMsg -/
  | msg (buf : List Nat) (sc : Sched := {})
  /-- a state-sync payload handed to MergeRemoteState -/
  | merge (buf : List Nat)
  /-- a probe-ack payload handed to NotifyPingComplete -/
  | ping (payload : List Nat)
  /-- member metadata handed to NotifyJoin / NotifyUpdate / NotifyMerge / NotifyAlive -/
  | metadata (buf : List Nat)
  /-- the payload of a reply routed to the name-conflict vote / to a key command -/
  | conflictReply (payload : List Nat)
  | keyReply (payload : List Nat)

def handle (cfg : Cfg) (d : Dec) (st : State) : Input → State × Outcome
  | .msg b sc => notifyMsg d st b sc
  | .merge b => mergeRemoteState d st b
  | .ping p => (st, pingComplete cfg d p)
  | .metadata b => (st, decodeTags d b)
  | .conflictReply p => (st, conflictReply d p)
  | .keyReply p => (st, keyReply d p)

/-- a whole history of inputs; stops at the first panic -/
def run (cfg : Cfg) (d : Dec) : State → List Input → State × Outcome
  | st, [] => (st, .ok false)
  | st, i :: rest =>
    match handle cfg d st i with
    | (st', .panic s) => (st', .panic s)
    | (st', _) => run cfg d st' rest

/-- the functions of the source this skeleton follows (names as in `Gen.PanicSites.sitesByFunction`) -/
def allKinds : List String := ["index", "slice", "div", "mapwrite", "send"]

/-- function ↦ the kinds of its sites the skeleton represents as checked operations -/
def modelled : List (String × List String) :=
  [("delegate_NotifyMsg", allKinds), ("delegate_MergeRemoteState", allKinds), ("Serf_handleUserEvent", allKinds),
   ("Serf_handleQuery", allKinds), ("Serf_shouldProcessQuery", allKinds), ("serfQueries_handleQuery", allKinds),
   ("serfQueries_handleInstallKey", allKinds), ("serfQueries_handleUseKey", allKinds), ("serfQueries_handleRemoveKey", allKinds),
   ("QueryResponse_sendAck", allKinds), ("QueryResponse_sendResponse", allKinds),
   -- of these only the byte-level operations are modelled (their map writes and contract calls are site theorems only)
   ("pingDelegate_NotifyPingComplete", ["index", "slice"]), ("Serf_decodeTags", ["index", "slice"]),
   ("Serf_resolveNodeConflict", ["index", "slice"]), ("KeyManager_streamKeyResp", ["index", "slice"])]

/-- every `.panic` site name that occurs in the skeleton -/
def coveredSites : List String :=
  ["site_delegate_NotifyMsg_index_1", "site_delegate_NotifyMsg_slice_1", "site_delegate_NotifyMsg_slice_2",
   "site_delegate_NotifyMsg_slice_3", "site_delegate_NotifyMsg_slice_4", "site_delegate_NotifyMsg_slice_5",
   "site_delegate_NotifyMsg_slice_6",
   "site_delegate_MergeRemoteState_index_1", "site_delegate_MergeRemoteState_index_2", "site_delegate_MergeRemoteState_slice_1",
   "site_Serf_handleUserEvent_div_1", "site_Serf_handleUserEvent_index_1",
   "site_Serf_handleUserEvent_index_2",
   "site_Serf_handleQuery_div_1", "site_Serf_handleQuery_index_1",
   "site_Serf_handleQuery_index_2",
   "site_Serf_shouldProcessQuery_index_1", "site_Serf_shouldProcessQuery_slice_1",
   "site_Serf_shouldProcessQuery_slice_2", "site_Serf_shouldProcessQuery_index_2",
   "site_serfQueries_handleQuery_slice_1",
   "site_serfQueries_handleInstallKey_slice_1", "site_serfQueries_handleUseKey_slice_1",
   "site_serfQueries_handleRemoveKey_slice_1",
   "site_QueryResponse_sendAck_send_1", "site_QueryResponse_sendAck_mapwrite_1",
   "site_QueryResponse_sendResponse_send_1", "site_QueryResponse_sendResponse_mapwrite_1",
   "site_pingDelegate_NotifyPingComplete_index_1", "site_pingDelegate_NotifyPingComplete_slice_1",
   "site_Serf_decodeTags_index_1", "site_Serf_decodeTags_slice_1",
   "site_Serf_resolveNodeConflict_index_1", "site_Serf_resolveNodeConflict_slice_1",
   "site_KeyManager_streamKeyResp_index_1", "site_KeyManager_streamKeyResp_slice_1"]

/-- sites of the modelled functions that are trivially safe in the source and have no checked counterpart here
(a map made two lines earlier; sends on channels the library never closes) -/
def triviallySafe : List String :=
  ["site_delegate_MergeRemoteState_mapwrite_1", "site_Serf_handleUserEvent_send_1",
   "site_Serf_handleQuery_send_1"]

end SerfModel.Handlers
