/-
Regular expressions as used by the member filter (cmd/serf/command/agent/ipc.go
`filterMembers`): a formal AST with span semantics, and the filter itself over an
abstract pattern engine.

`ends r w i` = the positions `j` such that `r` matches `w[i..j)` (anchors refer to
the whole word `w`, as in Go without the `m` flag: `^` only at 0, `$` only at
`|w|`; `.` does not match a newline).  Structural recursion on the regex; a star
is the closure of the body's step relation iterated `|w|+1` times (a repetition
that makes no progress adds nothing, so more rounds cannot add positions).

Pattern PARSING is not modelled: the engine (`regexp.Compile` / `MatchString`) is a
parameter of `filterMembers` / `compileAnchored`; the formal semantics here is what the anchoring
theorem (C26) is about, and it is validated against Go's `regexp` by a
differential on generated ASTs printed in RE2 syntax.
-/
import SerfModel.Prelude.Basic
namespace SerfModel.Regex

inductive Regex
  | empty
  | char (c : Char)
  | any                                     -- `.`  (not newline)
  | cls (neg : Bool) (ranges : List (Char × Char))   -- `[a-cx]`, `[^…]`
  | cat (r s : Regex)
  | alt (r s : Regex)
  | star (r : Regex)
  | plus (r : Regex)
  | opt (r : Regex)
  | group (r : Regex)                       -- `(?:r)` / `(r)`
  | bot                                     -- `^`
  | eot                                     -- `$`
  deriving Repr, Inhabited, DecidableEq

def union (x y : List Nat) : List Nat := x ++ y.filter (fun j => !x.contains j)

/-- reflexive-transitive closure of one-step relation `f`, `n` rounds -/
def closure (f : Nat → List Nat) : Nat → List Nat → List Nat
  | 0, s => s
  | n + 1, s => closure f n (union s (s.flatMap f))

def inRanges (rs : List (Char × Char)) (c : Char) : Bool := rs.any fun r => r.1 ≤ c && c ≤ r.2

def ends : Regex → List Char → Nat → List Nat
  | .empty, _, i => [i]
  | .char c, w, i => if w[i]? = some c then [i + 1] else []
  | .any, w, i => match w[i]? with
    | some c => if c = '\n' then [] else [i + 1]
    | none => []
  | .cls neg rs, w, i => match w[i]? with
    | some c => if inRanges rs c != neg then [i + 1] else []
    | none => []
  | .cat r s, w, i => (ends r w i).flatMap fun j => ends s w j
  | .alt r s, w, i => union (ends r w i) (ends s w i)
  | .star r, w, i => closure (fun j => ends r w j) (w.length + 1) [i]
  | .plus r, w, i => closure (fun j => ends r w j) (w.length + 1) (ends r w i)
  | .opt r, w, i => union [i] (ends r w i)
  | .group r, w, i => ends r w i
  | .bot, _, i => if i = 0 then [i] else []
  | .eot, w, i => if i = w.length then [i] else []

/-- `MatchString`: the regex matches somewhere in `w`. -/
def search (r : Regex) (w : List Char) : Bool :=
  (List.range (w.length + 1)).any fun i => !(ends r w i).isEmpty

/-- the regex matches the whole of `w` -/
def fullMatch (r : Regex) (w : List Char) : Bool := (ends r w 0).contains w.length

/-- the AST of the template `^(?:%s)$` applied to a pattern whose AST is `r` -/
def wrap (r : Regex) : Regex := .cat .bot (.cat (.group r) .eot)

/-! ### the member filter -/

structure Member where
  name : String
  status : String
  tags : List (String × String)
  deriving Repr, Inhabited, DecidableEq

/-- The pattern engine (`regexp`) as the filter uses it, per filter expression `p`:
`validAlone p` = `regexp.Compile(p)` succeeds; `compilesWrapped p` =
`regexp.Compile(fmt.Sprintf("^(?:%s)$", p))` succeeds; `matchStr p v` = that wrapped
expression's `MatchString(v)`. -/
structure Engine where
  validAlone : String → Bool
  compilesWrapped : String → Bool
  matchStr : String → String → Bool

/-- `compileAnchored(expr)`: validate the pattern on its own, then compile it inside the
anchoring template (`true` = a compiled expression is returned, `false` = an error). -/
def compileAnchored (e : Engine) (p : String) : Bool :=
  if !e.validAlone p then false          -- if _, err := regexp.Compile(expr); err != nil { return nil, err }
  else e.compilesWrapped p               -- return regexp.Compile(fmt.Sprintf("^(?:%s)$", expr))

def tagValue (m : Member) (t : String) : String := (alookup m.tags t).getD ""     -- m.Tags[tag]

/-- `filterMembers(members, tags, status, name)`: `none` = error (no list). -/
def filterMembers (e : Engine) (ms : List Member) (tags : List (String × String)) (status name : String) :
    Option (List Member) :=
  if !(tags.all fun tp => compileAnchored e tp.2) then none          -- pre-compile all tag expressions
  else if !compileAnchored e status then none
  else if !compileAnchored e name then none
  else some (ms.filter fun m =>
    (tags.all fun tp => e.matchStr tp.2 (tagValue m tp.1)) &&
    (status == "" || e.matchStr status m.status) &&
    (name == "" || e.matchStr name m.name))

/-! ### the filter as a function of its extracted shape

`SerfModel/Gen/AnchorTemplate.lean` (regenerated from ipc.go) describes `compileAnchored`
statement by statement and the member loop guard by guard, in the vocabulary below;
`filterMembersS` interprets such a description.  `canonicalShape` is the shape the
theorems are about; `filterMembers = filterMembersS canonicalShape` (`filterMembersS_canonical`). -/

/-- one statement of `compileAnchored(expr)` -/
inductive CompileStep
  | validateAlone              -- if _, err := regexp.Compile(expr); err != nil { return nil, err }
  | wrap (format : String)     -- return regexp.Compile(fmt.Sprintf(format, expr))
  deriving DecidableEq, Repr

/-- how the member loop reads a requested tag of a member -/
inductive TagRead
  | valueOrEmpty      -- m.Tags[tag]                      (missing tag reads as "")
  | presentOnly       -- val, ok := m.Tags[tag]; !ok ⇒ skip the member
  deriving DecidableEq, Repr

inductive Subject | status | name
  deriving DecidableEq, Repr

/-- one skip condition of the member loop -/
inductive Guard
  | tags (read : TagRead)                          -- for tag := range tags { if !tagsRe[tag].MatchString(<read>) { continue OUTER } }
  | field (f : Subject) (skipWhenEmpty : Bool)     -- if [<pat> != "" &&] !<pat>Re.MatchString(m.<f>) { continue }
  deriving DecidableEq, Repr

structure FilterShape where
  compile : List CompileStep
  guards : List Guard
  deriving DecidableEq, Repr

def canonicalShape : FilterShape :=
  { compile := [.validateAlone, .wrap "^(?:%s)$"]
    guards := [.tags .valueOrEmpty, .field .status true, .field .name true] }

/-- does `compileAnchored`, as described, return a compiled expression for `p`?  (The engine
only knows the template `^(?:%s)$`: the obligations in Props pin the format.) -/
def compileWith (steps : List CompileStep) (e : Engine) (p : String) : Bool :=
  steps.all fun
    | .validateAlone => e.validAlone p
    | .wrap _ => e.compilesWrapped p

def passes (e : Engine) (tags : List (String × String)) (status name : String) (m : Member) : Guard → Bool
  | .tags .valueOrEmpty => tags.all fun tp => e.matchStr tp.2 (tagValue m tp.1)
  | .tags .presentOnly => tags.all fun tp =>
      match alookup m.tags tp.1 with
      | some v => e.matchStr tp.2 v
      | none => false
  | .field .status skip => (skip && status == "") || e.matchStr status m.status
  | .field .name skip => (skip && name == "") || e.matchStr name m.name

def filterMembersS (s : FilterShape) (e : Engine) (ms : List Member) (tags : List (String × String))
    (status name : String) : Option (List Member) :=
  if !(tags.all fun tp => compileWith s.compile e tp.2) then none
  else if !compileWith s.compile e status then none
  else if !compileWith s.compile e name then none
  else some (ms.filter fun m => s.guards.all (passes e tags status name m))

end SerfModel.Regex
