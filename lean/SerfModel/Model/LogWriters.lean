/-
Models of cmd/serf/command/agent/gated_writer.go (GatedWriter) and
log_writer.go (logWriter).

GatedWriter is modelled under interleaving: how many atomic actions a `Write` or
a `Flush` consists of is a function of the *lock shape* extracted from the source
(`SerfModel.Gen.AgentSync`): a method whose whole body runs under the exclusive
lock is one action; `Write` under a read lock is a read action followed by a
write action (two writers may overlap); a `Flush` that releases the lock before
replaying the buffer is a set-flag action, one emit action per buffered line and
a clear action.
-/
import SerfModel.Prelude.Basic
namespace SerfModel.LogWriters

/-- How a method uses its mutex, as read off the AST. -/
structure LockShape where
  /-- first statement: `"Lock"`, `"RLock"`, or `"none"` -/
  lockCall : String
  /-- followed by `defer ….Unlock()` (the whole body is the critical section) -/
  deferred : Bool
  /-- an explicit unlock occurs in the body (the critical section ends early) -/
  earlyUnlock : Bool
  deriving DecidableEq, Repr, Inhabited

def LockShape.wholeBodyExclusive (s : LockShape) : Bool :=
  s.lockCall == "Lock" && s.deferred && !s.earlyUnlock

structure Skeleton where
  write : LockShape
  flush : LockShape
  deriving DecidableEq, Repr, Inhabited

/-- A log line tagged with the writer (thread index) that produced it. -/
structure Line where
  tid : Nat
  text : String
  deriving DecidableEq, Repr, Inhabited

inductive Op where
  | write (text : String)
  | flush
  deriving DecidableEq, Repr, Inhabited

/-- Mid-operation state of a thread. -/
inductive Mid where
  | idle
  /-- a non-exclusive Write that has read `flush`/`buf` and not yet written -/
  | wMid (l : Line) (sawFlush : Bool) (sawBuf : List Line)
  /-- a non-atomic Flush replaying its snapshot of the buffer -/
  | fMid (remaining : List Line)
  deriving DecidableEq, Repr, Inhabited

structure Thr where
  mid : Mid := .idle
  todo : List Op := []
  done : List Line := []       -- lines whose Write completed, oldest first
  deriving DecidableEq, Repr, Inhabited

structure Sys where
  buf : List Line := []
  out : List Line := []
  flush : Bool := false
  threads : List Thr := []
  /-- ghost: lines in the order their Write completed -/
  hist : List Line := []
  deriving DecidableEq, Repr, Inhabited

def Sys.init (progs : List (List Op)) : Sys := { threads := progs.map fun p => { todo := p } }

/-- One scheduling step of thread `t`. -/
def step (sk : Skeleton) (s : Sys) (t : Nat) : Sys :=
  match s.threads[t]? with
  | none => s
  | some th =>
    match th.mid with
    | .idle =>
      match th.todo with
      | [] => s
      | .write text :: rest =>
        let l : Line := ⟨t, text⟩
        if sk.write.wholeBodyExclusive then
          let th' := { th with todo := rest, done := th.done ++ [l] }
          if s.flush then { s with out := s.out ++ [l], hist := s.hist ++ [l], threads := s.threads.set t th' }
          else { s with buf := s.buf ++ [l], hist := s.hist ++ [l], threads := s.threads.set t th' }
        else
          { s with threads := s.threads.set t { th with mid := .wMid l s.flush s.buf, todo := rest } }
      | .flush :: rest =>
        if sk.flush.wholeBodyExclusive then
          { s with flush := true, out := s.out ++ s.buf, buf := [], threads := s.threads.set t { th with todo := rest } }
        else
          { s with flush := true, threads := s.threads.set t { th with mid := .fMid s.buf, todo := rest } }
    | .wMid l sawFlush sawBuf =>
      let th' := { th with mid := .idle, done := th.done ++ [l] }
      if sawFlush then { s with out := s.out ++ [l], hist := s.hist ++ [l], threads := s.threads.set t th' }
      else { s with buf := sawBuf ++ [l], hist := s.hist ++ [l], threads := s.threads.set t th' }
    | .fMid (l :: rest) => { s with out := s.out ++ [l], threads := s.threads.set t { th with mid := .fMid rest } }
    | .fMid [] => { s with buf := [], threads := s.threads.set t { th with mid := .idle } }

def run (sk : Skeleton) (s : Sys) (sched : List Nat) : Sys := sched.foldl (step sk) s

/-! ### logWriter: a ring buffer of the last `cap` lines plus registered handlers -/

structure LW where
  logs : List String        -- length = cap
  index : Nat := 0
  /-- the ring has wrapped: every slot holds a line -/
  full : Bool := false
  /-- handler id ↦ lines it has received, oldest first -/
  handlers : List (Nat × List String) := []
  deriving Repr, Inhabited

def LW.new (cap : Nat) : LW := { logs := List.replicate cap "" }

/-- `RegisterHandler`: replays the ring (from `index` to the end if the ring has
wrapped, then from 0 to `index`). -/
def LW.register (w : LW) (h : Nat) : LW :=
  if (alookup w.handlers h).isSome then w else
  let older := if w.full then w.logs.drop w.index else []
  let newer := w.logs.take w.index
  { w with handlers := w.handlers ++ [(h, older ++ newer)] }

def LW.deregister (w : LW) (h : Nat) : LW := { w with handlers := aerase w.handlers h }

/-- `Write` of one line (the trailing newline already stripped). -/
def LW.write (w : LW) (line : String) : LW :=
  if w.logs.length = 0 then w else   -- the real code divides by zero here; cap ≥ 1 in every caller
  { w with logs := w.logs.set w.index line, index := (w.index + 1) % w.logs.length,
           full := w.full || ((w.index + 1) % w.logs.length == 0),
           handlers := w.handlers.map fun p => (p.1, p.2 ++ [line]) }

end SerfModel.LogWriters
