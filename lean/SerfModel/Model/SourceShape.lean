/-
Decidable predicates over the statement skeletons that /verif/extract regenerates from the
Go source (`SerfModel.Gen.*`: one canonical line per statement, logger calls left out).
The property files state, with `by decide`, the decisive facts of a function's shape —
which statements exist, in which order, inside which guard — that the hand-written model
transcribes; an edit of the source that changes such a fact breaks the obligation.
-/
namespace SerfModel.SourceShape

/-- `blk` occurs as a contiguous run of statements -/
def hasBlock (blk : List String) : List String → Bool
  | [] => blk.isEmpty
  | x :: rest => blk.isPrefixOf (x :: rest) || hasBlock blk rest

/-- position of the first statement equal to `s` (the length when absent) -/
def idxOf (s : String) (sk : List String) : Nat := sk.findIdx (· == s)

/-- the statement occurs exactly once -/
def once (s : String) (sk : List String) : Bool := sk.count s == 1

/-- `a` occurs exactly once, `b` occurs exactly once, and `a` comes first -/
def before (a b : String) (sk : List String) : Bool :=
  once a sk && once b sk && decide (idxOf a sk < idxOf b sk)

def absent (s : String) (sk : List String) : Bool := sk.count s == 0

end SerfModel.SourceShape
