/-
Vocabulary for the regenerated facts about serf/coalesce_member.go, serf/coalesce_user.go and
serf/coalesce.go (extract/coalescers.go → Gen/Coalescers.lean): a small boolean IR for the
guards that carry the logic, with an evaluator, and an interpreter for the user coalescer's
`Coalesce` read as a decision program.  The obligations that connect these to the hand-written
models are in Props/C17.lean and Props/C18.lean.
-/
import SerfModel.Model.MemberCoalesce
import SerfModel.Model.UserCoalesce
namespace SerfModel.CoalesceShapes
open SerfModel SerfModel.MemberCoalesce SerfModel.UserCoalesce

/-- Go boolean expression over named terms. -/
inductive Cond where
  | atom (t : String)
  | not (c : Cond)
  | and (a b : Cond)
  | or (a b : Cond)
  /-- `a op b` with op one of `==`, `!=`, `<`, `<=`, `>`, `>=` -/
  | cmp (op : String) (a b : String)
  deriving DecidableEq, Repr, Inhabited

/-- Evaluate under an interpretation of the comparison operators, the boolean terms and the
value terms; `none` when a term or operator is not known (an unexpected source shape). -/
def Cond.eval {α : Type} (ops : String → Option (α → α → Bool)) (b : String → Option Bool)
    (v : String → Option α) : Cond → Option Bool
  | .atom t => b t
  | .not c => (c.eval ops b v).map (!·)
  | .and x y =>
    -- Go's `&&` / `||` evaluate the right operand only when needed (a guarded nil dereference or
    -- type assertion on the right is never reached)
    match x.eval ops b v with
    | some true => y.eval ops b v
    | some false => some false
    | none => none
  | .or x y =>
    match x.eval ops b v with
    | some false => y.eval ops b v
    | some true => some true
    | none => none
  | .cmp op x y =>
    match ops op, v x, v y with
    | some f, some p, some q => some (f p q)
    | _, _, _ => none

/-- A function body as a program: if/else (also from early returns and switches), a boolean
result, named primitive actions, falling off the end. -/
inductive Prog where
  | done
  | ret (c : Cond)
  | act (a : String) (k : Prog)
  | ite (c : Cond) (t e : Prog)
  | unknown (s : String)
  deriving DecidableEq, Repr, Inhabited

/-- a boolean function body -/
def Prog.evalBool {α : Type} (ops : String → Option (α → α → Bool)) (b : String → Option Bool)
    (v : String → Option α) : Prog → Option Bool
  | .ret c => c.eval ops b v
  | .ite c t e =>
    match c.eval ops b v with
    | some true => t.evalBool ops b v
    | some false => e.evalBool ops b v
    | none => none
  | _ => none

def natOps : String → Option (Nat → Nat → Bool)
  | "==" => some (fun a b => a == b)
  | "!=" => some (fun a b => a != b)
  | "<" => some (fun a b => decide (a < b))
  | "<=" => some (fun a b => decide (a ≤ b))
  | ">" => some (fun a b => decide (a > b))
  | ">=" => some (fun a b => decide (a ≥ b))
  | _ => none

def kindOps : String → Option (Kind → Kind → Bool)
  | "==" => some (fun a b => a == b)
  | "!=" => some (fun a b => a != b)
  | _ => none

def kindOfGo : String → Option Kind
  | "EventMemberJoin" => some .join
  | "EventMemberLeave" => some .leave
  | "EventMemberFailed" => some .failed
  | "EventMemberUpdate" => some .update
  | "EventMemberReap" => some .reap
  | _ => none

/-! ### `Handle` of both coalescers.  Event types as numbers: the five member kinds 0–4,
`EventUser` 5, anything else (queries) 6. -/

def typeCode : String → Option Nat
  | "EventMemberJoin" => some 0
  | "EventMemberLeave" => some 1
  | "EventMemberFailed" => some 2
  | "EventMemberUpdate" => some 3
  | "EventMemberReap" => some 4
  | "EventUser" => some 5
  | _ => none

def kindCode : Kind → Nat
  | .join => 0 | .leave => 1 | .failed => 2 | .update => 3 | .reap => 4

/-- the event handed to `Handle`: `p0.EventType()` is `code` -/
def handleEnvV (code : Nat) : String → Option Nat := fun s =>
  if s == "p0.EventType()" then some code else typeCode s

/-- boolean terms of `Handle`: the literals, and — for a user event only (on anything else the type
assertion panics) — the event's Coalesce flag -/
def handleEnvB (userFlag : Option Bool) : String → Option Bool := fun s =>
  if s == "true" then some true else if s == "false" then some false
  else if s == "p0.(UserEvent).Coalesce" then userFlag
  else if s == "p0.(UserEvent)#ok" then some userFlag.isSome else none

/-! ### member coalescer `Flush`: the pending event of member `#k(r.latestEvents)` is `r.latestEvents[*]` -/

def memberEnvB (ok : Bool) : String → Option Bool := fun s =>
  if s == "r.lastEvents[#k(r.latestEvents)]#ok" then some ok else none

/-- `previous` is meaningful only when `ok` (Go yields the zero value otherwise; the guard must not depend on it) -/
def memberEnvV (previous : Option Kind) (cur : Kind) : String → Option Kind := fun s =>
  if s == "r.lastEvents[#k(r.latestEvents)]" then previous
  else if s == "r.latestEvents[*].Type" then some cur else kindOfGo s

/-- Interpret the body of the loop of `Flush` for one pending event: the new `lastEvents` and what is
added to the outgoing events. -/
def runM : Prog → List (String × Kind) → List MEv → MEv → Option (List (String × Kind) × List MEv)
  | .done, last, out, _ => some (last, out)
  | .act a k, last, out, e =>
    if a == "recordLast" then runM k (ainsert last e.name e.kind) out e
    else if a == "addToEvent" then runM k last (out ++ [e]) e
    else none
  | .ite g t f, last, out, e =>
    match g.eval kindOps (memberEnvB (alookup last e.name).isSome) (memberEnvV (alookup last e.name) e.kind) with
    | some true => runM t last out e
    | some false => runM f last out e
    | none => none
  | _, _, _, _ => none

/-! ### user coalescer `Coalesce`: the entry of the event's name is `r.events[p0.(UserEvent).Name]` -/

def userEnvB (ok : Bool) : String → Option Bool := fun s =>
  if s == "r.events[p0.(UserEvent).Name]#ok" then some ok else none

/-- the entry's LTime exists only when there is an entry (a nil dereference otherwise) -/
def userEnvV (latest : Option Nat) (user : Nat) : String → Option Nat := fun s =>
  if s == "r.events[p0.(UserEvent).Name].LTime" then latest
  else if s == "p0.(UserEvent).LTime" then some user else none

/-- Interpret `Coalesce` on the model state. -/
def runU : Prog → UC → UserEv → Option UC
  | .done, c, _ => some c
  | .act a k, c, e =>
    if a == "fresh" then runU k (ainsert c e.name (e.lt, [e])) e
    else if a == "append" then
      match alookup c e.name with
      | some (l, evs) => runU k (ainsert c e.name (l, evs ++ [e])) e
      | none => none
    else none
  | .ite g t f, c, e =>
    match g.eval natOps (userEnvB (alookup c e.name).isSome) (userEnvV ((alookup c e.name).map (·.1)) e.lt) with
    | some true => runU t c e
    | some false => runU f c e
    | none => none
  | _, _, _ => none

/-! ### `coalesceLoop`, the case `e := <-inCh`: the sequence of primitive actions it performs, as a
function of `c.Handle(e)` -/

def loopEnvB (handled : Bool) : String → Option Bool := fun s =>
  if s == "p5.Handle(v3)" then some handled else none

def runL : Prog → Bool → Option (List String)
  | .done, _ => some []
  | .act a k, h => (runL k h).map (a :: ·)
  | .ite g t f, h =>
    match g.eval natOps (loopEnvB h) (fun _ => none) with
    | some true => runL t h
    | some false => runL f h
    | none => none
  | _, _ => none

end SerfModel.CoalesceShapes
