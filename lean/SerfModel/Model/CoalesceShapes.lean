/-
Vocabulary for the regenerated facts about serf/coalesce_member.go, serf/coalesce_user.go and
serf/coalesce.go (extract/coalescers.go → Gen/Coalescers.lean): a small boolean IR for the
guards that carry the logic, with an evaluator, and an interpreter for the user coalescer's
`Coalesce` read as a decision program.  The obligations that connect these to the hand-written
models are in Props/C17.lean and Props/C18.lean.
-/
import SerfModel.Model.MemberCoalesce
import SerfModel.Model.UserCoalesce
namespace SerfModel.CoalesceShapes
open SerfModel SerfModel.MemberCoalesce SerfModel.UserCoalesce

/-- Go boolean expression over named terms. -/
inductive Cond where
  | atom (t : String)
  | not (c : Cond)
  | and (a b : Cond)
  | or (a b : Cond)
  /-- `a op b` with op one of `==`, `!=`, `<`, `<=`, `>`, `>=` -/
  | cmp (op : String) (a b : String)
  deriving DecidableEq, Repr, Inhabited

/-- Evaluate under an interpretation of the comparison operators, the boolean terms and the
value terms; `none` when a term or operator is not known (an unexpected source shape). -/
def Cond.eval {α : Type} (ops : String → Option (α → α → Bool)) (b : String → Option Bool)
    (v : String → Option α) : Cond → Option Bool
  | .atom t => b t
  | .not c => (c.eval ops b v).map (!·)
  | .and x y =>
    match x.eval ops b v, y.eval ops b v with
    | some p, some q => some (p && q)
    | _, _ => none
  | .or x y =>
    match x.eval ops b v, y.eval ops b v with
    | some p, some q => some (p || q)
    | _, _ => none
  | .cmp op x y =>
    match ops op, v x, v y with
    | some f, some p, some q => some (f p q)
    | _, _, _ => none

/-! member coalescer: `previous, ok := c.lastEvents[name]`, the pending event is `cevent` -/

def kindOps : String → Option (Kind → Kind → Bool)
  | "==" => some (fun a b => a == b)
  | "!=" => some (fun a b => a != b)
  | _ => none

def kindOfGo : String → Option Kind
  | "EventMemberJoin" => some .join
  | "EventMemberLeave" => some .leave
  | "EventMemberFailed" => some .failed
  | "EventMemberUpdate" => some .update
  | "EventMemberReap" => some .reap
  | _ => none

def memberEnvB (ok : Bool) : String → Option Bool := fun s => if s == "ok" then some ok else none

def memberEnvV (previous cur : Kind) : String → Option Kind := fun s =>
  if s == "previous" then some previous else if s == "cevent.Type" then some cur else kindOfGo s

/-! user coalescer: `latest, ok := c.events[user.Name]` -/

def natOps : String → Option (Nat → Nat → Bool)
  | "==" => some (fun a b => a == b)
  | "!=" => some (fun a b => a != b)
  | "<" => some (fun a b => decide (a < b))
  | "<=" => some (fun a b => decide (a ≤ b))
  | ">" => some (fun a b => decide (a > b))
  | ">=" => some (fun a b => decide (a ≥ b))
  | _ => none

def userEnvB (ok : Bool) : String → Option Bool := fun s => if s == "ok" then some ok else none

def userEnvV (latest user : Nat) : String → Option Nat := fun s =>
  if s == "latest.LTime" then some latest else if s == "user.LTime" then some user else none

/-- what a guarded block of `userEventCoalescer.Coalesce` does -/
inductive UAction where
  /-- `latest = &latestUserEvents{LTime: user.LTime, Events: []Event{e}}; c.events[user.Name] = latest` -/
  | fresh
  /-- `latest.Events = append(latest.Events, e)` -/
  | append
  deriving DecidableEq, Repr, Inhabited

/-- Interpret `Coalesce` (guards in source order; a block that ends in `return` stops) on the
model state. -/
def runUserProg : List (Cond × UAction × Bool) → UC → UserEv → Option UC
  | [], c, _ => some c
  | (g, a, ret) :: rest, c, e =>
    match g.eval natOps (userEnvB (alookup c e.name).isSome)
        (userEnvV (((alookup c e.name).map (·.1)).getD 0) e.lt) with
    | none => none
    | some false => runUserProg rest c e
    | some true =>
      let c' : UC := match a with
        | .fresh => ainsert c e.name (e.lt, [e])
        | .append =>
          match alookup c e.name with
          | some (l, evs) => ainsert c e.name (l, evs ++ [e])
          | none => c
      if ret then some c' else runUserProg rest c' e

end SerfModel.CoalesceShapes
