/-
Agent tags (C30).  Tags are Go `map[string]string`; Go strings are byte strings, so a
tag map is an association list over byte lists without duplicate keys.

* `edit`         — the tag computation of `AgentIPC.handleTags`
                   (cmd/serf/command/agent/ipc.go): copy the current tags except the
                   deleted keys, then `maps.Copy(tags, req.Tags)`.
* `encodeTags`   — `Serf.encodeTags` (serf/serf.go) for protocol version ≥ 3: the magic
                   byte 0xFF followed by the go-msgpack v2 encoding of the map with the
                   default handle (`WriteExt` off: strings use the legacy raw headers
                   fixraw / raw16 / raw32 — there is no str8 header; maps use
                   fixmap / map16 / map32).  The entry order is Go's map iteration order;
                   the length does not depend on it.
* `setTags`      — `Agent.SetTags` (cmd/serf/command/agent/agent.go) composed with
                   `Serf.SetTags` (serf/serf.go): the order of the file write and of the
                   size-checked Serf update is a parameter (`SetTagsShape`), extracted from
                   the source into `SerfModel.Gen.AgentSetTags`.
* file           — `writeTagsFile` / `loadTagsFile` are `json.MarshalIndent` /
                   `json.Unmarshal` of the map: the JSON round trip on valid UTF-8 is an
                   assumed law (exercised by the harness through the real loader), so the
                   file content is modelled as the tag map that was written.
-/
import SerfModel.Prelude.Basic
namespace SerfModel.AgentTags

abbrev Bytes := List UInt8
abbrev Tags := List (Bytes × Bytes)

/-- `delTag` of handleTags: `for _, delkey := range req.DeleteTags { delTag = (delTag || delkey == key) }` -/
def delTag (del : List Bytes) (key : Bytes) : Bool :=
  del.foldl (fun acc d => acc || d == key) false

/-- first loop of handleTags: the current tags without the deleted keys -/
def keep (old : Tags) (del : List Bytes) : Tags :=
  old.foldl (fun acc p => if delTag del p.1 then acc else ainsert acc p.1 p.2) []

/-- `maps.Copy(dst, src)` -/
def mapsCopy (dst src : Tags) : Tags := src.foldl (fun acc p => ainsert acc p.1 p.2) dst

/-- The tags `handleTags` passes to `Agent.SetTags`. -/
def edit (old set : Tags) (del : List Bytes) : Tags := mapsCopy (keep old del) set

/-! ### exact encoded size -/

def be16 (n : Nat) : List UInt8 := [UInt8.ofNat (n / 256), UInt8.ofNat (n % 256)]
def be32 (n : Nat) : List UInt8 :=
  [UInt8.ofNat (n / 16777216), UInt8.ofNat (n / 65536 % 256), UInt8.ofNat (n / 256 % 256), UInt8.ofNat (n % 256)]

/-- `writeContainerLen(msgpackContainerRawLegacy, l)`: fixCutoff 32, no 8-bit form -/
def rawHeader (l : Nat) : List UInt8 :=
  if l < 32 then [UInt8.ofNat (0xa0 + l)] else if l < 65536 then 0xda :: be16 l else 0xdb :: be32 l

/-- `writeContainerLen(msgpackContainerMap, n)`: fixCutoff 16, no 8-bit form -/
def mapHeader (n : Nat) : List UInt8 :=
  if n < 16 then [UInt8.ofNat (0x80 + n)] else if n < 65536 then 0xde :: be16 n else 0xdf :: be32 n

def encStr (b : Bytes) : List UInt8 := rawHeader b.length ++ b

def encEntries : Tags → List UInt8
  | [] => []
  | p :: rest => encStr p.1 ++ encStr p.2 ++ encEntries rest

/-- `tagMagicByte` (serf.go); tied to the source by `SerfProofs.C30.C30_src_constants` -/
def tagMagicByte : UInt8 := 255

/-- `Serf.encodeTags` (protocol ≥ 3), entries in list order. -/
def encodeTags (t : Tags) : List UInt8 := tagMagicByte :: (mapHeader t.length ++ encEntries t)

def rawHeaderLen (l : Nat) : Nat := if l < 32 then 1 else if l < 65536 then 3 else 5
def mapHeaderLen (n : Nat) : Nat := if n < 16 then 1 else if n < 65536 then 3 else 5

def entriesSize : Tags → Nat
  | [] => 0
  | p :: rest => rawHeaderLen p.1.length + p.1.length + (rawHeaderLen p.2.length + p.2.length) + entriesSize rest

/-- `len(s.encodeTags(tags))`, in closed form (equal to `(encodeTags t).length`, proved in
`SerfProofs.Lemmas.AgentTags`). -/
def encodedSize (t : Tags) : Nat := 1 + mapHeaderLen t.length + entriesSize t

/-- `memberlist.MetaMaxSize` -/
def metaMaxSize : Nat := 512

/-- `Serf.SetTags` accepts the tags. -/
def fits (t : Tags) : Bool := encodedSize t ≤ metaMaxSize

/-! ### Agent.SetTags -/

/-- What the extractor reads off `Agent.SetTags`. -/
structure SetTagsShape where
  /-- `writeTagsFile` is called before `serf.SetTags` -/
  fileFirst : Bool
  /-- (only meaningful when `fileFirst = false`) the file write is reached only when
  `serf.SetTags` returned nil -/
  fileGuarded : Bool
  deriving DecidableEq, Repr, Inhabited

/-- The file can never run ahead of the tags in effect. -/
def SetTagsShape.SerfFirst (sh : SetTagsShape) : Bool := !sh.fileFirst && sh.fileGuarded

structure St where
  /-- tags in effect (`Serf.config.Tags`, gossiped as the node's meta data) -/
  effective : Tags
  /-- content of the tags file = what the next start loads -/
  file : Tags
  deriving Repr, Inhabited

/-- `Agent.SetTags(new)`; the Boolean is "no error". File writes are assumed to succeed. -/
def setTags (sh : SetTagsShape) (s : St) (new : Tags) : St × Bool :=
  if sh.fileFirst then
    -- writeTagsFile(tags); return serf.SetTags(tags)
    ({ effective := if fits new then new else s.effective, file := new }, fits new)
  else if sh.fileGuarded then
    -- if err := serf.SetTags(tags); err != nil { return err }; writeTagsFile(tags)
    if fits new then ({ effective := new, file := new }, true) else (s, false)
  else
    -- err := serf.SetTags(tags); writeTagsFile(tags); return err
    ({ effective := if fits new then new else s.effective, file := new }, fits new)

structure TagEdit where
  set : Tags
  del : List Bytes
  deriving Repr, Inhabited

/-- One RPC `tags` request: `handleTags` merges against `SerfConfig().Tags`. -/
def step (sh : SetTagsShape) (s : St) (e : TagEdit) : St × Bool :=
  setTags sh s (edit s.effective e.set e.del)

def run (sh : SetTagsShape) (s : St) : List TagEdit → St
  | [] => s
  | e :: rest => run sh (step sh s e).1 rest

/-- every edit of the run was accepted -/
def allAccepted (sh : SetTagsShape) (s : St) : List TagEdit → Bool
  | [] => true
  | e :: rest => (step sh s e).2 && allAccepted sh (step sh s e).1 rest

/-- Next start: the agent loads the file and `serf.Create` checks the size again;
`none` = the agent does not start. -/
def restart (s : St) : Option St :=
  if fits s.file then some { effective := s.file, file := s.file } else none

/-! ### heap view: the live map, the gossiped tags and the file

The value view above identifies "the tags in effect" with one map.  In the program there
are two: the map object `Serf.config.Tags` points to (what `SerfConfig().Tags` returns, what
the next edit starts from) and the node's gossiped meta data (what `LocalMember().Tags` and
every other member see).  `handleTags` is handed the live object; whether it computes the
edit in a FRESH map or writes into the live one is the parameter `HandleShape.freshMap`
(extracted into `SerfModel.Gen.AgentTagsSrc.freshMap`).  A handler that reuses the live map
when nothing is deleted (seeded change C30-b) modifies the tags in effect before
`Serf.SetTags` has validated them. -/

structure HandleShape where
  /-- `tags := make(map[string]string)`: the edit is computed in a new map -/
  freshMap : Bool
  deriving DecidableEq, Repr, Inhabited

structure Heap where
  /-- content of the map object `Serf.config.Tags` points to -/
  conf : Tags
  /-- the node's gossiped meta data, decoded -/
  gossiped : Tags
  /-- content of the tags file -/
  file : Tags
  deriving Repr, Inhabited

/-- One RPC `tags` request in the heap view. -/
def heapStep (hs : HandleShape) (sh : SetTagsShape) (h : Heap) (e : TagEdit) : Heap × Bool :=
  -- without a fresh map the live object is written to when the request deletes nothing
  let aliased := !hs.freshMap && e.del.isEmpty
  let new := if aliased then mapsCopy h.conf e.set else edit h.conf e.set e.del
  let live := if aliased then new else h.conf
  let ok := fits new
  -- Agent.SetTags: file write per `sh`; Serf.SetTags: size check, then `s.config.Tags = tags`, UpdateNode
  let file' := if sh.fileFirst then new else if sh.fileGuarded then (if ok then new else h.file) else new
  ({ conf := if ok then new else live, gossiped := if ok then new else h.gossiped, file := file' }, ok)

def heapRun (hs : HandleShape) (sh : SetTagsShape) (h : Heap) : List TagEdit → Heap
  | [] => h
  | e :: rest => heapRun hs sh (heapStep hs sh h e).1 rest

/-- Next start in the heap view: everything is what the file holds. -/
def heapRestart (h : Heap) : Option Heap :=
  if fits h.file then some { conf := h.file, gossiped := h.file, file := h.file } else none

/-! ### canonical order for the line protocol (Go `sort.Strings` = bytewise) -/

def bytesLe : Bytes → Bytes → Bool
  | [], _ => true
  | _ :: _, [] => false
  | a :: as, b :: bs => if a < b then true else if b < a then false else bytesLe as bs

def insertTag (p : Bytes × Bytes) : Tags → Tags
  | [] => [p]
  | q :: rest => if bytesLe p.1 q.1 then p :: q :: rest else q :: insertTag p rest

def sortTags (t : Tags) : Tags := t.foldr insertTag []

end SerfModel.AgentTags
