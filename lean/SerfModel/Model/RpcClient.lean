/-
Model of the RPC client's dispatcher (client/rpc_client.go) for C28: the reader
goroutine (`listen` → `respondSeq` → `Handle`) against user goroutines calling
`Stop` (→ `deregisterHandler` → `Cleanup`) and `Close` (→ `deregisterAll`).

`Skeleton` is extracted from the source (`SerfModel.Gen.RpcClient`): whether each
stream handler's `Handle` and `Cleanup` run under the handler's own mutex, whether
the subscriber-channel send in `Handle` is guarded by `!closed`, and whether
`Cleanup` tests `closed` before closing.  With all four the two methods are
atomic actions; otherwise `Handle` is a flag read followed by a send and
`Cleanup` a flag read, a close and a flag write.
-/
import SerfModel.Prelude.Basic
namespace SerfModel.RpcClient

structure HandlerShape where
  handleLocked : Bool
  cleanupLocked : Bool
  sendGuarded : Bool
  cleanupChecksClosed : Bool
  /-- `Handle` contains no `close(…)`: the subscriber channel is closed by `Cleanup` only (under its `closed` flag) -/
  handleNeverCloses : Bool := true
  deriving DecidableEq, Repr, Inhabited

def HandlerShape.good (h : HandlerShape) : Bool :=
  h.handleLocked && h.cleanupLocked && h.sendGuarded && h.cleanupChecksClosed && h.handleNeverCloses

structure Skeleton where
  monitor : HandlerShape
  stream : HandlerShape
  query : HandlerShape
  deriving DecidableEq, Repr, Inhabited

def Skeleton.good (s : Skeleton) : Bool := s.monitor.good && s.stream.good && s.query.good

/-- One subscriber (stream / monitor / query handler) with its channel. -/
structure H where
  inDispatch : Bool := true
  init : Bool := false
  closed : Bool := false
  chanClosed : Bool := false
  sends : Nat := 0
  closes : Nat := 0
  /-- sends attempted on a closed channel (each is a process panic) -/
  sendsOnClosed : Nat := 0
  /-- handler was taken out of the dispatch table and its remover finished `Cleanup` -/
  cleaned : Bool := false
  deriving DecidableEq, Repr, Inhabited

inductive Op where
  | record (h : Nat)      -- the reader receives a record addressed to subscriber h
  | stop (h : Nat)        -- a user goroutine calls Stop(handle h)
  | close                 -- a user goroutine calls Close()
  deriving DecidableEq, Repr, Inhabited

/-- Micro-actions of an operation in progress. -/
inductive Micro where
  | lookup (h : Nat)
  | handleAtomic (h : Nat)
  | handleRead (h : Nat)
  | handleSend (h : Nat) (sawInit : Bool)
  | dereg (h : Nat)
  | deregAll
  | cleanupAtomic (h : Nat)
  | cleanupRead (h : Nat)
  | cleanupClose (h : Nat)
  | cleanupSet (h : Nat)
  deriving DecidableEq, Repr, Inhabited

structure Thr where
  pend : List Micro := []
  todo : List Op := []
  deriving DecidableEq, Repr, Inhabited

structure Sys where
  hs : List H := []
  threads : List Thr := []
  deriving DecidableEq, Repr, Inhabited

def Sys.init (nH : Nat) (progs : List (List Op)) : Sys :=
  { hs := List.replicate nH {}, threads := progs.map fun p => { todo := p } }

def handleSteps (good : Bool) (h : Nat) : List Micro :=
  if good then [.handleAtomic h] else [.handleRead h]

def cleanupSteps (good : Bool) (h : Nat) : List Micro :=
  if good then [.cleanupAtomic h] else [.cleanupRead h]

def updH (hs : List H) (h : Nat) (f : H → H) : List H :=
  match hs[h]? with
  | some x => hs.set h (f x)
  | none => hs

/-- `Cleanup` as one atomic action (locked, tests `closed`). -/
def cleanupH (x : H) : H :=
  if x.closed then { x with cleaned := true }
  else { x with init := true, closed := true, chanClosed := true,
                closes := x.closes + 1, cleaned := true }

/-- `Handle` as one atomic action (locked, send guarded by `!closed`). -/
def handleH (x : H) : H :=
  if !x.init then { x with init := true }
  else if x.closed then x
  else { x with sends := x.sends + 1 }

def step (good : Bool) (s : Sys) (t : Nat) : Sys :=
  match s.threads[t]? with
  | none => s
  | some th =>
    match th.pend with
    | [] =>
      match th.todo with
      | [] => s
      | .record h :: rest => { s with threads := s.threads.set t { pend := [.lookup h], todo := rest } }
      | .stop h :: rest => { s with threads := s.threads.set t { pend := [.dereg h], todo := rest } }
      | .close :: rest => { s with threads := s.threads.set t { pend := [.deregAll], todo := rest } }
    | m :: more =>
      let setT (p : List Micro) (hs : List H) : Sys := { hs := hs, threads := s.threads.set t { th with pend := p } }
      match m with
      | .lookup h =>
        match s.hs[h]? with
        | some x => if x.inDispatch then setT (handleSteps good h ++ more) s.hs else setT more s.hs
        | none => setT more s.hs
      | .handleAtomic h => setT more (updH s.hs h handleH)
      | .handleRead h =>
        match s.hs[h]? with
        | some x => setT (.handleSend h x.init :: more) (if x.init then s.hs else updH s.hs h fun y => { y with init := true })
        | none => setT more s.hs
      | .handleSend h sawInit =>
        if sawInit then
          setT more (updH s.hs h fun y => if y.chanClosed then { y with sendsOnClosed := y.sendsOnClosed + 1 } else { y with sends := y.sends + 1 })
        else setT more s.hs
      | .dereg h =>
        match s.hs[h]? with
        | some x => if x.inDispatch then setT (cleanupSteps good h ++ more) (updH s.hs h fun y => { y with inDispatch := false })
                    else setT more s.hs
        | none => setT more s.hs
      | .deregAll =>
        let ids := (List.range s.hs.length).filter fun i => (s.hs.getD i {}).inDispatch
        setT (ids.flatMap (cleanupSteps good) ++ more) (s.hs.map fun y => { y with inDispatch := false })
      | .cleanupAtomic h => setT more (updH s.hs h cleanupH)
      | .cleanupRead h =>
        match s.hs[h]? with
        | some x => if x.closed then setT more (updH s.hs h fun y => { y with cleaned := true }) else setT (.cleanupClose h :: .cleanupSet h :: more) s.hs
        | none => setT more s.hs
      | .cleanupClose h => setT more (updH s.hs h fun y => { y with init := true, chanClosed := true, closes := y.closes + 1 })
      | .cleanupSet h => setT more (updH s.hs h fun y => { y with closed := true, cleaned := true })

def run (good : Bool) (s : Sys) (sched : List Nat) : Sys := sched.foldl (step good) s

/-! ### Client shutdown (`RPCClient.Close`, `deregisterAll`) -/

/-- Extracted shape of `RPCClient.Close`. -/
structure CloseShape where
  /-- `shutdownLock.Lock()` first, released only when the function returns -/
  lockedWholeBody : Bool
  /-- the body tests `!c.shutdown` … -/
  testInside : Bool
  /-- … sets `c.shutdown = true` under that test … -/
  setInside : Bool
  /-- … and every `close(c.shutdownCh)` sits under it -/
  closeChGuarded : Bool
  closeChCount : Nat
  deriving DecidableEq, Repr, Inhabited

def CloseShape.good (c : CloseShape) : Bool :=
  c.lockedWholeBody && c.testInside && c.setInside && c.closeChGuarded && c.closeChCount == 1

/-- Extracted shape of `deregisterAll`: what `c.dispatch` is afterwards ("fresh" map, "nil", "unchanged", "other"). -/
structure DeregShape where
  lockedWholeBody : Bool
  tableAfter : String
  deriving DecidableEq, Repr, Inhabited

/-- Requests issued after `Close` register their handler in `c.dispatch` before `send` fails: the table must be a
usable map (a write to a nil map panics). -/
def DeregShape.good (d : DeregShape) : Bool := d.lockedWholeBody && d.tableAfter == "fresh"

/-- State of the client's shutdown flag and channel. `closes` counts `close(shutdownCh)`: a second one panics. -/
structure CS where
  shutdown : Bool := false
  closes : Nat := 0
  /-- per thread: has read `shutdown == false` and not yet acted on it (only when the section is not atomic) -/
  pending : List Bool := []
  deriving DecidableEq, Repr, Inhabited

/-- One scheduler step of thread `t` calling `Close`.  With the lock held over the whole body the test, the
assignment and the channel close are one atomic action; otherwise the test is one step and the rest another. -/
def closeStep (atomic : Bool) (s : CS) (t : Nat) : CS :=
  if atomic then
    if s.shutdown then s else { s with shutdown := true, closes := s.closes + 1 }
  else
    match s.pending[t]? with
    | some true => { shutdown := true, closes := s.closes + 1, pending := s.pending.set t false }
    | some false => if s.shutdown then s else { s with pending := s.pending.set t true }
    | none => s

def closeRun (atomic : Bool) (s : CS) (sched : List Nat) : CS := sched.foldl (closeStep atomic) s

end SerfModel.RpcClient
