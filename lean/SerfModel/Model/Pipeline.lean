/-
Model of the event pipeline that `serf.Create` (serf/serf.go) stacks between the
handlers and the application's `EventCh`.  Create wraps from the application
outwards, so in the direction the data flows the stages are

  handlers → [snapshot tee] → internal-query filter → [user coalescer] → [member coalescer] → EventCh

  * tee            serf/snapshot.go `teeStream`: copies to the snapshot side and forwards to
                   `outCh`, BOTH with a non-blocking send (`select … default`): when the next
                   stage's channel is full the event is dropped.
  * filter         serf/internal_query.go `stream`: internal queries (`_serf_…`) are consumed,
                   everything else is forwarded with a blocking send.
  * user coalescer serf/coalesce.go loop around serf/coalesce_user.go (member events pass through).
  * member coalescer  the same loop around serf/coalesce_member.go.

Every stage is a goroutine with an input channel.  The model keeps one unbounded
FIFO per stage; a blocking send on a full channel only removes schedules, so every
real behaviour is a behaviour of the model.  The tee's drop is a separate step
that the schedule may take at any time (over-approximation of "channel full").
A schedule is a list of steps: `emit` (a handler sends the next event of the
emitted history, under the member lock, hence in order), or stage `k` performs an
action: take one event from its queue, fire a timer, see the shutdown, drop.
Stages are listed DOWNSTREAM FIRST (index 0 is the stage that writes to EventCh).
-/
import SerfModel.Model.MemberCoalesce
import SerfModel.Model.UserCoalesce
namespace SerfModel.Pipeline
open SerfModel SerfModel.MemberCoalesce SerfModel.UserCoalesce SerfModel.CoalesceLoop

inductive PEv where
  | member (e : MEv)
  | user (u : UserEv)
  | query (internal : Bool) (id : Nat)
  deriving DecidableEq, Repr, Inhabited

/-- `userEventCoalescer` on pipeline events. -/
def userCoP : Coalescer PEv where
  σ := UC
  init := []
  handle := fun e => match e with | .user u => u.coalesce | _ => false
  coalesce := fun c e => match e with | .user u => UserCoalesce.coalesce c u | _ => c
  flush := fun c => ((UserCoalesce.flush c).1, (UserCoalesce.flush c).2.map PEv.user)

/-- `memberEventCoalescer` on pipeline events (the events the handlers emit carry one member). -/
def memberCoP : Coalescer PEv where
  σ := MC
  init := {}
  handle := fun e => match e with | .member _ => true | _ => false
  coalesce := fun c e => match e with | .member m => MemberCoalesce.coalesce c m | _ => c
  flush := fun c => ((MemberCoalesce.flush c).1, (MemberCoalesce.flush c).2.map PEv.member)

inductive Stage where
  | tee
  | filter
  | userCo (s : CoalesceLoop.St userCoP)
  | memberCo (s : CoalesceLoop.St memberCoP)

/-- One reaction of a stage goroutine to one input of its `select`. -/
def Stage.step : Stage → In PEv → Stage × List PEv
  | .tee, .ev e => (.tee, [e])
  | .tee, _ => (.tee, [])
  | .filter, .ev (.query true _) => (.filter, [])
  | .filter, .ev e => (.filter, [e])
  | .filter, _ => (.filter, [])
  | .userCo s, i => (.userCo (CoalesceLoop.step userCoP s i).1, (CoalesceLoop.step userCoP s i).2)
  | .memberCo s, i => (.memberCo (CoalesceLoop.step memberCoP s i).1, (CoalesceLoop.step memberCoP s i).2)

inductive Act where
  | take | drop | quantum | quiescent | shutdown
  deriving DecidableEq, Repr

/-- Stage `st` with input queue `q` performs `a`: new stage, new queue, what it sends downstream. -/
def act (st : Stage) (q : List PEv) : Act → Stage × List PEv × List PEv
  | .take =>
    match q with
    | [] => (st, q, [])
    | e :: q' => ((st.step (.ev e)).1, q', (st.step (.ev e)).2)
  | .drop =>
    match st, q with
    | .tee, _ :: q' => (.tee, q', [])
    | _, _ => (st, q, [])
  | .quantum => ((st.step .quantum).1, q, (st.step .quantum).2)
  | .quiescent => ((st.step .quiescent).1, q, (st.step .quiescent).2)
  | .shutdown => ((st.step .shutdown).1, q, (st.step .shutdown).2)

/-- Stage number `k` (downstream first) acts; its output goes into the queue of the stage before it
in the list, or is returned (second component) when `k = 0`: that is what reaches EventCh. -/
def stepAt : List (Stage × List PEv) → Nat → Act → List (Stage × List PEv) × List PEv
  | [], _, _ => ([], [])
  | (st, q) :: rest, 0, a => (((act st q a).1, (act st q a).2.1) :: rest, (act st q a).2.2)
  | (st, q) :: rest, k + 1, a => ((st, q ++ (stepAt rest k a).2) :: (stepAt rest k a).1, [])

/-- A handler's send: into the queue of the most upstream stage. -/
def pushLast : List (Stage × List PEv) → PEv → List (Stage × List PEv)
  | [], _ => []
  | [(st, q)], e => [(st, q ++ [e])]
  | sq :: rest, e => sq :: pushLast rest e

structure Pipe where
  /-- events the handlers have not sent yet (the rest of the emitted history) -/
  todo : List PEv
  stages : List (Stage × List PEv)
  /-- what the application has received on EventCh -/
  recv : List PEv := []

inductive Step where
  | emit
  | at (k : Nat) (a : Act)
  deriving DecidableEq, Repr

def Pipe.step (s : Pipe) : Step → Pipe
  | .emit =>
    match s.todo with
    | [] => s
    | e :: t =>
      if s.stages.isEmpty then { s with todo := t, recv := s.recv ++ [e] }
      else { s with todo := t, stages := pushLast s.stages e }
  | .at k a => { s with stages := (stepAt s.stages k a).1, recv := s.recv ++ (stepAt s.stages k a).2 }

structure Cfg where
  snapshot : Bool
  userCoalesce : Bool
  memberCoalesce : Bool
  deriving DecidableEq, Repr

/-- The stages `Create` builds, downstream first. -/
def stagesOf (cfg : Cfg) : List (Stage × List PEv) :=
  (if cfg.memberCoalesce then [(Stage.memberCo (CoalesceLoop.init memberCoP), [])] else []) ++
  (if cfg.userCoalesce then [(Stage.userCo (CoalesceLoop.init userCoP), [])] else []) ++
  [(Stage.filter, [])] ++
  (if cfg.snapshot then [(Stage.tee, [])] else [])

def initPipe (cfg : Cfg) (emitted : List PEv) : Pipe := { todo := emitted, stages := stagesOf cfg }

def runPipeline (cfg : Cfg) (emitted : List PEv) (sched : List Step) : Pipe :=
  sched.foldl Pipe.step (initPipe cfg emitted)

/-- The member events about member `m` in a list of pipeline events. -/
def about (m : String) (l : List PEv) : List MEv :=
  l.filterMap (fun e => match e with | .member x => if x.name == m then some x else none | _ => none)

/-- Kind of the last event about `m`. -/
def lastKind (m : String) (l : List PEv) : Option Kind := (about m l).getLast?.map (·.kind)

def Step.isDrop : Step → Bool
  | .at _ .drop => true
  | _ => false

/-- A step that can lose an event: the tee dropping, or a coalescer goroutine returning at
shutdown (what is sent to it afterwards is never read). -/
def Step.isLoss : Step → Bool
  | .at _ .drop => true
  | .at _ .shutdown => true
  | _ => false

/-- Nothing in flight: every emitted event was sent, every queue is empty, no coalescer holds an event. -/
def stageIdle : Stage × List PEv → Bool
  | (.memberCo s, q) => q.isEmpty && s.c.latest.isEmpty
  | (_, q) => q.isEmpty

def Pipe.drained (s : Pipe) : Bool := s.todo.isEmpty && s.stages.all stageIdle

end SerfModel.Pipeline
