/-
Model of query reply routing: serf/serf.go `registerQueryResponse`,
`handleQueryResponse`, the timer closure; serf/query.go `QueryResponse`
(`Close`, `Finished`, `sendAck`, `sendResponse`).

A `QR` is one `QueryResponse` object.  Objects are never destroyed (the timer
closure keeps a reference); `Sys.map` is `s.queryResponse` (Lamport time ↦ index
of the object).  Wall-clock time is an input: action `deadline i` makes
`time.Now().After(deadline)` true for object `i`.

Replies are handled by one goroutine (memberlist's packet handler), so at most one
reply is in flight; its handling is split into the atomic steps of the code:
  arrive    = lookup under `queryLock.RLock`          (→ stage 2)
  stage 2   = `query.id != resp.ID`
  stage 3   = `query.Finished()`  (closeLock)
  stage 4   = duplicate check on `acks` / `responses`
  stage 5   = `sendAck` / `sendResponse` (closeLock: closed check, non-blocking send, record) — ONE action
              only if the regenerated lock shape says the check and the send share a critical section
Any other action (timer closure of any object, registration of a query — also
with a Lamport time already registered: the map entry is overwritten —, the
deadline passing, the client consuming from a channel) may happen between two steps.

Every action advances the step counter `now`; a send / close records the step at
which it happened, so that "nothing after close" is a statement about the history.
-/
import SerfModel.Prelude.Basic
namespace SerfModel.QueryRoute
open SerfModel

/-- `messageQueryResponse`: `tag` stands for the payload. -/
structure Reply where
  lt : Nat
  id : Nat
  sender : String
  isAck : Bool
  tag : Nat
  deriving DecidableEq, Repr, Inhabited

/-- Something put on a result channel, with the step at which it was sent. -/
structure Sent where
  r : Reply
  time : Nat
  deriving DecidableEq, Repr, Inhabited

structure QR where
  lt : Nat
  id : Nat
  /-- `ackCh != nil` (the query requested acks) -/
  ackWanted : Bool
  /-- capacity of both channels (`memberlist.NumMembers()` at query time) -/
  cap : Nat
  pastDeadline : Bool := false
  closed : Bool := false
  /-- `acks` / `responses`: senders already delivered -/
  acks : List String := []
  resps : List String := []
  /-- items buffered in the channels, not yet consumed by the client -/
  ackBuf : Nat := 0
  respBuf : Nat := 0
  /-- history: everything ever sent on `ackCh` / `respCh`, in order -/
  ackLog : List Sent := []
  respLog : List Sent := []
  /-- history: number of times the channels were closed, and when -/
  closeCount : Nat := 0
  closedAt : Option Nat := none
  /-- history: the timer closure of this object has run -/
  timedOut : Bool := false
  deriving DecidableEq, Repr, Inhabited

structure Inflight where
  r : Reply
  stage : Nat
  ref : Nat
  deriving DecidableEq, Repr, Inhabited

structure Sys where
  objs : List QR := []
  map : List (Nat × Nat) := []
  inflight : Option Inflight := none
  now : Nat := 0
  /-- `s.queryClock` -/
  clock : Nat := 0
  deriving Repr, Inhabited

inductive Action where
  | register (lt id : Nat) (ack : Bool) (cap : Nat)
  /-- `Serf.Query`: takes the Lamport time `queryClock.Increment() - 1` (one atomic step, as the regenerated
  clock use `Gen.ClockUse.query` says) and registers the response object under it -/
  | query (id : Nat) (ack : Bool) (cap : Nat)
  /-- `queryClock.Witness(t)` (a query of another node, or the node's own, is handled) -/
  | witness (t : Nat)
  | deadline (i : Nat)
  | timeout (i : Nat)
  | arrive (r : Reply)
  | replyStep
  | consumeAck (i : Nat)
  | consumeResp (i : Nat)
  deriving DecidableEq, Repr, Inhabited

/-! ### Lock shapes (regenerated from serf/query.go into `SerfModel.Gen.QueryLocks`)

The granularity of the actions below is DERIVED from how the code uses `closeLock`:
`sendAck`/`sendResponse` are one atomic action (test of `closed` + send) only if the test and
the send sit in one critical section; otherwise the test and the send are two actions
and anything — in particular a `Close()` — may happen in between. -/

/-- `sendAck` / `sendResponse`. -/
structure SendShape where
  /-- first statement `r.closeLock.Lock()` -/
  lockFirst : Bool
  /-- second statement `defer r.closeLock.Unlock()` -/
  deferred : Bool
  /-- another unlock of closeLock occurs in the body -/
  earlyUnlock : Bool
  /-- `if r.closed { return … }` after the lock and before the send -/
  closedTestInside : Bool
  /-- the channel send comes after that test, under the lock -/
  sendInside : Bool
  /-- the body calls a method of the receiver (`Finished()`, `Close()` … lock closeLock themselves) -/
  callsOwnMethods : Bool
  deriving DecidableEq, Repr, Inhabited

def SendShape.atomic (s : SendShape) : Bool :=
  s.lockFirst && s.deferred && !s.earlyUnlock && s.closedTestInside && s.sendInside && !s.callsOwnMethods

/-- `Close`. -/
structure CloseShape where
  lockFirst : Bool
  deferred : Bool
  earlyUnlock : Bool
  /-- `if r.closed { return }` before anything else -/
  closedGuard : Bool
  /-- `r.closed = true` under the lock -/
  setsClosed : Bool
  /-- both channels are closed under the lock -/
  closesChannels : Bool
  deriving DecidableEq, Repr, Inhabited

def CloseShape.good (c : CloseShape) : Bool :=
  c.lockFirst && c.deferred && !c.earlyUnlock && c.closedGuard && c.setsClosed && c.closesChannels

/-- `registerQueryResponse`: the registration and the closure handed to `time.AfterFunc`. -/
structure TimerShape where
  /-- the method holds `queryLock` (Lock first, deferred Unlock) -/
  regLocked : Bool
  /-- `s.queryResponse[resp.lTime] = resp` -/
  regStores : Bool
  /-- first argument of `time.AfterFunc` -/
  timerArg : String
  /-- the closure holds `queryLock` over its whole body -/
  locked : Bool
  /-- the closure does `delete(s.queryResponse, resp.lTime)` -/
  deletes : Bool
  /-- the closure does `resp.Close()` -/
  closes : Bool
  /-- every statement of the closure is at its top level: no `if`, no early `return` -/
  unconditional : Bool
  deriving DecidableEq, Repr, Inhabited

def TimerShape.good (t : TimerShape) : Bool :=
  t.regLocked && t.regStores && t.timerArg == "timeout" && t.locked && t.deletes && t.closes && t.unconditional

/-- `handleQueryResponse`: classified statements in order and the two branches of the dispatch. -/
structure HandleShape where
  order : List String
  ackBranch : List String
  respBranch : List String
  deriving DecidableEq, Repr, Inhabited

/-- The step order the stages of an in-flight reply transcribe. -/
def HandleShape.asModelled (h : HandleShape) : Bool :=
  h.order == ["rlock", "lookup", "runlock", "missing", "idCheck", "finished", "dispatch"] &&
  h.ackBranch == ["dupCheck:acks", "sendAck"] && h.respBranch == ["dupCheck:responses", "sendResponse"]

structure Shapes where
  sendAck : SendShape
  sendResponse : SendShape
  close : CloseShape
  finishedLocked : Bool
  timer : TimerShape
  handle : HandleShape
  deriving DecidableEq, Repr, Inhabited

def Shapes.sendAtomic (sh : Shapes) (isAck : Bool) : Bool :=
  (if isAck then sh.sendAck else sh.sendResponse).atomic

/-- The shapes under which the model's actions are the code's critical sections. -/
def Shapes.good (sh : Shapes) : Bool :=
  sh.sendAck.atomic && sh.sendResponse.atomic && sh.close.good && sh.finishedLocked && sh.timer.good &&
  sh.handle.asModelled

/-- The raw registration with a caller-chosen Lamport time (the hook / an arbitrary caller); `Serf.Query` is `.query`. -/
def Action.isRegister : Action → Bool
  | .register .. => true
  | _ => false

/-- Apply `f` to the object at index `i`. -/
def modAt (f : QR → QR) : List QR → Nat → List QR
  | [], _ => []
  | q :: qs, 0 => f q :: qs
  | q :: qs, i + 1 => q :: modAt f qs i

/-- `QueryResponse.Close` at step `now`. -/
def close (now : Nat) (q : QR) : QR :=
  if q.closed then q
  else { q with closed := true, closeCount := q.closeCount + 1, closedAt := some now }

/-- `sendAck` / `sendResponse` at step `now` (the caller holds no lock; the function takes `closeLock`). -/
def send (now : Nat) (r : Reply) (q : QR) : QR :=
  if q.closed then q
  else if r.isAck then
    -- `select { case r.ackCh <- from: …; default: drop }`; a nil channel is never ready
    if q.ackWanted && q.ackBuf < q.cap then
      { q with ackBuf := q.ackBuf + 1, acks := q.acks ++ [r.sender], ackLog := q.ackLog ++ [⟨r, now⟩] }
    else q
  else
    if q.respBuf < q.cap then
      { q with respBuf := q.respBuf + 1, resps := q.resps ++ [r.sender], respLog := q.respLog ++ [⟨r, now⟩] }
    else q

/-- The send WITHOUT the test of `closed` in the same critical section (used only for lock shapes
that are not atomic): on a closed channel Go panics with "send on closed channel"; the model records
the attempt as a send, so that it shows up as a reply routed after close. -/
def sendUnchecked (now : Nat) (r : Reply) (q : QR) : QR :=
  if r.isAck then
    if q.ackWanted && (q.closed || q.ackBuf < q.cap) then
      { q with ackBuf := q.ackBuf + 1, acks := q.acks ++ [r.sender], ackLog := q.ackLog ++ [⟨r, now⟩] }
    else q
  else
    if q.closed || q.respBuf < q.cap then
      { q with respBuf := q.respBuf + 1, resps := q.resps ++ [r.sender], respLog := q.respLog ++ [⟨r, now⟩] }
    else q

def replyStep (sh : Shapes) (s : Sys) : Sys :=
  match s.inflight with
  | none => s
  | some f =>
    match s.objs[f.ref]? with
    | none => { s with inflight := none }
    | some q =>
      if f.stage ≤ 2 then
        if q.id != f.r.id then { s with inflight := none }
        else { s with inflight := some { f with stage := 3 } }
      else if f.stage = 3 then
        if q.closed || q.pastDeadline then { s with inflight := none }
        else { s with inflight := some { f with stage := 4 } }
      else if f.stage = 4 then
        if (if f.r.isAck then q.acks else q.resps).contains f.r.sender then { s with inflight := none }
        else { s with inflight := some { f with stage := 5 } }
      else if sh.sendAtomic f.r.isAck then
        { s with objs := modAt (send s.now f.r) s.objs f.ref, inflight := none }
      else if f.stage = 5 then
        -- the test of `closed` is a critical section of its own …
        if q.closed then { s with inflight := none } else { s with inflight := some { f with stage := 6 } }
      else
        -- … and the send another one
        { s with objs := modAt (sendUnchecked s.now f.r) s.objs f.ref, inflight := none }

def act (sh : Shapes) (s : Sys) (a : Action) : Sys :=
  let s' : Sys :=
    match a with
    | .register lt id ack cap =>
      { s with objs := s.objs ++ [{ lt := lt, id := id, ackWanted := ack, cap := cap }],
               map := ainsert s.map lt s.objs.length }
    | .query id ack cap =>
      { s with objs := s.objs ++ [{ lt := s.clock, id := id, ackWanted := ack, cap := cap }],
               map := ainsert s.map s.clock s.objs.length, clock := s.clock + 1 }
    | .witness t => { s with clock := if s.clock ≤ t then t + 1 else s.clock }
    | .deadline i => { s with objs := modAt (fun q => { q with pastDeadline := true }) s.objs i }
    | .timeout i =>
      match s.objs[i]? with
      | none => s
      | some q =>
        if sh.timer.unconditional || (alookup s.map q.lt).isSome then
          { s with map := aerase s.map q.lt,
                   objs := modAt (fun q => { close s.now q with timedOut := true }) s.objs i }
        else
          -- a closure that first looks for its table entry and returns when there is none: the timer has
          -- fired, nothing is closed
          { s with objs := modAt (fun q => { q with timedOut := true }) s.objs i }
    | .arrive r =>
      match s.inflight with
      | some _ => s
      | none =>
        match alookup s.map r.lt with
        | none => s
        | some i => { s with inflight := some ⟨r, 2, i⟩ }
    | .replyStep => replyStep sh s
    | .consumeAck i => { s with objs := modAt (fun q => { q with ackBuf := q.ackBuf - 1 }) s.objs i }
    | .consumeResp i => { s with objs := modAt (fun q => { q with respBuf := q.respBuf - 1 }) s.objs i }
  { s' with now := s.now + 1 }

def run (sh : Shapes) (sched : List Action) : Sys := sched.foldl (act sh) {}

end SerfModel.QueryRoute
