/-
Shapes of the decisive guards and statement orders of the coordinate client, as data.  `extract/coordguards.go`
regenerates `Gen/CoordGuards.lean` from coordinate/coordinate.go (componentIsValid, IsValid), coordinate/client.go
(checkCoordinate, Update) and serf/ping_delegate.go (NotifyPingComplete); `Props/C20.lean` proves that the
generated values denote exactly what the hand-written model (Model/Coord.lean) uses.
-/
import SerfModel.Model.Coord
namespace SerfModel.Coord
open SerfModel FloatLike

/-- a Boolean expression over one float `f` (componentIsValid) -/
inductive CompExpr where
  /-- `math.IsNaN(f)` -/
  | isNaN
  /-- `math.IsInf(f, sign)`: sign 0 = either infinity, > 0 = +Inf only, < 0 = -Inf only -/
  | isInf (sign : Int)
  | not (e : CompExpr)
  | and (a b : CompExpr)
  | or (a b : CompExpr)
  deriving DecidableEq, Repr

variable {F : Type} [FloatLike F]

def CompExpr.eval (f : F) : CompExpr → Bool
  | .isNaN => FloatLike.isNaN f
  | .isInf s =>
    if s = 0 then FloatLike.isInf f
    else if s > 0 then FloatLike.isInf f && FloatLike.lt (zero : F) f
    else FloatLike.isInf f && FloatLike.lt f (zero : F)
  | .not e => !(e.eval f)
  | .and a b => a.eval f && b.eval f
  | .or a b => a.eval f || b.eval f

inductive CoordField where
  | error | adjustment | height
  deriving DecidableEq, Repr

def CoordField.get (c : Coordinate F) : CoordField → F
  | .error => c.error
  | .adjustment => c.adjustment
  | .height => c.height

/-- IsValid: `for i := range c.Vec { if !componentIsValid(c.Vec[i]) { return false } }` (when `vecLoop`), then
`return componentIsValid(c.f1) && componentIsValid(c.f2) && …` -/
structure ValidShape where
  vecLoop : Bool
  fields : List CoordField
  deriving DecidableEq, Repr

def ValidShape.eval (comp : CompExpr) (s : ValidShape) (c : Coordinate F) : Bool :=
  (if s.vecLoop then c.vec.all (fun x => comp.eval x) else true) &&
    s.fields.foldr (fun fld acc => comp.eval (fld.get c) && acc) true

/-- checkCoordinate: the checks in source order, each returning its error -/
inductive CheckStep where
  /-- `if !c.coord.IsCompatibleWith(coord) { return error }` -/
  | compatible
  /-- `if !coord.IsValid() { return error }` -/
  | valid
  deriving DecidableEq, Repr

/-- `if rtt < lo || rtt > hi { return error }` (strict comparisons; nanoseconds) -/
structure RttGuard where
  lo : Int
  loStrict : Bool
  hi : Int
  hiStrict : Bool
  deriving DecidableEq, Repr

def RttGuard.rejects (g : RttGuard) (rtt : Int) : Bool :=
  (if g.loStrict then decide (rtt < g.lo) else decide (rtt ≤ g.lo)) ||
  (if g.hiStrict then decide (rtt > g.hi) else decide (rtt ≥ g.hi))

/-- the statements of Client.Update, in source order -/
inductive UpdateStep where
  | lock | deferUnlock
  | checkCoordinateOrReturn     -- if err := c.checkCoordinate(other); err != nil { return nil, err }
  | rttRangeOrReturn            -- if rtt < 0 || rtt > maxRTT { return nil, … }
  | zeroRttMetric               -- if rtt == 0 { metrics… }
  | latencyFilter | updateVivaldi | updateAdjustment | updateGravity
  | resetIfInvalid              -- if !c.coord.IsValid() { c.stats.Resets++; c.coord = NewCoordinate(c.config) }
  | returnClone
  deriving DecidableEq, Repr

/-- the statements of pingDelegate.NotifyPingComplete, in source order -/
inductive PingStep where
  | emptyReturn | versionReturn | decodeReturn
  | before | update
  | rejectedReturn              -- if err != nil { …; return }
  | metric
  | cacheLock | cachePeer | cacheSelf | cacheUnlock
  deriving DecidableEq, Repr

end SerfModel.Coord

/-! ### interpreters: the generated statement lists, executed with the model's component functions -/

namespace SerfModel.Coord
open SerfModel FloatLike
variable {F : Type} [FloatLike F]

/-- checkCoordinate as the generated list of checks, in order -/
def interpCheck (comp : CompExpr) (valid : ValidShape) (steps : List CheckStep) (cl : Client F) (c : Coordinate F) :
    Option Reject :=
  match steps with
  | [] => none
  | .compatible :: rest => if !isCompatibleWith cl.coord c then some .dimension else interpCheck comp valid rest cl c
  | .valid :: rest => if !(valid.eval comp c) then some .invalid else interpCheck comp valid rest cl c

/-- interpreter state of Client.Update -/
structure UpdSt (F : Type) where
  cl : Client F
  rnd : List F
  /-- `rttSeconds`, defined once the latency filter has run -/
  rtt : Option F
  /-- set by a `return` (or a panic) -/
  done : Option UpdateResult

structure UpdShape where
  comp : CompExpr
  valid : ValidShape
  checks : List CheckStep
  guard : RttGuard
  steps : List UpdateStep

def stepUpdate (sh : UpdShape) (cfg : Config F) (node : String) (other : Coordinate F) (rttNs : Int)
    (s : UpdSt F) : UpdateStep → UpdSt F
  | .lock => s
  | .deferUnlock => s
  | .zeroRttMetric => s
  | .checkCoordinateOrReturn =>
    match interpCheck sh.comp sh.valid sh.checks s.cl other with
    | some r => { s with done := some (.rejected r) }
    | none => s
  | .rttRangeOrReturn => if sh.guard.rejects rttNs then { s with done := some (.rejected .rtt) } else s
  | .latencyFilter =>
    match (latencyFilter cfg s.cl node (rttSeconds rttNs)).2 with
    | none => { s with cl := (latencyFilter cfg s.cl node (rttSeconds rttNs)).1, done := some .panic }
    | some r => { s with cl := (latencyFilter cfg s.cl node (rttSeconds rttNs)).1, rtt := some r }
  | .updateVivaldi =>
    match s.rtt with
    | some r => { s with cl := (updateVivaldi cfg s.rnd s.cl other r).1, rnd := (updateVivaldi cfg s.rnd s.cl other r).2 }
    | none => { s with done := some .panic }
  | .updateAdjustment =>
    match s.rtt with
    | some r => { s with cl := updateAdjustment cfg s.cl other r }
    | none => { s with done := some .panic }
  | .updateGravity => { s with cl := (updateGravity cfg s.rnd s.cl).1, rnd := (updateGravity cfg s.rnd s.cl).2 }
  | .resetIfInvalid =>
    if !(sh.valid.eval sh.comp s.cl.coord) then
      { s with cl := { s.cl with resets := s.cl.resets + 1, coord := newCoordinate cfg } }
    else s
  | .returnClone => { s with done := some .ok }

def runUpdateSteps (sh : UpdShape) (cfg : Config F) (node : String) (other : Coordinate F) (rttNs : Int) :
    UpdSt F → List UpdateStep → UpdSt F
  | s, [] => s
  | s, st :: rest =>
    match s.done with
    | some _ => s
    | none => runUpdateSteps sh cfg node other rttNs (stepUpdate sh cfg node other rttNs s st) rest

/-- Client.Update as the interpretation of a generated shape; falling off the end without `return` is `panic` -/
def interpUpdate (sh : UpdShape) (cfg : Config F) (cl : Client F) (node : String) (other : Coordinate F) (rttNs : Int)
    (rnd : List F) : Client F × UpdateResult :=
  let s := runUpdateSteps sh cfg node other rttNs { cl := cl, rnd := rnd, rtt := none, done := none } sh.steps
  (s.cl, s.done.getD .panic)

/-- interpreter state of NotifyPingComplete -/
structure PingSt (F : Type) where
  node : Node F
  upd : Option (Client F × UpdateResult)
  cachedPeer : Bool
  done : Bool

def stepPing (cfg : Config F) (peer : String) (rttNs : Int) (p : Payload F) (rnd : List F) (s : PingSt F) :
    PingStep → PingSt F
  | .emptyReturn => match p with | .empty => { s with done := true } | _ => s
  | .versionReturn => match p with | .badVersion => { s with done := true } | _ => s
  | .decodeReturn => match p with | .undecodable => { s with done := true } | _ => s
  | .before => s
  | .update =>
    match p with
    | .coord c =>
      { s with upd := some (update cfg s.node.client peer c rttNs rnd),
               node := { s.node with client := (update cfg s.node.client peer c rttNs rnd).1 } }
    | _ => s
  | .rejectedReturn =>
    match s.upd with
    | some (_, .ok) => s
    | some _ => { s with done := true }
    | none => s
  | .metric => s
  | .cacheLock => s
  | .cacheUnlock => s
  | .cachePeer =>
    match p with
    | .coord c => { s with node := { s.node with cache := ainsert s.node.cache peer c }, cachedPeer := true }
    | _ => s
  | .cacheSelf => { s with node := { s.node with cache := ainsert s.node.cache s.node.name s.node.client.coord } }

def runPingSteps (cfg : Config F) (peer : String) (rttNs : Int) (p : Payload F) (rnd : List F) :
    PingSt F → List PingStep → PingSt F
  | s, [] => s
  | s, st :: rest => if s.done then s else runPingSteps cfg peer rttNs p rnd (stepPing cfg peer rttNs p rnd s st) rest

def interpPing (steps : List PingStep) (cfg : Config F) (n : Node F) (peer : String) (rttNs : Int) (p : Payload F)
    (rnd : List F) : Node F × Bool :=
  let s := runPingSteps cfg peer rttNs p rnd { node := n, upd := none, cachedPeer := false, done := false } steps
  (s.node, s.cachedPeer)

end SerfModel.Coord
