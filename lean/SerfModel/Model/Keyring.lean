/-
Keyring persistence (C22).

* `Ring` — memberlist's `Keyring.keys` (github.com/hashicorp/memberlist keyring.go, v0.5.4):
  a list of keys with the primary key first.  `installKeys`, `addKey`, `useKey`,
  `removeKey`, `newKeyring` are transcribed from it (the dependency is modelled and
  diffed against the real keyring by the harness).
* `handle` — `serfQueries.handleInstallKey / handleUseKey / handleRemoveKey`
  (serf/internal_query.go) followed by `Serf.writeKeyringFile` (serf/serf.go).
* file — `writeKeyringFile` writes the JSON array of the base64 strings of `GetKeys()`,
  in ring order; `Agent.loadKeyringFile` (cmd/serf/command/agent/agent.go) decodes it and
  calls `NewKeyring(keys, keys[0])`.  The base64/JSON round trip is an assumed law
  (exercised through the real loader), so the file content is modelled as the key list
  that was written (`none` = no file on disk).
-/
import SerfModel.Prelude.Basic
namespace SerfModel.Keyring

abbrev Key := List UInt8
abbrev Ring := List Key

/-- the key lengths `ValidateKey` accepts (AES-128/192/256); tied to memberlist's source by
`SerfProofs.C22.C22_src_valid_lens` -/
def validLens : List Nat := [16, 24, 32]

/-- `ValidateKey`: 16, 24 or 32 bytes -/
def validKey (k : Key) : Bool := validLens.contains k.length

/-- `installKeys(keys, primaryKey)`: the primary first, then every key different from it -/
def installKeys (keys : List Key) (primary : Key) : Ring :=
  primary :: keys.filter (fun k => !(k == primary))

inductive Status where
  | ok
  | badlen      -- "key size must be 16, 24 or 32 bytes"
  | absent      -- "requested key is not in the keyring"
  | primary     -- "removing the primary key is not allowed"
  | nokeyring   -- "No keyring to modify (encryption not enabled)"
  | decode      -- payload empty or not decodable: no message
  deriving DecidableEq, Repr, Inhabited

def Status.toString : Status → String
  | .ok => "ok" | .badlen => "badlen" | .absent => "absent" | .primary => "primary"
  | .nokeyring => "nokeyring" | .decode => "decode"

/-- `Keyring.AddKey` -/
def addKey (r : Ring) (k : Key) : Except Status Ring :=
  if !validKey k then .error .badlen
  else if r.contains k then .ok r
  else
    let keys := r ++ [k]
    let primary := match r with
      | p :: _ => p
      | [] => k
    .ok (installKeys keys primary)

/-- `Keyring.UseKey` -/
def useKey (r : Ring) (k : Key) : Except Status Ring :=
  if r.contains k then .ok (installKeys r k) else .error .absent

/-- `Keyring.RemoveKey` on a non-empty ring without duplicates (the handlers only reach it
when encryption is enabled, i.e. the ring is non-empty): removing the primary is an error,
removing an absent key succeeds without change. -/
def removeKey (r : Ring) (k : Key) : Except Status Ring :=
  match r with
  | [] => .ok []   -- unreachable from the handlers (EncryptionEnabled is checked first)
  | p :: _ =>
    if k == p then .error .primary
    else if r.contains k then .ok (installKeys (r.erase k) p) else .ok r

/-- `AddKey` inside `NewKeyring`: an error aborts the construction -/
def addKey? (r : Ring) (k : Key) : Option Ring := (addKey r k).toOption

/-- `NewKeyring(keys, primaryKey)` -/
def newKeyring (keys : List Key) (primary : Key) : Option Ring :=
  if keys.isEmpty && primary.isEmpty then some []
  else if primary.isEmpty then none
  else (primary :: keys).foldlM addKey? []

/-- `Agent.loadKeyringFile` applied to the decoded file content. -/
def load (file : List Key) : Option Ring :=
  match file with
  | [] => none                       -- "Keyring file contains no keys"
  | p :: _ => newKeyring file p

inductive Op where
  | install | use | remove
  deriving DecidableEq, Repr, Inhabited

structure Node where
  ring : Ring
  /-- decoded content of the keyring file; `none` = no file on disk -/
  file : Option (List Key)
  /-- `config.KeyringFile != ""` -/
  hasFile : Bool
  deriving DecidableEq, Repr, Inhabited

/-- `Serf.writeKeyringFile` -/
def writeKeyringFile (n : Node) : Node :=
  if n.hasFile then { n with file := some n.ring } else n

/-- One key request handled by the node; `key = none` models an empty or undecodable payload. -/
def handle (n : Node) (op : Op) (key : Option Key) : Node × Status :=
  match key with
  | none => (n, .decode)
  | some k =>
    -- EncryptionEnabled(): keyring != nil && len(keys) > 0
    if n.ring.isEmpty then (n, .nokeyring)
    else
      let res := match op with
        | .install => addKey n.ring k
        | .use => useKey n.ring k
        | .remove => removeKey n.ring k
      match res with
      | .error e => (n, e)
      | .ok r' =>
        let n' := { n with ring := r' }
        match op with
        | .install => ((if n'.hasFile then writeKeyringFile n' else n'), .ok)
        | .use => (writeKeyringFile n', .ok)
        | .remove => (writeKeyringFile n', .ok)

def run (n : Node) : List (Op × Option Key) → Node
  | [] => n
  | (op, k) :: rest => run (handle n op k).1 rest

/-- What the loader guarantees of a ring: non-empty, no duplicates, valid lengths. -/
def RingOK (r : Ring) : Prop := r ≠ [] ∧ r.Nodup ∧ ∀ k ∈ r, validKey k = true

instance (r : Ring) : Decidable (RingOK r) := by unfold RingOK; infer_instance

end SerfModel.Keyring
