/-
A small statement IR for the bodies of `Serf.handleUserEvent` and
`Serf.handleQuery` (serf/serf.go), and its interpreter over the de-dup buffer of
`SerfModel.EventBuf`.

/verif/extract (bufhandler.go) TRANSLATES the two function bodies into this IR
on every run (`SerfModel/Gen/BufHandler.lean`): the guard expressions
(`LTime < minTime`, `curTime > LamportTime(len(buf)) && LTime < curTime-LamportTime(len(buf))`),
the definition of `curTime`, the slot index `LTime % LamportTime(len(buf))`, the
same-time test, the duplicate test, the `else` branch (fresh record, store into
the slot), the append, the delivery, the return values — and their ORDER.  Lock
calls, log lines and metrics are skipped (the lock region is `Gen/BufLocks`);
any other statement shape makes the extractor fail.

`SerfProofs/Props/C05.lean` / `C08.lean` prove that interpreting the generated
programs IS the hand model (`EventBuf.handle`, `QueryHandle.handleQuery`) for
every state and message, so an edit of a guard, of the order, of the duplicate
test or of a dropped update breaks a proof obligation.
-/
import SerfModel.Model.EventBuf
namespace SerfModel.BufHandlerIR
open SerfModel.Atomic SerfModel.EventBuf

/-- `uint64` expressions over the message, the node's fields and the locals. -/
inductive Expr where
  /-- `msg.LTime` -/
  | ltime
  /-- `s.eventMinTime` / `s.queryMinTime` -/
  | minTime
  /-- the local `curTime` -/
  | cur
  /-- `s.eventClock.Time()` / `s.queryClock.Time()` -/
  | clockTime
  /-- `LamportTime(len(s.eventBuffer))` / `…queryBuffer` -/
  | lenN
  /-- `seen.LTime` -/
  | seenLTime
  | lit (n : Nat)
  | sub (a b : Expr)
  | add (a b : Expr)
  | mod (a b : Expr)
  deriving DecidableEq, Repr, Inhabited

inductive Cond where
  | lt (a b : Expr) | le (a b : Expr) | gt (a b : Expr) | ge (a b : Expr)
  | eq (a b : Expr) | ne (a b : Expr)
  /-- `seen != nil` / `seen == nil` -/
  | seenNotNil | seenNil
  | and (a b : Cond) | or (a b : Cond) | not (a : Cond)
  deriving DecidableEq, Repr, Inhabited

/-- How the duplicate test compares the incoming item with the recorded ones.
Both recognised shapes mean "some recorded item equals the incoming one":
`for … range seen.Events { if previous.Equals(&userEvent) { return false } }`
(name and payload) and `slices.Contains(seen.QueryIDs, query.ID)` (the id). -/
inductive Dup where
  | equalsLoop | containsItem
  deriving DecidableEq, Repr, Inhabited

inductive Stmt where
  /-- `clock.Witness(e)` -/
  | witness (e : Expr)
  /-- `if c { [log]; return false }` -/
  | retFalseIf (c : Cond)
  /-- `curTime := e` -/
  | setCur (e : Expr)
  /-- `idx := e` -/
  | setIdx (e : Expr)
  /-- `seen := buf[idx]` -/
  | loadSeen
  /-- `if same { <dup test: return false> } else { [seen = &T{LTime: e}]; [buf[idx] = seen] }` -/
  | lookup (same : Cond) (dup : Dup) (newSeen : Option Expr) (store : Bool)
  /-- `seen.items = append(seen.items, item)` -/
  | append
  /-- `if s.config.EventCh != nil { s.config.EventCh <- … }` -/
  | deliver
  /-- `return true` / `return false` -/
  | ret (v : Bool)
  /-- `rebroadcast := !query.NoBroadcast()` (`neg = true`) or without the `!` -/
  | setRebroadcast (neg : Bool)
  /-- `if !s.shouldProcessQuery(query.Filters) { return rebroadcast }` -/
  | retRebroadcastIfNotSelected
  /-- `if query.Ack() { … SendToAddress(ack) … }` -/
  | ackIf
  /-- `return rebroadcast` -/
  | retRebroadcast
  deriving DecidableEq, Repr, Inhabited

abbrev Body := List Stmt

/-- What the query half needs to know about the message and the node. -/
structure Ctx where
  /-- `s.shouldProcessQuery(query.Filters)` -/
  selected : Bool := true
  /-- `query.Ack()` -/
  ackFlag : Bool := false
  /-- `query.NoBroadcast()` -/
  noBroadcast : Bool := false
  deriving Repr, Inhabited

structure Env (α : Type) where
  buf : Buf α
  cur : W := 0#64
  idx : Nat := 0
  /-- the record `seen` points to -/
  seen : Option (W × List α) := none
  /-- `seen` is the very record stored in `buf[idx]` (a Go pointer alias) -/
  aliased : Bool := false
  rebroadcast : Bool := false
  delivered : Bool := false
  acked : Bool := false

def evalE {α : Type} (env : Env α) (lt : W) : Expr → W
  | .ltime => lt
  | .minTime => env.buf.minTime
  | .cur => env.cur
  | .clockTime => env.buf.clock
  | .lenN => nW env.buf.slots.length
  | .seenLTime => match env.seen with | some (t, _) => t | none => 0#64
  | .lit n => BitVec.ofNat 64 n
  | .sub a b => evalE env lt a - evalE env lt b
  | .add a b => evalE env lt a + evalE env lt b
  | .mod a b => evalE env lt a % evalE env lt b

def evalC {α : Type} (env : Env α) (lt : W) : Cond → Bool
  | .lt a b => (evalE env lt a).ult (evalE env lt b)
  | .le a b => (evalE env lt a).ule (evalE env lt b)
  | .gt a b => (evalE env lt b).ult (evalE env lt a)
  | .ge a b => (evalE env lt b).ule (evalE env lt a)
  | .eq a b => evalE env lt a == evalE env lt b
  | .ne a b => evalE env lt a != evalE env lt b
  | .seenNotNil => env.seen.isSome
  | .seenNil => env.seen.isNone
  | .and a b => evalC env lt a && evalC env lt b
  | .or a b => evalC env lt a || evalC env lt b
  | .not a => !evalC env lt a

/-- One statement: either the function returns (`.inr value`) or execution goes on. -/
def stepStmt {α : Type} [DecidableEq α] (ctx : Ctx) (lt : W) (x : α) (env : Env α) : Stmt → Env α × Option Bool
  | .witness e => ({ env with buf := { env.buf with clock := witness env.buf.clock (evalE env lt e) } }, none)
  | .retFalseIf c => if evalC env lt c then (env, some false) else (env, none)
  | .setCur e => ({ env with cur := evalE env lt e }, none)
  | .setIdx e => ({ env with idx := (evalE env lt e).toNat }, none)
  | .loadSeen =>
    ({ env with seen := (env.buf.slots[env.idx]?).join, aliased := true }, none)
  | .lookup same _dup newSeen store =>
    if evalC env lt same then
      match env.seen with
      | some (_, xs) => if x ∈ xs then (env, some false) else (env, none)
      | none => (env, none)
    else
      let env1 : Env α := match newSeen with
        | some e => { env with seen := some (evalE env lt e, []), aliased := false }
        | none => env
      let env2 : Env α := if store then
          { env1 with buf := { env1.buf with slots := env1.buf.slots.set env1.idx env1.seen }, aliased := true }
        else env1
      (env2, none)
  | .append =>
    match env.seen with
    | some (t, xs) =>
      let r := (t, xs ++ [x])
      ({ env with seen := some r,
                  buf := if env.aliased then { env.buf with slots := env.buf.slots.set env.idx (some r) } else env.buf }, none)
    | none => (env, none)
  | .deliver => ({ env with delivered := true }, none)
  | .ret v => (env, some v)
  | .setRebroadcast neg => ({ env with rebroadcast := if neg then !ctx.noBroadcast else ctx.noBroadcast }, none)
  | .retRebroadcastIfNotSelected => if !ctx.selected then (env, some env.rebroadcast) else (env, none)
  | .ackIf => ({ env with acked := env.acked || ctx.ackFlag }, none)
  | .retRebroadcast => (env, some env.rebroadcast)

/-- Run a function body; falling off the end returns `false`. -/
def exec {α : Type} [DecidableEq α] (ctx : Ctx) (lt : W) (x : α) : Body → Env α → Env α × Bool
  | [], env => (env, false)
  | s :: rest, env =>
    match stepStmt ctx lt x env s with
    | (env', some v) => (env', v)
    | (env', none) => exec ctx lt x rest env'

/-- Run a handler on a buffer. -/
def run {α : Type} [DecidableEq α] (p : Body) (ctx : Ctx) (b : Buf α) (lt : W) (x : α) : Env α × Bool :=
  exec ctx lt x p { buf := b }

end SerfModel.BufHandlerIR
