/-
How `Serf.UserEvent` / `Serf.Query` use their Lamport clock (C06), as extracted
from serf/serf.go into `SerfModel.Gen.ClockUse`, and the atomic-instruction
program of an "originate" call that this usage denotes (over the semantics of
`SerfModel.Model.Atomic`).
-/
import SerfModel.Model.Atomic
import SerfModel.Gen.Lamport
namespace SerfModel.ClockUse
open SerfModel.Atomic

structure ClockUse where
  /-- expression assigned to the message's `LTime`: `"time"` (`clock.Time()`),
  `"incrementMinus1"` (`clock.Increment() - 1`), `"increment"`, or `"other"` -/
  ltimeSource : String
  /-- later direct operations on the same clock in the function body, lower-cased -/
  later : List String
  deriving DecidableEq, Repr, Inhabited

/-- The Lamport time comes out of a single atomic read-modify-write. -/
def TakesAtomically (u : ClockUse) : Bool := u.ltimeSource == "incrementMinus1" && u.later.isEmpty

/-- Program of one originate call. Register 0 holds the value `LTime` is derived from. -/
def prog (u : ClockUse) : Prog :=
  if u.ltimeSource == "incrementMinus1" then [.add 0 1, .ret (some 0)]
  else if u.ltimeSource == "time" && u.later == ["increment"] then [.load 0, .add 1 1, .ret (some 0)]
  else [.load 0, .ret (some 0)]

/-- The `LTime` put into the message, from the call's result. -/
def ltimeOf (u : ClockUse) (result : W) : W :=
  if u.ltimeSource == "incrementMinus1" then result - 1#64 else result

/-- Programs of a node: originate = the `increment` slot; incoming events/queries
witness their time with the translated `Witness`. -/
def progs (u : ClockUse) : Progs :=
  { time := SerfModel.Gen.Lamport.time, increment := prog u, witness := SerfModel.Gen.Lamport.witness }

end SerfModel.ClockUse
