/-
Agent configuration layering (cmd/serf/command/agent/config.go: `type Config`,
`MergeConfig`, `ReadConfigPaths`).

A configuration is a generic record: an association list field name → value.
`MergeConfig` is *translated*: `SerfModel/Gen/MergeConfig.lean` (regenerated from
the source on every run) lists every field of `Config` with its kind and the one
rule the body of `MergeConfig` applies to it; `merge` below interprets that table.

Two views are modelled:
* the VALUE view (`merge`): what the merged configuration contains;
* the HEAP view (`mergeH`): Go maps are references to heap objects and slices are headers
  (address of a backing array, length; the array's size is the capacity), `var result = *a`
  copies references and headers, `make` allocates, `maps.Copy` writes through a reference and
  `append` writes into the backing array when it has room, else allocates.  This is where "merging never modifies its
  inputs" is stated (and where the pre-repair tag merge, rule `tagsInPlace`,
  visibly writes into `a`'s map).
-/
import SerfModel.Prelude.Basic
namespace SerfModel.Config

inductive Kind | str | int | dur | bool | tags | list
  deriving DecidableEq, Repr, Inhabited

/-- The statement shapes the translator understands (see extract/mergeconfig.go). -/
inductive Rule
  | overrideIfNonEmpty   -- if b.X != "" { result.X = b.X }
  | overrideIfNonZero    -- if b.X != 0 { result.X = b.X }
  | overrideIfPositive   -- if b.X > 0 { result.X = b.X }
  | orSwitch             -- if b.X { result.X = true }
  | always               -- result.X = b.X
  | concat               -- result.X = make([]string,0,…); append a.X…; append b.X…
  | tagsFresh            -- if a.X != nil || b.X != nil { result.X = make(map…); maps.Copy(result.X, a.X); maps.Copy(result.X, b.X) }
  | tagsInPlace          -- if b.X != nil { if result.X == nil { result.X = make(map…) }; maps.Copy(result.X, b.X) }   (pre-repair)
  | appendInPlace        -- result.X = append(a.X, b.X...)      (grows a's slice: writes a's backing array when it has spare capacity)
  | none                 -- no statement: result.X = a.X
  deriving DecidableEq, Repr, Inhabited

structure FieldSpec where
  name : String
  kind : Kind
  rule : Rule
  deriving DecidableEq, Repr, Inhabited

abbrev Tags := List (String × String)

/-- A field value.  `int` covers Go `int` and `time.Duration` (no arithmetic is done on
them, so the width does not matter); a map is `none` (nil) or an association list. -/
inductive FieldVal
  | str (s : String)
  | int (i : Int)
  | bool (b : Bool)
  | tags (m : Option Tags)
  | list (l : List String)
  deriving DecidableEq, Repr, Inhabited

abbrev Config := List (String × FieldVal)

def zeroVal : Kind → FieldVal
  | .str => .str ""
  | .int => .int 0
  | .dur => .int 0
  | .bool => .bool false
  | .tags => .tags none
  | .list => .list []

/-- Reading a field; an absent field reads as the kind's zero value is handled by `getK`. -/
def get (c : Config) (f : String) : FieldVal := (alookup c f).getD (.str "")

def hasKind : Kind → FieldVal → Bool
  | .str, .str _ => true
  | .int, .int _ => true
  | .dur, .int _ => true
  | .bool, .bool _ => true
  | .tags, .tags none => true
  | .tags, .tags (some m) => decide ((m.map (·.1)).Nodup)     -- a Go map has no duplicate keys
  | .list, .list _ => true
  | _, _ => false

/-- `maps.Copy(dst, src)`. -/
def copyInto (dst src : Tags) : Tags := src.foldl (fun m p => ainsert m p.1 p.2) dst

/-- The fresh-map tag merge (both nil: `result.Tags` stays `a.Tags` = nil). -/
def mergeTags : Option Tags → Option Tags → Option Tags
  | none, none => none
  | a, b => some (copyInto (copyInto [] (a.getD [])) (b.getD []))

/-- The pre-repair merge, value view (`b` nil: `a`'s map itself). -/
def mergeTagsInPlace : Option Tags → Option Tags → Option Tags
  | a, none => a
  | a, some b => some (copyInto (a.getD []) b)

/-- One field of `MergeConfig`: the value `result.X` ends up with. -/
def mergeVal : Rule → FieldVal → FieldVal → FieldVal
  | .overrideIfNonEmpty, a, .str s => if s ≠ "" then .str s else a
  | .overrideIfNonZero, a, .int i => if i ≠ 0 then .int i else a
  | .overrideIfPositive, a, .int i => if i > 0 then .int i else a
  | .orSwitch, a, .bool b => if b then .bool true else a
  | .always, _, b => b
  | .concat, .list x, .list y => .list (x ++ y)
  | .tagsFresh, .tags x, .tags y => .tags (mergeTags x y)
  | .tagsInPlace, .tags x, .tags y => .tags (mergeTagsInPlace x y)
  | .appendInPlace, .list x, .list y => .list (x ++ y)
  | _, a, _ => a

/-- `MergeConfig(a, b)`, value view, for a rule table. -/
def merge (t : List FieldSpec) (a b : Config) : Config :=
  t.map fun fs => (fs.name, mergeVal fs.rule (get a fs.name) (get b fs.name))

/-- `new(Config)`. -/
def zero (t : List FieldSpec) : Config := t.map fun fs => (fs.name, zeroVal fs.kind)

/-- Representation invariant of a Go `Config` value: every field holds a value of its type. -/
def WT (t : List FieldSpec) (c : Config) : Prop := ∀ fs ∈ t, hasKind fs.kind (get c fs.name) = true

instance (t : List FieldSpec) (c : Config) : Decidable (WT t c) := by unfold WT; infer_instance

/-- rules whose statement writes through a reference held by an input -/
def writesInput : Rule → Bool
  | .tagsInPlace => true
  | .appendInPlace => true
  | _ => false

/-- Which rule may be applied to which kind (Go's type checker guarantees this for the source). -/
def compat : Rule → Kind → Bool
  | .overrideIfNonEmpty, .str => true
  | .overrideIfNonZero, .int => true
  | .overrideIfNonZero, .dur => true
  | .overrideIfPositive, .int => true
  | .overrideIfPositive, .dur => true
  | .orSwitch, .bool => true
  | .always, _ => true
  | .concat, .list => true
  | .tagsFresh, .tags => true
  | .tagsInPlace, .tags => true
  | .appendInPlace, .list => true
  | .none, _ => true
  | _, _ => false

/-! ### The documented layering (independent of the rule table)

What the property promises per setting, decided from the field's NAME and KIND only:
`*Raw` strings are not settings (they are the unparsed twins of the durations);
the compression switch comes from the later source; every other string / number is
"later source wins when it sets it" (set = not the zero value) — except `Protocol`, for
which "sets it" means "is positive": the repository's own TestMergeConfig
(cmd/serf/command/agent/config_test.go) merges a later `Protocol: -1` over `Protocol: 7`
and requires 7, so a non-positive protocol version is by design "not set"; every other
bool is a switch (or); maps are combined, later wins per key; lists are concatenated. -/

inductive Doc | laterIfSet | laterIfPositive | switch | laterAlways | combine | concat
  deriving DecidableEq, Repr

def endsWithRaw (s : String) : Bool :=
  let l := s.toList
  l.length ≥ 3 && l.drop (l.length - 3) == ['R', 'a', 'w']

def docOf (fs : FieldSpec) : Option Doc :=
  if endsWithRaw fs.name then none
  else if fs.name == "EnableCompression" then some .laterAlways
  else if fs.name == "Protocol" then some .laterIfPositive
  else match fs.kind with
    | .str | .int | .dur => some .laterIfSet
    | .bool => some .switch
    | .tags => some .combine
    | .list => some .concat

/-- later-wins combination of two maps as a lookup function -/
def combinedLookup (a b : Option Tags) (k : String) : Option String :=
  match alookup (b.getD []) k with
  | some v => some v
  | none => alookup (a.getD []) k

def isSet : FieldVal → Bool
  | .str s => s ≠ ""
  | .int i => i ≠ 0
  | _ => true

def isPositive : FieldVal → Bool
  | .int i => i > 0
  | _ => false

def insertTag (p : String × String) : Tags → Tags
  | [] => [p]
  | x :: xs => if p.1 < x.1 || p.1 == x.1 then p :: x :: xs else x :: insertTag p xs

/-- entries sorted by key (canonical form of a map for printing / comparing) -/
def sortTags (m : Tags) : Tags := m.foldr insertTag []

/-- The documented layering as a function (used by the MONITOR; the theorems use the
relational form `Layered` in Props/C31.lean).  Maps: every key of either source, the later
source's value winning. -/
def layerVal : Doc → FieldVal → FieldVal → FieldVal
  | .laterIfSet, a, b => if isSet b then b else a
  | .laterIfPositive, a, b => if isPositive b then b else a
  | .switch, .bool a, .bool b => .bool (a || b)
  | .laterAlways, _, b => b
  | .concat, .list a, .list b => .list (a ++ b)
  | .combine, .tags a, .tags b =>
      let keys := (((a.getD []) ++ (b.getD [])).map (·.1)).eraseDups
      .tags (some (keys.filterMap fun k => (combinedLookup a b k).map fun v => (k, v)))
  | _, a, _ => a

/-- comparison used by the monitor: maps as maps (nil = empty), everything else literally -/
def sameVal : FieldVal → FieldVal → Bool
  | .tags x, .tags y => sortTags (x.getD []) == sortTags (y.getD [])
  | x, y => x == y

/-- Equality of field values up to the order of map entries (and nil-ness of maps kept). -/
def valEq : FieldVal → FieldVal → Prop
  | .tags x, .tags y => x.isSome = y.isSome ∧ ∀ k, alookup (x.getD []) k = alookup (y.getD []) k
  | x, y => x = y

/-! ### ReadConfigPaths -/

/-- One directory entry: name, is-directory flag, and what `DecodeConfig` yields for it
(`none`: the file does not decode). -/
structure DirEnt where
  name : String
  isDir : Bool
  cfg : Option Config

inductive PathArg
  | unreadable                       -- os.Open / Stat / Readdir fails
  | file (cfg : Option Config)       -- a plain file: decoded whatever its name
  | dir (ents : List DirEnt)

def insertEnt (e : DirEnt) : List DirEnt → List DirEnt
  | [] => [e]
  | x :: xs => if e.name < x.name || e.name == x.name then e :: x :: xs else x :: insertEnt e xs

/-- `sort.Sort(dirEnts(contents))`: by name. -/
def sortEnts (l : List DirEnt) : List DirEnt := l.foldr insertEnt []

/-- `strings.HasSuffix(name, suf)` -/
def hasSuffix (suf name : String) : Bool :=
  let l := name.toList
  let s := suf.toList
  l.length ≥ s.length && l.drop (l.length - s.length) == s

def isJson (name : String) : Bool := hasSuffix ".json" name

/-- the inner loop over a sorted directory listing -/
def readDir (t : List FieldSpec) : List DirEnt → Config → Option Config
  | [], acc => some acc
  | e :: es, acc =>
    if e.isDir then readDir t es acc
    else if !isJson e.name then readDir t es acc
    else match e.cfg with
      | none => none
      | some c => readDir t es (merge t acc c)

/-- the outer loop of `ReadConfigPaths` with its accumulator `result` -/
def readLoop (t : List FieldSpec) : List PathArg → Config → Option Config
  | [], acc => some acc
  | .unreadable :: _, _ => none
  | .file none :: _, _ => none
  | .file (some c) :: ps, acc => readLoop t ps (merge t acc c)
  | .dir ents :: ps, acc =>
    match readDir t (sortEnts ents) acc with
    | none => none
    | some acc' => readLoop t ps acc'

def readPaths (t : List FieldSpec) (ps : List PathArg) : Option Config := readLoop t ps (zero t)

/-- The sources `ReadConfigPaths` is documented to read, in order: each file path, and for a
directory its `.json` non-directory entries in lexical order. -/
def dirSources (ents : List DirEnt) : List (Option Config) :=
  ((sortEnts ents).filter (fun e => !e.isDir && isJson e.name)).map (·.cfg)

def sources : List PathArg → List (Option Config)
  | [] => []
  | .unreadable :: _ => [none]
  | .file c :: ps => c :: sources ps
  | .dir ents :: ps => dirSources ents ++ sources ps

/-- all sources decode → the list of configurations -/
def allOk : List (Option Config) → Option (List Config)
  | [] => some []
  | none :: _ => none
  | some c :: rest => (allOk rest).map (c :: ·)

/-! ### ReadConfigPaths as a function of its extracted shape

`Gen/MergeConfig.lean` describes the body of `ReadConfigPaths` by the variation points below
(and pins the exact statement sequence separately); `readPathsS` interprets them.
`canonicalRead` is the shape `readPaths` above hard-codes (`readPathsS_canonical`). -/

inductive MergeOrder | resultFirst | configFirst      -- MergeConfig(result, config) | MergeConfig(config, result)
  deriving DecidableEq, Repr
inductive SortOrder | unsorted | ascending | descending   -- no sort.Sort | Less = a < b | Less = a > b  (on names)
  deriving DecidableEq, Repr
/-- `running`: every file of a directory is merged into the running result;
`separate`: the directory's files are merged into an own `new(Config)` which is then merged
into the result (the shape of seeded mutation C31-a) -/
inductive DirMode | running | separate
  deriving DecidableEq, Repr

structure ReadShape where
  fileMerge : MergeOrder
  sort : SortOrder
  skipSubdirs : Bool
  suffix : String
  dirMerge : MergeOrder
  dirMode : DirMode
  deriving DecidableEq, Repr

def canonicalRead : ReadShape :=
  { fileMerge := .resultFirst, sort := .ascending, skipSubdirs := true, suffix := ".json",
    dirMerge := .resultFirst, dirMode := .running }

def mergeBy (t : List FieldSpec) : MergeOrder → Config → Config → Config
  | .resultFirst, r, c => merge t r c
  | .configFirst, r, c => merge t c r

/-- the order in which the directory loop sees the entries (`ents` = the order `Readdir` returned) -/
def orderEnts : SortOrder → List DirEnt → List DirEnt
  | .unsorted, l => l
  | .ascending, l => sortEnts l
  | .descending, l => (sortEnts l).reverse

def readDirS (s : ReadShape) (t : List FieldSpec) : List DirEnt → Config → Option Config
  | [], acc => some acc
  | e :: es, acc =>
    if s.skipSubdirs && e.isDir then readDirS s t es acc
    else if !hasSuffix s.suffix e.name then readDirS s t es acc
    else match e.cfg with
      | none => none                                   -- os.Open / DecodeConfig fails (a directory cannot be decoded either)
      | some c => readDirS s t es (mergeBy t s.dirMerge acc c)

def readLoopS (s : ReadShape) (t : List FieldSpec) : List PathArg → Config → Option Config
  | [], acc => some acc
  | .unreadable :: _, _ => none
  | .file none :: _, _ => none
  | .file (some c) :: ps, acc => readLoopS s t ps (mergeBy t s.fileMerge acc c)
  | .dir ents :: ps, acc =>
    match s.dirMode with
    | .running =>
      match readDirS s t (orderEnts s.sort ents) acc with
      | none => none
      | some acc' => readLoopS s t ps acc'
    | .separate =>
      match readDirS s t (orderEnts s.sort ents) (zero t) with
      | none => none
      | some d => readLoopS s t ps (merge t acc d)

def readPathsS (s : ReadShape) (t : List FieldSpec) (ps : List PathArg) : Option Config :=
  readLoopS s t ps (zero t)

/-! ### DecodeConfig's post-processing

After `json` + `mapstructure` (a parameter: the decoded fields as given), `DecodeConfig` turns
each non-empty `XRaw` string into the duration `X` with `time.ParseDuration` (a parameter
`parseDur`; `none` = error) and fails on the first string that does not parse.  `pairs` = the
(raw field, duration field) pairs in the order of the statements (regenerated). -/

def setField (c : Config) (name : String) (v : FieldVal) : Config :=
  c.map fun p => if p.1 == name then (name, v) else p

def decodeStep (parseDur : String → Option Int) (c : Config) (pr : String × String) : Option Config :=
  match get c pr.1 with
  | .str s => if s ≠ "" then (parseDur s).map fun n => setField c pr.2 (.int n) else some c
  | _ => some c

def decodePost (parseDur : String → Option Int) : List (String × String) → Config → Option Config
  | [], c => some c
  | pr :: rest, c =>
    match decodeStep parseDur c pr with
    | none => none
    | some c' => decodePost parseDur rest c'

/-! ### Heap view -/

/-- a map object, or the backing array of a slice (its length is the slice's CAPACITY) -/
inductive Obj | tags (m : Tags) | strs (l : List String)
  deriving DecidableEq, Repr, Inhabited

/-- address = index; allocation appends -/
abbrev Heap := List Obj

inductive RVal
  | scalar (v : FieldVal)                 -- str / int / bool, copied by value
  | ref (addr : Option Nat)               -- map: nil or the address of its object
  | slice (hdr : Option (Nat × Nat))      -- slice header: nil or (address of the backing array, length)
  deriving DecidableEq, Repr, Inhabited

abbrev RConfig := List (String × RVal)

def rget (c : RConfig) (f : String) : RVal := (alookup c f).getD (.ref none)

def readTags (h : Heap) : Option Nat → Tags
  | none => []
  | some i => match h[i]? with
    | some (.tags m) => m
    | _ => []

/-- the backing array at address `i` -/
def cellsOf (h : Heap) (i : Nat) : List String :=
  match h[i]? with
  | some (.strs l) => l
  | _ => []

/-- the elements a slice header denotes: the first `len` cells of its backing array -/
def readSlice (h : Heap) : Option (Nat × Nat) → List String
  | none => []
  | some (i, n) => (cellsOf h i).take n

def hwrite (h : Heap) (i : Nat) (o : Obj) : Heap := h.set i o

/-- `make([]string, 0, c)`: a fresh backing array of capacity `c`, length 0 -/
def makeH (h : Heap) (c : Nat) : Heap × Option (Nat × Nat) :=
  (h ++ [.strs (List.replicate c "")], some (h.length, 0))

/-- `append(s, xs...)` as Go does it: if the backing array has room (`len + |xs| ≤ cap`) the new
elements are written INTO it and the result shares it; otherwise (or for a nil slice) a new array
is allocated (Go's growth policy is abstracted: the new array is exactly as large as needed). -/
def appendH (h : Heap) (s : Option (Nat × Nat)) (xs : List String) : Heap × Option (Nat × Nat) :=
  match s with
  | none => if xs.isEmpty then (h, none) else (h ++ [.strs xs], some (h.length, xs.length))
  | some (i, n) =>
    let cells := cellsOf h i
    if n + xs.length ≤ cells.length then
      (hwrite h i (.strs (cells.take n ++ xs ++ cells.drop (n + xs.length))), some (i, n + xs.length))
    else (h ++ [.strs (cells.take n ++ xs)], some (h.length, n + xs.length))

/-- One field of `MergeConfig` on the heap: returns the new heap and `result.X`. -/
def mergeFieldH (h : Heap) (r : Rule) (a b : RVal) : Heap × RVal :=
  match r, a, b with
  | .tagsFresh, .ref ra, .ref rb =>
    if ra.isNone && rb.isNone then (h, .ref ra)           -- result.Tags = a.Tags (nil)
    else
      let n := h.length                                   -- make(map…)
      let h1 := h ++ [.tags []]
      let h2 := hwrite h1 n (.tags (copyInto (readTags h1 (some n)) (readTags h1 ra)))   -- maps.Copy(result.Tags, a.Tags)
      let h3 := hwrite h2 n (.tags (copyInto (readTags h2 (some n)) (readTags h2 rb)))   -- maps.Copy(result.Tags, b.Tags)
      (h3, .ref (some n))
  | .tagsInPlace, .ref ra, .ref rb =>
    if rb.isNone then (h, .ref ra)
    else match ra with
      | none =>
        let n := h.length
        let h1 := h ++ [.tags []]
        (hwrite h1 n (.tags (copyInto (readTags h1 (some n)) (readTags h1 rb))), .ref (some n))
      | some i =>                                          -- result.Tags IS a.Tags
        (hwrite h i (.tags (copyInto (readTags h (some i)) (readTags h rb))), .ref (some i))
  | .appendInPlace, .slice sa, .slice sb =>                -- result.X = append(a.X, b.X...)
    let r := appendH h sa (readSlice h sb)
    (r.1, .slice r.2)
  | .concat, .slice sa, .slice sb =>
    let r0 := makeH h ((readSlice h sa).length + (readSlice h sb).length)   -- result.X = make([]string, 0, len(a.X)+len(b.X))
    let r1 := appendH r0.1 r0.2 (readSlice r0.1 sa)                          -- result.X = append(result.X, a.X...)
    let r2 := appendH r1.1 r1.2 (readSlice r1.1 sb)                          -- result.X = append(result.X, b.X...)
    (r2.1, .slice r2.2)
  | .always, _, b => (h, b)                                -- copies the value / the reference / the header
  | r, .scalar va, .scalar vb => (h, .scalar (mergeVal r va vb))
  | _, a, _ => (h, a)                                      -- no statement: result.X = a.X (shares a's reference)

def mergeHLoop : List FieldSpec → Heap → RConfig → RConfig → RConfig → Heap × RConfig
  | [], h, _, _, acc => (h, acc.reverse)
  | fs :: rest, h, a, b, acc =>
    let (h', v) := mergeFieldH h fs.rule (rget a fs.name) (rget b fs.name)
    mergeHLoop rest h' a b ((fs.name, v) :: acc)

/-- `MergeConfig(a, b)` on a heap. -/
def mergeH (t : List FieldSpec) (h : Heap) (a b : RConfig) : Heap × RConfig := mergeHLoop t h a b []

/-- a chain of merges on the heap (what `ReadConfigPaths` does with the decoded files): the
accumulator of each step is the RESULT of the previous one, living in the heap it returned -/
def foldH (t : List FieldSpec) : Heap → RConfig → List RConfig → Heap × RConfig
  | h, acc, [] => (h, acc)
  | h, acc, c :: cs => foldH t (mergeH t h acc c).1 (mergeH t h acc c).2 cs

/-- What a reference-level field denotes. -/
def derefVal (h : Heap) : Kind → RVal → FieldVal
  | .tags, .ref none => .tags none
  | .tags, .ref (some i) => .tags (some (readTags h (some i)))
  | .list, .slice s => .list (readSlice h s)
  | _, .scalar v => v
  | k, _ => zeroVal k

def deref (t : List FieldSpec) (h : Heap) (c : RConfig) : Config :=
  t.map fun fs => (fs.name, derefVal h fs.kind (rget c fs.name))

end SerfModel.Config
