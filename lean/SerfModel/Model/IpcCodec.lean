/-
A concrete instance of `IpcGate.Codec`: how go-msgpack (v2, `codec.Decoder.Decode`
into a struct) treats the wire objects the C24 harness sends.  Settled by
experiment against the real library and compared with it on every run:

* a map is matched by exact (case-sensitive) field name; unknown keys are skipped;
  fields absent from the map keep the value the target variable already had;
* an array is decoded positionally (extra elements ignored, missing ones unchanged);
* nil zeroes the whole struct; any other scalar is a decode error;
* field level: nil gives the zero value; str and bin are interchangeable for
  `string`/`[]byte`; integers must fit the field type; a value of the wrong kind
  is a decode error.

Objects have three levels (atoms, lists/dicts of atoms, top-level arrays/maps).
-/
import SerfModel.Model.IpcGate
namespace SerfModel.IpcCodec
open SerfModel SerfModel.IpcGate

inductive Atom
  | nil | bool (b : Bool) | int (i : Int) | str (s : String)
  deriving DecidableEq, Repr, Inhabited

inductive Val
  | atom (a : Atom) | list (l : List Atom) | dict (l : List (String × Atom))
  deriving Repr, Inhabited

inductive Obj
  | scalar (a : Atom) | arr (l : List Val) | map (l : List (String × Val))
  /-- truncated or invalid bytes -/
  | bad
  deriving Repr, Inhabited

/-- Go field types occurring in the request structs -/
inductive FT
  | str | bytes | bool | u64 | i32 | u8 | dur | strlist | strmap
  deriving DecidableEq, Repr

/-- decoded field value -/
inductive FV
  | s (x : String) | b (x : Bool) | i (x : Int) | l (x : List String) | m (x : List (String × String))
  deriving Repr, Inhabited

def zero : FT → FV
  | .str | .bytes => .s ""
  | .bool => .b false
  | .u64 | .i32 | .u8 | .dur => .i 0
  | .strlist => .l []
  | .strmap => .m []

def atomStr? : Atom → Option String
  | .nil => some ""
  | .str s => some s
  | _ => none

def intIn (lo hi : Int) : Atom → Option FV
  | .nil => some (.i 0)
  | .int i => if lo ≤ i && i ≤ hi then some (.i i) else none
  | _ => none

def decodeField : FT → Val → Option FV
  | .str, .atom a | .bytes, .atom a => (atomStr? a).map .s
  | .bool, .atom .nil => some (.b false)
  | .bool, .atom (.bool b) => some (.b b)
  | .u64, .atom a => intIn 0 18446744073709551615 a
  | .i32, .atom a => intIn (-2147483648) 2147483647 a
  | .u8, .atom a => intIn 0 255 a
  | .dur, .atom a => intIn (-9223372036854775808) 9223372036854775807 a
  | .strlist, .atom .nil => some (.l [])
  | .strlist, .list l => (l.mapM atomStr?).map .l
  | .strmap, .atom .nil => some (.m [])
  | .strmap, .dict d => (d.mapM fun kv => (atomStr? kv.2).map fun v => (kv.1, v)).map .m
  | _, _ => none

abbrev Spec := List (String × FT)

def setAt (vals : List FV) (i : Nat) (v : FV) : List FV := vals.set i v

/-- map form: keys in wire order, later duplicates win -/
def decodeMap (spec : Spec) : List (String × Val) → List FV → Option (List FV)
  | [], vals => some vals
  | (k, v) :: rest, vals =>
    match spec.findIdx? (·.1 == k) with
    | none => decodeMap spec rest vals
    | some i =>
      match spec[i]? with
      | none => none
      | some (_, ft) =>
        match decodeField ft v with
        | none => none
        | some fv => decodeMap spec rest (setAt vals i fv)

/-- array form: positional -/
def decodeArr : Spec → List Val → List FV → Option (List FV)
  | [], _, _ => some []
  | _ :: _, [], vals => some vals
  | (_, ft) :: spec, v :: vs, vals =>
    match decodeField ft v with
    | none => none
    | some fv => (decodeArr spec vs vals.tail).map (fv :: ·)

/-- `Decode(&x)` where `x` currently holds `prev` -/
def decodeStruct (spec : Spec) (prev : List FV) : Obj → Option (List FV)
  | .scalar .nil => some (spec.map (zero ·.2))
  | .scalar _ => none
  | .bad => none
  | .map kvs => decodeMap spec kvs prev
  | .arr vs => decodeArr spec vs prev

def headerSpec : Spec := [("Command", .str), ("Seq", .u64)]

/-- request struct of each command with a body (ipc.go) -/
def bodySpec : String → Spec
  | "handshake" => [("Version", .i32)]
  | "auth" => [("AuthKey", .str)]
  | "event" => [("Name", .str), ("Payload", .bytes), ("Coalesce", .bool)]
  | "force-leave" => [("Node", .str), ("Prune", .bool)]
  | "join" => [("Existing", .strlist), ("Replay", .bool)]
  | "members-filtered" => [("Tags", .strmap), ("Status", .str), ("Name", .str)]
  | "stream" => [("Type", .str)]
  | "monitor" => [("LogLevel", .str)]
  | "stop" => [("Stop", .u64)]
  | "install-key" | "use-key" | "remove-key" => [("Key", .str)]
  | "tags" => [("Tags", .strmap), ("DeleteTags", .strlist)]
  | "query" => [("FilterNodes", .strlist), ("FilterTags", .strmap), ("RequestAck", .bool),
      ("RelayFactor", .u8), ("Timeout", .dur), ("Name", .str), ("Payload", .bytes)]
  | "respond" => [("ID", .u64), ("Payload", .bytes)]
  | "get-coordinate" => [("Node", .str)]
  | _ => []

def insertSorted (p : String × String) : List (String × String) → List (String × String)
  | [] => [p]
  | x :: xs => if p.1 ≤ x.1 then p :: x :: xs else x :: insertSorted p xs

/-- a Go map built by successive assignment: last value per key, shown sorted -/
def normMap (m : List (String × String)) : List (String × String) :=
  (m.foldl (fun acc p => ainsert acc p.1 p.2) []).foldr insertSorted []

def renderFV : FV → String
  | .s x => hexOfString x
  | .b x => if x then "1" else "0"
  | .i x => toString x
  | .l x => "l" ++ ";".intercalate (x.map hexOfString)
  | .m x => "d" ++ ";".intercalate ((normMap x).map fun p => hexOfString p.1 ++ ":" ++ hexOfString p.2)

def renderArgs (vals : List FV) : String := ",".intercalate (vals.map renderFV)

def decodeBody (cmd : String) (o : Obj) : Option (List FV) :=
  decodeStruct (bodySpec cmd) ((bodySpec cmd).map (zero ·.2)) o

/-- a members-filtered pattern that `regexp.Compile("^(?:" ++ p ++ ")$")` rejects (only "(" is used) -/
def uncompilable : FV → Bool
  | .s x => x == "("
  | .m kvs => kvs.any fun kv => kv.2 == "("
  | _ => false

def codec : Codec Obj where
  hdr := fun prev o =>
    match decodeStruct headerSpec [.s prev.cmd, .i prev.seq] o with
    | some [.s c, .i n] => some { cmd := c, seq := n.toNat }
    | _ => none
  version := fun o =>
    match decodeBody "handshake" o with
    | some [.i v] => some v
    | _ => none
  authKey := fun o =>
    match decodeBody "auth" o with
    | some [.s k] => some k
    | _ => none
  body := fun cmd o =>
    match decodeBody cmd o with
    | none => none
    | some vals =>
      -- members-filtered: `filterMembers` returns the regexp.Compile error and the handler returns it
      -- without replying (connection dropped).  The harness's one uncompilable pattern is "(".
      if cmd == "members-filtered" && vals.any uncompilable then none else some (renderArgs vals)

/-! ### text form of objects on the harness line protocol

atom `n` `t` `f` `i<int>` `s<hex>` `b<hex>`; value = atom | `L<atom;…>` | `D<hexkey:atom;…>`;
object = `V<atom>` | `A<val,…>` | `M<hexkey=val,…>` | `X` (truncated/invalid). -/

def splitNonEmpty (s : String) (sep : String) : List String :=
  if s.isEmpty then [] else s.splitOn sep

def rest1 (s : String) : String := String.ofList (s.toList.drop 1)

def parseInt? (s : String) : Option Int :=
  match s.toList with
  | '-' :: r => (String.ofList r).toNat?.map fun n => -(Int.ofNat n)
  | _ => s.toNat?.map Int.ofNat

def parseAtom? (s : String) : Option Atom :=
  match s.toList with
  | ['n'] => some .nil
  | ['t'] => some (.bool true)
  | ['f'] => some (.bool false)
  | 'i' :: r => (parseInt? (String.ofList r)).map .int
  | 's' :: r | 'b' :: r => (stringOfHex? (String.ofList r)).map .str
  | _ => none

def parseVal? (s : String) : Option Val :=
  match s.toList with
  | 'L' :: r => ((splitNonEmpty (String.ofList r) ";").mapM parseAtom?).map .list
  | 'D' :: r =>
    ((splitNonEmpty (String.ofList r) ";").mapM fun (kv : String) =>
      match kv.splitOn ":" with
      | [k, a] => match stringOfHex? k, parseAtom? a with
        | some k, some a => some (k, a)
        | _, _ => none
      | _ => none).map .dict
  | _ => (parseAtom? s).map .atom

def parseObj? (s : String) : Option Obj :=
  match s.toList with
  | ['X'] => some .bad
  | 'V' :: r => (parseAtom? (String.ofList r)).map .scalar
  | 'A' :: r => ((splitNonEmpty (String.ofList r) ",").mapM parseVal?).map .arr
  | 'M' :: r =>
    ((splitNonEmpty (String.ofList r) ",").mapM fun (kv : String) =>
      match kv.splitOn "=" with
      | [k, v] => match stringOfHex? k, parseVal? v with
        | some k, some v => some (k, v)
        | _, _ => none
      | _ => none).map .map
  | _ => none

end SerfModel.IpcCodec
