/-
Event handler scripts (C27): the pure parts of cmd/serf/command/agent/event_handler.go and
invoke.go.  Go strings are byte strings: everything is `List UInt8`.

* `parseEventScript`, `parseEventFilter`, `invoke` — `ParseEventScript`, `ParseEventFilter`,
  `EventFilter.Invoke`; `runsOf` = the loop of `ScriptEventHandler.HandleEvent`.
* `sanitize` — `sanitizeTagRegexp.ReplaceAllString(strings.ToUpper(name), "_")` on valid
  UTF-8 names, character by character (`upperRune` = `unicode.ToUpper` restricted to what can
  end in `[A-Z0-9_]`: ASCII letters, U+0131 dotless i → I, U+017F long s → S).
* `envOf` — the environment entries added by `invokeEventScript`, in order.
* `eventClean`, `memberLine`, `memberStdin`, `payloadStdin` — the script's standard input.
* `circWrite`, `last8k` — the 8 KiB circular output buffer (armon/circbuf: keeps the last
  `size` bytes written; dependency modelled, diffed through the query response).
* `respSize` — length of the encoded `messageQueryResponse` (type byte + msgpack map of five
  named fields), `respond` — what `invokeEventScript` does with the output of a query handler.

Process creation, /bin/sh, pipes and exit codes are not modelled (exercised by the harness).
-/
import SerfModel.Prelude.Basic
namespace SerfModel.EventScript

abbrev Bytes := List UInt8
abbrev Tags := List (Bytes × Bytes)

def b (s : String) : Bytes := s.toUTF8.toList

def TAB : UInt8 := 9
def NL : UInt8 := 10
def BSL : UInt8 := 92
def EQ : UInt8 := 61
def COMMA : UInt8 := 44
def COLON : UInt8 := 58

/-! ### filters -/

structure Filter where
  event : Bytes
  name : Bytes
  deriving DecidableEq, Repr, Inhabited

/-- split on a separator byte (`strings.Split`) -/
def splitOn (sep : UInt8) : Bytes → List Bytes
  | [] => [[]]
  | c :: rest =>
    if c == sep then [] :: splitOn sep rest
    else match splitOn sep rest with
      | [] => [[c]]
      | x :: xs => (c :: x) :: xs

def hasPrefix (p s : Bytes) : Bool := p.isPrefixOf s

def userPfx : Bytes := [117, 115, 101, 114, 58]        -- "user:"
def queryPfx : Bytes := [113, 117, 101, 114, 121, 58]  -- "query:"
def userB : Bytes := [117, 115, 101, 114]
def queryB : Bytes := [113, 117, 101, 114, 121]
def starB : Bytes := [42]

/-- one entry of `ParseEventFilter` -/
def parseEntry (ev : Bytes) : Filter :=
  if hasPrefix userPfx ev then ⟨userB, ev.drop 5⟩
  else if hasPrefix queryPfx ev then ⟨queryB, ev.drop 6⟩
  else ⟨ev, []⟩

/-- `ParseEventFilter` -/
def parseEventFilter (v : Bytes) : List Filter :=
  let v := if v.isEmpty then starB else v
  (splitOn COMMA v).map parseEntry

/-- `strings.SplitN(v, "=", 2)`: `none` when there is no `=` -/
def cutEq : Bytes → Option (Bytes × Bytes)
  | [] => none
  | c :: rest =>
    if c == EQ then some ([], rest)
    else match cutEq rest with
      | some (x, y) => some (c :: x, y)
      | none => none

/-- `ParseEventScript`: (filter, script) pairs -/
def parseEventScript (v : Bytes) : List (Filter × Bytes) :=
  match cutEq v with
  | none => (parseEventFilter []).map (·, v)
  | some (f, s) => (parseEventFilter f).map (·, s)

inductive Kind where
  | memberJoin | memberLeave | memberFailed | memberUpdate | memberReap | user | query
  deriving DecidableEq, Repr, Inhabited

/-- `EventType.String()` -/
def Kind.str : Kind → Bytes
  | .memberJoin => [109, 101, 109, 98, 101, 114, 45, 106, 111, 105, 110]      -- "member-join"
  | .memberLeave => [109, 101, 109, 98, 101, 114, 45, 108, 101, 97, 118, 101]    -- "member-leave"
  | .memberFailed => [109, 101, 109, 98, 101, 114, 45, 102, 97, 105, 108, 101, 100]  -- "member-failed"
  | .memberUpdate => [109, 101, 109, 98, 101, 114, 45, 117, 112, 100, 97, 116, 101]  -- "member-update"
  | .memberReap => [109, 101, 109, 98, 101, 114, 45, 114, 101, 97, 112]      -- "member-reap"
  | .user => userB
  | .query => queryB

structure Member where
  name : Bytes
  /-- `member.Addr.String()` -/
  addr : Bytes
  tags : Tags
  deriving Repr, Inhabited

inductive Event where
  | member (k : Kind) (members : List Member)
  | user (name : Bytes) (ltime : Nat) (payload : Bytes)
  | query (name : Bytes) (ltime : Nat) (payload : Bytes)
  deriving Repr, Inhabited

def Event.kind : Event → Kind
  | .member k _ => k
  | .user .. => .user
  | .query .. => .query

/-- name of a user event or query -/
def Event.name? : Event → Option Bytes
  | .member .. => none
  | .user n _ _ => some n
  | .query n _ _ => some n

/-- `EventFilter.Invoke` -/
def invoke (f : Filter) (e : Event) : Bool :=
  if f.event == starB then true
  else if e.kind.str != f.event then false
  else if f.event == userB && f.name != [] && (match e with
      | .user n _ _ => n != f.name
      | _ => true) then false
  else if f.event == queryB && f.name != [] && (match e with
      | .query n _ _ => n != f.name
      | _ => true) then false
  else true

/-- `HandleEvent`: the scripts invoked for an event, in order (one per matching entry). -/
def runsOf (scripts : List (Filter × Bytes)) (e : Event) : List Bytes :=
  (scripts.filter (fun p => invoke p.1 e)).map (·.2)

/-! ### environment -/

/-- `unicode.ToUpper` as far as it can produce a character of `[A-Z0-9_]` -/
def upperRune (c : Char) : Char :=
  if 'a' ≤ c ∧ c ≤ 'z' then Char.ofNat (c.toNat - 32)
  else if c = Char.ofNat 0x131 then 'I'
  else if c = Char.ofNat 0x17F then 'S'
  else c

def okRune (c : Char) : Bool := ('A' ≤ c && c ≤ 'Z') || ('0' ≤ c && c ≤ '9') || c == '_'

/-- `sanitizeTagRegexp.ReplaceAllString(strings.ToUpper(name), "_")` on the characters of a name -/
def sanitizeChars (name : List Char) : List Char :=
  name.map fun c => if okRune (upperRune c) then upperRune c else '_'

def lookupB (t : Tags) (k : Bytes) : Bytes :=
  match t.find? (·.1 == k) with
  | some p => p.2
  | none => []

def roleB : Bytes := [114, 111, 108, 101]

def decB (n : Nat) : Bytes := b (toString n)

/-- the entries `invokeEventScript` appends to the environment (name, value), in order;
`sanName` is the sanitised tag name (computed from the decoded name by `sanitizeChars`) -/
def envOf (selfName : Bytes) (selfTags : Tags) (sanName : Bytes → Bytes) (e : Event) : List (Bytes × Bytes) :=
  [(b "SERF_EVENT", e.kind.str), (b "SERF_SELF_NAME", selfName), (b "SERF_SELF_ROLE", lookupB selfTags roleB)]
  ++ selfTags.map (fun p => (b "SERF_TAG_" ++ sanName p.1, p.2))
  ++ (match e with
      | .member .. => []
      | .user n lt _ => [(b "SERF_USER_EVENT", n), (b "SERF_USER_LTIME", decB lt)]
      | .query n lt _ => [(b "SERF_QUERY_NAME", n), (b "SERF_QUERY_LTIME", decB lt)])

/-! ### standard input -/

/-- `eventClean`: tab → `\t`, newline → `\n` (two characters each) -/
def eventClean : Bytes → Bytes
  | [] => []
  | c :: rest =>
    if c == TAB then BSL :: 116 :: eventClean rest
    else if c == NL then BSL :: 110 :: eventClean rest
    else c :: eventClean rest

def joinWith (sep : UInt8) : List Bytes → Bytes
  | [] => []
  | [x] => x
  | x :: rest => x ++ sep :: joinWith sep rest

/-- `name=value` pairs joined by `,` in the given (map iteration) order -/
def tagPairs (t : Tags) : Bytes := joinWith COMMA (t.map fun p => p.1 ++ EQ :: p.2)

/-- one line of `memberEventStdin` -/
def memberLine (m : Member) : Bytes :=
  eventClean m.name ++ TAB :: m.addr ++ TAB :: eventClean (lookupB m.tags roleB) ++ TAB :: eventClean (tagPairs m.tags) ++ [NL]

def memberStdin (ms : List Member) : Bytes := ms.flatMap memberLine

/-- `streamPayload`: a non-empty payload gets a trailing newline if it has none -/
def payloadStdin (p : Bytes) : Bytes :=
  match p.getLast? with
  | none => []
  | some c => if c == NL then p else p ++ [NL]

def stdinOf : Event → Bytes
  | .member _ ms => memberStdin ms
  | .user _ _ p => payloadStdin p
  | .query _ _ p => payloadStdin p

/-! ### member addresses

`member.Addr.String()` (`net.IP.String`) for the two forms modelled: a 4-byte address in dotted
decimal and the nil address.  (The IPv6 text form is not modelled.) -/

def digit (n : Nat) : UInt8 := UInt8.ofNat (48 + n % 10)

/-- decimal rendering of one octet (0..255), no leading zeros -/
def octet (n : Nat) : Bytes :=
  if n < 10 then [digit n] else if n < 100 then [digit (n / 10), digit n] else [digit (n / 100), digit (n / 10), digit n]

def DOT : UInt8 := 46

def ipv4 (a b c d : Nat) : Bytes := octet a ++ DOT :: octet b ++ DOT :: octet c ++ DOT :: octet d

/-- `"<nil>"` -/
def nilAddr : Bytes := [60, 110, 105, 108, 62]

/-! ### output -/

def maxBufSize : Nat := 8192

def takeLast (n : Nat) (l : Bytes) : Bytes := l.drop (l.length - n)

/-- `circbuf.Buffer.Write` followed by `Bytes()`: the buffer holds the last `size` bytes written -/
def circWrite (size : Nat) (buf chunk : Bytes) : Bytes := takeLast size (buf ++ chunk)

def last8k (out : Bytes) : Bytes := takeLast maxBufSize out

def uintLen (n : Nat) : Nat :=
  if n < 128 then 1 else if n < 256 then 2 else if n < 65536 then 3 else if n < 4294967296 then 5 else 9

def rawLen (l : Nat) : Nat := if l < 32 then 1 else if l < 65536 then 3 else 5

/-- `len(encodeMessage(messageQueryResponseType, messageQueryResponse{LTime, ID, From, Flags: 0, Payload}))`:
type byte, fixmap header, the five field names (6+3+5+6+8 bytes), the values -/
def respSize (ltime id fromLen payloadLen : Nat) : Nat :=
  1 + 1 + 28 + uintLen ltime + uintLen id + (rawLen fromLen + fromLen) + 1 + (rawLen payloadLen + payloadLen)

/-- `serf.DefaultConfig().QueryResponseSizeLimit` -/
def responseLimit : Nat := 1024

inductive Resp where
  | none               -- no response attempted (not a query, failed run, or no output)
  | tooLarge           -- Respond refused: over QueryResponseSizeLimit
  | sent (p : Bytes)
  deriving DecidableEq, Repr, Inhabited

/-- end of `invokeEventScript` for a query whose script wrote `out` in total -/
def respond (limit : Nat) (isQuery : Bool) (exitOk : Bool) (out : Bytes) (ltime id fromLen : Nat) : Resp :=
  if isQuery && exitOk && out.length > 0 then
    let p := last8k out
    if respSize ltime id fromLen p.length > limit then .tooLarge else .sent p
  else .none

/-! ### starting the process

`exec.Cmd.Start` (os/exec) refuses an environment entry that contains a NUL byte
("exec: environment variable contains NUL"): `invokeEventScript` then returns the error and
the script is not run.  This is the only part of process creation that is modelled. -/

def hasNul (env : List (Bytes × Bytes)) : Bool := env.any fun p => p.1.contains 0 || p.2.contains 0

/-- the scripts that are actually started for an event -/
def startedOf (scripts : List (Filter × Bytes)) (env : List (Bytes × Bytes)) (e : Event) : List Bytes :=
  if hasNul env then [] else runsOf scripts e

/-! ### reloading the handler list

`ScriptEventHandler.UpdateScripts` stores the new list in `newScripts`; `HandleEvent` swaps it in
(`if h.newScripts != nil`) before dispatching.  The agent always passes the non-nil slice built
by `Config.EventScripts`, also for a configuration without handlers, so `pending = some []`
means "reload to no handlers". -/

structure HandlerState where
  /-- `Scripts`: the list in effect -/
  scripts : List (Filter × Bytes)
  /-- `newScripts`: `none` = nil -/
  pending : Option (List (Filter × Bytes))
  deriving Repr, Inhabited

/-- `UpdateScripts` -/
def updateScripts (h : HandlerState) (l : List (Filter × Bytes)) : HandlerState := { h with pending := some l }

/-- the swap at the start of `HandleEvent` -/
def swapIn (h : HandlerState) : HandlerState :=
  match h.pending with
  | some l => { scripts := l, pending := none }
  | none => h

/-- `HandleEvent`: swap, then start the matching scripts -/
def handleEvent (h : HandlerState) (env : List (Bytes × Bytes)) (e : Event) : HandlerState × List Bytes :=
  let h' := swapIn h
  (h', startedOf h'.scripts env e)

inductive HOp where
  | update (l : List (Filter × Bytes))
  | event (env : List (Bytes × Bytes)) (e : Event)
  deriving Repr, Inhabited

def applyOp (h : HandlerState) : HOp → HandlerState
  | .update l => updateScripts h l
  | .event env e => (handleEvent h env e).1

def applyOps (h : HandlerState) : List HOp → HandlerState
  | [] => h
  | o :: rest => applyOps (applyOp h o) rest

/-- the configuration last given: the last `update` of the history, the initial list if none -/
def lastConfig (init : List (Filter × Bytes)) : List HOp → List (Filter × Bytes)
  | [] => init
  | .update l :: rest => lastConfig l rest
  | .event .. :: rest => lastConfig init rest

/-! ### the local member handed to the scripts

`HandleEvent` calls `SelfFunc` for every event and hands that answer to `invokeEventScript`;
the environment is a function of it.  `SelfShape.cachesSelf` describes the alternative in
which the handler keeps a copy and refreshes it only when a member event comes in (seeded
change C27-e): after a tag edit, user events and queries then see the previous role and tags. -/

structure Self where
  name : Bytes
  tags : Tags
  deriving DecidableEq, Repr, Inhabited

structure SelfShape where
  /-- the handler keeps the member in a field, refreshed by member events only -/
  cachesSelf : Bool
  deriving DecidableEq, Repr, Inhabited

/-- the member value used for an event (and the cache afterwards); `now` = `SelfFunc()` at that moment -/
def selfFor (sh : SelfShape) (cache : Option Self) (now : Self) (e : Event) : Self × Option Self :=
  if sh.cachesSelf then
    match cache, e with
    | some c, .user .. => (c, some c)
    | some c, .query .. => (c, some c)
    | _, _ => (now, some now)
  else (now, cache)

/-- the member values used along a history of (SelfFunc's answer at that moment, event) -/
def selfHistory (sh : SelfShape) (cache : Option Self) : List (Self × Event) → List Self
  | [] => []
  | (now, e) :: rest => (selfFor sh cache now e).1 :: selfHistory sh (selfFor sh cache now e).2 rest

end SerfModel.EventScript
