/-
A SMALL executable model of a cluster of N serf nodes: the basis for the cluster-level
properties C01 / C02.

Every node is the single-node state machine of `SerfModel.Model.Node` (`Node`, `step`).  The
cluster adds only what connects the nodes:
  flight  : the gossip intents that are somewhere on the wire (a multiset, written as a list:
            any element may be delivered to any node, any number of times, or lost);
  ml      : the memberlist oracle — what memberlist last told observer `i` about subject `x`;
            memberlist alternates NotifyJoin / NotifyLeave per (observer, subject), the first
            notification being a NotifyJoin, and that is all the cluster model keeps of it.
A cluster step (`CStep`) is one of: deliver an in-flight intent to a node (NotifyMsg), lose one,
a memberlist notification, one push/pull exchange between two nodes (both `LocalState`s are
taken BEFORE either `MergeRemoteState`, as memberlist does), or any local operation (`Op`) at one
node.

The semantics is given in two layers so that the cluster can be projected onto its nodes:
  `localOpsOf c s i` : the `Op`s that step `s`, taken in cluster state `c`, makes node `i` run;
  `cstep`            : node `i` becomes `run nodes[i] (localOpsOf c s i)`; every message a node
                       re-queues (NotifyMsg returned true) or queues itself goes into `flight`.
`history c steps i` is the concatenation of node `i`'s local ops along a run; the projection
theorem (SerfProofs/Lemmas/Cluster.lean, `crun_node`) says
  `(crun c steps).nodes[i] = run c.nodes[i] (history c steps i)`.

Not modelled: addresses, tags, user events / queries, the timing of gossip (every schedule of
`CStep`s is a behaviour), retransmit limits (an in-flight message stays until dropped or consumed).
Names are meant to be pairwise distinct; this is not enforced.
Core Lean only.
-/
import SerfModel.Model.Node
namespace SerfModel.Cluster
open SerfModel SerfModel.Node

/- `Node` derives no `DecidableEq` in its own file although every field has one; cluster states
are compared by `decide` (e.g. "a second push/pull changes nothing"). -/
deriving instance DecidableEq for Node

structure Cluster where
  /-- node `i` is `nodes[i]`; names pairwise distinct (not enforced) -/
  nodes : List Node
  /-- in-flight gossip (a multiset: any element may be delivered to any node, kept or consumed) -/
  flight : List Msg := []
  /-- memberlist oracle: what memberlist last told observer `i` about subject `x` (true = up) -/
  ml : List ((Nat × Name) × Bool) := []
  deriving DecidableEq, Repr, Inhabited

/-- `names.length` freshly created nodes that know only themselves; nothing in flight. -/
def Cluster.init (names : List Name) (cfg : Config := {}) : Cluster :=
  { nodes := names.map (fun nm => Node.init nm cfg) }

/-- the membership part of `LocalState`: clock, every member's status time, the left list -/
def localState (n : Node) : Nat × List (Name × Nat) × List Name :=
  (n.clock, n.members.map (fun p => (p.1, p.2.ltime)), n.left)

inductive CStep where
  /-- deliver in-flight message `k` to node `to` (NotifyMsg); `keep = true` models duplication,
  `false` consumes the message -/
  | deliver (to : Nat) (k : Nat) (keep : Bool)
  /-- loss of in-flight message `k` -/
  | drop (k : Nat)
  /-- memberlist tells `obs` that `subj` is up / down (leave time `at_`); ignored unless it
  changes the oracle (so the first notification must be `up`) -/
  | notify (obs : Nat) (subj : Name) (up : Bool) (at_ : Nat)
  /-- push/pull between nodes `a` and `b`: both LocalStates are computed BEFORE either merge -/
  | pushPull (a b : Nat) (wall : Nat)
  /-- a local operation at node `i` (forceLeave, leaveBegin, leaveEnd, shutdown, reap, ownJoin,
  runPending, …): any `Op` -/
  | api (i : Nat) (op : Op)

/-- what the oracle last told `obs` about `x` (nothing yet = down) -/
def mlUp (c : Cluster) (obs : Nat) (x : Name) : Bool := (alookup c.ml (obs, x)).getD false

/-- the `Op`s that cluster step `s` makes node `i` execute, in order -/
def localOpsOf (c : Cluster) (s : CStep) (i : Nat) : List Op :=
  match s with
  | .deliver to k _ =>
    if i = to then
      match c.flight[k]? with
      | some (.join x lt) => [.joinMsg x lt 0]
      | some (.leave x lt p) => [.leaveMsg x lt p 0]
      | none => []
    else []
  | .drop _ => []
  | .notify obs x up at_ =>
    if i = obs ∧ mlUp c obs x ≠ up then (if up then [.nodeJoin x] else [.nodeLeave x at_]) else []
  | .pushPull a b w =>
    if a = b then []
    else match c.nodes[a]?, c.nodes[b]? with
      | some na, some nb =>
        if i = a then [.merge (localState nb).1 (localState nb).2.1 (localState nb).2.2 w]
        else if i = b then [.merge (localState na).1 (localState na).2.1 (localState na).2.2 w]
        else []
      | _, _ => []
  | .api j op => if i = j then [op] else []

/-- what one `Op` puts on the wire: the received message if NotifyMsg asks for a rebroadcast, then
the messages the node queues itself -/
def emitted (n : Node) (op : Op) : List Msg :=
  (match op.msg? with
    | some m => if (step n op).2.rebroadcast then [m] else []
    | none => []) ++ (step n op).2.queued

/-- apply a list of ops to a node, collecting what it puts on the wire: re-queued received
messages and own broadcasts -/
def applyLocal (n : Node) : List Op → Node × List Msg
  | [] => (n, [])
  | op :: ops => ((applyLocal (step n op).1 ops).1, emitted n op ++ (applyLocal (step n op).1 ops).2)

/-- the in-flight messages that survive step `s` -/
def flightAfter (fl : List Msg) : CStep → List Msg
  | .deliver _ k false => fl.eraseIdx k
  | .drop k => fl.eraseIdx k
  | _ => fl

/-- the oracle after step `s` -/
def mlAfter (c : Cluster) : CStep → List ((Nat × Name) × Bool)
  | .notify obs x up _ => if mlUp c obs x = up then c.ml else ainsert c.ml (obs, x) up
  | _ => c.ml

/-- one cluster step: every node runs its local ops (computed from the cluster BEFORE the step);
`flight` loses the consumed / dropped message and gains everything the nodes emit -/
def cstep (c : Cluster) (s : CStep) : Cluster :=
  { nodes := c.nodes.mapIdx (fun i n => (applyLocal n (localOpsOf c s i)).1)
    flight := flightAfter c.flight s ++
      (c.nodes.mapIdx (fun i n => (applyLocal n (localOpsOf c s i)).2)).flatten
    ml := mlAfter c s }

def crun (c : Cluster) : List CStep → Cluster
  | [] => c
  | s :: r => crun (cstep c s) r

/-- the local op history of node `i` along a cluster run -/
def history (c : Cluster) : List CStep → Nat → List Op
  | [], _ => []
  | s :: r, i => localOpsOf c s i ++ history (cstep c s) r i

/-- the merges node `i` performs in one complete simultaneous state-sync round among the running
nodes `R`: the LocalState of every OTHER running node, all computed from the cluster before the
round, in the order of `R` -/
def syncOps (c : Cluster) (R : List Nat) (i : Nat) (wall : Nat) : List Op :=
  (R.filter (· ≠ i)).filterMap fun j => c.nodes[j]?.map fun nj =>
    Op.merge (localState nj).1 (localState nj).2.1 (localState nj).2.2 wall

/-- one complete simultaneous state-sync round among `R` (nodes not in `R` are down / untouched;
merges put nothing on the wire) -/
def syncRound (c : Cluster) (R : List Nat) (wall : Nat) : Cluster :=
  { c with nodes := c.nodes.mapIdx fun i n => if i ∈ R then run n (syncOps c R i wall) else n }

end SerfModel.Cluster
