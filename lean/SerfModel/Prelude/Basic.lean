/-
Shared helpers for the executable models and the driver: hex coding of byte
strings for the line protocol, decimal parsing, association-list maps.
Core Lean only (no Mathlib) so that `serfdriver` links as a native executable.
-/
namespace SerfModel

def hexDigit (n : Nat) : Char :=
  if n < 10 then Char.ofNat (48 + n) else Char.ofNat (87 + n)

def hexVal? (c : Char) : Option Nat :=
  if '0' ≤ c ∧ c ≤ '9' then some (c.toNat - 48)
  else if 'a' ≤ c ∧ c ≤ 'f' then some (c.toNat - 87)
  else if 'A' ≤ c ∧ c ≤ 'F' then some (c.toNat - 55)
  else none

/-- Hex encoding of a byte list; the empty list is written `-` so that every
field of a protocol line is non-empty. -/
def hexOfBytes (bs : List UInt8) : String :=
  if bs.isEmpty then "-" else
  String.ofList (bs.flatMap fun b => [hexDigit (b.toNat / 16), hexDigit (b.toNat % 16)])

def bytesOfHexAux : List Char → List UInt8 → Option (List UInt8)
  | [], acc => some acc.reverse
  | [_], _ => none
  | a :: b :: rest, acc =>
    match hexVal? a, hexVal? b with
    | some x, some y => bytesOfHexAux rest (UInt8.ofNat (16 * x + y) :: acc)
    | _, _ => none

def bytesOfHex? (s : String) : Option (List UInt8) :=
  if s == "-" then some [] else bytesOfHexAux s.toList []

def hexOfString (s : String) : String := hexOfBytes s.toUTF8.toList

/-- Byte list → String, lossy only on invalid UTF-8 (the harness never sends that
through a string-typed field). -/
def stringOfBytes (bs : List UInt8) : String :=
  let ba := ByteArray.mk bs.toArray
  match String.fromUTF8? ba with
  | some s => s
  | none => String.ofList (bs.map fun b => Char.ofNat b.toNat)

def stringOfHex? (s : String) : Option String := (bytesOfHex? s).map stringOfBytes

/-- Remove trailing newline / carriage-return characters. -/
def chomp (s : String) : String :=
  String.ofList (s.toList.reverse.dropWhile (fun c => c == '\n' || c == '\r')).reverse

/-- Split a protocol line into fields on single spaces, dropping empties. -/
def fields (line : String) : List String :=
  (line.splitOn " ").filter (· ≠ "")

/-- Association-list lookup / insert / erase used by the models (maps that in Go
are `map[string]…`).  Insertion replaces in place, otherwise appends. -/
def alookup {α β} [BEq α] (m : List (α × β)) (k : α) : Option β :=
  (m.find? (·.1 == k)).map (·.2)

def ainsert {α β} [BEq α] (m : List (α × β)) (k : α) (v : β) : List (α × β) :=
  if m.any (·.1 == k) then m.map (fun p => if p.1 == k then (k, v) else p) else m ++ [(k, v)]

def aerase {α β} [BEq α] (m : List (α × β)) (k : α) : List (α × β) :=
  m.filter (fun p => !(p.1 == k))

end SerfModel
