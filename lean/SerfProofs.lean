import SerfProofs.Props.C19
