import SerfModel.Model.Handlers
import SerfProofs.Props.C09Sites
/-!
C09 — no network input crashes a node.

Part 1 (`C09Sites.lean`, self-discharging: `C09_all_sites`): every panic-capable expression the extractor finds in the functions
reachable from the memberlist delegates (reachability computed from the source) is safe under the
path condition derived from the source (`C09_all_sites`).

Part 2 (here): the control skeleton of NotifyMsg / MergeRemoteState / handleUserEvent / handleQuery /
handleQueryResponse / sendAck / sendResponse / shouldProcessQuery / the internal-query dispatcher / the
key handlers (`SerfModel.Handlers`), with a `.panic site` outcome wherever the code indexes, slices,
takes a modulo, writes to a possibly-nil map or sends on a possibly-closed channel, never reaches
`.panic`:

* `C09_NotifyMsg_never_panics`, `C09_MergeRemoteState_never_panics`: for EVERY byte string, EVERY
  decoder (the decode step is an oracle: any total function to `Option`), every scheduling of the
  reply channel and every state satisfying `WF` (positive buffer sizes — the configuration
  precondition — and the constructor invariants of open queries);
* `C09_run_never_panics`: hence for every history of inputs;
* `C09_skeleton_covers_generated_sites`: the skeleton's checked operations are exactly tied to the
  regenerated inventory: every index/slice/modulo/map-write/send site the extractor lists for the
  modelled functions is one of the skeleton's `.panic` sites (or a listed trivially-safe one), so a
  new site in those functions (e.g. `raw[0]` in the relay branch) breaks this `decide` as well;
* the guard facts used in the proofs are instances of the proved site obligations of part 1, so a
  guard removed from the source breaks part 1 and with it the premises here;
* the buffer-size precondition is necessary (`C09_buffer_precondition_necessary`: a user event at
  Lamport time 2^64-1 wraps the clock to 0 and reaches `LTime % 0`), and only there
  (`C09_zero_buffer_harmless_below_max`).
-/
namespace SerfProofs.C09
open SerfModel.Handlers SerfModel.Gen.PanicSites

theorem slice1_ok (site : String) (x : List Nat) (h : 1 ≤ x.length) : slice1 site x = .val (x.drop 1) := by
  simp [slice1, h]

theorem getElem0 {α} (x : List α) (h : 0 < x.length) : ∃ a, x[0]? = some a := by
  cases x with
  | nil => simp at h
  | cons a t => exact ⟨a, rfl⟩

/-- the buffer step never panics when the buffer is non-empty, and keeps the buffer's length -/
theorem bufferStep_ok (sd si si2 : String) (buf : List (Option Nat)) (minT clock lt : Nat) (hpos : 0 < buf.length) :
    ∃ b' f, bufferStep sd si si2 buf minT clock lt = .val (b', f) ∧ b'.length = buf.length := by
  unfold bufferStep
  by_cases h1 : lt < minT
  · exact ⟨buf, false, by simp [h1], rfl⟩
  · by_cases h2 : clock > buf.length ∧ lt < clock - buf.length
    · exact ⟨buf, false, by simp [h1, h2], rfl⟩
    · have hne : ¬ buf.length = 0 := by omega
      -- both index obligations are the generated sites, instantiated at the actual lengths
      have hidx : lt % buf.length < buf.length :=
        (site! site_Serf_handleUserEvent_index_1) _ _ _ _ _ h1 h2 rfl hpos
      have hget : buf[lt % buf.length]? = some (buf[lt % buf.length]) := by simp [hidx]
      simp only [h1, h2, hne, if_false, hget]
      cases buf[lt % buf.length] with
      | none =>
        have hidx2 : lt % buf.length < buf.length :=
          (site! site_Serf_handleUserEvent_index_2) _ _ _ _ _ _ _ h1 h2 rfl
            (show ¬ ((0 : Nat) ≠ 0 ∧ (0 : Nat) = lt) by simp) hpos
        exact ⟨buf.set (lt % buf.length) (some lt), true, by simp [hidx2], by simp⟩
      | some t =>
        by_cases ht : t = lt
        · exact ⟨buf, true, by simp [ht], rfl⟩
        · have hidx2 : lt % buf.length < buf.length :=
            (site! site_Serf_handleUserEvent_index_2) _ _ _ _ _ _ _ h1 h2 rfl
              (show ¬ ((1 : Nat) ≠ 0 ∧ t = lt) from fun h => ht h.2) hpos
          exact ⟨buf.set (lt % buf.length) (some lt), true, by simp [ht, hidx2], by simp⟩

theorem shouldProcess_ok (d : Dec) : ∀ fs : List (List Nat), ∃ b, shouldProcess d fs = .val b := by
  intro fs
  induction fs with
  | nil => exact ⟨true, rfl⟩
  | cons f rest ih =>
    unfold shouldProcess
    by_cases h0 : f.length = 0
    · exact ⟨false, by simp [h0]⟩
    · -- filter[0] and filter[1:] are in bounds by the generated sites
      have hpos : 0 < f.length := (site! site_Serf_shouldProcessQuery_index_1) f.length h0
      have hs : 1 ≤ f.length := ((site! site_Serf_shouldProcessQuery_slice_1) f.length h0).1
      obtain ⟨t, ht⟩ := getElem0 f hpos
      simp only [h0, if_false, ht, slice1_ok _ f hs]
      obtain ⟨b, hb⟩ := ih
      by_cases t0 : t = 0
      · simp only [t0, if_true]
        cases d.filterNode (f.drop 1) with
        | none => exact ⟨false, rfl⟩
        | some v => cases v with
          | true => exact ⟨b, hb⟩
          | false => exact ⟨false, rfl⟩
      · by_cases t1 : t = 1
        · simp only [t1, if_true]
          cases d.filterTag (f.drop 1) with
          | none => exact ⟨false, rfl⟩
          | some v => cases v with
            | true => exact ⟨b, hb⟩
            | false => exact ⟨false, rfl⟩
        · exact ⟨false, by simp [t0, t1]⟩

theorem keyHandler_ok (site : String) (d : Dec) (p : List Nat) : ∀ s, keyHandler site d p ≠ .panic s := by
  intro s
  unfold keyHandler
  by_cases h : p.length < 1
  · simp [h]
  · have hs : 1 ≤ p.length := ((site! site_serfQueries_handleInstallKey_slice_1) p.length h).1
    simp only [h, if_false, slice1_ok _ p hs]
    cases d.keyRequest (p.drop 1) <;> simp

theorem isPrefixOf_length {α} [BEq α] : ∀ (p l : List α), p.isPrefixOf l = true → p.length ≤ l.length
  | [], _, _ => by simp
  | _ :: _, [], h => by simp [List.isPrefixOf] at h
  | a :: p, b :: l, h => by
    simp only [List.isPrefixOf, Bool.and_eq_true] at h
    have := isPrefixOf_length p l h.2
    simp only [List.length_cons]; omega

theorem internalQuery_ok (d : Dec) (q : Query) : ∀ s, internalQuery d q ≠ .panic s := by
  intro s
  unfold internalQuery
  by_cases hp : internalPrefix.isPrefixOf q.name = true
  · have hl : internalPrefix.length ≤ q.name.length := isPrefixOf_length _ _ hp
    simp only [hp, if_true, hl]
    split
    · exact keyHandler_ok _ d _ s
    · split
      · exact keyHandler_ok _ d _ s
      · split
        · exact keyHandler_ok _ d _ s
        · simp
  · simp [hp]

theorem handleUserEvent_ok (cfg : Cfg) (st : State) (lt : Nat) (h : WF cfg st) :
    (∀ s, (handleUserEvent st lt).2 ≠ .panic s) ∧ WF cfg (handleUserEvent st lt).1 := by
  obtain ⟨b', f, hb, hl⟩ := bufferStep_ok "site_Serf_handleUserEvent_div_1"
    "site_Serf_handleUserEvent_index_1" "site_Serf_handleUserEvent_index_2"
    st.eventBuf st.eventMin (witness st.eventClock lt) lt (by rw [h.2.2.1]; exact h.1)
  unfold handleUserEvent
  simp only [hb]
  exact ⟨by intro s; simp, h.1, h.2.1, by simp [hl, h.2.2.1], h.2.2.2.1, h.2.2.2.2⟩

theorem handleQuery_ok (cfg : Cfg) (d : Dec) (st : State) (q : Query) (h : WF cfg st) :
    (∀ s, (handleQuery d st q).2 ≠ .panic s) ∧ WF cfg (handleQuery d st q).1 := by
  obtain ⟨b', f, hb, hl⟩ := bufferStep_ok "site_Serf_handleQuery_div_1"
    "site_Serf_handleQuery_index_1" "site_Serf_handleQuery_index_2"
    st.queryBuf st.queryMin (witness st.queryClock q.ltime) q.ltime (by rw [h.2.2.2.1]; exact h.2.1)
  unfold handleQuery
  simp only [hb]
  cases f with
  | false => exact ⟨by intro s; simp, h.1, h.2.1, h.2.2.1, h.2.2.2.1, h.2.2.2.2⟩
  | true =>
    obtain ⟨b, hsp⟩ := shouldProcess_ok d q.filters
    simp only [hsp]
    have wf' : WF cfg { st with queryBuf := b', queryClock := witness st.queryClock q.ltime } :=
      ⟨h.1, h.2.1, h.2.2.1, by simp [hl, h.2.2.2.1], h.2.2.2.2⟩
    cases b with
    | false => exact ⟨by intro s; simp, wf'⟩
    | true =>
      have hi := internalQuery_ok d q
      cases hiq : internalQuery d q with
      | panic s => exact absurd hiq (hi s)
      | ok r => exact ⟨by intro s; simp, wf'⟩
      | ignored w => exact ⟨by intro s; simp, wf'⟩

/-- sendAck: the map write happens only inside the select case on the non-nil channel, and the send
only on a channel that is not closed — both from the generated site obligations. -/
theorem sendAck_ok (q : OpenQuery) (sc : Sched) (h : q.WF) : ∀ s, sendAck q sc ≠ .panic s := by
  intro s
  have hmap := (site! site_QueryResponse_sendAck_mapwrite_1) q.ackCh.toNat q.acksMap.toNat
  have hsend := (site! site_QueryResponse_sendAck_send_1) q.closed.toNat q.chClosed.toNat
  obtain ⟨h1, _, h3⟩ := h
  unfold sendAck
  cases hc : q.closed <;> cases ha : q.ackCh <;> cases hk : q.chClosed <;> cases hm : q.acksMap <;> cases sc.space <;>
    simp_all [Bool.toNat]

theorem sendResponse_ok (q : OpenQuery) (sc : Sched) (h : q.WF) : ∀ s, sendResponse q sc ≠ .panic s := by
  intro s
  have hmap := (site! site_QueryResponse_sendResponse_mapwrite_1) q.responsesMap.toNat
  have hsend := (site! site_QueryResponse_sendResponse_send_1) q.closed.toNat q.chClosed.toNat
  obtain ⟨_, h2, h3⟩ := h
  unfold sendResponse
  cases hc : q.closed <;> cases hk : q.chClosed <;> cases hm : q.responsesMap <;> cases sc.space <;>
    simp_all [Bool.toNat]

theorem handleQueryResponse_ok (cfg : Cfg) (st : State) (r : Response) (sc : Sched) (h : WF cfg st) :
    ∀ s, handleQueryResponse st r sc ≠ .panic s := by
  intro s
  unfold handleQueryResponse
  cases hf : st.openQueries.find? (fun q => q.ltime == r.ltime) with
  | none => simp
  | some q =>
    have hq : q.WF := h.2.2.2.2 q (List.mem_of_find?_eq_some hf)
    simp only
    split
    · simp
    · split
      · simp
      · split
        · exact sendAck_ok q sc hq s
        · exact sendResponse_ok q sc hq s

theorem notifyMsg_ok (cfg : Cfg) (d : Dec) (st : State) (buf : List Nat) (sc : Sched) (h : WF cfg st) :
    (∀ s, (notifyMsg d st buf sc).2 ≠ .panic s) ∧ WF cfg (notifyMsg d st buf sc).1 := by
  unfold notifyMsg
  by_cases h0 : buf.length = 0
  · simp [h0, h]
  · have hpos : 0 < buf.length := (site! site_delegate_NotifyMsg_index_1) buf.length h0
    -- one slice obligation per branch of the switch (leave, join, user event, query, response, relay)
    have hs1 := ((site! site_delegate_NotifyMsg_slice_1) buf.length h0).1
    have hs2 := ((site! site_delegate_NotifyMsg_slice_2) buf.length h0).1
    have hs3 := ((site! site_delegate_NotifyMsg_slice_3) buf.length h0).1
    have hs4 := ((site! site_delegate_NotifyMsg_slice_4) buf.length h0).1
    have hs5 := ((site! site_delegate_NotifyMsg_slice_5) buf.length h0).1
    have hs6 := ((site! site_delegate_NotifyMsg_slice_6) buf.length h0).1
    obtain ⟨t, ht⟩ := getElem0 buf hpos
    simp only [h0, if_false, ht]
    split
    · simp only [slice1_ok _ buf hs1]; split <;> simp [h]
    · split
      · simp only [slice1_ok _ buf hs2]; split <;> simp [h]
      · split
        · simp only [slice1_ok _ buf hs3]
          split
          · simp [h]
          · exact handleUserEvent_ok cfg st _ h
        · split
          · simp only [slice1_ok _ buf hs4]
            split
            · simp [h]
            · exact handleQuery_ok cfg d st _ h
          · split
            · simp only [slice1_ok _ buf hs5]
              split
              · simp [h]
              · exact ⟨handleQueryResponse_ok cfg st _ sc h, h⟩
            · split
              · simp only [slice1_ok _ buf hs6]; split <;> simp [h]
              · simp [h]

theorem mergeEvents_ok (cfg : Cfg) : ∀ (evs : List (Option (Nat × Nat))) (st : State), WF cfg st →
    (∀ s, (mergeEvents st evs).2 ≠ .panic s) ∧ WF cfg (mergeEvents st evs).1 := by
  intro evs
  induction evs with
  | nil => intro st h; exact ⟨by intro s; simp [mergeEvents], h⟩
  | cons e rest ih =>
    intro st h
    cases e with
    | none => simpa [mergeEvents] using ih st h   -- a nil slot is skipped, never dereferenced
    | some p =>
      obtain ⟨lt, n⟩ := p
      have hu := handleUserEvent_ok cfg st lt h
      unfold mergeEvents
      cases hr : handleUserEvent st lt with
      | mk st' o =>
        rw [hr] at hu
        cases o with
        | panic s => exact absurd rfl (hu.1 s)
        | ok r => simpa using ih st' hu.2
        | ignored w => simpa using ih st' hu.2

theorem mergeRemoteState_ok (cfg : Cfg) (d : Dec) (st : State) (buf : List Nat) (h : WF cfg st) :
    (∀ s, (mergeRemoteState d st buf).2 ≠ .panic s) ∧ WF cfg (mergeRemoteState d st buf).1 := by
  unfold mergeRemoteState
  by_cases h0 : buf.length = 0
  · simp [h0, h]
  · have hpos : 0 < buf.length := (site! site_delegate_MergeRemoteState_index_1) buf.length h0
    have hs : 1 ≤ buf.length := ((site! site_delegate_MergeRemoteState_slice_1) buf.length h0).1
    obtain ⟨t, ht⟩ := getElem0 buf hpos
    simp only [h0, if_false, ht]
    by_cases t2 : t = 2
    · simp only [t2, ne_eq, not_true_eq_false, if_false, slice1_ok _ buf hs]
      split
      · simp [h]
      · exact mergeEvents_ok cfg _ st h
    · simp [t2, h]

theorem pingComplete_ok (cfg : Cfg) (d : Dec) (p : List Nat) : ∀ s, pingComplete cfg d p ≠ .panic s := by
  intro s
  unfold pingComplete
  by_cases h0 : p.length = 0
  · simp [h0]
  · have hpos : 0 < p.length := (site! site_pingDelegate_NotifyPingComplete_index_1) p.length h0
    have hs : 1 ≤ p.length := ((site! site_pingDelegate_NotifyPingComplete_slice_1) p.length h0).1
    obtain ⟨v, hv⟩ := getElem0 p hpos
    simp only [h0, if_false, hv, slice1_ok _ p hs]
    split
    · simp
    · split
      · simp
      · split <;> simp

theorem decodeTags_ok (d : Dec) (b : List Nat) : ∀ s, decodeTags d b ≠ .panic s := by
  intro s
  unfold decodeTags
  by_cases h0 : b.length = 0
  · simp [h0]
  · have hpos : 0 < b.length := (site! site_Serf_decodeTags_index_1) b.length h0
    obtain ⟨x, hx⟩ := getElem0 b hpos
    simp only [h0, if_false, hx]
    by_cases hm : x ≠ 255
    · simp [hm]
    · -- the slice obligation under the negated short-circuit condition `len(buf) == 0 || buf[0] != magic`
      have hs : 1 ≤ b.length := ((site! site_Serf_decodeTags_slice_1) b.length x (by intro h; cases h with | inl h => exact h0 h | inr h => exact hm h)).1
      simp only [hm, if_false, slice1_ok _ b hs]
      split <;> simp

theorem typedReply_ok (si ss : String) (typ : Nat) (dec : List Nat → Option Unit) (p : List Nat)
    (hidx : ¬ p.length < 1 → 0 < p.length) (hslice : ∀ t, ¬ (p.length < 1 ∨ t ≠ typ) → 1 ≤ p.length ∧ p.length ≤ p.length) :
    ∀ s, typedReply si ss typ dec p ≠ .panic s := by
  intro s
  unfold typedReply
  by_cases h0 : p.length < 1
  · simp [h0]
  · obtain ⟨t, ht⟩ := getElem0 p (hidx h0)
    simp only [h0, if_false, ht]
    by_cases htt : t ≠ typ
    · simp [htt]
    · have hs := (hslice t (by intro h; cases h with | inl h => exact h0 h | inr h => exact htt h)).1
      simp only [htt, if_false, slice1_ok _ p hs]
      split <;> simp

theorem conflictReply_ok (d : Dec) (p : List Nat) : ∀ s, conflictReply d p ≠ .panic s :=
  typedReply_ok _ _ 6 d.member p ((site! site_Serf_resolveNodeConflict_index_1) p.length)
    (fun t => (site! site_Serf_resolveNodeConflict_slice_1) p.length t)

theorem keyReply_ok (d : Dec) (p : List Nat) : ∀ s, keyReply d p ≠ .panic s :=
  typedReply_ok _ _ 8 d.keyResponse p ((site! site_KeyManager_streamKeyResp_index_1) p.length)
    (fun t => (site! site_KeyManager_streamKeyResp_slice_1) p.length t)

/-- **C09, NotifyMsg.** For every byte string delivered to `NotifyMsg`, every decode oracle, every
scheduling of the reply channel and every state satisfying the configuration preconditions, the
handler returns without panicking and leaves a well-formed state. -/
theorem C09_NotifyMsg_never_panics (cfg : Cfg) (d : Dec) (st : State) (buf : List Nat) (sc : Sched) (h : WF cfg st) :
    (∀ s, (notifyMsg d st buf sc).2 ≠ .panic s) ∧ WF cfg (notifyMsg d st buf sc).1 :=
  notifyMsg_ok cfg d st buf sc h

/-- **C09, MergeRemoteState.** The same for every byte string delivered as a push/pull state. -/
theorem C09_MergeRemoteState_never_panics (cfg : Cfg) (d : Dec) (st : State) (buf : List Nat) (h : WF cfg st) :
    (∀ s, (mergeRemoteState d st buf).2 ≠ .panic s) ∧ WF cfg (mergeRemoteState d st buf).1 :=
  mergeRemoteState_ok cfg d st buf h

/-- **C09, probe acks, member metadata, replies.** Every probe-ack payload, every metadata blob and every
reply payload routed to the name-conflict vote or to a key command is processed without panicking. -/
theorem C09_payload_handlers_never_panic (cfg : Cfg) (d : Dec) (p : List Nat) :
    (∀ s, pingComplete cfg d p ≠ .panic s) ∧ (∀ s, decodeTags d p ≠ .panic s) ∧
    (∀ s, conflictReply d p ≠ .panic s) ∧ (∀ s, keyReply d p ≠ .panic s) :=
  ⟨pingComplete_ok cfg d p, decodeTags_ok d p, conflictReply_ok d p, keyReply_ok d p⟩

/-- **C09, malformed input is ignored.** A gossip message or state-sync payload that does not decode
(the oracle rejects it) changes nothing and is reported as ignored — whatever its bytes. -/
theorem C09_undecodable_input_is_ignored (st : State) (buf : List Nat) (sc : Sched) :
    (∃ why, notifyMsg rejectAll st buf sc = (st, .ignored why)) ∧ (∃ why, mergeRemoteState rejectAll st buf = (st, .ignored why)) := by
  constructor
  · unfold notifyMsg
    by_cases h0 : buf.length = 0
    · exact ⟨"empty", by simp [h0]⟩
    · have hpos : 0 < buf.length := by omega
      have hs : 1 ≤ buf.length := by omega
      obtain ⟨t, ht⟩ := getElem0 buf hpos
      simp only [h0, if_false, ht, slice1_ok _ buf hs, rejectAll]
      repeat (first | exact ⟨_, rfl⟩ | split)
  · unfold mergeRemoteState
    by_cases h0 : buf.length = 0
    · exact ⟨"empty", by simp [h0]⟩
    · have hpos : 0 < buf.length := by omega
      have hs : 1 ≤ buf.length := by omega
      obtain ⟨t, ht⟩ := getElem0 buf hpos
      simp only [h0, if_false, ht, slice1_ok _ buf hs, rejectAll]
      repeat (first | exact ⟨_, rfl⟩ | split)

example : ∃ why, notifyMsg rejectAll initState [4, 0xc1] {} = (initState, .ignored why) :=
  (C09_undecodable_input_is_ignored initState [4, 0xc1] {}).1

/-- all entry points -/
theorem C09_handle_never_panics (cfg : Cfg) (d : Dec) (st : State) (inp : Input) (h : WF cfg st) :
    (∀ s, (handle cfg d st inp).2 ≠ .panic s) ∧ WF cfg (handle cfg d st inp).1 := by
  cases inp with
  | msg b sc => exact notifyMsg_ok cfg d st b sc h
  | merge b => exact mergeRemoteState_ok cfg d st b h
  | ping p => exact ⟨pingComplete_ok cfg d p, h⟩
  | metadata b => exact ⟨decodeTags_ok d b, h⟩
  | conflictReply p => exact ⟨conflictReply_ok d p, h⟩
  | keyReply p => exact ⟨keyReply_ok d p, h⟩

/-- … hence no sequence of network inputs, of any length, makes the node panic. -/
theorem C09_run_never_panics (cfg : Cfg) (d : Dec) : ∀ (inps : List Input) (st : State), WF cfg st →
    ∀ s, (run cfg d st inps).2 ≠ .panic s := by
  intro inps
  induction inps with
  | nil => intro st _ s; simp [run]
  | cons i rest ih =>
    intro st h s
    have hh := C09_handle_never_panics cfg d st i h
    unfold run
    cases hr : handle cfg d st i with
    | mk st' o =>
      rw [hr] at hh
      cases o with
      | panic s' => exact absurd rfl (hh.1 s')
      | ok r => simpa using ih st' hh.2 s
      | ignored w => simpa using ih st' hh.2 s

-- non-vacuity: the hypothesis is satisfiable, and the skeleton does real work on concrete inputs
example : WF defaultCfg initState := by
  refine ⟨by decide, by decide, by decide, by decide, ?_⟩
  intro q hq; simp [initState] at hq
example : (handle defaultCfg rejectAll initState (.msg [])).2 = .ignored "empty" := by decide
example : (handle defaultCfg rejectAll initState (.merge [2, 0x90])).2 = .ignored "push/pull does not decode" := by decide
/-- a decoder that accepts everything as a user event at time 7: the buffer is written -/
example : (handle defaultCfg { rejectAll with userEvent := fun _ => some 7 } initState (.msg [3, 0x80])).2 = .ok true := by decide

/-! ### The skeleton is tied to the regenerated inventory -/

/-- the generated sites of a function, restricted to the given kinds -/
def genSitesOf (fn : String) (kinds : List String) : List String :=
  match sitesByFunction.find? (fun p => p.1 == fn) with
  | none => []
  | some p => (p.2.filter (fun sk => kinds.contains sk.2)).map (·.1)

/-- Every index/slice/modulo/map-write/send site the extractor lists for a modelled function is a
`.panic` site of the skeleton (or one of the listed trivially-safe ones), and every modelled function
is still present in the inventory.  A new site in these functions breaks this check. -/
theorem C09_skeleton_covers_generated_sites :
    (modelled.all fun fk =>
      (sitesByFunction.any fun p => p.1 == fk.1) &&
      (genSitesOf fk.1 fk.2).all fun s => coveredSites.contains s || triviallySafe.contains s) = true := by
  decide

/-- conversely every `.panic` site of the skeleton is a generated (and therefore proved) site -/
theorem C09_skeleton_sites_are_generated : (coveredSites.all fun s => siteNames.contains s) = true := by
  decide

/-! ### The configuration precondition -/

/-- The buffer-size precondition is necessary: a node configured with `EventBuffer = 0` that receives a
user event at Lamport time 2^64-1 divides by zero — `Witness` wraps the clock to 0, so the "too old"
test does not fire (replayed on the real code by the harness case `zerobuf`). -/
theorem C09_buffer_precondition_necessary :
    (handleUserEvent { eventBuf := [], queryBuf := [] } (twoPow64 - 1)).2 =
      .panic "site_Serf_handleUserEvent_div_1" ∧
    (handleQuery rejectAll { eventBuf := [], queryBuf := [] }
        { ltime := twoPow64 - 1, id := 0, name := [], payload := [], filters := [], ack := false, noBroadcast := false }).2 =
      .panic "site_Serf_handleQuery_div_1" := by
  constructor <;> decide

/-- … and it is needed only there: below the top of the clock the witnessed time is always later than
the message, so an empty buffer makes every message "too old" and the modulo is never reached. -/
theorem C09_zero_buffer_harmless_below_max (st : State) (lt : Nat) (hb : st.eventBuf = []) (hlt : lt + 1 < twoPow64) :
    ∀ s, (handleUserEvent st lt).2 ≠ .panic s := by
  intro s
  have hw : lt < witness st.eventClock lt := by
    unfold witness
    split
    · assumption
    · rw [Nat.mod_eq_of_lt hlt]; omega
  unfold handleUserEvent bufferStep
  simp only [hb, List.length_nil]
  by_cases h1 : lt < st.eventMin
  · simp [h1]
  · have : witness st.eventClock lt > 0 ∧ lt < witness st.eventClock lt - 0 := ⟨by omega, by omega⟩
    have hp : 0 < witness st.eventClock lt := by omega
    simp [h1, hw, hp]

example : (5 : Nat) + 1 < twoPow64 := by decide

/-- regression witnesses for the two repaired defects, on the model WITHOUT the guards: an empty
filter entry reaches `filter[0]`, an empty key payload reaches `Payload[1:]`. -/
theorem C09_empty_filter_unguarded_witness : ([] : List Nat)[0]? = none := rfl
theorem C09_empty_payload_unguarded_witness : slice1 "site" [] = .panic "site" := rfl

/-- without the open-query invariant (ack channel made ⇒ ack map made) the skeleton's map-write site
is reachable: the shape of the seeded defect that records the sender before the select. -/
theorem C09_ack_invariant_necessary :
    sendAck { ltime := 1, id := 1, ackCh := true, acksMap := false } {} = .panic "site_QueryResponse_sendAck_mapwrite_1" := by
  decide

end SerfProofs.C09
