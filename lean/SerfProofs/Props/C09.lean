import SerfModel.Model.Handlers
import SerfProofs.Props.C09Sites
/-!
C09 — no network input crashes a node.

Part 1 (`C09Sites.lean`): every panic-capable expression the extractor finds in the functions
reachable from network input is safe under the path condition derived from the source
(`C09_all_sites`).

Part 2 (here): the control skeleton of NotifyMsg / MergeRemoteState / handleUserEvent / handleQuery /
shouldProcessQuery / the internal-query dispatcher / the key handlers (`SerfModel.Handlers`), with a
`.panic site` outcome wherever the code indexes, slices or takes a modulo, never reaches `.panic` —
for every byte string, every decoder (any total function) and every state with positive buffer
sizes (the configuration precondition; `LTime % len(buffer)` divides by it).  The guard facts are
taken from the proved site obligations of part 1, so a guard removed from the source breaks part 1
and with it these proofs' premises.
-/
namespace SerfProofs.C09
open SerfModel.Handlers SerfModel.Gen.PanicSites

theorem slice1_ok (site : String) (x : List Nat) (h : 1 ≤ x.length) : slice1 site x = .val (x.drop 1) := by
  simp [slice1, h]

theorem getElem0 {α} (x : List α) (h : 0 < x.length) : ∃ a, x[0]? = some a := by
  cases x with
  | nil => simp at h
  | cons a t => exact ⟨a, rfl⟩

/-- the buffer step never panics when the buffer is non-empty, and keeps the buffer's length -/
theorem bufferStep_ok (sd si : String) (buf : List (Option Nat)) (minT clock lt : Nat) (hpos : 0 < buf.length) :
    ∃ b' f, bufferStep sd si buf minT clock lt = .val (b', f) ∧ b'.length = buf.length := by
  unfold bufferStep
  by_cases h1 : lt < minT
  · exact ⟨buf, false, by simp [h1], rfl⟩
  · by_cases h2 : clock > buf.length ∧ lt < clock - buf.length
    · exact ⟨buf, false, by simp [h1, h2], rfl⟩
    · have hne : ¬ buf.length = 0 := by omega
      -- the index obligation is the generated site (instantiated at the actual lengths)
      have hidx : lt % buf.length < buf.length :=
        C09_site_Serf_handleUserEvent_index_s_eventBuffer_idx buf.length clock lt (lt % buf.length) minT h1
          (by intro hc; exact h2 hc) rfl hpos
      have : ∃ a, buf[lt % buf.length]? = some a := ⟨buf[lt % buf.length], by simp [hidx]⟩
      obtain ⟨a, ha⟩ := this
      exact ⟨buf.set (lt % buf.length) (some lt), true, by simp [h1, h2, hne, ha], by simp⟩

theorem shouldProcess_ok (d : Dec) : ∀ fs : List (List Nat), ∃ b, shouldProcess d fs = .val b := by
  intro fs
  induction fs with
  | nil => exact ⟨true, rfl⟩
  | cons f rest ih =>
    unfold shouldProcess
    by_cases h0 : f.length = 0
    · exact ⟨false, by simp [h0]⟩
    · -- filter[0] and filter[1:] are in bounds by the generated sites
      have hpos : 0 < f.length := C09_site_Serf_shouldProcessQuery_index_filter_0 f.length h0
      have hs : 1 ≤ f.length := (C09_site_Serf_shouldProcessQuery_slice_filter_1 f.length h0).1
      obtain ⟨t, ht⟩ := getElem0 f hpos
      simp only [h0, if_false, ht, slice1_ok _ f hs]
      obtain ⟨b, hb⟩ := ih
      by_cases t0 : t = 0
      · simp only [t0, if_true]
        cases d.filterNode (f.drop 1) with
        | none => exact ⟨false, rfl⟩
        | some v => cases v with
          | true => exact ⟨b, hb⟩
          | false => exact ⟨false, rfl⟩
      · by_cases t1 : t = 1
        · simp only [t1, if_true]
          cases d.filterTag (f.drop 1) with
          | none => exact ⟨false, rfl⟩
          | some v => cases v with
            | true => exact ⟨b, hb⟩
            | false => exact ⟨false, rfl⟩
        · exact ⟨false, by simp [t0, t1]⟩

theorem keyHandler_ok (site : String) (d : Dec) (p : List Nat) : ∀ s, keyHandler site d p ≠ .panic s := by
  intro s
  unfold keyHandler
  by_cases h : p.length < 1
  · simp [h]
  · have hs : 1 ≤ p.length := (C09_site_serfQueries_handleInstallKey_slice_q_Payload_1 p.length h).1
    simp only [h, if_false, slice1_ok _ p hs]
    cases d.keyRequest (p.drop 1) <;> simp

theorem isPrefixOf_length {α} [BEq α] : ∀ (p l : List α), p.isPrefixOf l = true → p.length ≤ l.length
  | [], _, _ => by simp
  | _ :: _, [], h => by simp [List.isPrefixOf] at h
  | a :: p, b :: l, h => by
    simp only [List.isPrefixOf, Bool.and_eq_true] at h
    have := isPrefixOf_length p l h.2
    simp only [List.length_cons]; omega

theorem internalQuery_ok (d : Dec) (q : Query) : ∀ s, internalQuery d q ≠ .panic s := by
  intro s
  unfold internalQuery
  by_cases hp : internalPrefix.isPrefixOf q.name = true
  · have hl : internalPrefix.length ≤ q.name.length := isPrefixOf_length _ _ hp
    simp only [hp, if_true, hl]
    split
    · exact keyHandler_ok _ d _ s
    · split
      · exact keyHandler_ok _ d _ s
      · split
        · exact keyHandler_ok _ d _ s
        · simp
  · simp [hp]

theorem handleUserEvent_ok (cfg : Cfg) (st : State) (lt : Nat) (h : WF cfg st) :
    (∀ s, (handleUserEvent st lt).2 ≠ .panic s) ∧ WF cfg (handleUserEvent st lt).1 := by
  obtain ⟨b', f, hb, hl⟩ := bufferStep_ok "site_Serf_handleUserEvent_div_LamportTime_len_s_eventBuffer"
    "site_Serf_handleUserEvent_index_s_eventBuffer_idx" st.eventBuf st.eventMin (max st.eventClock (lt + 1)) lt (by rw [h.2.2.1]; exact h.1)
  unfold handleUserEvent
  rw [hb]
  exact ⟨by intro s; simp, h.1, h.2.1, by simp [hl, h.2.2.1], h.2.2.2⟩

theorem handleQuery_ok (cfg : Cfg) (d : Dec) (st : State) (q : Query) (h : WF cfg st) :
    (∀ s, (handleQuery d st q).2 ≠ .panic s) ∧ WF cfg (handleQuery d st q).1 := by
  obtain ⟨b', f, hb, hl⟩ := bufferStep_ok "site_Serf_handleQuery_div_LamportTime_len_s_queryBuffer"
    "site_Serf_handleQuery_index_s_queryBuffer_idx" st.queryBuf st.queryMin (max st.queryClock (q.ltime + 1)) q.ltime (by rw [h.2.2.2]; exact h.2.1)
  unfold handleQuery
  rw [hb]
  cases f with
  | false => exact ⟨by intro s; simp, h.1, h.2.1, h.2.2.1, h.2.2.2⟩
  | true =>
    obtain ⟨b, hsp⟩ := shouldProcess_ok d q.filters
    simp only [hsp]
    have wf' : WF cfg { st with queryBuf := b', queryClock := max st.queryClock (q.ltime + 1) } :=
      ⟨h.1, h.2.1, h.2.2.1, by simp [hl, h.2.2.2]⟩
    cases b with
    | false => exact ⟨by intro s; simp, wf'⟩
    | true =>
      have hi := internalQuery_ok d q
      cases hiq : internalQuery d q with
      | panic s => exact absurd hiq (hi s)
      | ok r => exact ⟨by intro s; simp, wf'⟩
      | ignored w => exact ⟨by intro s; simp, wf'⟩

theorem notifyMsg_ok (cfg : Cfg) (d : Dec) (st : State) (buf : List Nat) (h : WF cfg st) :
    (∀ s, (notifyMsg d st buf).2 ≠ .panic s) ∧ WF cfg (notifyMsg d st buf).1 := by
  unfold notifyMsg
  by_cases h0 : buf.length = 0
  · simp [h0, h]
  · have hpos : 0 < buf.length := C09_site_delegate_NotifyMsg_index_buf_0 buf.length h0
    have hs : 1 ≤ buf.length := by omega
    obtain ⟨t, ht⟩ := getElem0 buf hpos
    simp only [h0, if_false, ht, slice1_ok _ buf hs]
    split
    · cases d.leave (buf.drop 1) <;> simp [h]
    · split
      · cases d.join (buf.drop 1) <;> simp [h]
      · split
        · cases d.userEvent (buf.drop 1) with
          | none => simp [h]
          | some lt => exact handleUserEvent_ok cfg st lt h
        · split
          · cases d.query (buf.drop 1) with
            | none => simp [h]
            | some q => exact handleQuery_ok cfg d st q h
          · split
            · cases d.queryResponse (buf.drop 1) <;> simp [h]
            · split
              · cases d.relayHeader (buf.drop 1) <;> simp [h]
              · simp [h]

theorem mergeEvents_ok (cfg : Cfg) : ∀ (evs : List (Option (Nat × Nat))) (st : State), WF cfg st →
    (∀ s, (mergeEvents st evs).2 ≠ .panic s) ∧ WF cfg (mergeEvents st evs).1 := by
  intro evs
  induction evs with
  | nil => intro st h; exact ⟨by intro s; simp [mergeEvents], h⟩
  | cons e rest ih =>
    intro st h
    cases e with
    | none => simpa [mergeEvents] using ih st h   -- a nil slot is skipped, never dereferenced
    | some p =>
      obtain ⟨lt, n⟩ := p
      have hu := handleUserEvent_ok cfg st lt h
      unfold mergeEvents
      cases hr : handleUserEvent st lt with
      | mk st' o =>
        rw [hr] at hu
        cases o with
        | panic s => exact absurd rfl (hu.1 s)
        | ok r => simpa using ih st' hu.2
        | ignored w => simpa using ih st' hu.2

theorem mergeRemoteState_ok (cfg : Cfg) (d : Dec) (st : State) (buf : List Nat) (h : WF cfg st) :
    (∀ s, (mergeRemoteState d st buf).2 ≠ .panic s) ∧ WF cfg (mergeRemoteState d st buf).1 := by
  unfold mergeRemoteState
  by_cases h0 : buf.length = 0
  · simp [h0, h]
  · have hpos : 0 < buf.length := C09_site_delegate_MergeRemoteState_index_buf_0 buf.length h0
    have hs : 1 ≤ buf.length := by omega
    obtain ⟨t, ht⟩ := getElem0 buf hpos
    simp only [h0, if_false, ht]
    by_cases t2 : t = 2
    · simp only [t2, ne_eq, not_true_eq_false, if_false, slice1_ok _ buf hs]
      cases d.pushPull (buf.drop 1) with
      | none => simp [h]
      | some pp => exact mergeEvents_ok cfg pp.events st h
    · simp [t2, h]

/-- **C09, headline.** For every configuration with positive buffer sizes, every decoder, every
well-formed state and every input (any byte string at either entry point) the handler skeleton does
not reach a panic site, and the state stays well-formed. -/
theorem C09_handle_never_panics (cfg : Cfg) (d : Dec) (st : State) (inp : Input) (h : WF cfg st) :
    (∀ s, (handle cfg d st inp).2 ≠ .panic s) ∧ WF cfg (handle cfg d st inp).1 := by
  cases inp with
  | msg b => exact notifyMsg_ok cfg d st b h
  | merge b => exact mergeRemoteState_ok cfg d st b h

/-- … hence no sequence of network inputs, of any length, makes the node panic. -/
theorem C09_run_never_panics (cfg : Cfg) (d : Dec) : ∀ (inps : List Input) (st : State), WF cfg st →
    ∀ s, (run cfg d st inps).2 ≠ .panic s := by
  intro inps
  induction inps with
  | nil => intro st _ s; simp [run]
  | cons i rest ih =>
    intro st h s
    have hh := C09_handle_never_panics cfg d st i h
    unfold run
    cases hr : handle cfg d st i with
    | mk st' o =>
      rw [hr] at hh
      cases o with
      | panic s' => exact absurd rfl (hh.1 s')
      | ok r => simpa using ih st' hh.2 s
      | ignored w => simpa using ih st' hh.2 s

-- non-vacuity: the hypothesis is satisfiable, and the skeleton does real work on a concrete input
example : WF defaultCfg initState := by unfold WF; decide
example : (handle defaultCfg rejectAll initState (.msg [])).2 = .ignored "empty" := by decide
example : (handle defaultCfg rejectAll initState (.merge [2, 0x90])).2 = .ignored "push/pull does not decode" := by decide

/-- the buffer-size precondition is what the modulo site needs: on an empty buffer the de-dup step
reaches the division (a configuration error, not a network input; in the real callers the clock has
already witnessed the message time, so the "too old" test fires first even then). -/
theorem C09_zero_buffer_counterexample :
    (match bufferStep "div" "idx" [] 0 0 5 with | .panic s => s | .val _ => "no panic") = "div" := by decide

/-- regression witnesses for the two repaired defects, on the model WITHOUT the guards: an empty
filter entry reaches `filter[0]`, an empty key payload reaches `Payload[1:]`. -/
theorem C09_empty_filter_unguarded_witness : ([] : List Nat)[0]? = none := rfl
theorem C09_empty_payload_unguarded_witness : slice1 "site" [] = .panic "site" := rfl

end SerfProofs.C09
