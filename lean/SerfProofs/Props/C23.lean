/-
C23 — Cluster key operations aggregate replies faithfully and replies fit.

Model: `SerfModel.KeyAgg` (serf/keymanager.go `streamKeyResp`, `handleKeyRequest`;
serf/internal_query.go `keyListResponseWithCorrectSize`).

Aggregation: `rs` is the list of replies the response channel delivers (any list:
well-formed, failed, wrong type byte, undecodable, more than `numNodes`).
`used numNodes rs` are the replies the loop consumes: the first `numNodes` (the
loop returns when `NumResp = NumNodes`), all of them if `numNodes = 0`.

Truncation: the encoded size is ANY function `size` of (number of keys shown,
truncation notice); `limit` and the number of keys `actual` are arbitrary.
-/
import SerfProofs.Lemmas.KeyAgg
namespace SerfProofs.C23
open SerfModel SerfModel.KeyAgg SerfProofs.KeyAgg

/-- **Aggregation.** Number of replies, failures (= failed + undecodable + wrong
type), per-key holder counts and per-primary-key counts are exactly the folds over
the consumed replies. -/
theorem C23_aggregate (numNodes : Nat) (rs : List NR) :
    (streamKeyResp numNodes rs).numNodes = numNodes ∧
    (streamKeyResp numNodes rs).numResp = (used numNodes rs).length ∧
    (streamKeyResp numNodes rs).numErr = (used numNodes rs).countP failed ∧
    (∀ k, cnt (streamKeyResp numNodes rs).keys k = ((used numNodes rs).map (holds k)).sum) ∧
    (∀ k, cnt (streamKeyResp numNodes rs).primary k = (used numNodes rs).countP (primaryIs k)) := by
  rw [streamKeyResp_eq]
  obtain ⟨h1, h2, h3, h4, h5⟩ := fold_facts (used numNodes rs) { numNodes := numNodes }
  refine ⟨h1, by simpa using h2, by simpa using h3, ?_, ?_⟩
  · intro k; have := h4 k; simpa [cnt] using this
  · intro k; have := h5 k; simpa [cnt] using this

/-- With at least one member, the consumed replies are the first `numNodes`. -/
theorem C23_used (numNodes : Nat) (rs : List NR) (h : 0 < numNodes) : used numNodes rs = rs.take numNodes := by
  have : numNodes ≠ 0 := by omega
  simp [used, this]

/-- A node holding key `k` once and replying well-formed is counted once: if no reply
lists a key twice, `keys k` is the NUMBER OF REPLIES that list `k`. -/
theorem C23_keys_count_nodes (numNodes : Nat) (rs : List NR) (k : String)
    (hnd : ∀ r ∈ used numNodes rs, holds k r ≤ 1) :
    cnt (streamKeyResp numNodes rs).keys k = (used numNodes rs).countP (fun r => holds k r == 1) := by
  rw [(C23_aggregate numNodes rs).2.2.2.1 k]
  generalize used numNodes rs = l at hnd
  induction l with
  | nil => rfl
  | cons r l ih =>
    have h1 := hnd r (List.mem_cons_self)
    have ih' := ih (fun x hx => hnd x (List.mem_cons_of_mem _ hx))
    simp only [List.map_cons, List.sum_cons, List.countP_cons, ih']
    by_cases h : holds k r = 1
    · simp [h]; omega
    · have : holds k r = 0 := by omega
      simp [this]

/-- **Error exactly when** some consumed reply failed or the number of replies
consumed differs from the number of members. -/
theorem C23_error_iff (numNodes : Nat) (rs : List NR) :
    (keyRequestError (streamKeyResp numNodes rs)).isSome ↔
      (∃ r ∈ used numNodes rs, failed r = true) ∨ (used numNodes rs).length ≠ numNodes := by
  obtain ⟨h1, h2, h3, _, _⟩ := C23_aggregate numNodes rs
  unfold keyRequestError
  rw [h1, h2, h3]
  have hc : (used numNodes rs).countP failed ≠ 0 ↔ ∃ r ∈ used numNodes rs, failed r = true := by
    rw [← Nat.pos_iff_ne_zero]; exact List.countP_pos_iff
  by_cases he : (used numNodes rs).countP failed = 0
  · have hn : ¬ ∃ r ∈ used numNodes rs, failed r = true := by
      intro h; exact (hc.mpr h) he
    by_cases hl : (used numNodes rs).length = numNodes
    · simp [he, hl, hn]
    · simp [he, hl]
  · have hy := hc.mp he
    simp [he, hy]

/-- … in terms of the replies: with `numNodes > 0` members, an error is returned
exactly when one of the first `numNodes` replies failed or fewer than `numNodes`
replies arrived before the query closed. -/
theorem C23_error_iff_replies (numNodes : Nat) (rs : List NR) (h : 0 < numNodes) :
    (keyRequestError (streamKeyResp numNodes rs)).isSome ↔
      (∃ r ∈ rs.take numNodes, failed r = true) ∨ rs.length < numNodes := by
  rw [C23_error_iff, C23_used numNodes rs h, List.length_take]
  constructor
  · rintro (h1 | h2)
    · exact Or.inl h1
    · exact Or.inr (by omega)
  · rintro (h1 | h2)
    · exact Or.inl h1
    · exact Or.inr (by omega)

/-! ### truncation -/

/-- **The loop returns the first attempt that fits**, where the attempts are exactly
`tried limit actual`: the untruncated list, then the prefixes of length
`M = min (limit/25) actual` down to 1, each announcing its own length. -/
theorem C23_truncate_first_fit (size : SizeFn) (limit actual : Nat) :
    keyListResponse size limit actual =
      match (tried limit actual).find? (fits size limit) with
      | some p => .ok (size p.1 p.2) p.1 p.2
      | none => .error := by
  unfold keyListResponse tried
  rw [klLoop_eq]
  rfl

theorem mem_tried {limit actual : Nat} {p : Nat × Notice} (h : p ∈ tried limit actual) :
    p = (actual, none) ∨ (1 ≤ p.1 ∧ p.1 ≤ maxListKeys limit actual ∧ p.2 = some p.1) := by
  unfold tried at h
  rcases List.mem_cons.mp h with h | h
  · exact Or.inl h
  · obtain ⟨j, hj, rfl⟩ := List.mem_map.mp h
    have : j < maxListKeys limit actual := by simpa using hj
    exact Or.inr ⟨by simp, by simp; omega, rfl⟩

/-- **A reply that is sent fits, shows a prefix, and says so when it truncated**;
if nothing is sent, nothing that was tried fits. -/
theorem C23_truncate (size : SizeFn) (limit actual : Nat) :
    match keyListResponse size limit actual with
    | .ok rawLen shown notice =>
        rawLen = size shown notice ∧ rawLen ≤ limit ∧ shown ≤ actual ∧
        (shown < actual → notice = some shown) ∧ (notice = none → shown = actual) ∧
        (shown, notice) ∈ tried limit actual
    | .error => ∀ p ∈ tried limit actual, limit < size p.1 p.2 := by
  rw [C23_truncate_first_fit]
  cases hf : (tried limit actual).find? (fits size limit) with
  | none =>
    simp only
    intro p hp
    have := List.find?_eq_none.mp hf p hp
    simpa [fits] using this
  | some p =>
    simp only
    have hfit := List.find?_some hf
    have hmem := List.mem_of_find?_eq_some hf
    have hle : size p.1 p.2 ≤ limit := by simpa [fits] using hfit
    refine ⟨trivial, hle, ?_, ?_, ?_, hmem⟩
    · rcases mem_tried hmem with h | ⟨_, h2, _⟩
      · rw [h]; exact Nat.le_refl _
      · have : maxListKeys limit actual ≤ actual := by unfold maxListKeys; omega
        omega
    · intro hlt
      rcases mem_tried hmem with h | ⟨_, _, h3⟩
      · rw [h] at hlt; simp at hlt
      · exact h3
    · intro hn
      rcases mem_tried hmem with h | ⟨_, _, h3⟩
      · rw [h]
      · rw [hn] at h3; cases h3

/-- The keys shown are a prefix of the node's keys. -/
theorem C23_prefix (keys : List String) (shown : Nat) : keys.take shown <+: keys :=
  List.take_prefix shown keys

/-- **When one key fits, a reply is sent** (the response size limit being at least
the 25 bytes the code assumes per key). -/
theorem C23_one_key_fits (size : SizeFn) (limit actual : Nat)
    (hk : 1 ≤ actual) (hl : 25 ≤ limit) (h1 : size 1 (some 1) ≤ limit) :
    ∃ rawLen shown notice, keyListResponse size limit actual = .ok rawLen shown notice := by
  rw [C23_truncate_first_fit]
  have hM : 1 ≤ maxListKeys limit actual := by
    unfold maxListKeys minEncodedKeyLength
    have : 1 ≤ limit / 25 := by omega
    omega
  have hmem : ((1 : Nat), (some 1 : Notice)) ∈ tried limit actual := by
    unfold tried
    refine List.mem_cons_of_mem _ (List.mem_map.mpr ⟨0, ?_, rfl⟩)
    simp; omega
  cases hf : (tried limit actual).find? (fits size limit) with
  | some p => exact ⟨_, _, _, rfl⟩
  | none =>
    have := List.find?_eq_none.mp hf _ hmem
    simp [fits] at this
    omega

/-- Same, with the code's own assumption about sizes instead of `25 ≤ limit`: every
key costs at least 25 bytes. -/
theorem C23_one_key_fits_sized (size : SizeFn) (limit actual : Nat)
    (hsz : ∀ n notice, 25 * n ≤ size n notice)
    (hk : 1 ≤ actual) (h1 : size 1 (some 1) ≤ limit) :
    ∃ rawLen shown notice, keyListResponse size limit actual = .ok rawLen shown notice :=
  C23_one_key_fits size limit actual hk (by have := hsz 1 (some 1); omega) h1

-- Non-vacuity.  Aggregation: 3 members; an ok reply, a failed one, an undecodable one, and a 4th that is not consumed.
private def okR (s : String) (keys : List String) (p : String) : NR := ⟨s, .decoded ⟨true, "", keys, p⟩⟩
private def r4 : KeyResponse :=
  streamKeyResp 3 [okR "a" ["k1", "k2"] "k1", ⟨"b", .decoded ⟨false, "boom", [], ""⟩⟩, ⟨"c", .undecodable⟩, okR "d" ["k1"] "k1"]
example : r4.numResp = 3 ∧ r4.numErr = 2 ∧ cnt r4.keys "k1" = 1 ∧ cnt r4.keys "k2" = 1 ∧ cnt r4.primary "k1" = 1 ∧
    cnt r4.primary "" = 1 ∧ keyRequestError r4 = some (.failures 2 3) := by decide
example : keyRequestError (streamKeyResp 2 [okR "a" ["k"] "k"]) = some (.missing 1 2) := by decide
example : keyRequestError (streamKeyResp 2 [okR "a" ["k"] "k", okR "b" ["k"] "k"]) = none := by decide
-- Truncation: 40 bytes per key + 30 of envelope (+20 for a notice), limit 200, 10 keys: 200/25 = 8 attempts after the full one.
private def sz : SizeFn := fun n notice => 30 + 40 * n + (if notice.isSome then 20 else 0)
example : keyListResponse sz 200 10 = .ok 170 3 (some 3) := by decide
example : keyListResponse sz 200 4 = .ok 190 4 none := by decide
example : keyListResponse sz 60 4 = .error := by decide
example : (tried 200 10).length = 9 := by decide

end SerfProofs.C23
