/-
C23 — Cluster key operations aggregate replies faithfully and replies fit.

Model: `SerfModel.KeyAgg` (serf/keymanager.go `streamKeyResp`, `handleKeyRequest`;
serf/internal_query.go `keyListResponseWithCorrectSize`).

Aggregation: `rs` is the list of replies the response channel delivers (any list:
well-formed, failed, wrong type byte, undecodable, more than `numNodes`).
`used numNodes rs` are the replies the loop consumes: the first `numNodes` (the
loop returns when `NumResp = NumNodes`), all of them if `numNodes = 0`.

Truncation: the encoded size is ANY function `size` of (number of keys shown,
truncation notice); `limit` and the number of keys `actual` are arbitrary.
-/
import SerfProofs.Lemmas.KeyAgg
import SerfModel.Gen.KeyStream
namespace SerfProofs.C23
open SerfModel SerfModel.KeyAgg SerfProofs.KeyAgg

/-- **Aggregation.** Number of replies, failures (= failed + undecodable + wrong
type), per-key holder counts and per-primary-key counts are exactly the folds over
the consumed replies. -/
theorem C23_aggregate (numNodes : Nat) (rs : List NR) :
    (streamKeyResp numNodes rs).numNodes = numNodes ∧
    (streamKeyResp numNodes rs).numResp = (used numNodes rs).length ∧
    (streamKeyResp numNodes rs).numErr = (used numNodes rs).countP failed ∧
    (∀ k, cnt (streamKeyResp numNodes rs).keys k = ((used numNodes rs).map (holds k)).sum) ∧
    (∀ k, cnt (streamKeyResp numNodes rs).primary k = (used numNodes rs).countP (primaryIs k)) := by
  rw [streamKeyResp_eq]
  obtain ⟨h1, h2, h3, h4, h5⟩ := fold_facts (used numNodes rs) { numNodes := numNodes }
  refine ⟨h1, by simpa using h2, by simpa using h3, ?_, ?_⟩
  · intro k; have := h4 k; simpa [cnt] using this
  · intro k; have := h5 k; simpa [cnt] using this

/-- **Messages.** For every sender, the `Messages` entry is what the LAST consumed reply of that sender that
writes a message wrote (a rejection notice, the message of a failed reply — also an empty one —, the non-empty
message of a successful reply), and there is no entry if none did. -/
theorem C23_messages (numNodes : Nat) (rs : List NR) (s : String) :
    alookup (streamKeyResp numNodes rs).messages s = lastMsg (used numNodes rs) s := by
  rw [streamKeyResp_eq, fold_messages]
  simp

/-- … in particular every failed consumed reply leaves an entry for its sender. -/
theorem C23_failed_has_message (numNodes : Nat) (rs : List NR) (r : NR)
    (hr : r ∈ used numNodes rs) (hf : failed r = true) :
    (alookup (streamKeyResp numNodes rs).messages r.sender).isSome = true := by
  rw [C23_messages]
  unfold lastMsg
  have hm : (msgOf r).isSome = true := by
    unfold failed at hf; unfold msgOf
    cases hp : r.payload with
    | badType => rfl
    | undecodable => rfl
    | decoded n => simp [hp] at hf; simp [hf]
  obtain ⟨m, hm'⟩ := Option.isSome_iff_exists.mp hm
  have hmem : m ∈ ((used numNodes rs).filter (·.sender == r.sender)).filterMap msgOf :=
    List.mem_filterMap.mpr ⟨r, List.mem_filter.mpr ⟨hr, by simp⟩, hm'⟩
  cases hl : (((used numNodes rs).filter (·.sender == r.sender)).filterMap msgOf).getLast? with
  | some x => rfl
  | none =>
    rw [List.getLast?_eq_none_iff] at hl
    rw [hl] at hmem; simp at hmem

/-- With at least one member, the consumed replies are the first `numNodes`. -/
theorem C23_used (numNodes : Nat) (rs : List NR) (h : 0 < numNodes) : used numNodes rs = rs.take numNodes := by
  have : numNodes ≠ 0 := by omega
  simp [used, this]

/-- A node holding key `k` once and replying well-formed is counted once: if no reply
lists a key twice, `keys k` is the NUMBER OF REPLIES that list `k`. -/
theorem C23_keys_count_nodes (numNodes : Nat) (rs : List NR) (k : String)
    (hnd : ∀ r ∈ used numNodes rs, holds k r ≤ 1) :
    cnt (streamKeyResp numNodes rs).keys k = (used numNodes rs).countP (fun r => holds k r == 1) := by
  rw [(C23_aggregate numNodes rs).2.2.2.1 k]
  generalize used numNodes rs = l at hnd
  induction l with
  | nil => rfl
  | cons r l ih =>
    have h1 := hnd r (List.mem_cons_self)
    have ih' := ih (fun x hx => hnd x (List.mem_cons_of_mem _ hx))
    simp only [List.map_cons, List.sum_cons, List.countP_cons, ih']
    by_cases h : holds k r = 1
    · simp [h]; omega
    · have : holds k r = 0 := by omega
      simp [this]

/-- **Error exactly when** some consumed reply failed or the number of replies
consumed differs from the number of members. -/
theorem C23_error_iff (numNodes : Nat) (rs : List NR) :
    (keyRequestError (streamKeyResp numNodes rs)).isSome ↔
      (∃ r ∈ used numNodes rs, failed r = true) ∨ (used numNodes rs).length ≠ numNodes := by
  obtain ⟨h1, h2, h3, _, _⟩ := C23_aggregate numNodes rs
  unfold keyRequestError
  rw [h1, h2, h3]
  have hc : (used numNodes rs).countP failed ≠ 0 ↔ ∃ r ∈ used numNodes rs, failed r = true := by
    rw [← Nat.pos_iff_ne_zero]; exact List.countP_pos_iff
  by_cases he : (used numNodes rs).countP failed = 0
  · have hn : ¬ ∃ r ∈ used numNodes rs, failed r = true := by
      intro h; exact (hc.mpr h) he
    by_cases hl : (used numNodes rs).length = numNodes
    · simp [he, hl, hn]
    · simp [he, hl]
  · have hy := hc.mp he
    simp [he, hy]

/-- … in terms of the replies: with `numNodes > 0` members, an error is returned
exactly when one of the first `numNodes` replies failed or fewer than `numNodes`
replies arrived before the query closed. -/
theorem C23_error_iff_replies (numNodes : Nat) (rs : List NR) (h : 0 < numNodes) :
    (keyRequestError (streamKeyResp numNodes rs)).isSome ↔
      (∃ r ∈ rs.take numNodes, failed r = true) ∨ rs.length < numNodes := by
  rw [C23_error_iff, C23_used numNodes rs h, List.length_take]
  constructor
  · rintro (h1 | h2)
    · exact Or.inl h1
    · exact Or.inr (by omega)
  · rintro (h1 | h2)
    · exact Or.inl h1
    · exact Or.inr (by omega)

/-- With no member at all (`numNodes = 0`, not reachable: the node itself is a member) the loop never returns
early, every reply is consumed, and any reply is one too many. -/
theorem C23_error_iff_zero_members (rs : List NR) :
    (keyRequestError (streamKeyResp 0 rs)).isSome ↔ (∃ r ∈ rs, failed r = true) ∨ rs ≠ [] := by
  rw [C23_error_iff]
  simp [used, List.length_eq_zero_iff]

/-- The hypothesis of `C23_keys_count_nodes` is needed: a single reply listing a key twice counts it twice
(the code does `resp.Keys[key]++` per listing, not per node). -/
theorem C23_key_listed_twice_counterexample :
    cnt (streamKeyResp 1 [⟨"a", .decoded ⟨true, "", ["k", "k"], "k"⟩⟩]).keys "k" = 2 := by decide

/-! ### Tie to the source (regenerated on every run) -/

/-- **The receive loop as it is in the source**: a FRESH `var nodeResponse` per reply, `NumResp++` first
and unconditional, the type check and the decode each counting an error on rejection, then the effects,
then the early return when `NumResp == NumNodes`; the type byte is the model's. -/
theorem C23_stream_shape_gen :
    Gen.KeyStream.shape.asModelled = true ∧ Gen.KeyStream.responseType = keyResponseType.toNat := by decide

/-- **When each effect of a decoded reply happens** (path conditions regenerated from the nested ifs):
`NumErr++` for EVERY reply with `Result = false` — whether or not it carries a message —, a message
entry for failed replies and for successful ones with a non-empty message, the keys and the primary key
always. -/
theorem C23_effect_guards_gen (n : NodeKeyResp) :
    Gen.KeyStream.errGuard n = !n.result ∧
    Gen.KeyStream.msgGuard n = (!n.result || (n.result && decide (n.message.length > 0))) ∧
    Gen.KeyStream.keysGuard n = true ∧ Gen.KeyStream.primaryGuard n = true := by
  -- by cases on the two facts the guards can depend on, so that any equivalent way of writing the ifs
  -- (flipped condition with swapped branches, else-if, merged or split tests) still proves
  obtain ⟨res, msg, ks, p⟩ := n
  cases res <;> by_cases hm : msg.length > 0 <;>
    simp [Gen.KeyStream.errGuard, Gen.KeyStream.msgGuard, Gen.KeyStream.keysGuard, Gen.KeyStream.primaryGuard, hm]

/-- … hence the transcribed loop body is the source's. -/
theorem C23_step_gen (resp : KeyResponse) (r : NR) :
    stepOneG Gen.KeyStream.errGuard Gen.KeyStream.msgGuard Gen.KeyStream.keysGuard Gen.KeyStream.primaryGuard resp r =
      stepOne resp r := by
  unfold stepOneG stepOne
  cases r.payload with
  | badType => rfl
  | undecodable => rfl
  | decoded n =>
    obtain ⟨h1, h2, h3, h4⟩ := C23_effect_guards_gen n
    simp only [h1, h2, h3, h4]
    cases hr : n.result <;> by_cases hm : n.message.length > 0 <;> simp [hr, hm]

/-- The error checks of `handleKeyRequest` as written: first `NumErr != 0`, then `NumResp != NumNodes`
(the order `keyRequestError` transcribes), with `NumNodes` taken from memberlist before the replies are read. -/
theorem C23_error_checks_gen :
    Gen.KeyStream.errorChecks = [("resp.NumErr != 0", "failure"), ("resp.NumResp != resp.NumNodes", "missing")] ∧
    Gen.KeyStream.numNodesSource = "k.serf.memberlist.NumMembers()" := by decide

/-- Regression witness: with `NumErr++` only under a non-empty message (guard
`len(Message) > 0 && !Result`), a node that fails WITHOUT a message is not counted and the operation
reports success. -/
theorem C23_silent_failure_counterexample :
    let step := stepOneG (fun n => decide (n.message.length > 0) && !n.result) (fun n => decide (n.message.length > 0))
                  (fun _ => true) (fun _ => true)
    keyRequestError (step { numNodes := 1 } ⟨"a", .decoded ⟨false, "", [], ""⟩⟩) = none ∧
    keyRequestError (stepOne { numNodes := 1 } ⟨"a", .decoded ⟨false, "", [], ""⟩⟩) = some (.failures 1 1) := by
  decide

theorem streamRawLoop_fresh (dec : DecoderInto) (rs : List (String × Bytes)) :
    ∀ (resp : KeyResponse) (var : NodeKeyResp),
      streamRawLoop true dec resp var rs =
        streamLoop resp (rs.map fun sp => ⟨sp.1, (classifyInto dec zeroResp sp.2).1⟩) := by
  induction rs with
  | nil => intro resp var; rfl
  | cons sp rs ih =>
    intro resp var
    obtain ⟨sender, p⟩ := sp
    simp only [streamRawLoop, List.map_cons, streamLoop, if_true]
    split
    · rfl
    · exact ih _ _

/-- **Each reply is decoded on its own**: with the decode target declared inside the loop (as the source
has it) the loop over raw payloads and a stateful decoder is `streamKeyResp` over the replies classified
from a ZERO value — a reply that omits fields gets zero values, never the previous reply's; all the
aggregation theorems above therefore apply to raw reply streams. -/
theorem C23_fresh_target (dec : DecoderInto) (numNodes : Nat) (rs : List (String × Bytes)) :
    streamKeyRespRaw true dec numNodes rs =
      streamKeyResp numNodes (rs.map fun sp => ⟨sp.1, (classifyInto dec zeroResp sp.2).1⟩) :=
  streamRawLoop_fresh dec rs _ _

/-- A msgpack-like stateful decoder: byte 1 = error; byte 2 = the full reply {Result:true, Keys:[k], PrimaryKey:k};
byte 3 = the minimal reply {Result:true} (other fields keep what the target held). -/
def keepDec : DecoderInto := fun prev b =>
  match b with
  | 1 :: _ => none
  | 2 :: _ => some ⟨true, "", ["k"], "k"⟩
  | 3 :: _ => some { prev with result := true }
  | _ => some prev

example : cnt (streamKeyRespRaw true keepDec 2 [("a", [8, 2]), ("b", [8, 3])]).keys "k" = 1 := by decide

/-- Regression witness (the hoisted `var nodeResponse`): the minimal reply of node b inherits node a's keys and
primary key: key `k` is reported on 2 nodes although only one holds it. -/
theorem C23_reused_target_counterexample :
    cnt (streamKeyRespRaw false keepDec 2 [("a", [8, 2]), ("b", [8, 3])]).keys "k" = 2 ∧
    cnt (streamKeyRespRaw false keepDec 2 [("a", [8, 2]), ("b", [8, 3])]).primary "k" = 2 ∧
    cnt (streamKeyRespRaw true keepDec 2 [("a", [8, 2]), ("b", [8, 3])]).primary "k" = 1 := by
  decide

/-! ### truncation -/

/-- **The loop returns the first attempt that fits**, where the attempts are exactly
`tried limit actual`: the untruncated list, then the prefixes of length
`M = min (limit/25) actual` down to 1, each announcing its own length. -/
theorem C23_truncate_first_fit (size : SizeFn) (limit actual : Nat) :
    keyListResponse size limit actual =
      match (tried limit actual).find? (fits size limit) with
      | some p => .ok (size p.1 p.2) p.1 p.2
      | none => .error := by
  unfold keyListResponse tried
  rw [klLoop_eq]
  rfl

theorem mem_tried {limit actual : Nat} {p : Nat × Notice} (h : p ∈ tried limit actual) :
    p = (actual, none) ∨ (1 ≤ p.1 ∧ p.1 ≤ maxListKeys limit actual ∧ p.2 = some p.1) := by
  unfold tried at h
  rcases List.mem_cons.mp h with h | h
  · exact Or.inl h
  · obtain ⟨j, hj, rfl⟩ := List.mem_map.mp h
    have : j < maxListKeys limit actual := by simpa using hj
    exact Or.inr ⟨by simp, by simp; omega, rfl⟩

/-- **A reply that is sent fits, shows a prefix, and says so when it truncated**;
if nothing is sent, nothing that was tried fits. -/
theorem C23_truncate (size : SizeFn) (limit actual : Nat) :
    match keyListResponse size limit actual with
    | .ok rawLen shown notice =>
        rawLen = size shown notice ∧ rawLen ≤ limit ∧ shown ≤ actual ∧
        (shown < actual → notice = some shown) ∧ (notice = none → shown = actual) ∧
        (shown, notice) ∈ tried limit actual
    | .error => ∀ p ∈ tried limit actual, limit < size p.1 p.2 := by
  rw [C23_truncate_first_fit]
  cases hf : (tried limit actual).find? (fits size limit) with
  | none =>
    simp only
    intro p hp
    have := List.find?_eq_none.mp hf p hp
    simpa [fits] using this
  | some p =>
    simp only
    have hfit := List.find?_some hf
    have hmem := List.mem_of_find?_eq_some hf
    have hle : size p.1 p.2 ≤ limit := by simpa [fits] using hfit
    refine ⟨trivial, hle, ?_, ?_, ?_, hmem⟩
    · rcases mem_tried hmem with h | ⟨_, h2, _⟩
      · rw [h]; exact Nat.le_refl _
      · have : maxListKeys limit actual ≤ actual := by unfold maxListKeys; omega
        omega
    · intro hlt
      rcases mem_tried hmem with h | ⟨_, _, h3⟩
      · rw [h] at hlt; simp at hlt
      · exact h3
    · intro hn
      rcases mem_tried hmem with h | ⟨_, _, h3⟩
      · rw [h]
      · rw [hn] at h3; cases h3

/-- The keys shown are a prefix of the node's keys. -/
theorem C23_prefix (keys : List String) (shown : Nat) : keys.take shown <+: keys :=
  List.take_prefix shown keys

/-- **When one key fits, a reply is sent** (the response size limit being at least
the 25 bytes the code assumes per key). -/
theorem C23_one_key_fits (size : SizeFn) (limit actual : Nat)
    (hk : 1 ≤ actual) (hl : 25 ≤ limit) (h1 : size 1 (some 1) ≤ limit) :
    ∃ rawLen shown notice, keyListResponse size limit actual = .ok rawLen shown notice := by
  rw [C23_truncate_first_fit]
  have hM : 1 ≤ maxListKeys limit actual := by
    unfold maxListKeys minEncodedKeyLength
    have : 1 ≤ limit / 25 := by omega
    omega
  have hmem : ((1 : Nat), (some 1 : Notice)) ∈ tried limit actual := by
    unfold tried
    refine List.mem_cons_of_mem _ (List.mem_map.mpr ⟨0, ?_, rfl⟩)
    simp; omega
  cases hf : (tried limit actual).find? (fits size limit) with
  | some p => exact ⟨_, _, _, rfl⟩
  | none =>
    have := List.find?_eq_none.mp hf _ hmem
    simp [fits] at this
    omega

/-- The hypothesis `25 ≤ limit` of `C23_one_key_fits` is needed: with limit 24 the loop tries only the untruncated
list (`24/25 = 0` prefixes), so two 10-byte keys that do not fit together yield no reply although one would fit. -/
theorem C23_small_limit_counterexample :
    keyListResponse (fun n _ => 4 + 10 * n) 20 2 = .error ∧ (fun (n : Nat) (_ : Notice) => 4 + 10 * n) 1 (some 1) ≤ 20 := by
  decide

/-- Same, with the code's own assumption about sizes instead of `25 ≤ limit`: every
key costs at least 25 bytes. -/
theorem C23_one_key_fits_sized (size : SizeFn) (limit actual : Nat)
    (hsz : ∀ n notice, 25 * n ≤ size n notice)
    (hk : 1 ≤ actual) (h1 : size 1 (some 1) ≤ limit) :
    ∃ rawLen shown notice, keyListResponse size limit actual = .ok rawLen shown notice :=
  C23_one_key_fits size limit actual hk (by have := hsz 1 (some 1); omega) h1

-- Non-vacuity.  Aggregation: 3 members; an ok reply, a failed one, an undecodable one, and a 4th that is not consumed.
private def okR (s : String) (keys : List String) (p : String) : NR := ⟨s, .decoded ⟨true, "", keys, p⟩⟩
private def r4 : KeyResponse :=
  streamKeyResp 3 [okR "a" ["k1", "k2"] "k1", ⟨"b", .decoded ⟨false, "boom", [], ""⟩⟩, ⟨"c", .undecodable⟩, okR "d" ["k1"] "k1"]
example : r4.numResp = 3 ∧ r4.numErr = 2 ∧ cnt r4.keys "k1" = 1 ∧ cnt r4.keys "k2" = 1 ∧ cnt r4.primary "k1" = 1 ∧
    cnt r4.primary "" = 1 ∧ keyRequestError r4 = some (.failures 2 3) := by decide
example : alookup r4.messages "b" = some (.text "boom") ∧ alookup r4.messages "c" = some .decodeFailed ∧
    alookup r4.messages "a" = none ∧ alookup r4.messages "d" = none := by decide
example : keyRequestError (streamKeyResp 2 [okR "a" ["k"] "k"]) = some (.missing 1 2) := by decide
example : keyRequestError (streamKeyResp 2 [okR "a" ["k"] "k", okR "b" ["k"] "k"]) = none := by decide
-- Truncation: 40 bytes per key + 30 of envelope (+20 for a notice), limit 200, 10 keys: 200/25 = 8 attempts after the full one.
private def sz : SizeFn := fun n notice => 30 + 40 * n + (if notice.isSome then 20 else 0)
example : keyListResponse sz 200 10 = .ok 170 3 (some 3) := by decide
example : keyListResponse sz 200 4 = .ok 190 4 none := by decide
example : keyListResponse sz 60 4 = .error := by decide
example : (tried 200 10).length = 9 := by decide

end SerfProofs.C23
