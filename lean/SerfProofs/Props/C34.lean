/-
C34 — Serf lifecycle state only moves forward.

The `stateLock` regions of Leave / Shutdown / Join are regenerated from
serf/serf.go (`SerfModel.Gen.Lifecycle`); concurrent calls interleave at region
granularity (`SerfModel.Lifecycle.step`).  Per-region facts are finite and decided
by `decide` over the generated programs; they are lifted to every schedule by
induction.
-/
import SerfModel.Model.Lifecycle
import SerfModel.Gen.Lifecycle
namespace SerfProofs.C34
open SerfModel.Lifecycle

abbrev P : Progs := SerfModel.Gen.Lifecycle.progs

def allRegions (p : Progs) : List Region := p.leave ++ p.shutdown ++ p.join

theorem St.mem_all (s : St) : s ∈ St.all := by cases s <;> decide

/-- Source-tied obligation: no region of the current tree ever lowers the state. -/
theorem C34_regions_forward :
    ∀ r ∈ allRegions P, ∀ s ∈ St.all, s.rank ≤ (execRegion r s).1.rank := by decide

theorem region_forward (r : Region) (hr : r ∈ allRegions P) (s : St) : s.rank ≤ (execRegion r s).1.rank :=
  C34_regions_forward r hr s (St.mem_all s)

/-- Every in-progress call holds a suffix of its program. -/
def ThrOK (th : Thr) : Prop := ∀ c rs, th.cur = some (c, rs) → rs <:+ P.of c

theorem suffix_mem_all {c : Call} {r : Region} {rest : List Region} (h : (r :: rest) <:+ P.of c) : r ∈ allRegions P := by
  have : r ∈ P.of c := h.subset (List.mem_cons_self)
  cases c <;> simp only [allRegions, List.mem_append] <;> simp_all [Progs.of]

structure Inv (s : Sys) : Prop where
  thr : ∀ th ∈ s.threads, ThrOK th
  sorted : s.history.Pairwise (fun a b => a.rank ≤ b.rank)
  last : s.history.getLast? = some s.state

theorem Inv.init (progs : List (List Call)) : Inv (Sys.init progs) := by
  refine ⟨?_, by simp [Sys.init], by simp [Sys.init]⟩
  intro th hth
  simp [Sys.init] at hth
  obtain ⟨p, _, rfl⟩ := hth
  intro c rs h; simp at h

theorem step_inv (s : Sys) (t : Nat) (h : Inv s) : Inv (step P s t) ∧ s.state.rank ≤ (step P s t).state.rank := by
  unfold step
  cases hth : s.threads[t]? with
  | none => exact ⟨h, Nat.le_refl _⟩
  | some th =>
    have hok := h.thr th (List.mem_of_getElem? hth)
    simp only
    cases hcur : th.cur with
    | none =>
      cases htodo : th.todo with
      | nil => exact ⟨h, Nat.le_refl _⟩
      | cons c rest =>
        refine ⟨⟨?_, h.sorted, h.last⟩, Nat.le_refl _⟩
        intro th' hth'
        rcases List.mem_or_eq_of_mem_set hth' with hm | rfl
        · exact h.thr th' hm
        · intro c' rs' he; simp at he; obtain ⟨rfl, rfl⟩ := he; exact List.suffix_refl _
    | some cr =>
      obtain ⟨c, rs⟩ := cr
      cases rs with
      | nil =>
        refine ⟨⟨?_, h.sorted, h.last⟩, Nat.le_refl _⟩
        intro th' hth'
        rcases List.mem_or_eq_of_mem_set hth' with hm | rfl
        · exact h.thr th' hm
        · intro c' rs' he; simp at he
      | cons r rest =>
        have hsuf := hok c (r :: rest) hcur
        have hfw := region_forward r (suffix_mem_all hsuf) s.state
        simp only
        refine ⟨⟨?_, ?_, by simp⟩, hfw⟩
        · intro th' hth'
          rcases List.mem_or_eq_of_mem_set hth' with hm | rfl
          · exact h.thr th' hm
          · intro c' rs' he
            cases hres : (execRegion r s.state).2 with
            | some x => simp [hres] at he
            | none =>
              simp [hres] at he
              obtain ⟨rfl, rfl⟩ := he
              exact List.IsSuffix.trans (List.suffix_cons _ _) hsuf
        · rw [List.pairwise_append]
          refine ⟨h.sorted, by simp, ?_⟩
          intro a ha b hb
          simp at hb; subst hb
          -- a ≤ last = state ≤ new state
          have hlast := h.last
          have : a.rank ≤ s.state.rank := by
            rcases List.getLast?_eq_some_iff.mp hlast with ⟨ys, hys⟩
            rw [hys] at ha
            have hs := h.sorted
            rw [hys, List.pairwise_append] at hs
            rcases List.mem_append.mp ha with ha | ha
            · exact hs.2.2 a ha s.state (by simp)
            · simp at ha; subst ha; exact Nat.le_refl _
          exact Nat.le_trans this hfw

theorem run_inv (sched : List Nat) : ∀ s, Inv s → Inv (run P s sched) ∧ s.state.rank ≤ (run P s sched).state.rank := by
  induction sched with
  | nil => intro s h; exact ⟨h, Nat.le_refl _⟩
  | cons t rest ih =>
    intro s h
    obtain ⟨h1, h2⟩ := step_inv s t h
    obtain ⟨h3, h4⟩ := ih _ h1
    exact ⟨h3, Nat.le_trans h2 h4⟩

/-- **The reported state only moves forward**: for every set of concurrent callers
and every schedule, the sequence of values the state has had is ordered
alive ≤ leaving ≤ left ≤ shutdown. -/
theorem C34_forward (progs : List (List Call)) (sched : List Nat) :
    (run P (Sys.init progs) sched).history.Pairwise (fun a b => a.rank ≤ b.rank) :=
  (run_inv sched _ (Inv.init progs)).1.sorted

/-- … and in particular between any two points of a schedule. -/
theorem C34_forward_between (progs : List (List Call)) (s1 s2 : List Nat) :
    (run P (Sys.init progs) s1).state.rank ≤ (run P (Sys.init progs) (s1 ++ s2)).state.rank := by
  have h1 := (run_inv s1 _ (Inv.init progs)).1
  have : run P (Sys.init progs) (s1 ++ s2) = run P (run P (Sys.init progs) s1) s2 := by simp [run, List.foldl_append]
  rw [this]
  exact (run_inv s2 _ h1).2

/-- **Repeated shutdown succeeds without effect.** -/
theorem C34_shutdown_idempotent : callSeq P .shutdown .shutdown = (.shutdown, .ok) := by decide

/-- **A leave after a completed leave succeeds without effect.** -/
theorem C34_leave_after_left : callSeq P .left .leave = (.left, .ok) := by decide

/-- Shutdown from any state ends in `shutdown`; Leave from alive ends in `left`
(when not overtaken), sequentially. -/
theorem C34_shutdown_reaches : ∀ s ∈ St.all, callSeq P s .shutdown = (.shutdown, .ok) := by decide
theorem C34_leave_from_alive : callSeq P .alive .leave = (.left, .ok) := by decide

/-- **A join is refused whenever a leave or shutdown has begun**: the region of
`Join` executed in any state other than `alive` returns the error, and (by
`C34_forward_between`) the state never returns to `alive`. -/
theorem C34_join_refused_region : ∀ s ∈ St.all, s ≠ .alive → P.join.map (fun r => execRegion r s) = [(s, some .err)] := by
  decide

/-- The first region of `Leave` and the region of `Shutdown` leave `alive` behind
unless they return at once: this is what "has begun" means. -/
theorem C34_begun_not_alive :
    (execRegion (P.leave.headD []) .alive).1 ≠ .alive ∧ (execRegion (P.shutdown.headD []) .alive).1 ≠ .alive := by decide

/-- Thread `t` has no join in progress that already passed its state test. -/
def NoPassedJoin (th : Thr) : Prop := ∀ rs, th.cur = some (.join, rs) → rs = P.join

/-- **Join refused, over every schedule.** If at some point the state is no longer
`alive` and thread `t` has no join past its state test, every join of `t` completed
later is refused. -/
theorem C34_join_refused (s : Sys) (hinv : Inv s) (hst : s.state ≠ .alive) (t : Nat) (th0 : Thr)
    (ht : s.threads[t]? = some th0) (hnp : NoPassedJoin th0) (sched : List Nat) :
    ∃ th, (run P s sched).threads[t]? = some th ∧ NoPassedJoin th ∧
      ∃ new, th.results = th0.results ++ new ∧ ∀ x ∈ new, x.1 = .join → x.2 = .err := by
  induction sched generalizing s th0 with
  | nil => exact ⟨th0, ht, hnp, [], by simp, by simp⟩
  | cons u rest ih =>
    obtain ⟨hinv', hrank⟩ := step_inv s u hinv
    have hst' : (step P s u).state ≠ .alive := by
      intro e
      have : s.state.rank = 0 := by have := hrank; rw [e] at this; simp [St.rank] at this; exact this
      cases hs : s.state <;> simp_all [St.rank]
    -- what happens to thread t in this step
    have key : ∃ th1, (step P s u).threads[t]? = some th1 ∧ NoPassedJoin th1 ∧
        ∃ new, th1.results = th0.results ++ new ∧ ∀ x ∈ new, x.1 = .join → x.2 = .err := by
      unfold step
      cases hth : s.threads[u]? with
      | none => exact ⟨th0, by simpa [hth] using ht, hnp, [], by simp, by simp⟩
      | some thu =>
        by_cases hut : u = t
        · subst hut
          have : thu = th0 := by rw [ht] at hth; exact (Option.some.inj hth).symm
          subst this
          have hlen : u < s.threads.length := (List.getElem?_eq_some_iff.mp ht).1
          simp only
          cases hcur : thu.cur with
          | none =>
            cases htodo : thu.todo with
            | nil => exact ⟨thu, by simpa using ht, hnp, [], by simp, by simp⟩
            | cons c rest' =>
              refine ⟨{ thu with cur := some (c, P.of c), todo := rest' }, by simp [List.getElem?_set_self hlen], ?_, [], by simp, by simp⟩
              intro rs he; simp at he; obtain ⟨rfl, rfl⟩ := he; rfl
          | some cr =>
            obtain ⟨c, rs⟩ := cr
            cases rs with
            | nil =>
              refine ⟨{ thu with cur := none, results := thu.results ++ [(c, .ok)] }, by simp [List.getElem?_set_self hlen], by intro rs he; simp at he, [(c, .ok)], by simp, ?_⟩
              intro x hx hj
              simp at hx; subst hx
              simp at hj; subst hj
              have := hnp [] hcur
              simp [P, SerfModel.Gen.Lifecycle.progs, SerfModel.Gen.Lifecycle.join] at this
            | cons r rest' =>
              simp only
              cases hres : (execRegion r s.state).2 with
              | none =>
                refine ⟨{ thu with cur := some (c, rest') }, by simp [hres, List.getElem?_set_self hlen], ?_, [], by simp, by simp⟩
                intro rs he
                simp at he
                obtain ⟨rfl, rfl⟩ := he
                -- a join whose region did not return: impossible when the state is not alive
                have hj := hnp _ hcur
                have hall := C34_join_refused_region s.state (St.mem_all _) hst
                rw [← hj] at hall
                simp at hall
                rw [hall.1] at hres
                simp at hres
              | some x =>
                refine ⟨{ thu with cur := none, results := thu.results ++ [(c, x)] }, by simp [hres, List.getElem?_set_self hlen], by intro rs he; simp at he, [(c, x)], by simp, ?_⟩
                intro y hy hj
                simp at hy; subst hy
                simp at hj; subst hj
                have hjp := hnp _ hcur
                have hall := C34_join_refused_region s.state (St.mem_all _) hst
                rw [← hjp] at hall
                simp at hall
                rw [hall.1] at hres
                simp at hres
                exact hres.symm
        · -- another thread moved: t is untouched
          have hset : ∀ (l : List Thr) (x : Thr), (l.set u x)[t]? = l[t]? := fun l x => List.getElem?_set_ne hut
          simp only
          cases hcur : thu.cur with
          | none =>
            cases htodo : thu.todo with
            | nil => exact ⟨th0, by simpa using ht, hnp, [], by simp, by simp⟩
            | cons c rest' => exact ⟨th0, by simp [hset, ht], hnp, [], by simp, by simp⟩
          | some cr =>
            obtain ⟨c, rs⟩ := cr
            cases rs with
            | nil => exact ⟨th0, by simp [hset, ht], hnp, [], by simp, by simp⟩
            | cons r rest' => exact ⟨th0, by simp [hset, ht], hnp, [], by simp, by simp⟩
    obtain ⟨th1, h1, hnp1, new1, hr1, hn1⟩ := key
    obtain ⟨th, h2, hnp2, new2, hr2, hn2⟩ := ih (step P s u) hinv' hst' th1 h1 hnp1
    refine ⟨th, by simpa [run] using h2, hnp2, new1 ++ new2, by rw [hr2, hr1]; simp, ?_⟩
    intro x hx
    rcases List.mem_append.mp hx with hx | hx
    · exact hn1 x hx
    · exact hn2 x hx

-- Non-vacuity: a concurrent leave / shutdown / join run.
example : (run P (Sys.init [[.leave], [.shutdown], [.join]]) [0, 0, 1, 1, 1, 2, 2, 0, 0]).history
    = [.alive, .leaving, .shutdown, .shutdown, .shutdown] := by decide
example : (run P (Sys.init [[.leave], [.shutdown], [.join]]) [0, 0, 1, 1, 1, 2, 2, 0, 0]).threads.map (·.results)
    = [[(.leave, .ok)], [(.shutdown, .ok)], [(.join, .err)]] := by decide

/-- **A lifecycle call examines (and for Leave / Shutdown changes) the state before anything that can block.**
Regenerated from the source: `Leave`, `Shutdown` and `Join` have no statement in front of their first state
region, so the region of a call is executed at the moment the call begins — which is what "a join is refused if a
leave or shutdown had begun before it was called" rests on (a lock taken first, e.g. `joinLock` in `Leave`, would
let a later `Join` pass its test while the leave is still waiting). -/
theorem C34_state_examined_first :
    SerfModel.Gen.Lifecycle.leavePreamble = [] ∧ SerfModel.Gen.Lifecycle.shutdownPreamble = [] ∧
    SerfModel.Gen.Lifecycle.joinPreamble = [] := by decide

end SerfProofs.C34
