/-
C10 — Restart from a snapshot restores the rejoin set and clocks exactly.

Model: `SerfModel.Snapshot` (serf/snapshot.go).
-/
import SerfProofs.Lemmas.SnapshotLines
namespace SerfProofs.C10
open SerfModel SerfModel.Snapshot SerfProofs.Snapshot

/-- **Line print/parse round trip**: every line the snapshotter writes is read back
as itself by `replay`, provided the member name has no newline, the address has no
space and no newline (true of every `net.TCPAddr.String()`), and times are uint64. -/
theorem C10_line_roundtrip (l : Line) (h : WFLine l) : parseLine (printBody l) = some l :=
  parseLine_printBody l h

example : WFLine (.alive "node c: alive: #x ".toList "[2001:db8::1]:7946".toList) := by decide

theorem C10_replay_fold_from (rj : Bool) (ls : List Line) (hls : ∀ l ∈ ls, WFLine l) :
    ∀ x : Bytes, endsNL x = true →
      replay rj (x ++ ls.flatMap printLine) = ls.foldl (applyLine rj) (replay rj x) := by
  induction ls with
  | nil => intro x _; simp
  | cons l ls ih =>
    intro x hx
    have hl := hls l (List.mem_cons_self)
    have hx' : endsNL (x ++ printLine l) = true := endsNL_append _ _ hx (endsNL_printLine l)
    simp only [List.flatMap_cons, List.foldl_cons]
    rw [← List.append_assoc, ih (fun m hm => hls m (List.mem_cons_of_mem _ hm)) _ hx', replay_append_line rj x l hx hl]

/-- **Replay of printed lines is the fold of their effects.** -/
theorem C10_replay_is_fold (rj : Bool) (ls : List Line) (hls : ∀ l ∈ ls, WFLine l) :
    replay rj (ls.flatMap printLine) = ls.foldl (applyLine rj) {} := by
  have := C10_replay_fold_from rj ls hls [] rfl
  simpa [replay, splitLines] using this

example : ∀ l ∈ [Line.alive ['a', ' ', 'b'] ['1', ':', '2'], .clock 7, .notAlive ['a', ' ', 'b'], .leave], WFLine l := by decide

end SerfProofs.C10
