/-
C10 — Restart from a snapshot restores the rejoin set and clocks exactly.

Model: `SerfModel.Snapshot` (serf/snapshot.go): line printer, `replay` parser, the
snapshotter's state, append / periodic flush / compaction with the file-system
operations they issue, a `bufio.Writer` model and a model file system.

`C10_restore_exact` is the property: for every history without a graceful leave,
every compaction threshold, every flush timing and every order the Go map iteration
may produce in `compact`, the state a restart recovers from the file the life left
behind is exactly the in-memory state at shutdown.  Its hypothesis `WFEv` (member
names without newline; addresses without space/newline — true of every
`net.TCPAddr.String()`; uint64 event times) is necessary for names: see
`C10_restore_exact_counterexample` (finding `name-with-newline`), hence the name
`…_partial` is NOT used for the clock/addr parts but the theorem is partial w.r.t.
"arbitrary member names": the full statement fails exactly for names containing '\n'.
-/
import SerfProofs.Lemmas.SnapshotRuns
namespace SerfProofs.C10
open SerfModel SerfModel.Snapshot SerfProofs.Snapshot

/-- **Line print/parse round trip**: every line the snapshotter writes is read back
as itself by `replay`, provided the member name has no newline, the address has no
space and no newline (true of every `net.TCPAddr.String()`), and times are uint64. -/
theorem C10_line_roundtrip (l : Line) (h : WFLine l) : parseLine (printBody l) = some l :=
  parseLine_printBody l h

example : WFLine (.alive ['n', ' ', 'c', ':', ' ', '#'] ['[', ':', ':', '1', ']', ':', '7']) := by decide

/-- **Replay of printed lines is the fold of their effects.** -/
theorem C10_replay_is_fold (rj : Bool) (ls : List Line) (hls : ∀ l ∈ ls, WFLine l) :
    replay rj (ls.flatMap printLine) = ls.foldl (applyLine rj) {} := by
  have := replay_fold_from rj ls hls [] rfl
  simpa [replay, splitLines] using this

example : ∀ l ∈ [Line.alive ['a', ' ', 'b'] ['1', ':', '2'], .clock 7, .notAlive ['a', ' ', 'b'], .leave], WFLine l := by decide

/-- **Appending a line preserves "replay(file ++ buffered) = memory"**: if the disk
holds `d`, the writer buffers `s.buf`, the state `s` is well formed and replaying
`d ++ s.buf` followed by the new line gives `s`'s memory, then after `appendLine` —
whatever it does: buffer, write through a full 4096-byte buffer, periodic flush,
compaction (any threshold `s.minCompact`, any map order) — replaying the new file
plus the new buffer gives the same memory. -/
theorem C10_append_preserves_partial (ord : Order) (hord : PermOrder ord) (s : Snap) (fs : FS) (d : Bytes) (ln : Line)
    (hd : fs.main = some d) (hnl : endsNL (d ++ s.buf) = true) (hwf : WFRec s.mem) (hln : WFLine ln)
    (hA : MapEq (applyLine s.rejoin (replay s.rejoin (d ++ s.buf)) ln).alive s.mem.alive)
    (hC : Judged s → ClocksEq (applyLine s.rejoin (replay s.rejoin (d ++ s.buf)) ln) s.mem) :
    Inv (appendLine ord s (printLine ln)).1 (fs.applyAll (appendLine ord s (printLine ln)).2) ∧
      SameMem s (appendLine ord s (printLine ln)).1 :=
  appendLine_inv ord hord s fs d ln hd hnl hwf hln hA hC

/-- **A compaction restores exactly**: from ANY well-formed in-memory state and any
previous file content, after `compact` the snapshot file replays to exactly the
in-memory alive map (as a map) and clocks, for every permutation the map iteration
may produce. -/
theorem C10_compact_restores_partial (ord : Order) (hord : PermOrder ord) (s : Snap) (fs : FS) (d : Bytes)
    (hd : fs.main = some d) (hwf : WFRec s.mem) :
    Inv (compact ord s).1 (fs.applyAll (compact ord s).2) ∧ SameMem s (compact ord s).1 :=
  compact_inv ord hord s fs d hd hwf

/-- **Flushing preserves the invariant** (leave and shutdown flush, then sync/close). -/
theorem C10_flush_preserves_partial (s : Snap) (fs : FS) (h : Inv s fs) (tail : List FsOp)
    (htail : ∀ g : FS, g.applyAll tail = g) :
    Inv { s with buf := [] } (fs.applyAll (flushOps .main s.buf ++ tail)) :=
  flush_inv s fs h tail htail

/-- non-vacuity: the fresh snapshotter satisfies the invariant -/
example : Inv (Snap.init false 0).1 (({} : FS).applyAll (Snap.init false 0).2) := by
  refine ⟨[], rfl, rfl, ⟨by decide, by simp [Snap.init, Snap.openOn, Snap.mem, replay, splitLines], by decide, by decide, by decide⟩, fun k => rfl, fun _ => ⟨rfl, rfl, rfl⟩⟩

/-- **C10, whole histories** (partial only in `WFEv`: names without newline). A fresh
snapshotter (`rj` = rejoin-after-leave, `mc` = minimum compaction size) lives through
`evs` (no leave), shuts down with the Lamport clock at `clk`; the restart then
recovers exactly the alive map (as a map: same address for every name, no duplicates)
and exactly the three clocks the node had in memory. -/
theorem C10_restore_exact_partial (ord : Order) (hord : PermOrder ord) (rj : Bool) (mc : Nat) (evs : List Ev) (clk : Nat)
    (hwf : ∀ e ∈ evs, WFEv e) (hnl : Ev.leave ∉ evs) :
    MapEq (recover rj (FS.applyAll {} (life ord rj mc {} evs clk).2)).alive (life ord rj mc {} evs clk).1.alive ∧
    (akeys (life ord rj mc {} evs clk).1.alive).Nodup ∧
    (recover rj (FS.applyAll {} (life ord rj mc {} evs clk).2)).clock = (life ord rj mc {} evs clk).1.lastClock ∧
    (recover rj (FS.applyAll {} (life ord rj mc {} evs clk).2)).eventClock = (life ord rj mc {} evs clk).1.lastEventClock ∧
    (recover rj (FS.applyAll {} (life ord rj mc {} evs clk).2)).queryClock = (life ord rj mc {} evs clk).1.lastQueryClock := by
  have key := restore_generic ord hord (Snap.init rj mc).1 _ (init_inv rj mc) (init_leaving rj mc) evs clk hwf hnl
  rw [init_rejoin] at key
  rw [life_fresh_fs, life_fresh_fst]
  exact key

/-- non-vacuity: a history with unusual names satisfies the hypotheses -/
example : (∀ e ∈ [Ev.join [(['a', ' ', 'b', ':'], ['1', ':', '2'])] 5, .user 7, .gone [['#']] 9, .timePasses, .forceCompact], WFEv e) ∧
    Ev.leave ∉ [Ev.join [(['a', ' ', 'b', ':'], ['1', ':', '2'])] 5, .user 7, .gone [['#']] 9, .timePasses, .forceCompact] := by
  constructor
  · intro e he
    simp only [List.mem_cons, List.mem_nil_iff, or_false] at he
    rcases he with rfl | rfl | rfl | rfl | rfl <;> simp [WFEv, WFName, WFAddr, U64]
  · decide

/-- the identity order is a permutation oracle -/
example : PermOrder Order.id := fun _ m => List.Perm.refl m

/-- **A stale compaction temp file never matters after a whole life**: for every life (any events, any
threshold, any map order), whatever a failed compaction left in `<path>.compact` (`t`), the restart recovers
exactly what it recovers without that file — the snapshot file always exists at shutdown, and the start-up
recovery only looks at the temp file when the snapshot is missing. With `C10_restore_exact_partial` this gives
exact restoration in the presence of such a file. -/
theorem C10_stale_tmp_ignored (ord : Order) (hord : PermOrder ord) (rj : Bool) (mc : Nat) (evs : List Ev) (clk : Nat)
    (hwf : ∀ e ∈ evs, WFEv e) (t : Option Bytes) :
    recover rj { FS.applyAll {} (life ord rj mc {} evs clk).2 with tmp := t } =
      recover rj (FS.applyAll {} (life ord rj mc {} evs clk).2) := by
  have hr := run_inv ord hord evs (Snap.init rj mc).1 _ hwf (init_inv rj mc)
  obtain ⟨d, hd, _⟩ := (shutdown_inv ord hord _ _ clk hr.1).1
  have hmain : (FS.applyAll {} (life ord rj mc {} evs clk).2).main = some d := by
    rw [life_fresh_fs]; exact hd
  simp [recover, hmain]

/-- the one-event life of the finding: join of a member named "a\nb", shutdown -/
def cexLife : Snap × List FsOp :=
  life Order.id false 131072 {} [.join [(['a', '\n', 'b'], ['1', ':', '2'])] 1] 1

/-- **Finding `name-with-newline`** (confirmed on the real Snapshotter): a member
whose name contains a newline is in memory but is not recovered by a restart. -/
theorem C10_restore_exact_counterexample :
    cexLife.1.alive = [(['a', '\n', 'b'], ['1', ':', '2'])] ∧
    (recover false (FS.applyAll {} cexLife.2)).alive = [] := by decide

end SerfProofs.C10
