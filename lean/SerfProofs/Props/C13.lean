/-
C13 — A graceful leave is remembered across restarts.

Model: `SerfModel.Snapshot` (`step … .leave`, `applyLine … .leave`, `compact`).

FULL STATEMENTS (DESIGN 7 C13) — NOT PROVED as whole-history theorems yet:

  theorem C13_no_rejoin (ord) (mc) (pre post : List Ev) (clk) :
      (recover false (FS.applyAll {} (life ord false mc {} (pre ++ [.leave] ++ post) clk).2)).alive = []
  theorem C13_rejoin_set (ord) (hord) (mc) (pre post) (clk) : (∀ e ∈ pre ++ post, WFEv e) →
      MapEq (recover true (FS.applyAll {} (life ord true mc {} (pre ++ [.leave] ++ post) clk).2)).alive
            (run ord (Snap.init true mc).1 pre).1.alive

Proved below (the per-step facts the histories are made of):
  * `C13_leave_line_forgets_partial`  — with rejoin-after-leave off, a file that ends with the
    `leave` line replays to an empty rejoin set and zero clocks, whatever precedes it
    (any bytes, including ill-formed names), as long as it is newline-terminated —
    which every file the snapshotter writes is;
  * `C13_leave_line_ignored_partial`  — with rejoin-after-leave on, the `leave` line changes nothing;
  * `C13_leave_step_partial`          — the leave step preserves the invariant
    "replay(file ++ buffered).alive = memory.alive" where memory.alive is emptied (off) or kept (on);
  * `C13_clock_lines_keep_alive_partial` — lines appended after a leave (only `clock:` lines
    are) never change the replayed rejoin set;
  * compaction after the leave: `C10_compact_restores_partial` (the alive block written
    is the — empty or kept — in-memory map).
Missing: the induction over `pre`/`post` chaining them (see Props/C10.lean).
-/
import SerfProofs.Lemmas.SnapshotInv
namespace SerfProofs.C13
open SerfModel SerfModel.Snapshot SerfProofs.Snapshot

/-- rejoin-after-leave off: whatever was recorded before, after the `leave` line the
recovered rejoin set is empty and the clocks are zero. -/
theorem C13_leave_line_forgets_partial (x : Bytes) (hx : endsNL x = true) :
    replay false (x ++ printLine .leave) = {} := by
  rw [replay_append_line false x .leave hx trivial]; rfl

example : endsNL (printLine (.alive ['a'] ['1'])) = true := by decide

/-- rejoin-after-leave on: the `leave` line is ignored by replay. -/
theorem C13_leave_line_ignored_partial (x : Bytes) (hx : endsNL x = true) :
    replay true (x ++ printLine .leave) = replay true x := by
  rw [replay_append_line true x .leave hx trivial]; rfl

/-- a `clock:` line never changes the replayed rejoin set -/
theorem C13_clock_lines_keep_alive_partial (rj : Bool) (x : Bytes) (hx : endsNL x = true) (t : Nat) (ht : t < U64) :
    (replay rj (x ++ printLine (.clock t))).alive = (replay rj x).alive := by
  rw [replay_append_line rj x (.clock t) hx ht]; rfl

/-- **The leave step**: appending the `leave` line to a state whose memory alive map
has been emptied (rejoin off) or kept (rejoin on) re-establishes the invariant — also
when this append triggers a compaction (any threshold, any map order). -/
theorem C13_leave_step_partial (ord : Order) (hord : PermOrder ord) (s : Snap) (fs : FS) (d : Bytes)
    (hd : fs.main = some d) (hnl : endsNL (d ++ s.buf) = true) (hwf : WFRec s.mem)
    (hleaving : s.leaving = true)
    (hmem : MapEq (if s.rejoin then (replay s.rejoin (d ++ s.buf)).alive else []) s.mem.alive)
    (hclk : s.rejoin = true → ClocksEq (replay s.rejoin (d ++ s.buf)) s.mem) :
    Inv (appendLine ord s (printLine .leave)).1 (fs.applyAll (appendLine ord s (printLine .leave)).2) := by
  refine (appendLine_inv ord hord s fs d .leave hd hnl hwf trivial ?_ ?_).1
  · cases hr : s.rejoin
    · rw [hr] at hmem; simpa [applyLine] using hmem
    · rw [hr] at hmem; simpa [applyLine] using hmem
  · intro hj
    have hr : s.rejoin = true := by
      rcases hj with hj | hj
      · rw [hleaving] at hj; cases hj
      · exact hj
    have := hclk hr
    simp only [applyLine, hr, ↓reduceIte] at this ⊢
    exact this

/-- non-vacuity of `C13_leave_step_partial`'s hypotheses (fresh snapshotter that is told to leave) -/
example : let s : Snap := { leaving := true }
    endsNL (([] : Bytes) ++ s.buf) = true ∧ MapEq (if s.rejoin then (replay s.rejoin ([] ++ s.buf)).alive else []) s.mem.alive :=
  ⟨rfl, fun _ => rfl⟩

end SerfProofs.C13
