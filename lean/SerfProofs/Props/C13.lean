/-
C13 — A graceful leave is remembered across restarts.

Model: `SerfModel.Snapshot` (`step … .leave`, `applyLine … .leave`, `compact`).

`C13_no_rejoin_partial` / `C13_rejoin_set_partial`: for every history `pre`, a leave, every
history `post` (member/user/query events — ignored after the leave —, clock ticks, flush
timing, forced compactions, further leaves), every threshold and every map order:
after shutdown a restart recovers an EMPTY rejoin set when rejoin-after-leave is off,
and exactly the alive map the node had at the moment of the leave when it is on.
They are partial only in `WFEv` (member names without newline, see C10's finding
`name-with-newline`); for the rejoin-on case that hypothesis is necessary (the kept
alive block is written with the raw names); for the rejoin-off case it is believed
unnecessary (the `leave` line resets whatever precedes it — `C13_leave_line_forgets_partial`
holds for arbitrary bytes) but the whole-history proof below goes through the C10
invariant and therefore assumes it.
-/
import SerfProofs.Lemmas.SnapshotRuns
import SerfModel.Gen.SnapshotLeave
namespace SerfProofs.C13
open SerfModel SerfModel.Snapshot SerfProofs.Snapshot

/-- rejoin-after-leave off: whatever was recorded before, after the `leave` line the
recovered rejoin set is empty and the clocks are zero. -/
theorem C13_leave_line_forgets_partial (x : Bytes) (hx : endsNL x = true) :
    replay false (x ++ printLine .leave) = {} := by
  rw [replay_append_line false x .leave hx trivial]; rfl

example : endsNL (printLine (.alive ['a'] ['1'])) = true := by decide

/-- rejoin-after-leave on: the `leave` line is ignored by replay. -/
theorem C13_leave_line_ignored_partial (x : Bytes) (hx : endsNL x = true) :
    replay true (x ++ printLine .leave) = replay true x := by
  rw [replay_append_line true x .leave hx trivial]; rfl

/-- a `clock:` line never changes the replayed rejoin set -/
theorem C13_clock_lines_keep_alive_partial (rj : Bool) (x : Bytes) (hx : endsNL x = true) (t : Nat) (ht : t < U64) :
    (replay rj (x ++ printLine (.clock t))).alive = (replay rj x).alive := by
  rw [replay_append_line rj x (.clock t) hx ht]; rfl

/-- **The leave step**: appending the `leave` line to a state whose memory alive map
has been emptied (rejoin off) or kept (rejoin on) re-establishes the invariant — also
when this append triggers a compaction (any threshold, any map order). -/
theorem C13_leave_step_partial (ord : Order) (hord : PermOrder ord) (s : Snap) (fs : FS) (d : Bytes)
    (hd : fs.main = some d) (hnl : endsNL (d ++ s.buf) = true) (hwf : WFRec s.mem)
    (hleaving : s.leaving = true)
    (hmem : MapEq (if s.rejoin then (replay s.rejoin (d ++ s.buf)).alive else []) s.mem.alive)
    (hclk : s.rejoin = true → ClocksEq (replay s.rejoin (d ++ s.buf)) s.mem) :
    Inv (appendLine ord s (printLine .leave)).1 (fs.applyAll (appendLine ord s (printLine .leave)).2) := by
  refine (appendLine_inv ord hord s fs d .leave hd hnl hwf trivial ?_ ?_).1
  · cases hr : s.rejoin
    · rw [hr] at hmem; simpa [applyLine] using hmem
    · rw [hr] at hmem; simpa [applyLine] using hmem
  · intro hj
    have hr : s.rejoin = true := by
      rcases hj with hj | hj
      · rw [hleaving] at hj; cases hj
      · exact hj
    have := hclk hr
    simp only [applyLine, hr, ↓reduceIte] at this ⊢
    exact this

/-- non-vacuity of `C13_leave_step_partial`'s hypotheses (fresh snapshotter that is told to leave) -/
example : let s : Snap := { leaving := true }
    endsNL (([] : Bytes) ++ s.buf) = true ∧ MapEq (if s.rejoin then (replay s.rejoin ([] ++ s.buf)).alive else []) s.mem.alive :=
  ⟨rfl, fun _ => rfl⟩

/-- **rejoin-after-leave on**: the recovered rejoin set is the alive map at the moment of the leave. -/
theorem C13_rejoin_set_partial (ord : Order) (hord : PermOrder ord) (mc : Nat) (pre post : List Ev) (clk : Nat)
    (hwf : ∀ e ∈ pre ++ (Ev.leave :: post), WFEv e) :
    MapEq (recover true (FS.applyAll {} (life ord true mc {} (pre ++ (Ev.leave :: post)) clk).2)).alive
      (run ord (Snap.init true mc).1 pre).1.alive := by
  have key := leave_generic ord hord (Snap.init true mc).1 _ (init_inv true mc) pre post clk hwf
  rw [init_rejoin] at key
  rw [life_fresh_fs]
  exact key

/-- **rejoin-after-leave off**: nothing is re-joined, whatever happened before or after the leave. -/
theorem C13_no_rejoin_partial (ord : Order) (hord : PermOrder ord) (mc : Nat) (pre post : List Ev) (clk : Nat)
    (hwf : ∀ e ∈ pre ++ (Ev.leave :: post), WFEv e) :
    (recover false (FS.applyAll {} (life ord false mc {} (pre ++ (Ev.leave :: post)) clk).2)).alive = [] := by
  have key := leave_generic ord hord (Snap.init false mc).1 _ (init_inv false mc) pre post clk hwf
  rw [init_rejoin] at key
  rw [life_fresh_fs]
  exact eq_nil_of_alookup_none _ (fun k => key k)

/-- non-vacuity: events before and after the leave -/
example : ∀ e ∈ [Ev.join [(['a'], ['1', ':', '2'])] 5] ++ (Ev.leave :: [Ev.join [(['b'], ['3'])] 6, .clockTick 9, .forceCompact]), WFEv e := by
  intro e he
  simp only [List.cons_append, List.nil_append, List.mem_cons, List.mem_nil_iff, or_false] at he
  rcases he with rfl | rfl | rfl | rfl | rfl <;> simp [WFEv, WFName, WFAddr]

/-! ## The order of the leave branch (regenerated tie)

`step … .leave` clears the rejoin set BEFORE it appends the `leave` line: that append may
be the one that crosses the compaction threshold, and `compact` writes what the alive map
holds at that moment. `SerfModel.Gen.SnapshotLeave` is regenerated on every run from the
`case <-s.leaveCh:` branch of `Snapshotter.stream()` and from the hook `VerifSnap.Leave()`
that repeats this branch for the synchronous lives of the harness. -/

open SerfModel.Gen.SnapshotLeave in
/-- The source branch has the statement order the model's `step … .leave` assumes. -/
theorem C13_gen_leave_branch_order :
    streamLeaveKinds = ["leaving", "clear-unless-rejoin", "append-leave", "flush", "sync"] := by decide

open SerfModel.Gen.SnapshotLeave in
/-- The hook copy used by the synchronous lives is, statement by statement, the source branch. -/
theorem C13_gen_leave_hook_is_source :
    hookLeaveBody = streamLeaveBranch ∧ hookLeaveKinds = streamLeaveKinds := by decide

/-- The other order (append the `leave` line, THEN clear the rejoin set). -/
def leaveAppendFirst (ord : Order) (s : Snap) : Snap × List FsOp :=
  let r := appendLine ord { s with leaving := true } (printLine .leave)
  ({ r.1 with buf := [], alive := if s.rejoin then r.1.alive else [] }, r.2 ++ flushOps .main r.1.buf ++ [.sync .main])

def orderWitnessName : Name := List.replicate 250 'a'
def orderWitnessPre : List Ev := [.join [(orderWitnessName, ['1', ':', '2'])] 1]

/-- one join (262 bytes, threshold 262), the leave in the other order, shutdown -/
def orderWitnessLife : Snap × List FsOp :=
  let r0 := Snap.init false 262
  let r1 := run Order.id r0.1 orderWitnessPre
  let r2 := leaveAppendFirst Order.id r1.1
  let r3 := shutdown Order.id r2.1 1
  (r3.1, r0.2 ++ r1.2 ++ r2.2 ++ r3.2)

/-- The order is necessary: when the 6-byte `leave` line is the append that compacts, the
other order rewrites the file as alive lines + clocks, the marker is lost and a restart
re-joins; the order of the code (same history) recovers nothing. -/
theorem C13_leave_order_necessary :
    (recover false (FS.applyAll {} orderWitnessLife.2)).alive = [(orderWitnessName, ['1', ':', '2'])]
    ∧ (recover false (FS.applyAll {} (life Order.id false 262 {} (orderWitnessPre ++ [Ev.leave]) 1).2)).alive = [] := by
  decide +kernel

/-- **A stale compaction temp file is ignored while the snapshot exists**: whatever an earlier failed
compaction left in `<path>.compact` (`t`), a restart on a directory that still has the snapshot opens and
recovers exactly as if the temp file were not there — so the leave marker in the snapshot cannot be overridden
by an older compacted copy without it. -/
theorem C13_stale_tmp_ignored (rj : Bool) (mc : Nat) (fs : FS) (t : Option Bytes) (d : Bytes) (hd : fs.main = some d) :
    Snap.openOn rj mc { fs with tmp := t } = Snap.openOn rj mc fs ∧ recover rj { fs with tmp := t } = recover rj fs := by
  simp [Snap.openOn, recover, hd]

/-- **rejoin-after-leave off, with a stale temp file**: after ANY life containing a graceful leave, and whatever
a failed compaction may have left in `<path>.compact` (`t`), the restart re-joins nobody. -/
theorem C13_no_rejoin_stale_tmp_partial (ord : Order) (hord : PermOrder ord) (mc : Nat) (pre post : List Ev) (clk : Nat)
    (hwf : ∀ e ∈ pre ++ (Ev.leave :: post), WFEv e) (t : Option Bytes) :
    (recover false { FS.applyAll {} (life ord false mc {} (pre ++ (Ev.leave :: post)) clk).2 with tmp := t }).alive = [] := by
  have hr := run_inv ord hord (pre ++ (Ev.leave :: post)) (Snap.init false mc).1 _ hwf (init_inv false mc)
  obtain ⟨d, hd, _⟩ := (shutdown_inv ord hord _ _ clk hr.1).1
  have hmain : (FS.applyAll {} (life ord false mc {} (pre ++ (Ev.leave :: post)) clk).2).main = some d := by
    rw [life_fresh_fs]; exact hd
  rw [(C13_stale_tmp_ignored false mc _ t d hmain).2]
  exact C13_no_rejoin_partial ord hord mc pre post clk hwf

end SerfProofs.C13
