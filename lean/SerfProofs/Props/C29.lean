/-
C29 — Agent log lines are delivered completely and in order.

GatedWriter: interleaving semantics (`SerfModel.LogWriters.step`) parameterised by
the lock shapes regenerated from gated_writer.go (`SerfModel.Gen.AgentSync`).
logWriter: sequential ring-buffer model; every method runs under the mutex for
its whole body (regenerated lock shapes), so interleavings are op sequences.
-/
import SerfProofs.Lemmas.GatedWriter
import SerfProofs.Lemmas.LogWriter
import SerfModel.Gen.AgentSync
namespace SerfProofs.C29
open SerfModel SerfModel.LogWriters SerfProofs.GatedWriter SerfProofs.LogWriter

/-- Source-tied obligation: `Write` and `Flush` of the GatedWriter in the current
tree run entirely under the exclusive lock. -/
theorem C29_gated_skeleton : Good Gen.AgentSync.gated := by
  constructor <;> decide

/-- Source-tied obligation: the logWriter methods hold the mutex for their whole body. -/
theorem C29_logwriter_skeleton :
    Gen.AgentSync.logWrite.wholeBodyExclusive = true ∧ Gen.AgentSync.logRegister.wholeBodyExclusive = true ∧
    Gen.AgentSync.logDeregister.wholeBodyExclusive = true := by decide

/-- **Every line exactly once, pre-gate lines first.** For any number of concurrent
writers with any programs and every schedule: before the gate opens nothing has
reached the output and the buffer holds exactly the completed lines in completion
order; once it has opened the buffer is empty and the output is exactly the
completed lines in completion order. -/
theorem C29_gated_complete_ordered (sk : Skeleton) (hg : Good sk) (progs : List (List Op)) (sched : List Nat) :
    let s := run sk (Sys.init progs) sched
    (s.flush = false → s.out = [] ∧ s.buf = s.hist) ∧ (s.flush = true → s.buf = [] ∧ s.out = s.hist) :=
  (run_inv sk hg progs sched _ (Inv.init progs)).gate

theorem C29_gated_exactly_once (sk : Skeleton) (hg : Good sk) (progs : List (List Op)) (sched : List Nat) :
    let s := run sk (Sys.init progs) sched
    s.out ++ s.buf = s.hist := by
  intro s
  have h := C29_gated_complete_ordered sk hg progs sched
  cases hf : s.flush
  · obtain ⟨a, b⟩ := h.1 hf; rw [a, b]; rfl
  · obtain ⟨a, b⟩ := h.2 hf; rw [a, b]; simp [s]

/-- **Per-writer order and completeness**: the completion history restricted to a
writer is that writer's completed lines in program order, and completed plus
still-to-do lines are exactly the lines of its program. -/
theorem C29_gated_per_writer (sk : Skeleton) (hg : Good sk) (progs : List (List Op)) (sched : List Nat)
    (t : Nat) (th : Thr) (hth : (run sk (Sys.init progs) sched).threads[t]? = some th) :
    (run sk (Sys.init progs) sched).hist.filter (fun l => l.tid == t) = th.done ∧
    th.done ++ writesOf t th.todo = writesOf t (progs.getD t []) :=
  (run_inv sk hg progs sched _ (Inv.init progs)).perThread t th hth

/-- The theorem instantiated at the regenerated skeleton. -/
theorem C29_gated_current_tree (progs : List (List Op)) (sched : List Nat) :
    let s := run Gen.AgentSync.gated (Sys.init progs) sched
    s.out ++ s.buf = s.hist ∧ (s.flush = true → s.buf = []) :=
  ⟨C29_gated_exactly_once _ C29_gated_skeleton progs sched,
   fun h => ((C29_gated_complete_ordered _ C29_gated_skeleton progs sched).2 h).1⟩

/-- The lock shapes of the code before the repair (Write under RLock; Flush unlocks before replaying). -/
def oldSkeleton : Skeleton :=
  { write := { lockCall := "RLock", deferred := true, earlyUnlock := false },
    flush := { lockCall := "Lock", deferred := false, earlyUnlock := true } }

/-- Regression witness 1: under the old skeleton two writers lose a line. -/
theorem C29_old_skeleton_loses_line :
    let s := run oldSkeleton (Sys.init [[.write "a"], [.write "b"]]) [0, 1, 0, 1]
    s.hist.length = 2 ∧ (s.out ++ s.buf).length = 1 := by decide

/-- Regression witness 2: under the old skeleton a post-gate line overtakes buffered ones. -/
theorem C29_old_skeleton_overtakes :
    let s := run oldSkeleton (Sys.init [[.write "a", .write "b", .flush], [.write "late"]])
      [0, 0, 0, 0, 0, 1, 1, 0, 0, 0]
    s.out.map (·.text) = ["late", "a", "b"] := by decide

/-- **Monitor backlog.** A handler registered after the lines `pre` (any lines, empty
ones included since the repair of the ring's wrap detection) and followed by the
lines `post` has received exactly the last `min |pre| cap` lines of `pre`, oldest
first, then every later line once, in order. -/
theorem C29_monitor_backlog (cap : Nat) (hc : 0 < cap) (pre post : List String) (h : Nat) :
    alookup (writes ((writes (LW.new cap) pre).register h) post).handlers h
      = some (pre.drop (pre.length - cap) ++ post) := by
  have hi : RingInv cap (writes (LW.new cap) pre) ([] ++ pre) := ringInv_writes hc pre (RingInv.new cap hc)
  simp only [List.nil_append] at hi
  have hnoh : (writes (LW.new cap) pre).handlers = [] := by
    have := (handlers_writes pre (LW.new cap) 0 (by simp [LW.new]; exact hc))
    -- handlers of a new writer are empty and writes only map over them
    have hmap : ∀ (ls : List String) (w : LW), w.handlers = [] → (writes w ls).handlers = [] := by
      intro ls
      induction ls with
      | nil => intro w hw; simpa [writes] using hw
      | cons l ls ih =>
        intro w hw
        have : (w.write l).handlers = [] := by unfold LW.write; split <;> simp [hw]
        simpa [writes] using ih _ this
    exact hmap pre _ rfl
  have hreg : ((writes (LW.new cap) pre).register h).handlers = [(h, backlog (writes (LW.new cap) pre))] := by
    simp [LW.register, hnoh, backlog]
  have hlen : 0 < ((writes (LW.new cap) pre).register h).logs.length := by
    have : ((writes (LW.new cap) pre).register h).logs = (writes (LW.new cap) pre).logs := by
      simp [LW.register, hnoh]
    rw [this, hi.1]; exact hc
  rw [(handlers_writes post _ h hlen).1, hreg, backlog_eq hc hi]
  simp [alookup]

-- The former failing input (an empty line as oldest entry of a wrapped ring of 2) is now replayed in full.
example : alookup ((writes (LW.new 2) ["a", "", "b"]).register 1).handlers 1 = some ["", "b"] := by decide

-- A concrete instance (cap 3, five lines).
example : alookup (writes ((writes (LW.new 3) ["1", "2", "3", "4", "5"]).register 7) ["6"]).handlers 7
    = some ["3", "4", "5", "6"] := by decide

/-- **A monitor attaching while a line is logged.** `RegisterHandler` and `Write` each hold the writer's lock over
their whole body (`C29_logwriter_skeleton`, regenerated from the source), so a concurrent attach and write are
serialised.  In either order the handler ends with some suffix of the older lines followed by the new line: the
new line never overtakes a buffered one. -/
theorem C29_attach_race (cap : Nat) (hc : 0 < cap) (pre : List String) (t : String) (h : Nat) :
    (∃ k, alookup (((writes (LW.new cap) pre).register h).write t).handlers h = some (pre.drop k ++ [t])) ∧
    (∃ k, alookup (((writes (LW.new cap) pre).write t).register h).handlers h = some (pre.drop k ++ [t])) := by
  constructor
  · exact ⟨pre.length - cap, C29_monitor_backlog cap hc pre [t] h⟩
  · refine ⟨pre.length + 1 - cap, ?_⟩
    have hw : (writes (LW.new cap) pre).write t = writes (LW.new cap) (pre ++ [t]) := by
      simp [writes, List.foldl_append]
    have := C29_monitor_backlog cap hc (pre ++ [t]) [] h
    simp only [writes, List.foldl_nil] at this
    rw [hw]
    simp only [writes] at this ⊢
    rw [this]
    simp only [List.length_append, List.length_cons, List.length_nil, List.append_nil]
    rw [List.drop_append_of_le_length (by omega)]

-- attach race, concrete: ring of 2 holding three lines, "n" logged while monitor 1 attaches
example : alookup (((writes (LW.new 2) ["a", "b", "c"]).register 1).write "n").handlers 1 = some ["b", "c", "n"]
    ∧ alookup (((writes (LW.new 2) ["a", "b", "c"]).write "n").register 1).handlers 1 = some ["c", "n"] := by decide

/-! ### Any number of monitors, any history of writes, attaches and detaches

The ring-buffer writer refines the obvious specification: the specification remembers the whole log history
and, per attached monitor, the lines it has received. -/

inductive LOp where
  | write (l : String)
  | register (h : Nat)
  | deregister (h : Nat)
  deriving DecidableEq, Repr

def LW.apply (w : LW) : LOp → LW
  | .write l => w.write l
  | .register h => w.register h
  | .deregister h => w.deregister h

structure MonSpec where
  hist : List String := []
  mons : List (Nat × List String) := []
  deriving DecidableEq, Repr

/-- The specification: an attach hands over the last `cap` lines of the whole history (attaching twice is
a no-op), every later line is appended to every attached monitor, a detach forgets the monitor. -/
def MonSpec.apply (cap : Nat) (s : MonSpec) : LOp → MonSpec
  | .write l => { hist := s.hist ++ [l], mons := s.mons.map fun p => (p.1, p.2 ++ [l]) }
  | .register h => if (alookup s.mons h).isSome then s else
      { s with mons := s.mons ++ [(h, s.hist.drop (s.hist.length - cap))] }
  | .deregister h => { s with mons := aerase s.mons h }

theorem monitors_step (cap : Nat) (hc : 0 < cap) (w : LW) (s : MonSpec) (hi : RingInv cap w s.hist)
    (hh : w.handlers = s.mons) (op : LOp) :
    RingInv cap (LW.apply w op) (s.apply cap op).hist ∧ (LW.apply w op).handlers = (s.apply cap op).mons := by
  cases op with
  | write l =>
    refine ⟨ringInv_write hc hi l, ?_⟩
    have hne : w.logs.length ≠ 0 := by rw [hi.1]; omega
    simp [LW.apply, MonSpec.apply, LW.write, hne, hh]
  | register h =>
    have hb := backlog_eq hc hi
    unfold backlog at hb
    simp only [LW.apply, MonSpec.apply, LW.register, hh]
    by_cases hp : (alookup s.mons h).isSome
    · simp only [hp, ↓reduceIte]; exact ⟨hi, hh⟩
    · simp only [hp, Bool.false_eq_true, ↓reduceIte]
      refine ⟨?_, by rw [hb]⟩
      exact hi
  | deregister h =>
    simp only [LW.apply, MonSpec.apply, LW.deregister, hh]
    exact ⟨hi, trivial⟩

/-- **Refinement, every history.** For every ring size, every sequence of log writes, monitor attaches and
detaches (any number of monitors, attached at any time, re-attached after a detach): each monitor has received
exactly what the specification says — the last `min cap |history|` lines at its attach, oldest first, then every
later line exactly once in order, and nothing after its detach. -/
theorem C29_monitors_refine (cap : Nat) (hc : 0 < cap) (ops : List LOp) :
    (ops.foldl LW.apply (LW.new cap)).handlers = (ops.foldl (MonSpec.apply cap) {}).mons := by
  suffices ∀ (w : LW) (s : MonSpec), RingInv cap w s.hist → w.handlers = s.mons →
      (ops.foldl LW.apply w).handlers = (ops.foldl (MonSpec.apply cap) s).mons from
    this _ _ (RingInv.new cap hc) rfl
  induction ops with
  | nil => intro w s _ hh; simpa using hh
  | cons op ops ih =>
    intro w s hi hh
    obtain ⟨hi', hh'⟩ := monitors_step cap hc w s hi hh op
    exact ih _ _ hi' hh'

-- two monitors, ring of 2: monitor 1 attaches after "a","b","c", monitor 2 after "d"; monitor 1 detaches, "e" is logged
example : (([.write "a", .write "b", .write "c", .register 1, .write "d", .register 2, .deregister 1, .write "e"] : List LOp).foldl
    LW.apply (LW.new 2)).handlers = [(2, ["c", "d", "e"])] := by decide

end SerfProofs.C29
