/-
C29 — Agent log lines are delivered completely and in order.

GatedWriter: interleaving semantics (`SerfModel.LogWriters.step`) parameterised by
the lock shapes regenerated from gated_writer.go (`SerfModel.Gen.AgentSync`).
logWriter: sequential ring-buffer model; every method runs under the mutex for
its whole body (regenerated lock shapes), so interleavings are op sequences.
-/
import SerfProofs.Lemmas.GatedWriter
import SerfProofs.Lemmas.LogWriter
import SerfModel.Gen.AgentSync
namespace SerfProofs.C29
open SerfModel SerfModel.LogWriters SerfProofs.GatedWriter SerfProofs.LogWriter

/-- Source-tied obligation: `Write` and `Flush` of the GatedWriter in the current
tree run entirely under the exclusive lock. -/
theorem C29_gated_skeleton : Good Gen.AgentSync.gated := by
  constructor <;> decide

/-- Source-tied obligation: the logWriter methods hold the mutex for their whole body. -/
theorem C29_logwriter_skeleton :
    Gen.AgentSync.logWrite.wholeBodyExclusive = true ∧ Gen.AgentSync.logRegister.wholeBodyExclusive = true ∧
    Gen.AgentSync.logDeregister.wholeBodyExclusive = true := by decide

/-- **Every line exactly once, pre-gate lines first.** For any number of concurrent
writers with any programs and every schedule: before the gate opens nothing has
reached the output and the buffer holds exactly the completed lines in completion
order; once it has opened the buffer is empty and the output is exactly the
completed lines in completion order. -/
theorem C29_gated_complete_ordered (sk : Skeleton) (hg : Good sk) (progs : List (List Op)) (sched : List Nat) :
    let s := run sk (Sys.init progs) sched
    (s.flush = false → s.out = [] ∧ s.buf = s.hist) ∧ (s.flush = true → s.buf = [] ∧ s.out = s.hist) :=
  (run_inv sk hg progs sched _ (Inv.init progs)).gate

theorem C29_gated_exactly_once (sk : Skeleton) (hg : Good sk) (progs : List (List Op)) (sched : List Nat) :
    let s := run sk (Sys.init progs) sched
    s.out ++ s.buf = s.hist := by
  intro s
  have h := C29_gated_complete_ordered sk hg progs sched
  cases hf : s.flush
  · obtain ⟨a, b⟩ := h.1 hf; rw [a, b]; rfl
  · obtain ⟨a, b⟩ := h.2 hf; rw [a, b]; simp [s]

/-- **Per-writer order and completeness**: the completion history restricted to a
writer is that writer's completed lines in program order, and completed plus
still-to-do lines are exactly the lines of its program. -/
theorem C29_gated_per_writer (sk : Skeleton) (hg : Good sk) (progs : List (List Op)) (sched : List Nat)
    (t : Nat) (th : Thr) (hth : (run sk (Sys.init progs) sched).threads[t]? = some th) :
    (run sk (Sys.init progs) sched).hist.filter (fun l => l.tid == t) = th.done ∧
    th.done ++ writesOf t th.todo = writesOf t (progs.getD t []) :=
  (run_inv sk hg progs sched _ (Inv.init progs)).perThread t th hth

/-- The theorem instantiated at the regenerated skeleton. -/
theorem C29_gated_current_tree (progs : List (List Op)) (sched : List Nat) :
    let s := run Gen.AgentSync.gated (Sys.init progs) sched
    s.out ++ s.buf = s.hist ∧ (s.flush = true → s.buf = []) :=
  ⟨C29_gated_exactly_once _ C29_gated_skeleton progs sched,
   fun h => ((C29_gated_complete_ordered _ C29_gated_skeleton progs sched).2 h).1⟩

/-- The lock shapes of the code before the repair (Write under RLock; Flush unlocks before replaying). -/
def oldSkeleton : Skeleton :=
  { write := { lockCall := "RLock", deferred := true, earlyUnlock := false },
    flush := { lockCall := "Lock", deferred := false, earlyUnlock := true } }

/-- Regression witness 1: under the old skeleton two writers lose a line. -/
theorem C29_old_skeleton_loses_line :
    let s := run oldSkeleton (Sys.init [[.write "a"], [.write "b"]]) [0, 1, 0, 1]
    s.hist.length = 2 ∧ (s.out ++ s.buf).length = 1 := by decide

/-- Regression witness 2: under the old skeleton a post-gate line overtakes buffered ones. -/
theorem C29_old_skeleton_overtakes :
    let s := run oldSkeleton (Sys.init [[.write "a", .write "b", .flush], [.write "late"]])
      [0, 0, 0, 0, 0, 1, 1, 0, 0, 0]
    s.out.map (·.text) = ["late", "a", "b"] := by decide

/-- **Monitor backlog.** A handler registered after the lines `pre` (any lines, empty
ones included since the repair of the ring's wrap detection) and followed by the
lines `post` has received exactly the last `min |pre| cap` lines of `pre`, oldest
first, then every later line once, in order. -/
theorem C29_monitor_backlog (cap : Nat) (hc : 0 < cap) (pre post : List String) (h : Nat) :
    alookup (writes ((writes (LW.new cap) pre).register h) post).handlers h
      = some (pre.drop (pre.length - cap) ++ post) := by
  have hi : RingInv cap (writes (LW.new cap) pre) ([] ++ pre) := ringInv_writes hc pre (RingInv.new cap hc)
  simp only [List.nil_append] at hi
  have hnoh : (writes (LW.new cap) pre).handlers = [] := by
    have := (handlers_writes pre (LW.new cap) 0 (by simp [LW.new]; exact hc))
    -- handlers of a new writer are empty and writes only map over them
    have hmap : ∀ (ls : List String) (w : LW), w.handlers = [] → (writes w ls).handlers = [] := by
      intro ls
      induction ls with
      | nil => intro w hw; simpa [writes] using hw
      | cons l ls ih =>
        intro w hw
        have : (w.write l).handlers = [] := by unfold LW.write; split <;> simp [hw]
        simpa [writes] using ih _ this
    exact hmap pre _ rfl
  have hreg : ((writes (LW.new cap) pre).register h).handlers = [(h, backlog (writes (LW.new cap) pre))] := by
    simp [LW.register, hnoh, backlog]
  have hlen : 0 < ((writes (LW.new cap) pre).register h).logs.length := by
    have : ((writes (LW.new cap) pre).register h).logs = (writes (LW.new cap) pre).logs := by
      simp [LW.register, hnoh]
    rw [this, hi.1]; exact hc
  rw [(handlers_writes post _ h hlen).1, hreg, backlog_eq hc hi]
  simp [alookup]

-- The former failing input (an empty line as oldest entry of a wrapped ring of 2) is now replayed in full.
example : alookup ((writes (LW.new 2) ["a", "", "b"]).register 1).handlers 1 = some ["", "b"] := by decide

-- A concrete instance (cap 3, five lines).
example : alookup (writes ((writes (LW.new 3) ["1", "2", "3", "4", "5"]).register 7) ["6"]).handlers 7
    = some ["3", "4", "5", "6"] := by decide

/-- **A monitor attaching while a line is logged.** `RegisterHandler` and `Write` each hold the writer's lock over
their whole body (`C29_logwriter_skeleton`, regenerated from the source), so a concurrent attach and write are
serialised.  In either order the handler ends with some suffix of the older lines followed by the new line: the
new line never overtakes a buffered one. -/
theorem C29_attach_race (cap : Nat) (hc : 0 < cap) (pre : List String) (t : String) (h : Nat) :
    (∃ k, alookup (((writes (LW.new cap) pre).register h).write t).handlers h = some (pre.drop k ++ [t])) ∧
    (∃ k, alookup (((writes (LW.new cap) pre).write t).register h).handlers h = some (pre.drop k ++ [t])) := by
  constructor
  · exact ⟨pre.length - cap, C29_monitor_backlog cap hc pre [t] h⟩
  · refine ⟨pre.length + 1 - cap, ?_⟩
    have hw : (writes (LW.new cap) pre).write t = writes (LW.new cap) (pre ++ [t]) := by
      simp [writes, List.foldl_append]
    have := C29_monitor_backlog cap hc (pre ++ [t]) [] h
    simp only [writes, List.foldl_nil] at this
    rw [hw]
    simp only [writes] at this ⊢
    rw [this]
    simp only [List.length_append, List.length_cons, List.length_nil, List.append_nil]
    rw [List.drop_append_of_le_length (by omega)]

-- attach race, concrete: ring of 2 holding three lines, "n" logged while monitor 1 attaches
example : alookup (((writes (LW.new 2) ["a", "b", "c"]).register 1).write "n").handlers 1 = some ["b", "c", "n"]
    ∧ alookup (((writes (LW.new 2) ["a", "b", "c"]).write "n").register 1).handlers 1 = some ["c", "n"] := by decide

end SerfProofs.C29
