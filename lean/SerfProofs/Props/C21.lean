/-
C21 — Round-trip time estimates follow the documented formula.

Model: `distanceTo` / `distSeconds` / `distanceNs` of SerfModel/Model/Coord.lean (coordinate/coordinate.go:123-143).
`SerfModel.Gen.CoordFormula.code` and `.docs` are REGENERATED on every check from coordinate/coordinate.go and from
the Go example in docs/internals/coordinates.html.markdown; the theorems below tie both to the model, so a drift
between the code, the documentation and the model breaks the build.

What is proved and what is not:
* formula (any arithmetic), dimension error, docs = code on the seconds value: FULL strength;
* non-negativity: PARTIAL — holds unless the int64 conversion overflows (`C21_nonneg_partial`); with the property's
  own quantifier ("any adjustments") the overflow is reachable: `C21_nonneg_counterexample` (recorded finding);
* symmetry: exact in exact arithmetic (`C21_symm_exact`), the Euclidean part bit-exact under rounding
  (`C21_symm_euclid`); the 1 ns bound under rounding is NOT proved (`C21_symm_rounding_partial` is the exact-arithmetic
  statement) — it is validated by the correspondence check against an exact rational evaluation, for
  adjustments up to 10^6 s; beyond that it is false for doubles (recorded finding, found by the monitor);
* the documented example converts with `time.Duration(rtt) * time.Second`, i.e. truncates to whole seconds:
  `C21_docs_conversion_eq_code` (the documentation was repaired; `C21_docs_conversion_old_counterexample` is the regression witness).
-/
import SerfProofs.Lemmas.Coord
import SerfProofs.Lemmas.ERatLaws
import SerfModel.Gen.CoordFormula
namespace SerfProofs.C21
open SerfModel SerfModel.Coord FloatLike
open SerfModel.Gen.CoordFormula (code docs)

variable {F : Type} [FloatLike F]

/-! ## 1. the formula -/

/-- the documented formula, spelled out: Euclidean norm of the difference plus both heights, plus both adjustments
when that is positive -/
def documented (a b : Coordinate F) : F :=
  let d := add (add (sqrt ((diffv a.vec b.vec).foldl (fun s x => add s (mul x x)) zero)) a.height) b.height
  let adj := add (add d a.adjustment) b.adjustment
  if lt zero adj then adj else d

/-- **C21 (formula).** For coordinates of equal dimension `DistanceTo` is the documented formula, converted with
`time.Duration(seconds * 1e9)` — in any arithmetic. -/
theorem C21_formula (a b : Coordinate F) (h : a.vec.length = b.vec.length) :
    distanceTo a b = .ok (toInt64 (mul (documented a b) nanos)) := by
  have hc : (!isCompatibleWith a b) = false := by simp [isCompatibleWith, h]
  simp only [distanceTo, hc]
  rfl

/-- the regenerated code tree denotes the model's seconds value … -/
theorem C21_code_tree_is_model (a b : Coordinate F) : code.seconds.eval a b = distSeconds a b := rfl

/-- … and its conversion and dimension check are the model's -/
theorem C21_code_tree_conv (a b : Coordinate F) (h : a.vec.length = b.vec.length) :
    distanceTo a b = .ok (code.evalNs a b) ∧ code.dimCheck = .panicDimensionalityConflict := by
  refine ⟨?_, by decide⟩
  have hc : (!isCompatibleWith a b) = false := by simp [isCompatibleWith, h]
  simp only [distanceTo, hc]
  rfl

/-- **C21 (documentation = code).** The seconds expression of the documented example is, node for node, the
expression the code computes. -/
theorem C21_docs_seconds_eq_code : docs.seconds = code.seconds := by decide

theorem C21_docs_is_documented (a b : Coordinate F) : docs.seconds.eval a b = documented a b := by
  rw [C21_docs_seconds_eq_code]
  rfl

/-! ## 2. different dimensions are rejected with the dimensionality error, never compared -/

/-- **C21 (dimension).** `DistanceTo` on coordinates of different dimensions panics with
`DimensionalityConflictError{}` (an `error` value; coordinate.go:47-53,125) in both directions. -/
theorem C21_dim_error (a b : Coordinate F) (h : a.vec.length ≠ b.vec.length) :
    distanceTo a b = .dimensionalityConflict ∧ distanceTo b a = .dimensionalityConflict := by
  have h' : b.vec.length ≠ a.vec.length := fun e => h e.symm
  simp [distanceTo, isCompatibleWith, h, h']

/-! ## 3. non-negativity -/

theorem nn_distSeconds [LawfulFloatLike F] (a b : Coordinate F)
    (ha : le (zero : F) a.height = true) (hb : le (zero : F) b.height = true) : NN (distSeconds a b) := by
  have hraw : NN (rawDistanceTo a b) :=
    LawfulFloatLike.nn_add _ _ (LawfulFloatLike.nn_add _ _ (LawfulFloatLike.nn_sqrt _) (Or.inr ha)) (Or.inr hb)
  simp only [distSeconds]
  by_cases h : gt (add (add (rawDistanceTo a b) a.adjustment) b.adjustment) (zero : F) = true
  · rw [if_pos h]; exact Or.inr (LawfulFloatLike.le_of_lt _ _ h)
  · rw [if_neg h]; exact hraw

/- FULL statement (not provable, see the counterexample below):
   theorem C21_nonneg (a b) : isValid a → isValid b → 0 ≤ a.height → 0 ≤ b.height → 0 ≤ distanceNs a b -/

/-- **C21 (non-negative), partial.** With non-negative heights the estimate is non-negative unless the conversion to
int64 nanoseconds overflowed (result -2^63).  Extra hypothesis: `NN nanos` is the fact 0 ≤ 1e9. -/
theorem C21_nonneg_partial [LawfulFloatLike F] (a b : Coordinate F) (hn : NN (nanos : F))
    (ha : le (zero : F) a.height = true) (hb : le (zero : F) b.height = true)
    (hno : distanceNs a b ≠ -9223372036854775808) : 0 ≤ distanceNs a b := by
  have h := LawfulFloatLike.toInt64_nn _ (LawfulFloatLike.nn_mul _ _ (nn_distSeconds a b ha hb) hn)
  rcases h with h | h
  · exact h
  · exact absurd h hno

/-- the overflow is reachable with valid coordinates whose components and heights are tiny and whose adjustments
are large (10^10 s each): the estimate is -2^63 ns.  Exact arithmetic, so this is not a rounding artefact. -/
def cexA : Coordinate ERat := ⟨[.fin 0], .fin 0, .fin 10000000000, .fin 0⟩

theorem C21_nonneg_counterexample :
    isValid cexA = true ∧ le (zero : ERat) cexA.height = true ∧
    distanceTo cexA cexA = .ok (-9223372036854775808) := by decide +kernel

/-! ## 4. symmetry -/

theorem foldl_sumsq_diff_comm [LawfulFloatLike F] (va vb : List F) (init : F)
    (ha : va.all finite = true) (hb : vb.all finite = true) :
    (diffv va vb).foldl (fun s x => add s (mul x x)) init = (diffv vb va).foldl (fun s x => add s (mul x x)) init := by
  induction va generalizing vb init with
  | nil => cases vb <;> simp [diffv]
  | cons x xs ih =>
    cases vb with
    | nil => simp [diffv]
    | cons y ys =>
      simp only [List.all_cons, Bool.and_eq_true] at ha hb
      simp only [diffv, List.zipWith_cons_cons, List.foldl_cons]
      rw [LawfulFloatLike.sub_sq_comm x y ha.1 hb.1]
      exact ih ys _ ha.2 hb.2

/-- **C21 (symmetry, Euclidean part, bit-exact).** Under rounding the Euclidean norm of the difference is exactly
symmetric, because negation is exact. -/
theorem C21_symm_euclid [LawfulFloatLike F] (a b : Coordinate F) (ha : isValid a = true) (hb : isValid b = true) :
    magnitude (diffv a.vec b.vec) = magnitude (diffv b.vec a.vec) := by
  simp only [isValid, Bool.and_eq_true] at ha hb
  simp only [magnitude, sumsq]
  rw [foldl_sumsq_diff_comm a.vec b.vec zero ha.1 hb.1]

theorem erat_add_comm (x y : ERat) : ERat.add x y = ERat.add y x := by
  cases x <;> cases y <;> simp [ERat.add, Rat.add_comm]

theorem erat_add_assoc (x y z : ERat) : ERat.add (ERat.add x y) z = ERat.add x (ERat.add y z) := by
  cases x <;> cases y <;> cases z <;> simp [ERat.add, Rat.add_assoc]

/-- **C21 (symmetry, exact arithmetic).** In exact arithmetic the estimate is exactly symmetric. -/
theorem C21_symm_exact (a b : Coordinate ERat) (ha : isValid a = true) (hb : isValid b = true) :
    distSeconds a b = distSeconds b a := by
  have hm := C21_symm_euclid a b ha hb
  have hraw : rawDistanceTo a b = rawDistanceTo b a := by
    simp only [rawDistanceTo, hm, ERat.fl_add]
    rw [erat_add_assoc, erat_add_assoc, erat_add_comm a.height b.height]
  simp only [distSeconds, hraw, ERat.fl_add]
  rw [erat_add_assoc (rawDistanceTo b a) a.adjustment, erat_add_assoc (rawDistanceTo b a) b.adjustment,
    erat_add_comm a.adjustment b.adjustment]

/- FULL statement (not proved): for doubles, |distanceNs a b - distanceNs b a| ≤ 1 for valid coordinates with
   components and heights up to 10^4 s.  Validated only, by the C21 monitor on the real code's outputs (and false
   for adjustments beyond ~10^7 s, where one ulp of the sum exceeds 1 ns: recorded finding). -/

/-- **C21 (symmetry within 1 ns), partial:** proved for exact arithmetic only (difference 0). -/
theorem C21_symm_rounding_partial (a b : Coordinate ERat) (ha : isValid a = true) (hb : isValid b = true) :
    distanceNs a b = distanceNs b a := by
  simp only [distanceNs, C21_symm_exact a b ha hb]

/-! ## 5. the documented example's conversion -/

/-- Source-tied obligation (since the documentation repair): the documented example converts the seconds value
to a `time.Duration` exactly as the code does (scale, then truncate). -/
theorem C21_docs_conversion_eq_code : docs.conv = code.conv ∧ code.conv = .scaleThenTruncate := by decide

/-- Regression witness for the example as it was documented before (`time.Duration(rtt) * time.Second`:
truncate, then scale): for 0.5 s it yields 0, the code's conversion 500 ms. -/
theorem C21_docs_conversion_old_counterexample :
    Conv.truncateThenScale.eval (ERat.div (.fin 1) (.fin 2)) = 0 ∧
    code.conv.eval (ERat.div (.fin 1) (.fin 2)) = 500000000 := by
  decide +kernel

/-! ## Non-vacuity -/

example : ∃ a b : Coordinate ERat, isValid a = true ∧ isValid b = true ∧ a.vec.length = b.vec.length ∧
    le (zero : ERat) a.height = true ∧ distanceNs a b ≠ -9223372036854775808 :=
  ⟨⟨[.fin 3, .fin 0], .fin 1, .fin 0, .fin 1⟩, ⟨[.fin 0, .fin 4], .fin 1, .fin 0, .fin 2⟩, by decide +kernel⟩

/-- 3-4-5: the estimate between (3,0) and (0,4) with heights 1 and 2 is 8 s -/
example : distanceTo (F := ERat) ⟨[.fin 3, .fin 0], .fin 1, .fin 0, .fin 1⟩ ⟨[.fin 0, .fin 4], .fin 1, .fin 0, .fin 2⟩
    = .ok 8000000000 := by decide +kernel

example : ∃ a b : Coordinate ERat, a.vec.length ≠ b.vec.length := ⟨⟨[], .fin 0, .fin 0, .fin 0⟩, ⟨[.fin 0], .fin 0, .fin 0, .fin 0⟩, by decide⟩

example : NN (nanos : ERat) := Or.inr (by decide +kernel)

end SerfProofs.C21
