/-
C21 — Round-trip time estimates follow the documented formula.

Model: `distanceTo` / `distSeconds` / `distanceNs` of SerfModel/Model/Coord.lean (coordinate/coordinate.go:123-143).
`SerfModel.Gen.CoordFormula.code` and `.docs` are REGENERATED on every check from coordinate/coordinate.go and from
the Go example in docs/internals/coordinates.html.markdown; the theorems below tie both to the model, so a drift
between the code, the documentation and the model breaks the build.

What is proved and what is not:
* formula (any arithmetic), dimension error, docs = code (seconds value and conversion): FULL strength;
* symmetry: FULL strength and EXACT (`C21_symm`: d(a,b) = d(b,a) for every pair of coordinates, every arithmetic with
  a commutative `+` and exact negation; `C21_symm_rounding`: in particular every rounding model).  Before the repair
  4a3f085 the code associated the four scalars differently in the two directions: `C21_symm_old_shape_1ns`
  (within 1 ns away from the guard's threshold) and `C21_symm_old_shape_counterexample` (2 s apart at it);
* "up to floating-point rounding": `C21_accuracy_rounding`, within 1 ns of the exact formula over an abstract
  rounding model, explicit magnitude and margin hypotheses (necessary: the formula is discontinuous at the guard);
  the rounding of the Euclidean part itself stays validated-only (monitor, exact rational reference);
* non-negativity: PARTIAL — holds unless the int64 conversion overflows (`C21_nonneg_partial`); with the property's
  own quantifier ("any adjustments") the overflow is reachable: `C21_nonneg_counterexample` (recorded finding).
-/
import SerfProofs.Lemmas.Coord
import SerfProofs.Lemmas.ERatLaws
import SerfProofs.Lemmas.Rounding
import SerfModel.Gen.CoordFormula
import SerfModel.Gen.CoordPurity
namespace SerfProofs.C21
open SerfModel SerfModel.Coord FloatLike
open SerfModel.Gen.CoordFormula (code docs)

variable {F : Type} [FloatLike F]

/-! ## 1. the formula -/

/-- the documented formula, spelled out: Euclidean norm of the difference plus both heights, plus both adjustments
when that is positive -/
def documented (a b : Coordinate F) : F :=
  let d := add (sqrt ((diffv a.vec b.vec).foldl (fun s x => add s (mul x x)) zero)) (add a.height b.height)
  let adj := add d (add a.adjustment b.adjustment)
  if lt zero adj then adj else d

/-- **C21 (formula).** For coordinates of equal dimension `DistanceTo` is the documented formula, converted with
`time.Duration(seconds * 1e9)` — in any arithmetic. -/
theorem C21_formula (a b : Coordinate F) (h : a.vec.length = b.vec.length) :
    distanceTo a b = .ok (toInt64 (mul (documented a b) nanos)) := by
  have hc : (!isCompatibleWith a b) = false := by simp [isCompatibleWith, h]
  simp only [distanceTo, hc]
  rfl

/-- the regenerated code tree denotes the model's seconds value … -/
theorem C21_code_tree_is_model (a b : Coordinate F) : code.seconds.eval a b = distSeconds a b := rfl

/-- … and its conversion and dimension check are the model's -/
theorem C21_code_tree_conv (a b : Coordinate F) (h : a.vec.length = b.vec.length) :
    distanceTo a b = .ok (code.evalNs a b) ∧ code.dimCheck = .panicDimensionalityConflict := by
  refine ⟨?_, by decide⟩
  have hc : (!isCompatibleWith a b) = false := by simp [isCompatibleWith, h]
  simp only [distanceTo, hc]
  rfl

/-- **C21 (documentation = code).** The seconds expression of the documented example is, node for node, the
expression the code computes. -/
theorem C21_docs_seconds_eq_code : docs.seconds = code.seconds := by decide

theorem C21_docs_is_documented (a b : Coordinate F) : docs.seconds.eval a b = documented a b := by
  rw [C21_docs_seconds_eq_code]
  rfl

/-! ## 1b. DistanceTo is a function of its two arguments

Every theorem of this file reads `DistanceTo` as a pure function of the two coordinates.  That is an assumption
about the code, made explicit here and tied by extraction: on the distance path (DistanceTo, IsCompatibleWith,
rawDistanceTo, diff, magnitude) no package-level variable of package coordinate is read or written, nothing is
assigned through a parameter or the receiver, there is no `go`, closure or channel operation, and the callees are
the known pure ones.  With that, concurrent estimates (Client.DistanceTo only takes a read lock) cannot influence
each other; the harness op `conc` checks exactly this on the real code. -/

theorem C21_gen_distance_path_pure :
    SerfModel.Gen.CoordPurity.distancePath =
      [ { name := "DistanceTo", packageVars := [], writesIntoArguments := [],
          calls := ["panic", "time.Duration", "v0.IsCompatibleWith", "v0.rawDistanceTo"] },
        { name := "IsCompatibleWith", packageVars := [], writesIntoArguments := [], calls := ["len"] },
        { name := "rawDistanceTo", packageVars := [], writesIntoArguments := [], calls := ["diff", "magnitude"] },
        { name := "diff", packageVars := [], writesIntoArguments := [], calls := ["len", "make"] },
        { name := "magnitude", packageVars := [], writesIntoArguments := [], calls := ["math.Sqrt"] } ] := by decide

/-- the part of it the theorems rely on: no shared state, no writes into the arguments -/
theorem C21_gen_no_shared_state :
    SerfModel.Gen.CoordPurity.distancePath.all (fun t => t.packageVars.isEmpty && t.writesIntoArguments.isEmpty) = true := by
  decide

/-! ## 2. different dimensions are rejected with the dimensionality error, never compared -/

/-- **C21 (dimension).** `DistanceTo` on coordinates of different dimensions panics with
`DimensionalityConflictError{}` (an `error` value; coordinate.go:47-53,125) in both directions. -/
theorem C21_dim_error (a b : Coordinate F) (h : a.vec.length ≠ b.vec.length) :
    distanceTo a b = .dimensionalityConflict ∧ distanceTo b a = .dimensionalityConflict := by
  have h' : b.vec.length ≠ a.vec.length := fun e => h e.symm
  simp [distanceTo, isCompatibleWith, h, h']

/-! ## 3. non-negativity -/

theorem nn_distSeconds [LawfulFloatLike F] (a b : Coordinate F)
    (ha : le (zero : F) a.height = true) (hb : le (zero : F) b.height = true) : NN (distSeconds a b) := by
  have hraw : NN (rawDistanceTo a b) :=
    LawfulFloatLike.nn_add _ _ (LawfulFloatLike.nn_sqrt _) (LawfulFloatLike.nn_add _ _ (Or.inr ha) (Or.inr hb))
  simp only [distSeconds]
  by_cases h : gt (add (rawDistanceTo a b) (add a.adjustment b.adjustment)) (zero : F) = true
  · rw [if_pos h]; exact Or.inr (LawfulFloatLike.le_of_lt _ _ h)
  · rw [if_neg h]; exact hraw

/- FULL statement (not provable, see the counterexample below):
   theorem C21_nonneg (a b) : isValid a → isValid b → 0 ≤ a.height → 0 ≤ b.height → 0 ≤ distanceNs a b -/

/-- **C21 (non-negative), partial.** With non-negative heights the estimate is non-negative unless the conversion to
int64 nanoseconds overflowed (result -2^63).  Extra hypothesis: `NN nanos` is the fact 0 ≤ 1e9. -/
theorem C21_nonneg_partial [LawfulFloatLike F] (a b : Coordinate F) (hn : NN (nanos : F))
    (ha : le (zero : F) a.height = true) (hb : le (zero : F) b.height = true)
    (hno : distanceNs a b ≠ -9223372036854775808) : 0 ≤ distanceNs a b := by
  have h := LawfulFloatLike.toInt64_nn _ (LawfulFloatLike.nn_mul _ _ (nn_distSeconds a b ha hb) hn)
  rcases h with h | h
  · exact h
  · exact absurd h hno

/-- the overflow is reachable with valid coordinates whose components and heights are tiny and whose adjustments
are large (10^10 s each): the estimate is -2^63 ns.  Exact arithmetic, so this is not a rounding artefact. -/
def cexA : Coordinate ERat := ⟨[.fin 0], .fin 0, .fin 10000000000, .fin 0⟩

theorem C21_nonneg_counterexample :
    isValid cexA = true ∧ le (zero : ERat) cexA.height = true ∧
    distanceTo cexA cexA = .ok (-9223372036854775808) := by decide +kernel

/-! ## 4. symmetry -/

theorem foldl_sumsq_diff_comm [CommLaws F] (va vb : List F) (init : F) :
    (diffv va vb).foldl (fun s x => add s (mul x x)) init = (diffv vb va).foldl (fun s x => add s (mul x x)) init := by
  induction va generalizing vb init with
  | nil => cases vb <;> simp [diffv]
  | cons x xs ih =>
    cases vb with
    | nil => simp [diffv]
    | cons y ys =>
      simp only [diffv, List.zipWith_cons_cons, List.foldl_cons]
      rw [CommLaws.sub_sq_comm x y]
      exact ih ys _

/-- **C21 (symmetry, Euclidean part).** Under rounding the Euclidean norm of the difference is exactly symmetric,
because negation is exact. -/
theorem C21_symm_euclid [CommLaws F] (a b : Coordinate F) :
    magnitude (diffv a.vec b.vec) = magnitude (diffv b.vec a.vec) := by
  simp only [magnitude, sumsq]
  rw [foldl_sumsq_diff_comm a.vec b.vec zero]

/-- **C21 (symmetry), FULL strength.** `DistanceTo` does not depend on which coordinate is the receiver: for EVERY
pair of coordinates (any dimensions, any values) and every arithmetic in which `+` is commutative and negation
is exact — in particular IEEE-754 doubles — d(a,b) = d(b,a) EXACTLY (0 ns, not 1 ns).  This is what the repair
4a3f085 (heights and adjustments summed first) bought: before it, the two directions associated the four scalars
differently, see `C21_symm_old_shape_counterexample`. -/
theorem C21_symm [CommLaws F] (a b : Coordinate F) : distanceTo a b = distanceTo b a := by
  have hm := C21_symm_euclid a b
  have hraw : rawDistanceTo a b = rawDistanceTo b a := by
    simp only [rawDistanceTo, hm, CommLaws.add_comm a.height b.height]
  have hs : distSeconds a b = distSeconds b a := by
    simp only [distSeconds, hraw, CommLaws.add_comm a.adjustment b.adjustment]
  have hc : isCompatibleWith a b = isCompatibleWith b a := by
    simp only [isCompatibleWith]
    exact Bool.eq_iff_iff.2 (by simp only [beq_iff_eq]; exact eq_comm)
  simp only [distanceTo, distanceNs, hs, hc]

/-- the seconds value is symmetric as well -/
theorem C21_symm_seconds [CommLaws F] (a b : Coordinate F) : distSeconds a b = distSeconds b a := by
  have hm := C21_symm_euclid a b
  have hraw : rawDistanceTo a b = rawDistanceTo b a := by
    simp only [rawDistanceTo, hm, CommLaws.add_comm a.height b.height]
  simp only [distSeconds, hraw, CommLaws.add_comm a.adjustment b.adjustment]

/-! ## 4b. rounding: an abstract model of floating-point arithmetic

`Rnd fl` (Lemmas/Rounding.lean) is exact rational arithmetic followed by a rounding function `fl` on every result; the
model code runs under it unchanged.  Assumed about `fl`: `RoundingLaw fl u`, i.e. |fl x - x| ≤ u·|x| and
fl(-x) = -fl x (the standard model; doubles: u = 2^-53), and that 10^9 is representable. -/

open SerfModel.Rounding

/-- **C21 (symmetry) under every rounding model.** `Rnd fl` satisfies `CommLaws` as soon as `fl` is odd, so the
estimate is exactly symmetric under any such rounding — the laws of `C21_symm` are not special to exact arithmetic. -/
theorem C21_symm_rounding {fl : Rat → Rat} {u : Rat} (h : RoundingLaw fl u) (a b : Coordinate (Rnd fl)) :
    distanceTo a b = distanceTo b a :=
  @C21_symm (Rnd fl) _ (commLaws_of_odd h.odd) a b

theorem nanos_R {fl : Rat → Rat} (h9 : fl 1000000000 = 1000000000) : (nanos : Rnd fl) = R fl 1000000000 := by
  show (⟨.fin (fl ((1000000000 : Int) : Rat))⟩ : Rnd fl) = ⟨.fin 1000000000⟩
  have : ((1000000000 : Int) : Rat) = 1000000000 := by decide +kernel
  rw [this, h9]

/-- **C21 (equals the documented formula up to rounding): within 1 ns**, for realistic magnitudes, away from the
guard's threshold.  Hypotheses, all explicit:
* `RoundingLaw fl u` with `8u ≤ 1`, 10^9 representable;
* magnitudes: the computed Euclidean part `m` and both heights in [0, K], both adjustments in [-K, K], K ≤ 10^8 s,
  and `100·u·K·10^9 ≤ 1` (doubles: K up to 9·10^4 s; the property's 10^4 s components give m ≤ 5.7·10^4 s);
* margin: the exact adjusted distance is farther than 32·u·K from 0.  WITHOUT the margin the claim is false for
  every rounding arithmetic, because the formula itself is discontinuous at 0 (the guard): an exact value of
  +10^-18 yields 0 ns while a rounded value of 0.0 yields the unadjusted distance.
Then the result differs by at most 1 ns from the exact formula (over the computed Euclidean part) truncated to ns.
What is NOT covered: the rounding error of the Euclidean part itself (n multiplications, n additions, one square
root); the missing lemma is `|fl-magnitude(v) - ‖v‖| ≤ (n/2+1)·u·‖v‖`, which needs a real square root that core
Lean does not have.  That part stays validated by the monitor's exact-rational reference. -/
theorem C21_accuracy_rounding {fl : Rat → Rat} {u K : Rat} (h : RoundingLaw fl u) (hu : 8 * u ≤ 1)
    (h9 : fl 1000000000 = 1000000000) (hK : 0 ≤ K) (hK8 : K ≤ 100000000)
    (hsmall : 100 * (u * K * 1000000000) ≤ 1)
    (a b : Coordinate (Rnd fl)) (m ha hb ja jb : Rat)
    (hm : magnitude (diffv a.vec b.vec) = R fl m)
    (hha : a.height = R fl ha) (hhb : b.height = R fl hb)
    (hja : a.adjustment = R fl ja) (hjb : b.adjustment = R fl jb)
    (hmag : Magnitudes K m ha hb ja jb) (hmar : Margin u K m ha hb ja jb) :
    distanceNs a b - (exactFormula m ha hb ja jb * 1000000000).floor ≤ 1 ∧
    (exactFormula m ha hb ja jb * 1000000000).floor - distanceNs a b ≤ 1 := by
  have hc := distRNew_close h hu hK hmag hmar
  have hd : distanceNs a b = ERat.toInt64 (.fin (fl (distRNew fl m ha hb ja jb * 1000000000))) := by
    simp only [distanceNs, distSeconds_R h a b m ha hb ja jb hm hha hhb hja hjb, nanos_R h9, mul_R]
    rfl
  rw [hd]
  exact ns_accurate h hu hK hK8 hsmall hc.1 hc.2.1 hc.2.2

/-- **C21 (non-negative) for realistic magnitudes, FULL strength over the rounding model.**  With the computed
Euclidean part and both heights in [0, K], both adjustments in [-K, K] and K ≤ 10^8 s, the estimate is non-negative
(no margin hypothesis, no overflow hypothesis: the bound on the magnitudes excludes the int64 overflow of
`C21_nonneg_counterexample`, which needs adjustments of about 10^10 s). -/
theorem C21_nonneg_rounding {fl : Rat → Rat} {u K : Rat} (h : RoundingLaw fl u) (hu : 8 * u ≤ 1)
    (h9 : fl 1000000000 = 1000000000) (hK : 0 ≤ K) (hK8 : K ≤ 100000000)
    (a b : Coordinate (Rnd fl)) (m ha hb ja jb : Rat)
    (hm : magnitude (diffv a.vec b.vec) = R fl m)
    (hha : a.height = R fl ha) (hhb : b.height = R fl hb)
    (hja : a.adjustment = R fl ja) (hjb : b.adjustment = R fl jb)
    (hmag : Magnitudes K m ha hb ja jb) : 0 ≤ distanceNs a b := by
  have hd : distanceNs a b = ERat.toInt64 (.fin (fl (distRNew fl m ha hb ja jb * 1000000000))) := by
    simp only [distanceNs, distSeconds_R h a b m ha hb ja jb hm hha hhb hja hjb, nanos_R h9, mul_R]
    rfl
  rw [hd]
  exact ns_nonneg h hu hK hK8 (distRNew_range h hu hK hmag)

/-- **The former shape** (before the repair 4a3f085) under the same rounding model: away from the threshold the two
directions were within 1 ns of each other … -/
theorem C21_symm_old_shape_1ns {fl : Rat → Rat} {u K : Rat} (h : RoundingLaw fl u) (hu : 8 * u ≤ 1)
    (h9 : fl 1000000000 = 1000000000) (hK : 0 ≤ K) (hK8 : K ≤ 100000000)
    (hsmall : 100 * (u * K * 1000000000) ≤ 1) (m ha hb ja jb : Rat)
    (hmag : Magnitudes K m ha hb ja jb) (hmar : Margin u K m ha hb ja jb) :
    nsOf fl (distROld fl m ha hb ja jb) - nsOf fl (distROld fl m hb ha jb ja) ≤ 1 ∧
    nsOf fl (distROld fl m hb ha jb ja) - nsOf fl (distROld fl m ha hb ja jb) ≤ 1 := by
  have hc := distROld_close h hu hK hmag hmar
  simp only [nsOf, h9]
  exact ns_close h hu hK hK8 hsmall hc.1 hc.2.1 hc.2.2

/-- … and AT the threshold they were not: a rounding function with relative error below 10^-16 (`fl0`: the identity
except at ±3/2) for which the former shape gives d(a,b) = 0 ns and d(b,a) = 2 s for the same two coordinates
(same position, heights 1 s, adjustments -1/2 s and -3/2 s), while the current shape gives 2 s both ways.  The
float64 instance of this defect, found by the monitor on the real code, is corpus/C21/guard-boundary-asymmetry.case
(d(a,b) = 100 ms, d(b,a) = 0 before the repair). -/
theorem C21_symm_old_shape_counterexample :
    RoundingLaw fl0 (1 / 10000000000000000) ∧
    nsOf fl0 (distROld fl0 0 1 1 (-(1 / 2)) (-(3 / 2))) = 0 ∧
    nsOf fl0 (distROld fl0 0 1 1 (-(3 / 2)) (-(1 / 2))) = 2000000000 ∧
    nsOf fl0 (distRNew fl0 0 1 1 (-(1 / 2)) (-(3 / 2))) = 2000000000 ∧
    nsOf fl0 (distRNew fl0 0 1 1 (-(3 / 2)) (-(1 / 2))) = 2000000000 :=
  ⟨fl0_law, by decide +kernel, by decide +kernel, by decide +kernel, by decide +kernel⟩

/-- non-vacuity of the rounding hypotheses: exact arithmetic (`fl = id`, u = 0) satisfies them, with K = 10^4 -/
example : RoundingLaw (fun x => x) 0 ∧ (8 : Rat) * 0 ≤ 1 ∧ (fun x : Rat => x) 1000000000 = 1000000000 ∧
    100 * ((0 : Rat) * 10000 * 1000000000) ≤ 1 ∧ Magnitudes 10000 5 1 2 (-1) 3 ∧ Margin 0 10000 5 1 2 (-1) 3 := by
  refine ⟨⟨by decide +kernel, fun x => ?_, fun x => rfl⟩, by decide +kernel, rfl, by decide +kernel,
    ⟨by decide +kernel, by decide +kernel, by decide +kernel, by decide +kernel, by decide +kernel⟩,
    Or.inl (by decide +kernel)⟩
  rw [Rat.sub_self, Rat.abs_zero, Rat.zero_mul]; exact Rat.le_refl

/-- non-vacuity of the coordinate-level hypotheses of `C21_accuracy_rounding` / `C21_nonneg_rounding`: the 3-4-5
pair under `fl = id`: Euclidean part 5, heights 1 and 2, adjustments -1 and 3 -/
example :
    let a : Coordinate (Rnd (fun x => x)) := ⟨[R _ 3, R _ 0], R _ 1, R _ (-1), R _ 1⟩
    let b : Coordinate (Rnd (fun x => x)) := ⟨[R _ 0, R _ 4], R _ 1, R _ 3, R _ 2⟩
    magnitude (diffv a.vec b.vec) = R _ 5 ∧ distanceNs a b = 10000000000 ∧ distanceNs b a = 10000000000 := by
  decide +kernel

/-- and a genuinely rounding one: `fl0` with u = 10^-16 and K = 10^4 -/
example : RoundingLaw fl0 (1 / 10000000000000000) ∧ fl0 1000000000 = 1000000000 ∧
    100 * ((1 / 10000000000000000 : Rat) * 10000 * 1000000000) ≤ 1 := ⟨fl0_law, by decide +kernel, by decide +kernel⟩

/-! ## 5. the documented example's conversion -/

/-- Source-tied obligation (since the documentation repair): the documented example converts the seconds value
to a `time.Duration` exactly as the code does (scale, then truncate). -/
theorem C21_docs_conversion_eq_code : docs.conv = code.conv ∧ code.conv = .scaleThenTruncate := by decide

/-- Regression witness for the example as it was documented before (`time.Duration(rtt) * time.Second`:
truncate, then scale): for 0.5 s it yields 0, the code's conversion 500 ms. -/
theorem C21_docs_conversion_old_counterexample :
    Conv.truncateThenScale.eval (ERat.div (.fin 1) (.fin 2)) = 0 ∧
    code.conv.eval (ERat.div (.fin 1) (.fin 2)) = 500000000 := by
  decide +kernel

/-! ## Non-vacuity -/

example : ∃ a b : Coordinate ERat, isValid a = true ∧ isValid b = true ∧ a.vec.length = b.vec.length ∧
    le (zero : ERat) a.height = true ∧ distanceNs a b ≠ -9223372036854775808 :=
  ⟨⟨[.fin 3, .fin 0], .fin 1, .fin 0, .fin 1⟩, ⟨[.fin 0, .fin 4], .fin 1, .fin 0, .fin 2⟩, by decide +kernel⟩

/-- 3-4-5: the estimate between (3,0) and (0,4) with heights 1 and 2 is 8 s -/
example : distanceTo (F := ERat) ⟨[.fin 3, .fin 0], .fin 1, .fin 0, .fin 1⟩ ⟨[.fin 0, .fin 4], .fin 1, .fin 0, .fin 2⟩
    = .ok 8000000000 := by decide +kernel

example : ∃ a b : Coordinate ERat, a.vec.length ≠ b.vec.length := ⟨⟨[], .fin 0, .fin 0, .fin 0⟩, ⟨[.fin 0], .fin 0, .fin 0, .fin 0⟩, by decide⟩

example : NN (nanos : ERat) := Or.inr (by decide +kernel)

end SerfProofs.C21
