/-
C33 — Nothing larger than the configured limits is ever sent.

Statement (properties.jsonl): a user event is accepted only if its name plus payload and
its encoded form are within both the configured limit and the hard 9 KB limit, and a
rejected event is neither delivered locally nor broadcast.  A query is sent only if its
encoded form is within the query size limit, and a query response is sent only if it is
within the response size limit.

The theorems are about the statement lists regenerated from the source on every run
(`SerfModel.Gen.Limits`, extract/limits.go): guards with their operands, in order, and
the position of every Lamport-clock step and of every observable effect (local delivery,
broadcast queue, registration, SendToAddress, relay).  Since the C06 repair the event /
query takes its Lamport time with one atomic `Increment` while the message is built, i.e.
BEFORE the encoded-size guards: a rejected-after-encoding event advances the node's own
clock.  That is a clock step, not one of the effects the property forbids ("neither
delivered locally nor broadcast"); the theorems list it explicitly.  They hold for ALL names, payloads and limits.
Encoded lengths are those of the msgpack/codec model (exact; C32 ties it byte-for-byte).
-/
import SerfModel.Model.Limits
import SerfProofs.Lemmas.Codec
namespace SerfProofs.C33
open SerfModel.LimitSteps SerfModel.Limits SerfModel.Gen.Limits SerfModel.Msgpack SerfModel.Codec

/-! #### what the generated code looks like (decided on the regenerated definitions)

The extractor alpha-normalises (receiver, parameters, locals, constants, helper calls), so
these obligations pin MEANING: which quantity is compared with which limit, in which order,
relative to which clock steps, tests and observable effects. -/

/-- the four guards of UserEvent, in order: len(name)+len(payload) (parameters 0 and 1) and the
encoded message, each against the configured limit and against the constant 9216 -/
theorem C33_gen_event_guards :
    guardShapes userEvent =
      [(.sumLenParams [0, 1], .cfg "UserEventSizeLimit"), (.sumLenParams [0, 1], .const 9216),
       (.lenEnc "" "encodeMessage:messageUserEventType" [], .cfg "UserEventSizeLimit"),
       (.lenEnc "" "encodeMessage:messageUserEventType" [], .const 9216)] := by decide

set_option maxRecDepth 8000 in
/-- the guarded encoding is that of a message built from exactly the caller's name and payload,
and the very same encoding is what gets queued for broadcast -/
theorem C33_gen_event_encodes_inputs :
    (guardedEncs userEvent).all (fun e => fieldOf e.2.2 "Name" = some "p0" && fieldOf e.2.2 "Payload" = some "p1") = true
    ∧ effectArgs "QueueBroadcast" userEvent = ((guardedEncs userEvent).take 1).map (fun e => [Arg.enc e.1 e.2.1]) := by decide

theorem C33_gen_hard_limit : hard = 9216 := by decide

/-- order of guards, clock steps and observable effects: the only thing before the last guard
is the clock increment of message construction; every observable effect follows every guard. -/
theorem C33_gen_event_skeleton :
    skeleton userEvent =
      ["guard", "guard", "clock:eventClock.Increment", "guard", "guard", "effect:handleUserEvent", "effect:QueueBroadcast"] := by
  decide

theorem C33_gen_query_skeleton :
    skeleton query =
      ["test:recv.ProtocolVersion() < 4", "clock:queryClock.Increment", "guard", "effect:registerQueryResponse",
       "effect:handleQuery", "effect:QueueBroadcast"] := by
  decide

set_option maxRecDepth 8000 in
theorem C33_gen_query_guards :
    guardShapes query = [(.lenEnc "" "encodeMessage:messageQueryType" [], .cfg "QuerySizeLimit")]
    ∧ effectArgs "QueueBroadcast" query = (guardedEncs query).map (fun e => [Arg.enc e.1 e.2.1]) := by decide

/-- in every size-limited function all observable effects come after all guards / tests -/
theorem C33_gen_effects_after_gates :
    effectsAfterGates userEvent = true ∧ effectsAfterGates query = true
    ∧ effectsAfterGates respondWithMessageAndResponse = true ∧ effectsAfterGates relayResponse = true := by decide

set_option maxRecDepth 8000 in
/-- responses: Respond hands the ENCODED response (parameter 0) to respondWithMessageAndResponse, which
compares its length with the limit first, then tests "already responded" and "past the deadline",
then sends exactly that parameter, then relays; relayResponse compares the encoded relay message with
the limit and sends exactly that encoding. -/
theorem C33_gen_response_wiring :
    (effectArgs "respondWithMessageAndResponse" respond).map (fun a => a.head?.map Arg.shape)
        = [some (Arg.enc "encodeMessage:messageQueryResponseType" "")]
    ∧ skeleton respondWithMessageAndResponse =
        ["guard", "test:recv.deadline.IsZero()", "test:time.Now().After(recv.deadline)", "effect:SendToAddress", "effect:relayResponse"]
    ∧ guardShapes respondWithMessageAndResponse = [(.sumLenParams [0], .cfg "QueryResponseSizeLimit")]
    ∧ (effectArgs "SendToAddress" respondWithMessageAndResponse).map (·.getLast?) = [some (Arg.param 0)]
    ∧ skeleton relayResponse = ["guard", "effect:SendToAddress"]
    ∧ guardShapes relayResponse = [(.lenEnc "" "encodeRelayMessage:messageQueryResponseType" [], .cfg "QueryResponseSizeLimit")]
    ∧ (effectArgs "SendToAddress" relayResponse).map (·.getLast?) = (guardedEncs relayResponse).map (fun e => some (Arg.enc e.1 e.2.1)) := by
  decide

/-! #### user events -/

/-- accepted ⇔ name+payload ≤ min(cfg, 9216) ∧ encoded length ≤ min(cfg, 9216) -/
theorem C33_event (cfg : Cfg) (nameLen payloadLen encLen : Nat) :
    (userEvent cfg nameLen payloadLen encLen).ok = true ↔
      nameLen + payloadLen ≤ min cfg.ueLimit 9216 ∧ encLen ≤ min cfg.ueLimit 9216 := by
  simp [SerfModel.Limits.userEvent, SerfModel.Gen.Limits.userEvent, run, ueEnv, hard, userEventSizeLimitConst]
  constructor
  · intro h
    repeat' split at h
    all_goals first | omega | simp at h
  · intro h
    repeat' split
    all_goals first | omega | simp

/-- the same with the real encoded length of the event a node with event clock `ltime` sends -/
theorem C33_event_exact (cfg : Cfg) (ltime : Nat) (name : Bytes) (payload : Option Bytes) (cc : Bool) :
    (userEvent cfg name.length (optLen payload) (ueEncLen ltime name payload cc)).ok = true ↔
      name.length + optLen payload ≤ min cfg.ueLimit 9216 ∧ ueEncLen ltime name payload cc ≤ min cfg.ueLimit 9216 :=
  C33_event cfg _ _ _

/-- a rejected event performs NO observable effect: it is not delivered locally and nothing is
queued.  The only side effect it can have is the clock increment of message construction,
and only when it passed the two pre-encoding guards. -/
theorem C33_event_rejected_silent (cfg : Cfg) (nameLen payloadLen encLen : Nat)
    (h : (userEvent cfg nameLen payloadLen encLen).ok = false) :
    (userEvent cfg nameLen payloadLen encLen).effects = []
    ∧ ((userEvent cfg nameLen payloadLen encLen).trace = []
       ∨ (userEvent cfg nameLen payloadLen encLen).trace = [.clock "eventClock.Increment"]) := by
  revert h
  simp [SerfModel.Limits.userEvent, SerfModel.Gen.Limits.userEvent, run, Outcome.effects]
  repeat' split
  all_goals simp [observable]
example : (userEvent ⟨512, 1024, 1024⟩ 10 503 560).ok = false := by decide

/-- rejected before encoding ⇒ not even the clock moved -/
theorem C33_event_rejected_early (cfg : Cfg) (nameLen payloadLen encLen : Nat)
    (h : min cfg.ueLimit 9216 < nameLen + payloadLen) :
    userEvent cfg nameLen payloadLen encLen = ⟨false, []⟩ := by
  simp [SerfModel.Limits.userEvent, SerfModel.Gen.Limits.userEvent, run, ueEnv, hard, userEventSizeLimitConst]
  repeat' split
  all_goals first | rfl | omega
example : min 512 9216 < 10 + 503 := by decide

/-- an accepted event: clock increment (at construction), then local delivery, then the
broadcast queue — exactly these, in this order -/
theorem C33_event_accepted_effects (cfg : Cfg) (nameLen payloadLen encLen : Nat)
    (h : (userEvent cfg nameLen payloadLen encLen).ok = true) :
    (userEvent cfg nameLen payloadLen encLen).trace
      = [.clock "eventClock.Increment", .effect "handleUserEvent", .effect "QueueBroadcast"] := by
  revert h
  simp [SerfModel.Limits.userEvent, SerfModel.Gen.Limits.userEvent, run]
  repeat' split
  all_goals simp
example : (userEvent ⟨512, 1024, 1024⟩ 10 100 160).ok = true := by decide

/-! #### queries -/

/-- anything observable (registration, local delivery, broadcast) ⇒ encoded length ≤ QuerySizeLimit,
whatever the other tests (protocol version) say -/
theorem C33_query (cfg : Cfg) (encLen : Nat) (tf : String → Bool) (h : (queryT cfg encLen tf).effects ≠ []) :
    encLen ≤ cfg.qLimit := by
  revert h
  simp only [queryT, SerfModel.Gen.Limits.query, run, qEnv]
  repeat' split
  all_goals simp_all [Outcome.effects, observable]
  all_goals omega
example : (queryT ⟨512, 1024, 1024⟩ 1024 (fun _ => false)).effects ≠ [] := by decide

/-- an oversize query: nothing registered, delivered or queued; only the query clock moved -/
theorem C33_query_rejected_silent (cfg : Cfg) (encLen : Nat) (h : cfg.qLimit < encLen) :
    (query cfg encLen) = ⟨false, [.clock "queryClock.Increment"]⟩ ∧ (query cfg encLen).effects = [] := by
  simp [SerfModel.Limits.query, queryT, SerfModel.Gen.Limits.query, run, qEnv, h, Outcome.effects, observable]
example : (1024 : Nat) < 1025 := by decide

/-! #### query responses, direct and relayed -/

/-- the direct response is sent ⇒ its ENCODED length ≤ QueryResponseSizeLimit, the query had not been
answered before and its deadline has not passed -/
theorem C33_response (cfg : Cfg) (respLen : Nat) (tf : String → Bool)
    (h : "SendToAddress" ∈ (respondWithT cfg respLen tf).effects) :
    respLen ≤ cfg.rLimit ∧ tf "recv.deadline.IsZero()" = false ∧ tf "time.Now().After(recv.deadline)" = false := by
  revert h
  simp only [respondWithT, SerfModel.Gen.Limits.respondWithMessageAndResponse, run, rEnv]
  repeat' split
  all_goals simp_all [Outcome.effects, observable]
  all_goals omega
example : "SendToAddress" ∈ (respondWithT ⟨512, 1024, 1024⟩ 1024 (fun _ => false)).effects := by decide

/-- The broken shape (seeded C33-e): if the size guard is skipped for some queries (there: names starting
with `_serf_`), i.e. those queries run the body WITHOUT the guard step, an answer above the limit goes out —
595 bytes with a limit of 300.  This is why the extractor refuses a check that is not applied
unconditionally, and why `C33_response` quantifies over every query (the model has no name to look at). -/
theorem C33_response_skipped_guard_counterexample :
    "SendToAddress" ∈ (run (rEnv ⟨512, 1024, 300⟩ 595) (fun _ => false)
        (respondWithMessageAndResponse.filter (fun s => match s with | .guard _ _ => false | _ => true)) []).effects
    ∧ ¬ (595 ≤ (300 : Nat)) := by decide

/-- the relay (of the same response) happens after the direct send, never without it -/
theorem C33_response_relay_after_direct (cfg : Cfg) (respLen : Nat) (tf : String → Bool) :
    (respondWithT cfg respLen tf).effects = [] ∨ (respondWithT cfg respLen tf).effects = ["SendToAddress", "relayResponse"] := by
  simp only [respondWithT, SerfModel.Gen.Limits.respondWithMessageAndResponse, run]
  repeat' split
  all_goals simp [Outcome.effects, observable]

/-- a relayed copy is sent ⇒ the relay message is within the limit … -/
theorem C33_response_relayed (cfg : Cfg) (relayLen : Nat) (h : "SendToAddress" ∈ (relay cfg relayLen).effects) :
    relayLen ≤ cfg.rLimit := by
  revert h
  simp only [relay, SerfModel.Gen.Limits.relayResponse, run, rEnv]
  repeat' split
  all_goals simp_all [Outcome.effects, observable]
  all_goals omega
example : "SendToAddress" ∈ (relay ⟨512, 1024, 1024⟩ 1024).effects := by decide

/-- … and so is the copy the relay node forwards to the destination (the bytes after the header). -/
theorem C33_response_forwarded (cfg : Cfg) (hdr : RelayHdr) (r : QueryResp)
    (h : "SendToAddress" ∈ (relay cfg (relayEncLen hdr r)).effects) : respEncLen r ≤ cfg.rLimit := by
  have := C33_response_relayed cfg _ h
  simp only [relayEncLen, encodeRelay, respEncLen, List.length_cons, List.length_append] at *
  omega

end SerfProofs.C33
