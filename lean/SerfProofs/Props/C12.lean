/-
C12 — Snapshot I/O failures never crash the node and recording resumes.

Model: `SerfModel.SnapshotFault` — the snapshotter of `SerfModel.Snapshot` with ONE
file-system operation failing (index `fault` among the operations that reach the OS):
`tryAppend`'s error path and its recovery compaction (at most one per
snapshotErrorRecoveryInterval), every early return of `compact()`, the sticky error of a
bufio writer, writes through a closed handle, remove of an already removed file.

PROVED: `C12_no_panic` — for EVERY history (incl. leave, forced compactions, recovery interval
elapsing), threshold, flag and EVERY fault index — no operation excluded — the snapshotter
never panics, neither during the events nor at shutdown.  (Since e2c64f9 compact() leaves the
closed old handles in place until the new ones are installed.)
Regression witness for the code BEFORE that fix (`nilOnSwap := true`), by `decide`:
`C12_nil_handles_counterexample_oldshape` (a failed remove / rename / reopen left both handles
nil and the next append panicked); the same faults now: `C12_nil_handles_fixed`.
NOT PROVED: `C12_resumes` (after the fault, a restart reflects all later changes): judged on
the real code by the monitor (`fault-not-resumed`) at every fault index of every generated
life, and compared with the model's recovery.
-/
import SerfProofs.Lemmas.SnapshotFault
namespace SerfProofs.C12
open SerfModel SerfModel.Snapshot SerfModel.SnapshotFault SerfProofs.SnapshotFault

/-- **No panic under any single I/O fault.** -/
theorem C12_no_panic (rj : Bool) (mc : Nat) (fault : Option Nat) (evs : List FEv) (clk : Nat) :
    (fLife rj mc fault evs clk).panicked = false :=
  (fShutdown_P _ clk (fRun_P evs _ (fInit_P rj mc fault))).2.2

def cexEvs : List FEv := [.ev (.join [(['a'], ['1', ':', '2'])] 2), .ev .forceCompact, .ev (.clockTick 9)]

/-- **Before e2c64f9** (`nilOnSwap := true`): join, a compaction, a clock tick; if the
compaction's remove (operation 8), rename (9) or reopen (10) failed, the next append panicked. -/
theorem C12_nil_handles_counterexample_oldshape :
    (fLife false 0 (some 8) cexEvs 9 true).panicked = true ∧ (fLife false 0 (some 8) cexEvs 9 true).failed = some (.remove .main) ∧
    (fLife false 0 (some 9) cexEvs 9 true).panicked = true ∧ (fLife false 0 (some 10) cexEvs 9 true).panicked = true ∧
    (fLife false 0 (some 7) cexEvs 9 true).panicked = false := by decide

/-- **Now**: the same faults are survived, and the snapshot still holds the member. -/
theorem C12_nil_handles_fixed :
    ∀ k ∈ [8, 9, 10], (fLife false 0 (some k) cexEvs 9).panicked = false ∧
      (recover false (FS.applyAll {} (fLife false 0 (some k) cexEvs 9).done)).alive = [(['a'], ['1', ':', '2'])] := by decide

end SerfProofs.C12
