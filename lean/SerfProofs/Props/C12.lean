/-
C12 — Snapshot I/O failures never crash the node and recording resumes.

Model: `SerfModel.SnapshotFault` — the snapshotter of `SerfModel.Snapshot` with ONE
file-system operation failing (index `fault` among the operations that reach the OS):
`tryAppend`'s error path and its recovery compaction (at most one per
snapshotErrorRecoveryInterval), every early return of `compact()`, the sticky error of a
bufio writer, writes through a closed handle, remove of an already removed file.

PROVED: `C12_no_panic` — for EVERY history (incl. leave, forced compactions, recovery interval
elapsing), threshold, flag and EVERY fault index — no operation excluded — the snapshotter
never panics, neither during the events nor at shutdown.  (Since e2c64f9 compact() leaves the
closed old handles in place until the new ones are installed.)
Regression witness for the code BEFORE that fix (`nilOnSwap := true`), by `decide`:
`C12_nil_handles_counterexample_oldshape` (a failed remove / rename / reopen left both handles
nil and the next append panicked); the same faults now: `C12_nil_handles_fixed`.
Also: `C12_compaction_succeeds_after_fault_partial` — once the fault lies in the past every
compaction (hence tryAppend's immediate recovery compaction) succeeds.
PROVED: `C12_resumes` — RECORDING RESUMES: for every faulty history `evs1` (any events without a
graceful leave, recovery interval elapsing anywhere) and every fault index `k`, once the fault
lies in the past: after the next compaction — the recovery compaction `tryAppend` starts by itself
right after a failed append (`C12_recovery_compaction_is_automatic`), or any later one — for every
further history `evs2` and shutdown, the node does not panic and a restart recovers from the
snapshot file EXACTLY the state the node has in memory at that shutdown (rejoin map as a map,
the three clocks).  The quiescent point is the shutdown (its flush); in between, C10's invariant
holds at every point (file ++ buffer replays to the memory).  Hypothesis: `WFEv` (names without
newline — C10's open finding) and no graceful leave (C13's territory).
-/
import SerfProofs.Lemmas.SnapshotFaultMem
namespace SerfProofs.C12
open SerfModel SerfModel.Snapshot SerfModel.SnapshotFault SerfProofs.SnapshotFault SerfProofs.Snapshot

/-- **No panic under any single I/O fault.** -/
theorem C12_no_panic (rj : Bool) (mc : Nat) (fault : Option Nat) (evs : List FEv) (clk : Nat) :
    (fLife rj mc fault evs clk).panicked = false :=
  (fShutdown_P _ clk (fRun_P evs _ (fInit_P rj mc fault))).2.2

/-- **Part of "recording resumes"**: once the single fault lies in the past (`Consumed`), on the
current code shape every compaction succeeds — in particular the recovery compaction that
`tryAppend` starts right after the failed append — and installs fresh handles; it keeps
succeeding afterwards (`Q` is preserved).  Hence no single-fault history makes the immediate
recovery attempt fail.  (That the compacted file replays to the in-memory state is
`C10_compact_restores_partial`.) -/
theorem C12_compaction_succeeds_after_fault_partial (st : FSnap) (h : Q st) :
    Q (fCompact st).1 ∧ (fCompact st).2 = .ok :=
  fCompact_ok_of_consumed st h

/-- non-vacuity: the state right after a failed write (fault 1 of the witness history) satisfies `Q` -/
example : Q (fInit false 0 none) := ⟨⟨rfl, rfl, rfl⟩, rfl, Or.inl rfl⟩

/-- **Recording resumes** (see the header). `evs1`: the faulty phase; `k`: the fault index, already
consumed at the end of `evs1`; then a compaction, `evs2`, shutdown, restart. -/
theorem C12_resumes (rj : Bool) (mc : Nat) (k : Nat) (evs1 : List FEv) (evs2 : List Ev) (clk : Nat)
    (h1 : ∀ fe ∈ evs1, WFFEv fe) (h2 : ∀ e ∈ evs2, WFEv e) (hnl : Ev.leave ∉ evs2)
    (hcons : Consumed (fRun (fInit rj mc (some k)) evs1)) :
    (fShutdown (fRun (fCompact (fRun (fInit rj mc (some k)) evs1)).1 (evs2.map .ev)) clk).panicked = false ∧
    MapEq (recover rj (mfs (fShutdown (fRun (fCompact (fRun (fInit rj mc (some k)) evs1)).1 (evs2.map .ev)) clk))).alive
      (fShutdown (fRun (fCompact (fRun (fInit rj mc (some k)) evs1)).1 (evs2.map .ev)) clk).s.alive ∧
    (akeys (fShutdown (fRun (fCompact (fRun (fInit rj mc (some k)) evs1)).1 (evs2.map .ev)) clk).s.alive).Nodup ∧
    (recover rj (mfs (fShutdown (fRun (fCompact (fRun (fInit rj mc (some k)) evs1)).1 (evs2.map .ev)) clk))).clock =
      (fShutdown (fRun (fCompact (fRun (fInit rj mc (some k)) evs1)).1 (evs2.map .ev)) clk).s.lastClock ∧
    (recover rj (mfs (fShutdown (fRun (fCompact (fRun (fInit rj mc (some k)) evs1)).1 (evs2.map .ev)) clk))).eventClock =
      (fShutdown (fRun (fCompact (fRun (fInit rj mc (some k)) evs1)).1 (evs2.map .ev)) clk).s.lastEventClock ∧
    (recover rj (mfs (fShutdown (fRun (fCompact (fRun (fInit rj mc (some k)) evs1)).1 (evs2.map .ev)) clk))).queryClock =
      (fShutdown (fRun (fCompact (fRun (fInit rj mc (some k)) evs1)).1 (evs2.map .ev)) clk).s.lastQueryClock := by
  have hP := fRun_P evs1 _ (fInit_P rj mc (some k))
  have hM := fRun_mem rj evs1 _ (fInit_mem rj mc (some k)) h1
  have key := resumes_after_compaction (fRun (fInit rj mc (some k)) evs1) ⟨hP, hM.1, hcons⟩ hM.2.1 hM.2.2.1 evs2 clk h2 hnl
  rw [hM.2.2.2] at key
  exact key

/-- the recovery compaction needs no outside help: when an append fails and no recovery was
attempted during the last snapshotErrorRecoveryInterval, `tryAppend` itself runs the compaction -/
theorem C12_recovery_compaction_is_automatic (st : FSnap) (l : Bytes)
    (herr : (fAppendLine st l).2 = .err) (hatt : (fAppendLine st l).1.attempted = false) :
    fTryAppend st l = (fCompact { (fAppendLine st l).1 with attempted := true }).1 := by
  unfold fTryAppend
  simp only [herr, hatt, Bool.false_eq_true, ↓reduceIte]

/-- non-vacuity of `C12_resumes`: `user 5` on a fresh snapshotter with threshold 0 compacts at once;
fault 8 is the rename of that compaction (the window), the recovery compaction follows inside the
same `tryAppend`; afterwards the fault is consumed and the events are well formed -/
example : (∀ fe ∈ [FEv.ev (.user 5)], WFFEv fe) ∧ Consumed (fRun (fInit false 0 (some 8)) [FEv.ev (.user 5)]) ∧
    (∀ e ∈ [Ev.query 6, .join [(['a'], ['1', ':', '2'])] 2], WFEv e) ∧ Ev.leave ∉ [Ev.query 6, .join [(['a'], ['1', ':', '2'])] 2] := by
  refine ⟨?_, Or.inr ⟨8, rfl, by decide⟩, ?_, by decide⟩
  · intro fe hfe
    simp only [List.mem_cons, List.mem_nil_iff, or_false] at hfe
    subst hfe
    exact ⟨by simp [WFEv, U64], by simp⟩
  · intro e he
    simp only [List.mem_cons, List.mem_nil_iff, or_false] at he
    rcases he with rfl | rfl <;> simp [WFEv, WFName, WFAddr, U64]

def cexEvs : List FEv := [.ev (.join [(['a'], ['1', ':', '2'])] 2), .ev .forceCompact, .ev (.clockTick 9)]

/-- **Before e2c64f9** (`nilOnSwap := true`): join, a compaction, a clock tick; if the
compaction's remove (operation 8), rename (9) or reopen (10) failed, the next append panicked. -/
theorem C12_nil_handles_counterexample_oldshape :
    (fLife false 0 (some 8) cexEvs 9 true).panicked = true ∧ (fLife false 0 (some 8) cexEvs 9 true).failed = some (.remove .main) ∧
    (fLife false 0 (some 9) cexEvs 9 true).panicked = true ∧ (fLife false 0 (some 10) cexEvs 9 true).panicked = true ∧
    (fLife false 0 (some 7) cexEvs 9 true).panicked = false := by decide

/-- **Now**: the same faults are survived, and the snapshot still holds the member. -/
theorem C12_nil_handles_fixed :
    ∀ k ∈ [8, 9, 10], (fLife false 0 (some k) cexEvs 9).panicked = false ∧
      (recover false (FS.applyAll {} (fLife false 0 (some k) cexEvs 9).done)).alive = [(['a'], ['1', ':', '2'])] := by decide

/-- the recorded history of the former finding `fault-rename-never-recovers`:
`fault 8; new sync 0 0; user 5; query 6; join a; join b; gone failed a; user 9; shutdown 4` -/
def renameEvs : List FEv :=
  [.ev (.user 5), .ev (.query 6), .ev (.join [(['a'], ['1', ':', '2'])] 2), .ev (.join [(['b'], ['3', ':', '4'])] 3),
   .ev (.gone [['a']] 4), .ev (.user 9)]

/-- **Before d3a31c2** (`removeMissingFails := true`): operation 8 is the rename of the first
threshold compaction; after it failed every later compaction stopped at remove ("no such
file"), and the restart recovers only what the last attempt wrote to path.compact (event clock
5, query clock 6, no member) although the node knew `b`, clock 3, event clock 9. -/
theorem C12_rename_never_recovers_counterexample_oldshape :
    (fLife false 0 (some 8) renameEvs 4 false true).failed = some (.rename .tmp .main) ∧
    (fLife false 0 (some 8) renameEvs 4 false true).s.alive = [(['b'], ['3', ':', '4'])] ∧
    (fLife false 0 (some 8) renameEvs 4 false true).s.lastEventClock = 9 ∧
    (recover false (FS.applyAll {} (fLife false 0 (some 8) renameEvs 4 false true).done)).alive = [] ∧
    (recover false (FS.applyAll {} (fLife false 0 (some 8) renameEvs 4 false true).done)).eventClock = 5 := by decide

/-- **Now**: the next compaction ignores the missing file, installs a new snapshot, and the
restart reflects everything the node knew. -/
theorem C12_rename_never_recovers_fixed :
    (fLife false 0 (some 8) renameEvs 4).failed = some (.rename .tmp .main) ∧
    (recover false (FS.applyAll {} (fLife false 0 (some 8) renameEvs 4).done)) =
      { alive := [(['b'], ['3', ':', '4'])], clock := 3, eventClock := 9, queryClock := 6 } := by decide

end SerfProofs.C12
