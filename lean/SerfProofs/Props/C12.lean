/-
C12 — Snapshot I/O failures never crash the node and recording resumes.

Model: `SerfModel.SnapshotFault` — the snapshotter of `SerfModel.Snapshot` with ONE
file-system operation failing (index `fault` among the operations that reach the OS):
`tryAppend`'s error path and its recovery compaction (at most one per
snapshotErrorRecoveryInterval), every early return of `compact()`, the sticky error of a
bufio writer, `s.buffered` / `s.fh` being nil, nil-pointer panics.

FULL STATEMENT (DESIGN 7 C12) — does NOT hold for the code (finding `fault-panic-nil-handles`):

  theorem C12_no_panic (rj mc) (evs) (clk) (k) : (fLife rj mc (some k) evs clk).panicked = false

`compact()` sets `s.buffered = nil` and `s.fh = nil` BEFORE remove / rename / reopen; when one
of these three fails it returns with both handles nil.  The error makes `tryAppend` start a
recovery compaction at once, whose `s.buffered.Flush()` dereferences the nil writer; otherwise
the next `appendLine` or the shutdown flush does.  `C12_nil_handles_counterexample` (decide),
confirmed on the real code for every compaction of every generated life (hooks, and through
the real goroutines where the process dies).

PROVED: `C12_no_panic_partial` — for EVERY history (incl. leave, forced compactions, recovery
interval elapsing), threshold, flag and fault index: if the operation that failed is NOT
compact()'s remove, rename or reopen of the snapshot file, the snapshotter never panics —
neither during the events nor at shutdown.
NOT PROVED: `C12_resumes` (after the fault, once later appends succeed, a restart reflects all
changes): judged on the real code by the monitor (`fault-not-resumed`) at every fault index of
every generated life, and compared with the model's recovery.
-/
import SerfProofs.Lemmas.SnapshotFault
namespace SerfProofs.C12
open SerfModel SerfModel.Snapshot SerfModel.SnapshotFault SerfProofs.SnapshotFault

/-- **No panic under any single I/O fault other than the three nil-handle faults.** -/
theorem C12_no_panic_partial (rj : Bool) (mc : Nat) (fault : Option Nat) (evs : List FEv) (clk : Nat)
    (hb : badFault (fLife rj mc fault evs clk).failed = false) :
    (fLife rj mc fault evs clk).panicked = false :=
  ((fShutdown_inv _ clk (fRun_inv evs _ (fInit_inv rj mc fault))).2 hb).1

def cexEvs : List FEv := [.ev (.join [(['a'], ['1', ':', '2'])] 2), .ev .forceCompact, .ev (.clockTick 9)]

/-- non-vacuity: faults that are survived (a write, the open / sync / close of path.compact, …) -/
example : ∀ k ∈ [1, 2, 3, 4, 5, 6, 7, 11, 12, 13], badFault (fLife false 0 (some k) cexEvs 9).failed = false := by decide

/-- **Finding `fault-panic-nil-handles`**: join, a compaction, a clock tick; if the
compaction's remove (operation 8), rename (9) or reopen (10) fails, the next append panics
(nil bufio writer); any other single fault is survived. -/
theorem C12_nil_handles_counterexample :
    (fLife false 0 (some 8) cexEvs 9).panicked = true ∧ (fLife false 0 (some 8) cexEvs 9).failed = some (.remove .main) ∧
    (fLife false 0 (some 9) cexEvs 9).panicked = true ∧ (fLife false 0 (some 10) cexEvs 9).panicked = true ∧
    (fLife false 0 (some 7) cexEvs 9).panicked = false ∧ (fLife false 0 none cexEvs 9).panicked = false := by decide

end SerfProofs.C12
