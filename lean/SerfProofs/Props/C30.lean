/-
C30 — Tag edits apply as documented and persisted tags match effective tags.

Model: `SerfModel.AgentTags` (`edit` = the loops of `AgentIPC.handleTags`, `encodeTags` /
`encodedSize` = `Serf.encodeTags` with the exact go-msgpack headers, `setTags` =
`Agent.SetTags` ∘ `Serf.SetTags`, parameterised by the order of the file write and the
size-checked Serf update, which `SerfModel.Gen.AgentSetTags.shape` extracts from the source).

Result.  The edit algebra holds at full strength (`C30_edit`, `C30_edit_spec`).  The
persistence claim holds at full strength *for the order "serf.SetTags first, file only after
it succeeded"* (`C30_persisted`).  The unchanged tree writes the file first
(`shape = ⟨true, false⟩`): an edit whose encoding exceeds 512 bytes is rejected by Serf while
the file already holds it (`C30_persisted_counterexample`; recorded finding
`tags-file-ahead`), so for the code as it is only `C30_persisted_partial` (no edit of the
history is rejected) and `C30_accepted_resyncs` hold.
-/
import SerfProofs.Lemmas.AgentTags
import SerfModel.Gen.AgentSetTags
import SerfModel.Gen.AgentTagsSrc
import SerfModel.Model.SourceShape
namespace SerfProofs.C30
open SerfModel SerfModel.AgentTags SerfProofs.AgentTags

/-! ## edit algebra -/

/-- **The result of an RPC tag edit is (old − deleted keys) + set keys, set keys winning**,
for every old map, set map and delete list (maps = association lists without duplicate
keys, as Go maps are): a key being set has the set value; any other key is absent if it
is deleted and keeps its old value otherwise. -/
theorem C30_edit (old set : Tags) (del : List Bytes)
    (hold : (akeys old).Nodup) (hset : (akeys set).Nodup) (k : Bytes) :
    alookup (edit old set del) k =
      match alookup set k with
      | some v => some v
      | none => if del.contains k then none else alookup old k := by
  unfold edit mapsCopy
  rw [alookup_foldl_ainsert set _ hset k, alookup_keep old del hold k]
  cases alookup set k <;> rfl

example : alookup (edit [([1], [10]), ([2], [20])] [([2], [21]), ([3], [30])] [[1], [2], [9]]) [2] = some [21] := by decide

/-- The result is again a map (no duplicate keys). -/
theorem C30_edit_nodup (old set : Tags) (del : List Bytes) : (akeys (edit old set del)).Nodup := by
  unfold edit mapsCopy
  exact nodup_foldl_ainsert set _ (nodup_keep old del)

/-- The same in the form of DESIGN 7: `edit old set del` and
`insertAll (eraseKeys old del) set` are the same map. -/
theorem C30_edit_spec (old set : Tags) (del : List Bytes)
    (hold : (akeys old).Nodup) (hset : (akeys set).Nodup) (k : Bytes) :
    alookup (edit old set del) k = alookup (insertAll (eraseKeys old del) set) k := by
  rw [C30_edit old set del hold hset k]
  unfold insertAll
  rw [alookup_foldl_ainsert set _ hset k, alookup_eraseKeys]
  cases alookup set k <;> rfl

example : (akeys ([([1], [10]), ([2], [20])] : Tags)).Nodup := by decide

/-- Deleting absent keys changes nothing; setting and deleting the same key sets it. -/
theorem C30_set_wins (old set : Tags) (del : List Bytes) (hold : (akeys old).Nodup) (hset : (akeys set).Nodup)
    (k v : Bytes) (h : alookup set k = some v) : alookup (edit old set del) k = some v := by
  rw [C30_edit old set del hold hset k, h]

/-! ## exact encoded size -/

/-- The closed-form size is the length of the encoding (magic byte + msgpack map). -/
theorem C30_encoded_size_exact (t : Tags) : (encodeTags t).length = encodedSize t := encodeTags_length t

/-- The size does not depend on the order in which Go iterates over the map. -/
theorem C30_encoded_size_perm (t t' : Tags) (h : t.Perm t') : encodedSize t = encodedSize t' := by
  have he : entriesSize t = entriesSize t' := by
    induction h with
    | nil => rfl
    | cons x _ ih => simp [entriesSize, ih]
    | swap x y l => simp only [entriesSize]; omega
    | trans _ _ ih1 ih2 => exact ih1.trans ih2
  have hl : t.length = t'.length := h.length_eq
  simp [encodedSize, hl, he]

/-! ## persistence -/

/-- The extracted order of the unchanged tree is one of the two understood by the proofs:
the safe order (then `C30_persisted` applies to the code) or the file-first order of the
recorded finding. -/
theorem C30_extracted_shape :
    SerfModel.Gen.AgentSetTags.shape.SerfFirst = true ∨ SerfModel.Gen.AgentSetTags.shape = ⟨true, false⟩ := by decide

/-- Source-tied obligation (since the repair c4cada7): in the current tree `Agent.SetTags` asks Serf first
and writes the tags file only after Serf accepted the tags. -/
theorem C30_current_tree_serf_first : SerfModel.Gen.AgentSetTags.shape.SerfFirst = true := by decide

theorem step_serfFirst_inv (sh : SetTagsShape) (h : sh.SerfFirst = true) (s : St) (e : TagEdit)
    (hs : s.file = s.effective) : (step sh s e).1.file = (step sh s e).1.effective := by
  unfold step
  rw [setTags_serfFirst sh h]
  split <;> simp [hs]

theorem run_serfFirst_inv (sh : SetTagsShape) (h : sh.SerfFirst = true) (ops : List TagEdit) (s : St)
    (hs : s.file = s.effective) : (run sh s ops).file = (run sh s ops).effective := by
  induction ops generalizing s with
  | nil => exact hs
  | cons e rest ih => exact ih _ (step_serfFirst_inv sh h s e hs)

/-- **Persisted tags = tags in effect after every prefix of every edit history, including
rejected edits** — when `Agent.SetTags` updates Serf first and writes the file only after
that succeeded (`sh.SerfFirst`).  FULL statement; it applies to the code exactly when
`SerfModel.Gen.AgentSetTags.shape.SerfFirst = true` (the proposed repair). -/
theorem C30_persisted (sh : SetTagsShape) (h : sh.SerfFirst = true) (s : St) (ops : List TagEdit)
    (hs : s.file = s.effective) (n : Nat) :
    (run sh s (ops.take n)).file = (run sh s (ops.take n)).effective :=
  run_serfFirst_inv sh h _ s hs

example : (⟨false, true⟩ : SetTagsShape).SerfFirst = true := by decide

/-- `C30_persisted` instantiated at the shape regenerated from the current tree. -/
theorem C30_persisted_current_tree (s : St) (ops : List TagEdit) (hs : s.file = s.effective) (n : Nat) :
    (run SerfModel.Gen.AgentSetTags.shape s (ops.take n)).file
      = (run SerfModel.Gen.AgentSetTags.shape s (ops.take n)).effective :=
  C30_persisted _ C30_current_tree_serf_first s ops hs n

/-- … and then the next start loads exactly the tags in effect and succeeds. -/
theorem C30_restart_exact (s : St) (hs : s.file = s.effective) (hf : fits s.effective = true) :
    restart s = some s := by
  cases s with
  | mk eff file =>
    simp only at hs hf
    subst hs
    simp [restart, hf]

/-- The tags in effect always fit the limit (any order). -/
theorem C30_effective_fits (sh : SetTagsShape) (ops : List TagEdit) (s : St) (hf : fits s.effective = true) :
    fits (run sh s ops).effective = true := by
  induction ops generalizing s with
  | nil => exact hf
  | cons e rest ih =>
    apply ih
    rcases sh with ⟨a, b⟩
    unfold step setTags
    cases a <;> cases b <;> cases hn : fits (edit s.effective e.set e.del) <;> simp_all

/-- A rejected edit never changes the tags in effect (any order). -/
theorem C30_rejected_keeps_effective (sh : SetTagsShape) (s : St) (e : TagEdit)
    (h : (step sh s e).2 = false) : (step sh s e).1.effective = s.effective := by
  rcases sh with ⟨a, b⟩
  unfold step setTags at h ⊢
  cases a <;> cases b <;> cases hn : fits (edit s.effective e.set e.del) <;> simp_all

/-- An accepted edit takes effect as computed and (re-)synchronises the file (any order). -/
theorem C30_accepted_resyncs (sh : SetTagsShape) (s : St) (e : TagEdit) (h : (step sh s e).2 = true) :
    (step sh s e).1.effective = edit s.effective e.set e.del ∧ (step sh s e).1.file = (step sh s e).1.effective := by
  unfold step at h ⊢
  rw [setTags_accepted sh s _ h]
  simp

/-
FULL statement for the code as it is (not provable: the file is written before the size check):

  theorem C30_persisted_asis (s : St) (ops : List TagEdit) (hs : s.file = s.effective) (n : Nat) :
      (run Gen.AgentSetTags.shape s (ops.take n)).file = (run Gen.AgentSetTags.shape s (ops.take n)).effective
-/

theorem run_allAccepted_inv (sh : SetTagsShape) (ops : List TagEdit) (s : St) (hs : s.file = s.effective)
    (hacc : allAccepted sh s ops = true) : (run sh s ops).file = (run sh s ops).effective := by
  induction ops generalizing s with
  | nil => exact hs
  | cons e rest ih =>
    simp only [allAccepted, Bool.and_eq_true] at hacc
    exact ih _ (C30_accepted_resyncs sh s e hacc.1).2 hacc.2

/-- PARTIAL (any order, in particular the unchanged tree's): if no edit of the history is
rejected — every edit's result encodes to at most 512 bytes — the file equals the tags in
effect at the end (apply it to `ops.take n` for every prefix). -/
theorem C30_persisted_partial (sh : SetTagsShape) (s : St) (ops : List TagEdit)
    (hs : s.file = s.effective) (hacc : allAccepted sh s ops = true) :
    (run sh s ops).file = (run sh s ops).effective :=
  run_allAccepted_inv sh ops s hs hacc

example : allAccepted ⟨true, false⟩ ⟨[], []⟩ [⟨[([1], [2])], []⟩, ⟨[], [[1]]⟩] = true := by decide

/-- One edit over the limit: a 600-byte value. -/
def overLimitEdit : TagEdit := ⟨[([98], List.replicate 600 122)], []⟩

set_option maxRecDepth 20000 in
/-- COUNTEREXAMPLE for the file-first order (the unchanged tree): after the rejected edit the
file holds the rejected tags, the tags in effect are unchanged, and the next start fails. -/
theorem C30_persisted_counterexample :
    (step ⟨true, false⟩ ⟨[([114], [119])], [([114], [119])]⟩ overLimitEdit).2 = false ∧
    (run ⟨true, false⟩ ⟨[([114], [119])], [([114], [119])]⟩ [overLimitEdit]).file ≠
      (run ⟨true, false⟩ ⟨[([114], [119])], [([114], [119])]⟩ [overLimitEdit]).effective ∧
    restart (run ⟨true, false⟩ ⟨[([114], [119])], [([114], [119])]⟩ [overLimitEdit]) = none := by
  decide

/-! ## heap view: tags in effect = tags gossiped = tags file

(see `SerfModel.AgentTags.Heap`).  With a handler that computes the edit in a fresh map and
the order "serf.SetTags first, file on success" the three copies agree after every step of
every history, rejected edits included; both facts are regenerated from the source. -/

/-- the value view is the heap view of a handler that builds a fresh map -/
theorem heapStep_fresh (sh : SetTagsShape) (h : Heap) (e : TagEdit) :
    (heapStep ⟨true⟩ sh h e).2 = (step sh ⟨h.conf, h.file⟩ e).2 ∧
    (heapStep ⟨true⟩ sh h e).1.conf = (step sh ⟨h.conf, h.file⟩ e).1.effective ∧
    (heapStep ⟨true⟩ sh h e).1.file = (step sh ⟨h.conf, h.file⟩ e).1.file := by
  rcases sh with ⟨a, b⟩
  unfold heapStep step setTags
  cases a <;> cases b <;> cases hf : fits (edit h.conf e.set e.del) <;> simp [hf]

theorem heapStep_inv (hs : HandleShape) (sh : SetTagsShape) (hf : hs.freshMap = true) (hsf : sh.SerfFirst = true)
    (h : Heap) (e : TagEdit) (h1 : h.conf = h.gossiped) (h2 : h.gossiped = h.file) :
    (heapStep hs sh h e).1.conf = (heapStep hs sh h e).1.gossiped ∧
    (heapStep hs sh h e).1.gossiped = (heapStep hs sh h e).1.file := by
  rcases sh with ⟨a, b⟩
  rcases hs with ⟨f⟩
  simp only at hf
  subst hf
  unfold SetTagsShape.SerfFirst at hsf
  simp only [Bool.and_eq_true, Bool.not_eq_eq_eq_not, Bool.not_true] at hsf
  obtain ⟨ha, hb⟩ := hsf
  subst ha; subst hb
  unfold heapStep
  cases hfit : fits (edit h.conf e.set e.del) <;> simp [hfit, h1, h2]

/-- **Tags in effect = tags gossiped = tags file, after every prefix of every edit history,
including rejected edits** — for a handler that builds a fresh map (`hs.freshMap`) and the
order "serf.SetTags first, file only on success" (`sh.SerfFirst`). -/
theorem C30_three_way (hs : HandleShape) (sh : SetTagsShape) (hf : hs.freshMap = true) (hsf : sh.SerfFirst = true)
    (ops : List TagEdit) (h : Heap) (h1 : h.conf = h.gossiped) (h2 : h.gossiped = h.file) (n : Nat) :
    (heapRun hs sh h (ops.take n)).conf = (heapRun hs sh h (ops.take n)).gossiped ∧
    (heapRun hs sh h (ops.take n)).gossiped = (heapRun hs sh h (ops.take n)).file := by
  generalize ops.take n = l
  induction l generalizing h with
  | nil => exact ⟨h1, h2⟩
  | cons e rest ih =>
    have := heapStep_inv hs sh hf hsf h e h1 h2
    exact ih _ this.1 this.2

example : (⟨true⟩ : HandleShape).freshMap = true ∧ (⟨false, true⟩ : SetTagsShape).SerfFirst = true := by decide

/-- the handler of the current tree builds a fresh map (regenerated fact) -/
theorem C30_current_tree_fresh_map : SerfModel.Gen.AgentTagsSrc.freshMap = true := by decide

/-- `C30_three_way` at the shapes regenerated from the current tree. -/
theorem C30_three_way_current_tree (ops : List TagEdit) (h : Heap) (h1 : h.conf = h.gossiped) (h2 : h.gossiped = h.file)
    (n : Nat) :
    let r := heapRun ⟨SerfModel.Gen.AgentTagsSrc.freshMap⟩ SerfModel.Gen.AgentSetTags.shape h (ops.take n)
    r.conf = r.gossiped ∧ r.gossiped = r.file :=
  C30_three_way _ _ C30_current_tree_fresh_map C30_current_tree_serf_first ops h h1 h2 n

/-- … and the next start then comes back with the same three copies. -/
theorem C30_heap_restart_exact (h : Heap) (h1 : h.conf = h.gossiped) (h2 : h.gossiped = h.file)
    (hf : fits h.gossiped = true) : heapRestart h = some h := by
  cases h with
  | mk c g f =>
    simp only at h1 h2 hf
    subst h1; subst h2
    simp [heapRestart, hf]

/-- the gossiped tags always fit the limit (any shapes) -/
theorem C30_gossiped_fits (hs : HandleShape) (sh : SetTagsShape) (ops : List TagEdit) (h : Heap)
    (hf : fits h.gossiped = true) : fits (heapRun hs sh h ops).gossiped = true := by
  induction ops generalizing h with
  | nil => exact hf
  | cons e rest ih =>
    apply ih
    unfold heapStep
    simp only
    split <;> split <;> simp_all

set_option maxRecDepth 20000 in
/-- COUNTEREXAMPLE for a handler that reuses the live map when nothing is deleted (seeded change
C30-b), even with the safe SetTags order: an over-limit edit without deletions is rejected, the
gossiped tags and the file keep the old tags, but the map `SerfConfig().Tags` returns — the base
of the next edit — already holds the rejected tags. -/
theorem C30_aliasing_counterexample :
    (heapStep ⟨false⟩ ⟨false, true⟩ ⟨[([114], [119])], [([114], [119])], [([114], [119])]⟩ overLimitEdit).2 = false ∧
    (heapStep ⟨false⟩ ⟨false, true⟩ ⟨[([114], [119])], [([114], [119])], [([114], [119])]⟩ overLimitEdit).1.conf ≠
      (heapStep ⟨false⟩ ⟨false, true⟩ ⟨[([114], [119])], [([114], [119])], [([114], [119])]⟩ overLimitEdit).1.gossiped ∧
    (heapStep ⟨false⟩ ⟨false, true⟩ ⟨[([114], [119])], [([114], [119])], [([114], [119])]⟩ overLimitEdit).1.gossiped =
      (heapStep ⟨false⟩ ⟨false, true⟩ ⟨[([114], [119])], [([114], [119])], [([114], [119])]⟩ overLimitEdit).1.file := by
  decide

/-! ## the remaining hypotheses are necessary -/

/-- `C30_edit` needs maps without duplicate keys (what Go maps are): on a "set" list with a
repeated key the first entry is found by lookup while the copy loop lets the last one win. -/
theorem C30_edit_nodup_needed :
    alookup (edit [] [([1], [10]), ([1], [11])] []) [1] = some [11] ∧
    alookup ([([1], [10]), ([1], [11])] : Tags) [1] = some [10] := by decide

set_option maxRecDepth 20000 in
/-- the start condition `file = tags in effect` cannot be dropped: a rejected first edit keeps
a difference that was there before -/
theorem C30_start_condition_needed :
    (run ⟨false, true⟩ ⟨[([114], [119])], []⟩ [overLimitEdit]).file ≠
      (run ⟨false, true⟩ ⟨[([114], [119])], []⟩ [overLimitEdit]).effective := by decide

/-! ## the decisive shapes and constants of the source (regenerated on every run) -/

section Src
open SerfModel.SourceShape SerfModel.Gen

/-- `edit`: a fresh map; every current tag is copied unless one of the delete keys equals it
(`delTag`, `keep`); then the set tags are copied over it (`mapsCopy`); that map goes to
`Agent.SetTags` (seeded C30-b used the live map when nothing is deleted) -/
theorem C30_src_handle_tags :
    AgentTagsSrc.tagsBindings = ["v5 := make(map[string]string)"] ∧
    hasBlock ["v5 := make(map[string]string)", "for v6, v7 := range v0.agent.SerfConfig().Tags {", "var v8 bool", "for _, v9 := range v3.DeleteTags {", "v8 = (v8 || v9 == v6)", "}", "if !v8 {", "v5[v6] = v7", "}", "}", "maps.Copy(v5, v3.Tags)", "v10 := v0.agent.SetTags(v5)"] AgentTagsSrc.handleTags = true := by
  decide

/-- `setTags` / `fits` / `restart`: Serf checks the encoded size (`>` against MetaMaxSize) BEFORE
installing the map and updating the node; `serf.Create` applies the same check at start -/
theorem C30_src_serf_set_tags :
    AgentTagsSrc.serfSetTags = ["if len(v0.encodeTags(v1)) > memberlist.MetaMaxSize {", "return fmt.Errorf(\"Encoded length of tags exceeds limit of %d bytes\", memberlist.MetaMaxSize)", "}", "v0.config.Tags = v1", "return v0.memberlist.UpdateNode(v0.config.BroadcastTimeout)"] ∧
    AgentTagsSrc.createTagChecks = ["if len(v3.encodeTags(v0.Tags)) > memberlist.MetaMaxSize {"] := by decide

/-- `encodeTags`: the magic byte, then the map through go-msgpack's DEFAULT handle (legacy raw
string headers, no str8), for protocol ≥ 3; constants equal the model's -/
theorem C30_src_constants :
    AgentTagsSrc.tagMagicByte = SerfModel.AgentTags.tagMagicByte.toNat ∧
    AgentTagsSrc.metaMaxSize = SerfModel.AgentTags.metaMaxSize ∧
    hasBlock ["var v3 bytes.Buffer", "v3.WriteByte(255)", "v4 := codec.NewEncoder(&v3, &codec.MsgpackHandle{})", "if v5 := v4.Encode(v1); v5 != nil {"] AgentTagsSrc.encodeTags = true ∧
    hasBlock ["if v0.ProtocolVersion() < 3 {", "v2 := v1[\"role\"]", "return []byte(v2)", "}"] AgentTagsSrc.encodeTags = true := by
  decide

/-- the tags file is the JSON of exactly the map handed over, and is read back into the tags of
the configuration (the file is modelled as the map written) -/
theorem C30_src_tags_file :
    once "v2, v3 := json.MarshalIndent(v1, \"\", \" \")" AgentTagsSrc.writeTagsFile = true ∧
    once "if v3 = os.WriteFile(v0.agentConf.TagsFile, v2, 0600); v3 != nil {" AgentTagsSrc.writeTagsFile = true ∧
    once "if v5 := json.Unmarshal(v3, &v0.conf.Tags); v5 != nil {" AgentTagsSrc.loadTagsFile = true ∧
    AgentTagsSrc.writeTagsFile.length = 8 ∧ AgentTagsSrc.loadTagsFile.length = 13 := by decide

end Src

end SerfProofs.C30
