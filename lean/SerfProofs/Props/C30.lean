/-
C30 — Tag edits apply as documented and persisted tags match effective tags.

Model: `SerfModel.AgentTags` (`edit` = the loops of `AgentIPC.handleTags`, `encodeTags` /
`encodedSize` = `Serf.encodeTags` with the exact go-msgpack headers, `setTags` =
`Agent.SetTags` ∘ `Serf.SetTags`, parameterised by the order of the file write and the
size-checked Serf update, which `SerfModel.Gen.AgentSetTags.shape` extracts from the source).

Result.  The edit algebra holds at full strength (`C30_edit`, `C30_edit_spec`).  The
persistence claim holds at full strength *for the order "serf.SetTags first, file only after
it succeeded"* (`C30_persisted`).  The unchanged tree writes the file first
(`shape = ⟨true, false⟩`): an edit whose encoding exceeds 512 bytes is rejected by Serf while
the file already holds it (`C30_persisted_counterexample`; recorded finding
`tags-file-ahead`), so for the code as it is only `C30_persisted_partial` (no edit of the
history is rejected) and `C30_accepted_resyncs` hold.
-/
import SerfProofs.Lemmas.AgentTags
import SerfModel.Gen.AgentSetTags
namespace SerfProofs.C30
open SerfModel SerfModel.AgentTags SerfProofs.AgentTags

/-! ## edit algebra -/

/-- **The result of an RPC tag edit is (old − deleted keys) + set keys, set keys winning**,
for every old map, set map and delete list (maps = association lists without duplicate
keys, as Go maps are): a key being set has the set value; any other key is absent if it
is deleted and keeps its old value otherwise. -/
theorem C30_edit (old set : Tags) (del : List Bytes)
    (hold : (akeys old).Nodup) (hset : (akeys set).Nodup) (k : Bytes) :
    alookup (edit old set del) k =
      match alookup set k with
      | some v => some v
      | none => if del.contains k then none else alookup old k := by
  unfold edit mapsCopy
  rw [alookup_foldl_ainsert set _ hset k, alookup_keep old del hold k]
  cases alookup set k <;> rfl

example : alookup (edit [([1], [10]), ([2], [20])] [([2], [21]), ([3], [30])] [[1], [2], [9]]) [2] = some [21] := by decide

/-- The result is again a map (no duplicate keys). -/
theorem C30_edit_nodup (old set : Tags) (del : List Bytes) : (akeys (edit old set del)).Nodup := by
  unfold edit mapsCopy
  exact nodup_foldl_ainsert set _ (nodup_keep old del)

/-- The same in the form of DESIGN 7: `edit old set del` and
`insertAll (eraseKeys old del) set` are the same map. -/
theorem C30_edit_spec (old set : Tags) (del : List Bytes)
    (hold : (akeys old).Nodup) (hset : (akeys set).Nodup) (k : Bytes) :
    alookup (edit old set del) k = alookup (insertAll (eraseKeys old del) set) k := by
  rw [C30_edit old set del hold hset k]
  unfold insertAll
  rw [alookup_foldl_ainsert set _ hset k, alookup_eraseKeys]
  cases alookup set k <;> rfl

example : (akeys ([([1], [10]), ([2], [20])] : Tags)).Nodup := by decide

/-- Deleting absent keys changes nothing; setting and deleting the same key sets it. -/
theorem C30_set_wins (old set : Tags) (del : List Bytes) (hold : (akeys old).Nodup) (hset : (akeys set).Nodup)
    (k v : Bytes) (h : alookup set k = some v) : alookup (edit old set del) k = some v := by
  rw [C30_edit old set del hold hset k, h]

/-! ## exact encoded size -/

/-- The closed-form size is the length of the encoding (magic byte + msgpack map). -/
theorem C30_encoded_size_exact (t : Tags) : (encodeTags t).length = encodedSize t := encodeTags_length t

/-- The size does not depend on the order in which Go iterates over the map. -/
theorem C30_encoded_size_perm (t t' : Tags) (h : t.Perm t') : encodedSize t = encodedSize t' := by
  have he : entriesSize t = entriesSize t' := by
    induction h with
    | nil => rfl
    | cons x _ ih => simp [entriesSize, ih]
    | swap x y l => simp only [entriesSize]; omega
    | trans _ _ ih1 ih2 => exact ih1.trans ih2
  have hl : t.length = t'.length := h.length_eq
  simp [encodedSize, hl, he]

/-! ## persistence -/

/-- The extracted order of the unchanged tree is one of the two understood by the proofs:
the safe order (then `C30_persisted` applies to the code) or the file-first order of the
recorded finding. -/
theorem C30_extracted_shape :
    SerfModel.Gen.AgentSetTags.shape.SerfFirst = true ∨ SerfModel.Gen.AgentSetTags.shape = ⟨true, false⟩ := by decide

/-- Source-tied obligation (since the repair c4cada7): in the current tree `Agent.SetTags` asks Serf first
and writes the tags file only after Serf accepted the tags. -/
theorem C30_current_tree_serf_first : SerfModel.Gen.AgentSetTags.shape.SerfFirst = true := by decide

theorem step_serfFirst_inv (sh : SetTagsShape) (h : sh.SerfFirst = true) (s : St) (e : TagEdit)
    (hs : s.file = s.effective) : (step sh s e).1.file = (step sh s e).1.effective := by
  unfold step
  rw [setTags_serfFirst sh h]
  split <;> simp [hs]

theorem run_serfFirst_inv (sh : SetTagsShape) (h : sh.SerfFirst = true) (ops : List TagEdit) (s : St)
    (hs : s.file = s.effective) : (run sh s ops).file = (run sh s ops).effective := by
  induction ops generalizing s with
  | nil => exact hs
  | cons e rest ih => exact ih _ (step_serfFirst_inv sh h s e hs)

/-- **Persisted tags = tags in effect after every prefix of every edit history, including
rejected edits** — when `Agent.SetTags` updates Serf first and writes the file only after
that succeeded (`sh.SerfFirst`).  FULL statement; it applies to the code exactly when
`SerfModel.Gen.AgentSetTags.shape.SerfFirst = true` (the proposed repair). -/
theorem C30_persisted (sh : SetTagsShape) (h : sh.SerfFirst = true) (s : St) (ops : List TagEdit)
    (hs : s.file = s.effective) (n : Nat) :
    (run sh s (ops.take n)).file = (run sh s (ops.take n)).effective :=
  run_serfFirst_inv sh h _ s hs

example : (⟨false, true⟩ : SetTagsShape).SerfFirst = true := by decide

/-- `C30_persisted` instantiated at the shape regenerated from the current tree. -/
theorem C30_persisted_current_tree (s : St) (ops : List TagEdit) (hs : s.file = s.effective) (n : Nat) :
    (run SerfModel.Gen.AgentSetTags.shape s (ops.take n)).file
      = (run SerfModel.Gen.AgentSetTags.shape s (ops.take n)).effective :=
  C30_persisted _ C30_current_tree_serf_first s ops hs n

/-- … and then the next start loads exactly the tags in effect and succeeds. -/
theorem C30_restart_exact (s : St) (hs : s.file = s.effective) (hf : fits s.effective = true) :
    restart s = some s := by
  cases s with
  | mk eff file =>
    simp only at hs hf
    subst hs
    simp [restart, hf]

/-- The tags in effect always fit the limit (any order). -/
theorem C30_effective_fits (sh : SetTagsShape) (ops : List TagEdit) (s : St) (hf : fits s.effective = true) :
    fits (run sh s ops).effective = true := by
  induction ops generalizing s with
  | nil => exact hf
  | cons e rest ih =>
    apply ih
    rcases sh with ⟨a, b⟩
    unfold step setTags
    cases a <;> cases b <;> cases hn : fits (edit s.effective e.set e.del) <;> simp_all

/-- A rejected edit never changes the tags in effect (any order). -/
theorem C30_rejected_keeps_effective (sh : SetTagsShape) (s : St) (e : TagEdit)
    (h : (step sh s e).2 = false) : (step sh s e).1.effective = s.effective := by
  rcases sh with ⟨a, b⟩
  unfold step setTags at h ⊢
  cases a <;> cases b <;> cases hn : fits (edit s.effective e.set e.del) <;> simp_all

/-- An accepted edit takes effect as computed and (re-)synchronises the file (any order). -/
theorem C30_accepted_resyncs (sh : SetTagsShape) (s : St) (e : TagEdit) (h : (step sh s e).2 = true) :
    (step sh s e).1.effective = edit s.effective e.set e.del ∧ (step sh s e).1.file = (step sh s e).1.effective := by
  unfold step at h ⊢
  rw [setTags_accepted sh s _ h]
  simp

/-
FULL statement for the code as it is (not provable: the file is written before the size check):

  theorem C30_persisted_asis (s : St) (ops : List TagEdit) (hs : s.file = s.effective) (n : Nat) :
      (run Gen.AgentSetTags.shape s (ops.take n)).file = (run Gen.AgentSetTags.shape s (ops.take n)).effective
-/

theorem run_allAccepted_inv (sh : SetTagsShape) (ops : List TagEdit) (s : St) (hs : s.file = s.effective)
    (hacc : allAccepted sh s ops = true) : (run sh s ops).file = (run sh s ops).effective := by
  induction ops generalizing s with
  | nil => exact hs
  | cons e rest ih =>
    simp only [allAccepted, Bool.and_eq_true] at hacc
    exact ih _ (C30_accepted_resyncs sh s e hacc.1).2 hacc.2

/-- PARTIAL (any order, in particular the unchanged tree's): if no edit of the history is
rejected — every edit's result encodes to at most 512 bytes — the file equals the tags in
effect at the end (apply it to `ops.take n` for every prefix). -/
theorem C30_persisted_partial (sh : SetTagsShape) (s : St) (ops : List TagEdit)
    (hs : s.file = s.effective) (hacc : allAccepted sh s ops = true) :
    (run sh s ops).file = (run sh s ops).effective :=
  run_allAccepted_inv sh ops s hs hacc

example : allAccepted ⟨true, false⟩ ⟨[], []⟩ [⟨[([1], [2])], []⟩, ⟨[], [[1]]⟩] = true := by decide

/-- One edit over the limit: a 600-byte value. -/
def overLimitEdit : TagEdit := ⟨[([98], List.replicate 600 122)], []⟩

set_option maxRecDepth 20000 in
/-- COUNTEREXAMPLE for the file-first order (the unchanged tree): after the rejected edit the
file holds the rejected tags, the tags in effect are unchanged, and the next start fails. -/
theorem C30_persisted_counterexample :
    (step ⟨true, false⟩ ⟨[([114], [119])], [([114], [119])]⟩ overLimitEdit).2 = false ∧
    (run ⟨true, false⟩ ⟨[([114], [119])], [([114], [119])]⟩ [overLimitEdit]).file ≠
      (run ⟨true, false⟩ ⟨[([114], [119])], [([114], [119])]⟩ [overLimitEdit]).effective ∧
    restart (run ⟨true, false⟩ ⟨[([114], [119])], [([114], [119])]⟩ [overLimitEdit]) = none := by
  decide

end SerfProofs.C30
