/-
C02 — A member's status time only grows; an intent that is not newer changes nothing.
(per-step clauses in full; the cluster-level agreement clause PARTIALLY — `C02_agreement_partial*` at the end of the file, with the two counterexamples to the full statement)

Model: `SerfModel.Node` (serf/serf.go, serf/delegate.go): one node's membership state machine.
`members` is the Go map `s.members`; `ltimeOf n x` is `s.members[x].statusLTime`, `statusOf n x`
the stored status.  `step n op` applies one input of any kind: memberlist notification
(join / leave / update), gossip intent (`NotifyMsg` with a messageJoin / messageLeave), push/pull
merge (`MergeRemoteState`, both loops), local Leave / force-leave / Join's own broadcast / the
spawned refuting join, Shutdown, one reaper tick.  `run` folds `step`.

Proved here (the effect lemmas are in `SerfProofs.NodeSteps`):
  * `C02_ltime_monotone`       whatever the input, a member that is known before and after has a
                               status time at least as large;
  * `C02_ltime_monotone_run`   the same along a run during which the member is never forgotten
                               (the hypothesis is needed: a member erased by prune or the reaper
                               and announced again by memberlist restarts at the buffered intent's
                               time or 0 — `C02_rejoin_after_erase_restarts`);
  * `C02_stale_join_noop`, `C02_stale_leave_noop`, `C02_stale_intent_noop`
                               a join / leave intent whose Lamport time is not newer than the
                               recorded status time leaves members, failed list, left list (and,
                               for leave, the spawned refutations) as they are, emits no event
                               and is not re-queued; a stale prune does not erase;
  * `C02_newer_join_applies`, `C02_newer_leave_applies`
                               a newer intent does take effect as the transition table says, so
                               the comparison is not vacuous; the running local node is the
                               exception and spawns its refuting join instead
                               (`C02_newer_leave_about_running_self_refutes`);
  * `C02_agreement_partial_merge_adopts_silently` (+ `…_leave_would_refute`)
                               the single-node half of the counterexample that the reading of the
                               code predicts for the cluster-level clause (by evaluation).
Only the Lamport clock (`witness`) moves on a stale intent; the theorems say nothing about it.
-/
import SerfProofs.Lemmas.NodeSteps
import SerfProofs.Lemmas.NodeObserver
import SerfProofs.Lemmas.Cluster
import SerfProofs.Lemmas.ClusterSync
namespace SerfProofs.C02
open SerfModel SerfModel.Node SerfProofs.NodeBook SerfProofs.NodeSteps

/-- A run used by the witnesses below: "b" joins and announces its leave at Lamport time 4
(so it is recorded as leaving at 4); "c" joins and fails at wall time 3. -/
def demo : Node :=
  run (Node.init "self" {}) [.nodeJoin "b", .leaveMsg "b" 4 false 0, .nodeJoin "c", .nodeLeave "c" 3]

example : ltimeOf demo "b" = some 4 ∧ statusOf demo "b" = some .leaving ∧
    ltimeOf demo "c" = some 0 ∧ statusOf demo "c" = some .failed ∧ demo.failed = ["c"] := by decide

/-! ### the status time only grows -/

/-- status time only grows, at every step of every kind (gossip, merge, notifications, local ops, reaper) -/
theorem C02_ltime_monotone (n : Node) (op : Op) (x : Name) (t t' : Nat)
    (h : ltimeOf n x = some t) (h' : ltimeOf (step n op).1 x = some t') : t ≤ t' :=
  ltime_mono_step n op x t t' h h'

-- Witnesses: a gossip join, a push/pull (left list and status list), a force-leave.
example : ltimeOf demo "b" = some 4 ∧ ltimeOf (step demo (.joinMsg "b" 6 0)).1 "b" = some 6 := by decide
example : ltimeOf demo "c" = some 0 ∧
    ltimeOf (step demo (.merge 9 [("b", 2), ("c", 5)] ["c"] 0)).1 "c" = some 6 ∧
    ltimeOf (step demo (.merge 9 [("b", 2), ("c", 5)] ["c"] 0)).1 "b" = some 4 := by decide
example : ltimeOf (step demo (.forceLeave "c" false 0)).1 "c" = some 5 := by decide

/-- along a run during which the member is never forgotten (known after every prefix), its status
time at the end is at least its status time at the start -/
theorem C02_ltime_monotone_run (ops : List Op) : ∀ (n : Node) (x : Name) (t t' : Nat),
    (∀ k, k ≤ ops.length → known (run n (ops.take k)) x = true) →
    ltimeOf n x = some t → ltimeOf (run n ops) x = some t' → t ≤ t' := by
  induction ops with
  | nil =>
    intro n x t t' _ h h'
    simp only [run] at h'
    rw [h] at h'
    cases h'
    exact Nat.le_refl _
  | cons op ops ih =>
    intro n x t t' hk h h'
    have hk1 : known (step n op).1 x = true := hk 1 (by simp)
    cases h1 : ltimeOf (step n op).1 x with
    | none =>
      unfold known at hk1
      unfold ltimeOf at h1
      cases hl : alookup (step n op).1.members x <;> simp [hl] at hk1 h1
    | some t1 =>
      have hle : t ≤ t1 := C02_ltime_monotone n op x t t1 h h1
      have hrest : t1 ≤ t' := by
        apply ih (step n op).1 x t1 t' _ h1 h'
        intro k hkl
        exact hk (k + 1) (by simp; omega)
      omega

-- Witness: "b" stays known along the whole run and goes 4 → 4 → 6 → 6 → 6.
example : (∀ k, k ≤ 4 → known (run demo ([.joinMsg "b" 3 0, .leaveMsg "b" 6 false 0, .nodeLeave "b" 1, .nodeJoin "b"].take k)) "b" = true) ∧
    ltimeOf demo "b" = some 4 ∧
    ltimeOf (run demo [.joinMsg "b" 3 0, .leaveMsg "b" 6 false 0, .nodeLeave "b" 1, .nodeJoin "b"]) "b" = some 6 := by
  decide

/-- why the run statement needs "never forgotten": a member erased (here by a newer prune claim)
and announced again by memberlist restarts at 0 -/
theorem C02_rejoin_after_erase_restarts :
    ltimeOf demo "b" = some 4 ∧
    known (run demo [.leaveMsg "b" 5 true 0]) "b" = false ∧
    ltimeOf (run demo [.leaveMsg "b" 5 true 0, .nodeJoin "b"]) "b" = some 0 := by decide

/-! ### an intent that is not newer changes nothing -/

/-- a join intent that is not newer than the recorded status time changes nothing about the member and is not re-queued -/
theorem C02_stale_join_noop (n : Node) (x : Name) (lt wall t : Nat) (h : ltimeOf n x = some t) (hs : lt ≤ t) :
    (handleJoinIntent n x lt wall).1.members = n.members ∧ (handleJoinIntent n x lt wall).1.failed = n.failed ∧
    (handleJoinIntent n x lt wall).1.left = n.left ∧ (handleJoinIntent n x lt wall).2.rebroadcast = false ∧
    (handleJoinIntent n x lt wall).2.events = [] := by
  unfold ltimeOf at h
  cases hm : alookup n.members x with
  | none => simp [hm] at h
  | some m =>
    simp [hm] at h
    have hle : lt ≤ m.ltime := by omega
    unfold handleJoinIntent
    dsimp only
    split
    · next hnone => rw [hm] at hnone; cases hnone
    · next m' hsome =>
      rw [hm] at hsome
      cases hsome
      rw [if_pos hle]
      exact ⟨rfl, rfl, rfl, rfl, rfl⟩

-- Witness: a join at time 4 (equal) or 3 (older) about "b", recorded leaving at 4.
example : ltimeOf demo "b" = some 4 ∧ (4 : Nat) ≤ 4 := by decide
example : statusOf (handleJoinIntent demo "b" 4 0).1 "b" = some .leaving ∧
    statusOf (handleJoinIntent demo "b" 3 0).1 "b" = some .leaving := by decide

/-- same for a leave intent, with or without prune (so a stale prune does not erase); no refuting join is spawned -/
theorem C02_stale_leave_noop (n : Node) (x : Name) (lt wall t : Nat) (prune : Bool)
    (h : ltimeOf n x = some t) (hs : lt ≤ t) :
    (handleLeaveIntent n x lt prune wall).1.members = n.members ∧
    (handleLeaveIntent n x lt prune wall).1.failed = n.failed ∧
    (handleLeaveIntent n x lt prune wall).1.left = n.left ∧
    (handleLeaveIntent n x lt prune wall).2.rebroadcast = false ∧
    (handleLeaveIntent n x lt prune wall).2.events = [] ∧
    (handleLeaveIntent n x lt prune wall).1.pending = n.pending := by
  unfold ltimeOf at h
  cases hm : alookup n.members x with
  | none => simp [hm] at h
  | some m =>
    simp [hm] at h
    have hle : lt ≤ m.ltime := by omega
    unfold handleLeaveIntent
    dsimp only
    split
    · next hnone => rw [hm] at hnone; cases hnone
    · next m' hsome =>
      rw [hm] at hsome
      cases hsome
      rw [if_pos hle]
      exact ⟨rfl, rfl, rfl, rfl, rfl, rfl⟩

-- Witness: a prune claim at time 4 about "b" (recorded at 4) does not erase it; the same claim at 5 does.
example : ltimeOf demo "b" = some 4 ∧ (4 : Nat) ≤ 4 := by decide
example : known (handleLeaveIntent demo "b" 4 true 0).1 "b" = true ∧
    known (handleLeaveIntent demo "b" 5 true 0).1 "b" = false := by decide

/-- and through the gossip entry point: a `NotifyMsg` carrying a join / leave that is not newer
leaves the status of every member unchanged and is not re-queued -/
theorem C02_stale_intent_noop (n : Node) (op : Op) (m : Msg) (t : Nat) (hm : op.msg? = some m)
    (h : ltimeOf n m.node = some t) (hs : m.ltime ≤ t) :
    (∀ y, statusOf (step n op).1 y = statusOf n y) ∧ (step n op).2.rebroadcast = false := by
  cases op with
  | joinMsg x lt w =>
    simp only [Op.msg?, Option.some.injEq] at hm
    subst hm
    have := C02_stale_join_noop n x lt w t h hs
    exact ⟨fun y => statusOf_congr this.1 y, this.2.2.2.1⟩
  | leaveMsg x lt p w =>
    simp only [Op.msg?, Option.some.injEq] at hm
    subst hm
    have := C02_stale_leave_noop n x lt w t p h hs
    exact ⟨fun y => statusOf_congr this.1 y, this.2.2.2.1⟩
  | _ => simp [Op.msg?] at hm

-- Witness: the hypotheses hold for a stale leave-with-prune message about "b".
example : (Op.leaveMsg "b" 2 true 0).msg? = some (.leave "b" 2 true) ∧
    ltimeOf demo (Msg.leave "b" 2 true).node = some 4 ∧ (Msg.leave "b" 2 true).ltime ≤ 4 := by decide

/-! ### a newer intent does apply -/

/-- a NEWER join intent about a known member takes effect: the member gets that status time, a
leaving member becomes alive (any other status stays), nobody else is touched, the message is
re-queued -/
theorem C02_newer_join_applies (n : Node) (x : Name) (lt wall t : Nat) (h : ltimeOf n x = some t) (hn : t < lt) :
    ltimeOf (handleJoinIntent n x lt wall).1 x = some lt ∧
    statusOf (handleJoinIntent n x lt wall).1 x =
      (statusOf n x).map (fun s => if s = .leaving then .alive else s) ∧
    (∀ y, y ≠ x → alookup (handleJoinIntent n x lt wall).1.members y = alookup n.members y) ∧
    (handleJoinIntent n x lt wall).2.rebroadcast = true := by
  unfold ltimeOf at h
  cases hm : alookup n.members x with
  | none => simp [hm] at h
  | some m =>
    simp [hm] at h
    have hlt : ¬ lt ≤ m.ltime := by omega
    unfold handleJoinIntent
    dsimp only
    split
    · next hnone => rw [hm] at hnone; cases hnone
    · next m' hsome =>
      rw [hm] at hsome
      cases hsome
      rw [if_neg hlt]
      refine ⟨?_, ?_, ?_, rfl⟩
      · unfold ltimeOf
        dsimp only
        rw [alookup_ainsert_self]
        rfl
      · unfold statusOf
        dsimp only
        rw [alookup_ainsert_self, hm]
        rfl
      · intro y hy
        exact alookup_ainsert_ne _ _ _ _ hy

-- Witness: a join at time 6 about "b" (leaving at 4) makes it alive at 6; about "c" (failed at 0) it only moves the time.
example : ltimeOf demo "b" = some 4 ∧ (4 : Nat) < 6 := by decide
example : statusOf (handleJoinIntent demo "b" 6 0).1 "b" = some .alive ∧
    ltimeOf (handleJoinIntent demo "b" 6 0).1 "b" = some 6 ∧
    statusOf (handleJoinIntent demo "c" 6 0).1 "c" = some .failed ∧
    ltimeOf (handleJoinIntent demo "c" 6 0).1 "c" = some 6 := by decide

/-- The status a newer leave intent (without prune) gives a member. -/
def afterLeave : Status → Status
  | .alive => .leaving
  | .failed => .left
  | s => s

/-- a NEWER leave intent (no prune) about a known member other than the running local node takes
effect: the member gets that status time, alive becomes leaving, failed becomes left (leaving and
left stay), nobody else is touched, the message is re-queued -/
theorem C02_newer_leave_applies (n : Node) (x : Name) (lt wall t : Nat) (h : ltimeOf n x = some t) (hn : t < lt)
    (hself : ¬ (x = n.name ∧ n.life = .alive)) :
    ltimeOf (handleLeaveIntent n x lt false wall).1 x = some lt ∧
    statusOf (handleLeaveIntent n x lt false wall).1 x = (statusOf n x).map afterLeave ∧
    (∀ y, y ≠ x → alookup (handleLeaveIntent n x lt false wall).1.members y = alookup n.members y) ∧
    (handleLeaveIntent n x lt false wall).2.rebroadcast = true := by
  unfold ltimeOf at h
  cases hm : alookup n.members x with
  | none => simp [hm] at h
  | some m =>
    simp [hm] at h
    have hlt : ¬ lt ≤ m.ltime := by omega
    unfold handleLeaveIntent
    dsimp only
    split
    · next hnone => rw [hm] at hnone; cases hnone
    · next m' hsome =>
      rw [hm] at hsome
      cases hsome
      rw [if_neg hlt, if_neg hself]
      split
      · next hst =>
        refine ⟨?_, ?_, ?_, rfl⟩
        · unfold ltimeOf
          simp [alookup_ainsert_self]
        · unfold statusOf
          simp [alookup_ainsert_self, hm, hst, afterLeave]
        · intro y hy
          exact alookup_ainsert_ne _ _ _ _ hy
      · next hst =>
        refine ⟨?_, ?_, ?_, rfl⟩
        · unfold ltimeOf
          simp [alookup_ainsert_self]
        · unfold statusOf
          simp [alookup_ainsert_self, hm, hst, afterLeave]
        · intro y hy
          exact alookup_ainsert_ne _ _ _ _ hy
      · next hna hnf =>
        refine ⟨?_, ?_, ?_, rfl⟩
        · unfold ltimeOf
          simp [alookup_ainsert_self]
        · unfold statusOf
          have : afterLeave m.status = m.status := by
            cases hst : m.status <;> simp_all [afterLeave]
          simp [alookup_ainsert_self, hm, this]
        · intro y hy
          exact alookup_ainsert_ne _ _ _ _ hy

/-- the local node while it is running is the exception: a newer leave claim about it does not
change its record; it spawns the refuting join instead -/
theorem C02_newer_leave_about_running_self_refutes (n : Node) (lt wall t : Nat) (prune : Bool)
    (h : ltimeOf n n.name = some t) (hn : t < lt) (hlife : n.life = .alive) :
    (handleLeaveIntent n n.name lt prune wall).1.members = n.members ∧
    (handleLeaveIntent n n.name lt prune wall).1.pending = n.pending ++ [witness n.clock lt] ∧
    (handleLeaveIntent n n.name lt prune wall).2.rebroadcast = false := by
  unfold ltimeOf at h
  cases hm : alookup n.members n.name with
  | none => simp [hm] at h
  | some m =>
    simp [hm] at h
    have hlt : ¬ lt ≤ m.ltime := by omega
    unfold handleLeaveIntent
    dsimp only
    split
    · next hnone => rw [hm] at hnone; cases hnone
    · next m' hsome =>
      rw [hm] at hsome
      cases hsome
      rw [if_neg hlt, if_pos ⟨rfl, hlife⟩]
      exact ⟨rfl, rfl, rfl⟩

-- Witnesses: a leave at 5 about failed "c" → left at 5, listed as left and no longer as failed;
-- a new alive member "d", leave at 1 → leaving; a leave at 3 about the running local node → its
-- record stays and a refuting join (at the clock value 5) is spawned.
example : ltimeOf demo "c" = some 0 ∧ (0 : Nat) < 5 ∧ ¬ ("c" = demo.name ∧ demo.life = .alive) := by decide
example : statusOf (handleLeaveIntent demo "c" 5 false 0).1 "c" = some .left ∧
    ltimeOf (handleLeaveIntent demo "c" 5 false 0).1 "c" = some 5 ∧
    (handleLeaveIntent demo "c" 5 false 0).1.failed = [] ∧
    (handleLeaveIntent demo "c" 5 false 0).1.left = ["c"] := by decide
example : statusOf (handleLeaveIntent (step demo (.nodeJoin "d")).1 "d" 1 false 0).1 "d" = some .leaving := by decide
example : ltimeOf demo demo.name = some 0 ∧ demo.life = .alive ∧
    (handleLeaveIntent demo "self" 3 false 0).1.pending = [5] := by decide

/-!
### The cluster-level clause (history: written before the cluster model existed; see the section
"cluster-level agreement" at the end of the file for what is now proved and refuted)

C02 also has a cluster-level clause:

  "for every delivery schedule of the gossip messages (any order, any loss, any duplication),
   followed by a state-sync (push/pull) exchange between every pair of members, all members
   agree on each member's status and status time."

The cluster model is `SerfModel.Cluster` (N nodes, in-flight multiset with loss / duplication, a
memberlist oracle, push/pull with both LocalStates computed before merging, local API ops).

Reading the code predicts a counterexample rather than a proof.  W force-leaves the running node
X (`RemoveFailedNode`): W records X as leaving at W's clock value T and gossips the leave.  The
gossip copy addressed to X is lost.  W and X then push/pull.  X does not list itself as left, so
W's entry for X (status time T) reaches X's `MergeRemoteState` in the SECOND loop, as a JOIN
intent about X itself at time T.  X's `handleNodeJoinIntent` sees a newer time for a known
member and adopts it: statusLTime := T, status stays alive; the refutation path
(`go s.broadcastJoin`) exists only in `handleNodeLeaveIntent`, so nothing is spawned and nothing
is queued.  In the other direction W receives X's old entry (time < T) as a stale join and drops
it (`C02_stale_join_noop`).  After the exchange W keeps X as `leaving` at T while X believes it
is `alive` at T, and no message that would repair this is in flight.

The single-node half of that schedule is a theorem of this model.
-/

/-- single-node half of the predicted agreement counterexample: a push/pull that carries a newer status time for the local node (not listed as left) is applied as a join intent: the node adopts the time and queues nothing, so it never refutes -/
theorem C02_agreement_partial_merge_adopts_silently :
    let n := Node.init "self" {}
    let r := step n (.merge 9 [("self", 7)] [] 0)
    ltimeOf r.1 "self" = some 7 ∧ r.1.pending = [] ∧ r.2.queued = [] := by decide

/-- the other half at W, for comparison: the same claim arriving as a LEAVE intent (the gossip
copy that was lost) would have made the node spawn its refuting join -/
theorem C02_agreement_partial_leave_would_refute :
    let n := Node.init "self" {}
    let r := step n (.leaveMsg "self" 7 false 0)
    ltimeOf r.1 "self" = some 0 ∧ r.1.pending = [8] := by decide

/-- Second counterexample to the agreement clause (recorded finding `rejoined-stuck-leaving`, seen on a
real 4-node cluster and reproduced on the real single node by corpus/C02/rejoined-stuck-leaving.case):
x leaves gracefully at L = 5, restarts and rejoins (its join intent carries L + 1 = 6); the observer gets
memberlist's NotifyJoin(x), then merges a push/pull from a peer that still lists x as left with status
time 5: the artificial leave intent at 5 + 1 = 6 turns the running x from alive to leaving, and x's
real join intent at 6 is ignored (6 ≤ 6) — x stays `leaving`, and the join is not even gossiped on. -/
theorem C02_rejoined_stuck_leaving_counterexample :
    let n := run (Node.init "a" {}) [.nodeJoin "x", .leaveMsg "x" 5 false 0, .nodeLeave "x" 0,
      .nodeJoin "x", .merge 6 [("x", 5)] ["x"] 0, .joinMsg "x" 6 0]
    statusOf n "x" = some .leaving ∧ ltimeOf n "x" = some 6 ∧
      (step n (.joinMsg "x" 6 0)).2.rebroadcast = false ∧
      statusOf (step n (.joinMsg "x" 6 0)).1 "x" = some .leaving := by decide

/-! ### cluster-level agreement

FULL STATEMENT (not provable — the code violates it; both counterexamples are theorems):

    theorem C02_agreement (names) (cfg) (steps : List CStep) :
        MLTruthful steps → AllPairsSynced steps →
        ∀ a b x, running a → running b → Agree (truth x) (status a x) (status b x)

  where `Agree` is the property's table: x running → both `alive`; mid-leave → each `alive` or
  `leaving`; down after a leave / force-leave newer than its latest join → both `left`; down
  otherwise → both `failed`.

  Counterexample 1 (unrefuted claim): `SerfProofs.Cluster.cluster_unrefuted_claim_counterexample`
  (2 nodes) and `…_three` (3 nodes, the gossip copy really lost): W force-leaves the running X,
  push/pull hands X the claim as a JOIN intent about itself, X adopts the time silently; W lists
  X as `leaving`, X (and Y) as `alive`, nothing is in flight or pending, and every further
  push/pull is a no-op on the whole cluster.  Single-node half: `C02_agreement_partial_merge_adopts_silently`.
  Counterexample 2 (tie, recorded finding `rejoined-stuck-leaving`, observed on a real 4-node
  cluster): `C02_rejoined_stuck_leaving_counterexample` and its cluster form
  `C02_agreement_counterexample_tie` below.

PROVED (`C02_agreement_partial*`): every node of every cluster run is the single-node `run` of
its local history (`crun_node`), so the observer-local theorems lift to every observer of every
cluster run — any delivery order, duplication, loss, any placement of push/pulls, memberlist
notifications and local API calls.  Agreement between two observers a, b about subject x then
reads: if both local histories satisfy the observer-local hypotheses of the same liveness class
of x, both list x with the same status.  The hypothesis `AliveAt` of the `alive` class is
explicit and satisfiable, and it excludes exactly the two counterexamples: every leave claim
about x that reached the observer (by gossip or created by a merge at StatusLTimes+1) is
STRICTLY older than some join intent about x that reached it (the tie has `=`; in the unrefuted
claim the observer W made the claim itself by a local force-leave, excluded by `noForce`).
-/

section ClusterAgreement
open SerfModel.Cluster SerfProofs.Cluster SerfProofs.NodeObserver SerfProofs.NodeGossip

/-- The observer-local hypotheses of the `alive` class, for an observer starting as `n` with local
history `ops`: memberlist last reported x up; x was never erased nor its buffered intent reaped;
the observer did not force-leave x itself; every leave claim about x delivered to the observer is
strictly older than some join intent about x delivered to it. -/
structure AliveAt (n : Node) (ops : List Op) (x : Name) : Prop where
  ne : x ≠ n.name
  kept : KeptAlong n ops x
  noForce : NoForceLeave ops x
  up : lastUp x ops false = true
  newer : ∀ l ∈ leaveTimes ops x, ∃ j ∈ joinTimes ops x, l < j

/-- one observer of an arbitrary cluster run from a fresh cluster -/
theorem C02_cluster_observer_alive (names : List Name) (cfg : Config) (steps : List CStep) (i : Nat)
    (nm x : Name) (hi : names[i]? = some nm)
    (h : AliveAt (Node.init nm cfg) (history (Cluster.init names cfg) steps i) x) :
    ∃ s, (crun (Cluster.init names cfg) steps).nodes[i]? = some s ∧ statusOf s x = some .alive := by
  refine ⟨_, crun_node steps _ i _ (init_node names cfg i nm hi), ?_⟩
  exact observer_alive nm cfg _ x h.ne h.kept h.noForce h.up h.newer

/-- **Agreement, class `running`.** For every cluster run (any schedule, duplication, loss, push/pull
placement), any two observers whose local histories satisfy `AliveAt` for x both list x as alive. -/
theorem C02_agreement_partial (names : List Name) (cfg : Config) (steps : List CStep) (a b : Nat)
    (na nb x : Name) (ha : names[a]? = some na) (hb : names[b]? = some nb)
    (Ha : AliveAt (Node.init na cfg) (history (Cluster.init names cfg) steps a) x)
    (Hb : AliveAt (Node.init nb cfg) (history (Cluster.init names cfg) steps b) x) :
    ∃ sa sb, (crun (Cluster.init names cfg) steps).nodes[a]? = some sa ∧
      (crun (Cluster.init names cfg) steps).nodes[b]? = some sb ∧
      statusOf sa x = statusOf sb x ∧ statusOf sa x = some .alive := by
  obtain ⟨sa, h1, h2⟩ := C02_cluster_observer_alive names cfg steps a na x ha Ha
  obtain ⟨sb, h3, h4⟩ := C02_cluster_observer_alive names cfg steps b nb x hb Hb
  exact ⟨sa, sb, h1, h3, by rw [h2, h4], h2⟩

/-- **Agreement, class `left`, from any cluster state.** Two observers that list x as left keep
agreeing on `left` along every continuation in which memberlist does not announce x anew to them
and x is not erased (reaped / pruned) at them: no gossip, merge or local call resurrects x. -/
theorem C02_agreement_partial_left (c : Cluster) (steps : List CStep) (a b : Nat) (na nb : Node) (x : Name)
    (ha : c.nodes[a]? = some na) (hb : c.nodes[b]? = some nb)
    (la : statusOf na x = some .left) (lb : statusOf nb x = some .left)
    (ja : ∀ op ∈ history c steps a, op ≠ .nodeJoin x) (jb : ∀ op ∈ history c steps b, op ≠ .nodeJoin x)
    (ka : KeptAlong na (history c steps a) x) (kb : KeptAlong nb (history c steps b) x) :
    ∃ sa sb, (crun c steps).nodes[a]? = some sa ∧ (crun c steps).nodes[b]? = some sb ∧
      statusOf sa x = some .left ∧ statusOf sb x = some .left :=
  ⟨_, _, crun_node steps c a na ha, crun_node steps c b nb hb,
    left_stays_left na _ x la ja ka, left_stays_left nb _ x lb jb kb⟩

/-- **Agreement, class `failed`, from any cluster state.** Two observers that list x as failed keep
agreeing on `failed` while memberlist does not announce x anew, no leave / force-leave claim about x
reaches them (otherwise see `C01_forceleft_left`: it becomes left), and x is not erased. -/
theorem C02_agreement_partial_failed (c : Cluster) (steps : List CStep) (a b : Nat) (na nb : Node) (x : Name)
    (ha : c.nodes[a]? = some na) (hb : c.nodes[b]? = some nb) (xa : x ≠ na.name) (xb : x ≠ nb.name)
    (fa : statusOf na x = some .failed) (fb : statusOf nb x = some .failed)
    (ja : ∀ op ∈ history c steps a, op ≠ .nodeJoin x) (jb : ∀ op ∈ history c steps b, op ≠ .nodeJoin x)
    (ca : ∀ op ∈ history c steps a, isLeaveClaimAbout x op = false)
    (cb : ∀ op ∈ history c steps b, isLeaveClaimAbout x op = false)
    (ka : KeptAlong na (history c steps a) x) (kb : KeptAlong nb (history c steps b) x) :
    ∃ sa sb, (crun c steps).nodes[a]? = some sa ∧ (crun c steps).nodes[b]? = some sb ∧
      statusOf sa x = some .failed ∧ statusOf sb x = some .failed :=
  ⟨_, _, crun_node steps c a na ha, crun_node steps c b nb hb,
    failed_stays_failed na _ x xa fa ja ca ka, failed_stays_failed nb _ x xb fb jb cb kb⟩

/-- The tie on a cluster (counterexample 2; nodes 0 = "a", 1 = "p", 2 = "x").  "x" leaves gracefully
(leave intent at time 1, delivered to "a" and "p"; the copies they re-queue are lost), memberlist
reports it down to both, then "x" comes back: its join intent carries its clock, 2 — the tie time —
and memberlist reports it up to "a".  "a" push/pulls with "p", which still lists "x" as left at
time 1: `MergeRemoteState` makes the artificial leave at 1 + 1 = 2 and "a" turns the running "x"
from alive to leaving.  Then the real join intent at 2 is delivered to "a" (ignored: 2 ≤ 2) and to
"p" (applied), and memberlist reports "x" up to "p". -/
def tieRun : List CStep :=
  [.notify 0 "x" true 0, .notify 1 "x" true 0, .notify 2 "a" true 0,
   .api 2 (.leaveBegin 0),
   .deliver 0 0 true, .deliver 1 0 false, .drop 0, .drop 0,
   .notify 0 "x" false 3, .notify 1 "x" false 3,
   .api 2 (.ownJoin 0),
   .notify 0 "x" true 0,
   .pushPull 0 1 0,
   .deliver 0 0 true, .deliver 1 0 false, .notify 1 "x" true 0]

/-- Counterexample 2 to full agreement: after `tieRun`, "a" lists the running "x" as `leaving` and
"p" lists it as `alive`, both at status time 2, no refutation pending; more push/pulls in both
directions and further deliveries of the join intent still on the wire change nothing. -/
theorem C02_agreement_counterexample_tie :
    (crun (Cluster.init ["a", "p", "x"]) tieRun).nodes.map (fun n => (n.name, statusOf n "x", ltimeOf n "x", n.pending))
      = [("a", some .leaving, some 2, []), ("p", some .alive, some 2, []), ("x", some .alive, some 2, [])] ∧
    (crun (Cluster.init ["a", "p", "x"]) tieRun).flight = [.join "x" 2] ∧
    (crun (Cluster.init ["a", "p", "x"]) (tieRun ++ [.pushPull 0 1 0, .pushPull 1 0 0, .deliver 0 0 true, .deliver 0 0 true])).nodes
      = (crun (Cluster.init ["a", "p", "x"]) tieRun).nodes := by decide +kernel

-- non-vacuity of `AliveAt` / `C02_agreement_partial`: in the run where the leave claim about "x"
-- (time 1) is followed at both observers by a join intent at time 2, both list "x" as alive.
def okRun : List CStep :=
  [.notify 0 "x" true 0, .notify 1 "x" true 0, .notify 2 "a" true 0,
   .api 2 (.leaveBegin 0), .deliver 0 0 true, .deliver 1 0 false, .drop 0, .drop 0,
   .api 2 (.ownJoin 0), .deliver 0 0 true, .deliver 1 0 false]
example : (crun (Cluster.init ["a", "p", "x"]) okRun).nodes.map (fun n => (statusOf n "x", ltimeOf n "x"))
    = [(some .alive, some 2), (some .alive, some 2), (some .alive, some 2)] := by decide +kernel
example : leaveTimes (history (Cluster.init ["a", "p", "x"]) okRun 0) "x" = [1] ∧
    joinTimes (history (Cluster.init ["a", "p", "x"]) okRun 0) "x" = [2] ∧
    lastUp "x" (history (Cluster.init ["a", "p", "x"]) okRun 0) false = true := by decide +kernel

end ClusterAgreement

/-! ### the agreement clause at the property's full statement

"For every delivery schedule of join and leave intents between members (any order, duplication and
loss) followed by a state-sync exchange, all members agree on each member's status: alive while it
runs, leaving or alive while it is mid-leave, left once it is down after a leave or force-leave
newer than its latest join, and failed if it went down otherwise."

Formalisation.  The pre-sync state is `crun (Cluster.init names cfg) steps` for ARBITRARY `steps`
(every order, duplication, loss of gossip; memberlist notifications, push/pulls and local API calls
anywhere) — the bookkeeping invariant of every node (`AllBook`) is discharged by C15
(`allBook_crun`), nothing else is assumed about how the state was reached.  The state-sync exchange
is `syncRound c R w`: one complete simultaneous push/pull round among the running nodes `R` (every
LocalState computed before the round, as memberlist does; every running node merges every other
running node's state).  "Memberlist truthful" is a hypothesis on the pre-sync state: `UpView`
(everybody who lists x lists it alive or leaving, nobody has it on the left list — what the last
notification `up` leaves behind) or `DownView` (failed or left; no running node is named x).
All view predicates are DECIDABLE (they are evaluated by `decide` in the examples).

  running   `C02_agreement_running`   UpView ∧ NoTie  ⇒ everybody who lists x lists it ALIVE at the
            same status time.  `NoTie` — no running node lists x `leaving` at a status time that no
            time known anywhere in the cluster exceeds — is the single excluded class.  It is
            NECESSARY, exactly: `C02_agreement_tie_necessary` (under UpView, a node violating it is
            still `leaving` after the round, for every cluster).  Both recorded counterexamples are
            instances: the tie `rejoined-stuck-leaving` (`tie_violates_NoTie`; join at L+1 after a
            leave at L met by a stale push/pull — and the same happens with an artificial leave at
            L+2, L+3 … made by a chain of merges) and the unrefuted force-leave claim about a
            running member (`claim_violates_NoTie`).
  mid-leave `C02_agreement_midleave`  UpView ⇒ after the round everybody still lists x alive or leaving
            (never failed / left / erased), and who lists x is unchanged.
  left      `C02_agreement_left`      DownView ∧ SomeLeftAtMax (somebody holds the leave and its time is
            the newest time known: "a leave newer than its latest join") ∧ no wrap ⇒ everybody LEFT.
  failed    `C02_agreement_failed`    DownView ∧ NobodyLeft ("went down otherwise") ⇒ everybody FAILED,
            same status time.
  The remaining down case — somebody holds a leave OLDER than a join known elsewhere — is not an
  agreement after one round and converges to `left` after two although the table says `failed`:
  `stale_left_counterexample` (x left at 1, rejoined at 3 unseen by b, died; b: left, c: failed;
  round 1: left@3 / failed@3; round 2: both left).  `wrap_counterexample`: at status time 2^64−1 the
  artificial leave wraps to 0 and never applies (C19's wrap). -/

section FullAgreement
open SerfModel.Cluster SerfProofs.Cluster SerfProofs.ClusterSync

/-- **Agreement, x running.** Every schedule, then a complete state-sync round: all running nodes that
list x list it alive, with the same status time — unless some node holds an unbeaten leave claim. -/
theorem C02_agreement_running (names : List Name) (cfg : Config) (steps : List CStep) (R : List Nat)
    (x : Name) (w : Nat)
    (hu : UpView (crun (Cluster.init names cfg) steps) R x)
    (ht : NoTie (crun (Cluster.init names cfg) steps) R x) :
    ∀ i ∈ R, ∀ n', (syncRound (crun (Cluster.init names cfg) steps) R w).nodes[i]? = some n' →
      ∀ s, statusOf n' x = some s →
        s = .alive ∧ ltimeOf n' x = some (maxLtime (crun (Cluster.init names cfg) steps) R x) :=
  agreement_running _ R x w (allBook_crun names cfg steps) hu ht

/-- the excluded class is exactly what breaks it: a node outside `NoTie` is still `leaving` after the round -/
theorem C02_agreement_tie_necessary (names : List Name) (cfg : Config) (steps : List CStep) (R : List Nat)
    (x : Name) (w : Nat) (hu : UpView (crun (Cluster.init names cfg) steps) R x)
    (i : Nat) (hi : i ∈ R) (n : Node) (hn : (crun (Cluster.init names cfg) steps).nodes[i]? = some n)
    (hs : statusOf n x = some .leaving)
    (ht : ¬ ltimeAt (crun (Cluster.init names cfg) steps) i x < maxLtime (crun (Cluster.init names cfg) steps) R x) :
    ∃ n', (syncRound (crun (Cluster.init names cfg) steps) R w).nodes[i]? = some n' ∧
      statusOf n' x = some .leaving :=
  let ⟨n', h1, h2, _⟩ := tie_persists _ R x w (allBook_crun names cfg steps) hu i hi n hn hs ht
  ⟨n', h1, h2⟩

/-- **Agreement, x mid-leave (or up in general).** -/
theorem C02_agreement_midleave (names : List Name) (cfg : Config) (steps : List CStep) (R : List Nat)
    (x : Name) (w : Nat) (hu : UpView (crun (Cluster.init names cfg) steps) R x) :
    UpView (syncRound (crun (Cluster.init names cfg) steps) R w) R x :=
  (agreement_midleave _ R x w (allBook_crun names cfg steps) hu).1

/-- **Agreement, x down after a leave newer than every join known in the cluster.** -/
theorem C02_agreement_left (names : List Name) (cfg : Config) (steps : List CStep) (R : List Nat)
    (x : Name) (w : Nat) (hd : DownView (crun (Cluster.init names cfg) steps) R x)
    (hl : SomeLeftAtMax (crun (Cluster.init names cfg) steps) R x)
    (hw : maxLtime (crun (Cluster.init names cfg) steps) R x < two64 - 1) :
    ∀ i ∈ R, ∀ n', (syncRound (crun (Cluster.init names cfg) steps) R w).nodes[i]? = some n' →
      ∀ s, statusOf n' x = some s → s = .left :=
  agreement_left _ R x w (allBook_crun names cfg steps) hd hl hw

/-- **Agreement, x down otherwise.** -/
theorem C02_agreement_failed (names : List Name) (cfg : Config) (steps : List CStep) (R : List Nat)
    (x : Name) (w : Nat) (hd : DownView (crun (Cluster.init names cfg) steps) R x)
    (hn : NobodyLeft (crun (Cluster.init names cfg) steps) R x) :
    ∀ i ∈ R, ∀ n', (syncRound (crun (Cluster.init names cfg) steps) R w).nodes[i]? = some n' →
      ∀ s, statusOf n' x = some s →
        s = .failed ∧ ltimeOf n' x = some (maxLtime (crun (Cluster.init names cfg) steps) R x) :=
  agreement_failed _ R x w (allBook_crun names cfg steps) hd hn

-- non-vacuity: concrete schedules satisfying each hypothesis set are in SerfProofs.ClusterSync
-- (`running_example`, `midleave_example`, `left_example`, `failed_example`); e.g. the running class:
example : UpView healC [0, 1, 2] "x" ∧ NoTie healC [0, 1, 2] "x" := ⟨running_example.2.1, running_example.2.2.1⟩
-- the recorded finding is outside NoTie, and only that:
example : ¬ NoTie tieC [0, 1, 2] "x" := tie_violates_NoTie.2.1

end FullAgreement

/-! ### LocalState lists exactly the left members as left

Push/pull turns a LeftMembers entry into a leave intent at StatusLTimes+1 and every other entry into a
join intent.  So the sender must list in LeftMembers exactly the members it holds as `left`: a `leaving`
member (mid-leave, or wrongly claimed) listed there makes the receiver invent a leave at L+1 — which ties
with the refuting join of a running member (seeded change C02-e). -/

section LocalStateExact
open SerfModel.Cluster

theorem C02_localstate_left_exact (n : Node) (h : BookInv n) (x : Name) :
    x ∈ (localState n).2.2 ↔ statusOf n x = some .left := by
  simpa [localState] using h.leftIff x

theorem C02_localstate_left_exact_reachable (name : Name) (cfg : Config) (ops : List Op) (x : Name) :
    x ∈ (localState (run (Node.init name cfg) ops)).2.2 ↔ statusOf (run (Node.init name cfg) ops) x = some .left :=
  C02_localstate_left_exact _ (SerfProofs.NodeBook.inv_run ops _ (SerfProofs.NodeBook.inv_init name cfg)) x

/-- the broken shape: the sender also lists its `leaving` member "x" (time 5) as left; the fresh peer turns the
alive "x" into leaving at 6, and the refuting join of "x" at 6 is then ignored -/
theorem C02_localstate_leaving_as_left_counterexample :
    let a := run (Node.init "a" {}) [.nodeJoin "x", .leaveMsg "x" 5 false 0]
    let p := (step (Node.init "p" {}) (.nodeJoin "x")).1
    -- faithful push/pull: join intent at 5
    statusOf (step p (.merge (localState a).1 (localState a).2.1 (localState a).2.2 0)).1 "x" = some .alive ∧
    -- C02-e: "x" added to the left list
    statusOf (run p [.merge (localState a).1 (localState a).2.1 ["x"] 0, .joinMsg "x" 6 0]) "x" = some .leaving := by
  decide
end LocalStateExact

end SerfProofs.C02
