import SerfProofs.Lemmas.Assoc
import SerfModel.Model.Node
namespace SerfProofs.C02
theorem C02_placeholder : True := trivial
end SerfProofs.C02
