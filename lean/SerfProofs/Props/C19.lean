/-
C19 — Lamport clocks never go backwards and witnessing moves them past the value.

The theorems are about the programs *regenerated from serf/lamport.go*
(`SerfModel.Gen.Lamport`), under the interleaving semantics of
`SerfModel.Model.Atomic`: any number of threads, any number of calls per thread,
every schedule.  `NoOverflow` excludes exactly the steps that wrap the 64-bit
counter (an increment at 2^64−1, a witness of 2^64−1); what happens there is the
recorded finding `C19_witness_max_wraps`.
-/
import SerfProofs.Lemmas.Lamport
namespace SerfProofs.C19
open SerfModel.Atomic SerfModel.Gen SerfProofs.Lamport

/-- Counter value after the first `k` steps of a schedule. -/
def counterAt (s : Sys) (sched : List Nat) (k : Nat) : W := (run P s (sched.take k)).counter

/-- **Never backwards.** For every initial value, every set of threads with any
calls, every schedule without an overflowing step: the counter after `i` steps is
at most the counter after `j ≥ i` steps. -/
theorem C19_monotone (c : W) (calls : List (List Call)) (sched : List Nat)
    (hno : NoOverflow P (Sys.init c calls) sched) (i j : Nat) (hij : i ≤ j) :
    counterAt (Sys.init c calls) sched i ≤ counterAt (Sys.init c calls) sched j := by
  unfold counterAt
  have hsplit : sched.take j = sched.take i ++ (sched.take j).drop i := by
    have : sched.take i = (sched.take j).take i := by rw [List.take_take]; congr 1; omega
    rw [this, List.take_append_drop]
  rw [hsplit, run_append]
  have h1 := run_inv (sched.take i) _ (SysInv.init c calls) (noOverflow_take sched _ i hno)
  have hno2 : NoOverflow P (run P (Sys.init c calls) (sched.take i)) ((sched.take j).drop i) := by
    have hj := noOverflow_take sched _ j hno
    have := noOverflow_drop (sched.take j) _ i hj
    have e : (sched.take j).take i = sched.take i := by rw [List.take_take]; congr 1; omega
    rwa [e] at this
  exact (run_inv _ _ h1.2 hno2).1

/-- **Every increment returns a distinct value**, under every interleaving. -/
theorem C19_increments_distinct (c : W) (calls : List (List Call)) (sched : List Nat)
    (hno : NoOverflow P (Sys.init c calls) sched) :
    (run P (Sys.init c calls) sched).incs.Nodup :=
  (run_inv sched _ (SysInv.init c calls) hno).2.2.2

/-- **After witnessing `v` the clock is strictly greater than `v`** — at the moment
the call returns and at every later point of every schedule. -/
theorem C19_witness_post (c : W) (calls : List (List Call)) (s1 s2 : List Nat)
    (hno : NoOverflow P (Sys.init c calls) (s1 ++ s2)) (t : Nat) (th : Thread) (v : W)
    (hth : (run P (Sys.init c calls) s1).threads[t]? = some th)
    (hdone : ⟨.witness v, none⟩ ∈ th.done) :
    v < (run P (Sys.init c calls) (s1 ++ s2)).counter := by
  have hno1 : NoOverflow P (Sys.init c calls) s1 := by
    have := noOverflow_take (s1 ++ s2) _ s1.length hno; simpa using this
  have hno2 : NoOverflow P (run P (Sys.init c calls) s1) s2 := by
    have := noOverflow_drop (s1 ++ s2) _ s1.length hno; simpa using this
  have h1 := run_inv s1 _ (SysInv.init c calls) hno1
  have hd := (h1.2.1 th (List.mem_of_getElem? hth)).2 _ hdone
  have hd' : v < (run P (Sys.init c calls) s1).counter := hd
  rw [run_append]
  have h2 := (run_inv s2 _ h1.2 hno2).1
  bv_omega

/-- A value returned by `Time()` or `Increment()` never exceeds the counter. -/
theorem C19_reads_below (c : W) (calls : List (List Call)) (sched : List Nat)
    (hno : NoOverflow P (Sys.init c calls) sched) (th : Thread)
    (hth : th ∈ (run P (Sys.init c calls) sched).threads) (d : Done) (hd : d ∈ th.done) (r : W)
    (hcall : d.call = .time ∨ d.call = .increment) (hr : d.result = some r) :
    r ≤ (run P (Sys.init c calls) sched).counter := by
  have h := ((run_inv sched _ (SysInv.init c calls) hno).2.1 th hth).2 d hd
  unfold DoneInv at h
  rcases hcall with h' | h' <;> simp only [h'] at h <;> exact h r hr

/-- Closed form of the sequential `Witness`. -/
def witnessSeq (cur v : W) : W := (runSeq P cur (.witness v)).1

theorem witnessSeq_eq (cur v : W) : witnessSeq cur v = if v < cur then cur else v + 1#64 := by
  unfold witnessSeq runSeq
  simp only [Sys.init, List.map, List.replicate, run, List.foldl, step, stepThread, P, Lamport.progs,
    Progs.of, Lamport.witness, execInstr, Frame.set, Frame.get, Call.argVal, List.getElem?_cons_zero,
    List.set_cons_zero, List.getElem?_cons_succ, ↓reduceIte, Nat.reduceAdd]
  by_cases h : v < cur <;> simp [h]

/-- **Sequential contract for all 64-bit values but the last.** -/
theorem C19_witness_seq (cur v : W) (hv : v ≠ BitVec.allOnes 64) :
    v < witnessSeq cur v ∧ cur ≤ witnessSeq cur v := by
  rw [witnessSeq_eq]
  have : v.toNat ≠ 2 ^ 64 - 1 := by
    intro h; apply hv; apply BitVec.eq_of_toNat_eq; simp [h]
  by_cases h : v < cur <;> simp only [h, ↓reduceIte] <;> constructor <;> bv_omega

/-- Sequential `Increment` returns the successor and `Time` the value itself. -/
theorem C19_increment_seq (cur : W) : runSeq P cur .increment = (cur + 1#64, some (cur + 1#64)) := by
  simp [runSeq, Sys.init, run, step, stepThread, P, Lamport.progs, Progs.of, Lamport.increment,
    execInstr, Frame.set, Frame.get]

theorem C19_time_seq (cur : W) : runSeq P cur .time = (cur, some cur) := by
  simp [runSeq, Sys.init, run, step, stepThread, P, Lamport.progs, Progs.of, Lamport.time,
    execInstr, Frame.set, Frame.get]

/-! ### Sequential algebra of `Witness` (the clock as a join: order-independent, idempotent) -/

/-- one more than the largest witnessed value (0 for none), as a natural number -/
def supSucc : List W → Nat
  | [] => 0
  | v :: vs => max (v.toNat + 1) (supSucc vs)

theorem witnessSeq_toNat (cur v : W) (hv : v ≠ BitVec.allOnes 64) :
    (witnessSeq cur v).toNat = max cur.toNat (v.toNat + 1) := by
  rw [witnessSeq_eq]
  have : v.toNat ≠ 2 ^ 64 - 1 := by
    intro h; apply hv; apply BitVec.eq_of_toNat_eq; simp [h]
  by_cases h : v < cur <;> simp only [h, ↓reduceIte] <;> bv_omega

/-- **Closed form for any sequence of witnesses**: after witnessing `vs` (none of them 2^64−1) in
this order the clock is the maximum of its old value and every witnessed value plus one. -/
theorem C19_witness_all (cur : W) (vs : List W) (h : ∀ v ∈ vs, v ≠ BitVec.allOnes 64) :
    (vs.foldl witnessSeq cur).toNat = max cur.toNat (supSucc vs) := by
  induction vs generalizing cur with
  | nil => simp [supSucc]
  | cons v vs ih =>
    have hv := h v (by simp)
    rw [List.foldl_cons, ih _ (fun w hw => h w (by simp [hw])), witnessSeq_toNat cur v hv]
    simp only [supSucc]; omega

theorem supSucc_perm {vs ws : List W} (p : vs.Perm ws) : supSucc vs = supSucc ws := by
  induction p with
  | nil => rfl
  | cons x _ ih => simp only [supSucc, ih]
  | swap x y l => simp only [supSucc]; omega
  | trans _ _ ih1 ih2 => exact ih1.trans ih2

/-- **Order independence**: witnessing the same values in any order leaves the same clock. -/
theorem C19_witness_order_independent (cur : W) (vs ws : List W) (p : vs.Perm ws)
    (h : ∀ v ∈ vs, v ≠ BitVec.allOnes 64) : vs.foldl witnessSeq cur = ws.foldl witnessSeq cur := by
  apply BitVec.eq_of_toNat_eq
  rw [C19_witness_all cur vs h, C19_witness_all cur ws (fun v hv => h v (p.mem_iff.mpr hv)), supSucc_perm p]

theorem le_supSucc (vs : List W) : ∀ v ∈ vs, v.toNat + 1 ≤ supSucc vs := by
  induction vs with
  | nil => intro v hv; cases hv
  | cons w ws ih =>
    intro v hv
    simp only [supSucc]
    rcases List.mem_cons.mp hv with rfl | hw
    · omega
    · have := ih v hw; omega

/-- **Every witnessed value is strictly below the final clock, and the clock did not go back.** -/
theorem C19_witness_all_above (cur : W) (vs : List W) (h : ∀ v ∈ vs, v ≠ BitVec.allOnes 64) :
    cur ≤ vs.foldl witnessSeq cur ∧ ∀ v ∈ vs, v < vs.foldl witnessSeq cur := by
  have hc := C19_witness_all cur vs h
  have hs := le_supSucc vs
  constructor
  · rw [BitVec.le_def]; omega
  · intro v hv; have := hs v hv; rw [BitVec.lt_def]; omega

/-- **Idempotence**: witnessing a value a second time changes nothing. -/
theorem C19_witness_idempotent (cur v : W) (hv : v ≠ BitVec.allOnes 64) :
    witnessSeq (witnessSeq cur v) v = witnessSeq cur v := by
  apply BitVec.eq_of_toNat_eq
  rw [witnessSeq_toNat _ v hv, witnessSeq_toNat cur v hv]; omega

example : [9#64, 3#64, 7#64].foldl witnessSeq 5#64 = 10#64 ∧ [7#64, 9#64, 3#64].foldl witnessSeq 5#64 = 10#64 := by decide


/-- **Negation witness (recorded finding).** Witnessing 2^64−1 wraps the clock to 0:
it moves backwards, and no 64-bit clock can be strictly greater than that value. -/
theorem C19_witness_max_wraps : witnessSeq 42#64 (BitVec.allOnes 64) = 0#64 := by decide

-- Non-vacuity: a two-thread run with a CAS failure satisfies `NoOverflow`.
example : NoOverflow P (Sys.init 5#64 [[.witness 9#64, .increment], [.witness 7#64, .time]])
    [0, 1, 0, 1, 0, 1, 0, 1, 0, 1, 1, 1, 1, 0, 0, 0, 1, 1, 1] := by decide
example : (run P (Sys.init 5#64 [[.witness 9#64, .increment], [.witness 7#64, .time]])
    [0, 1, 0, 1, 0, 1, 0, 1, 0, 1, 1, 1, 1, 0, 0, 0, 1, 1, 1]).counter = 11#64 := by decide

end SerfProofs.C19
