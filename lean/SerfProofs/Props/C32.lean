/-
C32 — Tags and gossip messages survive encoding unchanged.

Statement (properties.jsonl): every gossip message kind and every tag set a node
encodes decodes at any other node to an equivalent value (full tags from protocol 3
on, only the role before), and a relayed reply reaches its destination
byte-for-byte.  A tag set is accepted only if its encoding fits the member metadata limit.

All theorems are about the executable models `SerfModel.Msgpack` (go-msgpack with the
default handle) and `SerfModel.Codec` (serf's structs, tag codec, relay branch), which
the checker compares byte-for-byte with the real library on every run.  They quantify
over ALL field values (arbitrary byte strings for Go strings, every integer in the
field's range) with only the sizes the wire format itself can carry (< 2^32) assumed.
-/
import SerfProofs.Lemmas.Codec
namespace SerfProofs.C32
open SerfModel.Msgpack SerfModel.Codec SerfProofs.Msgpack SerfProofs.Codec

/-- The msgpack layer: any well-formed value followed by arbitrary bytes decodes to
exactly that value and leaves exactly those bytes. -/
theorem C32_msgpack_roundtrip (v : MP) (h : wf v = true) (rest : Bytes) :
    decode (encode v ++ rest) = some (v, rest) :=
  decode_encode v h rest

example : wf (.map [(.raw [76], .arr [.uint 300, .int (-5), .nil, .bool true, .f64 7])]) = true := by decide

theorem decodeBody_encode {α} (ofMP : MP → R α) (t : UInt8) (v : MP) (h : wf v = true) :
    decodeBody ofMP (encodeMessage t v) = ofMP v := by
  have := decode_encode v h []
  simp only [List.append_nil] at this
  simp [decodeBody, encodeMessage, this]

/-! #### every message kind: `decodeMessage(encodeMessage(t, m)[1:]) = m` -/

theorem C32_message_roundtrip_join (t : UInt8) (m : Join) (h : m.valid = true) :
    decodeBody Join.ofMP (encodeMessage t m.toMP) = .ok m := by
  rw [decodeBody_encode _ _ _ (Join.wf m h), Join.rt m h]
example : ({ ltime := 2 ^ 64 - 1, node := [0xff, 0] } : Join).valid = true := by decide

theorem C32_message_roundtrip_leave (t : UInt8) (m : Leave) (h : m.valid = true) :
    decodeBody Leave.ofMP (encodeMessage t m.toMP) = .ok m := by
  rw [decodeBody_encode _ _ _ (Leave.wf m h), Leave.rt m h]
example : ({ ltime := 128, node := [], prune := true } : Leave).valid = true := by decide

theorem C32_message_roundtrip_userEvent (t : UInt8) (m : UserEv) (h : m.valid = true) :
    decodeBody UserEv.ofMP (encodeMessage t m.toMP) = .ok m := by
  rw [decodeBody_encode _ _ _ (UserEv.wf m h), UserEv.rt m h]
example : ({ ltime := 65536, name := [1], payload := some [], cc := true } : UserEv).valid = true := by decide

theorem C32_message_roundtrip_query (t : UInt8) (m : Query) (h : m.valid = true) :
    decodeBody Query.ofMP (encodeMessage t m.toMP) = .ok m := by
  rw [decodeBody_encode _ _ _ (Query.wf m h), Query.rt m h]
example : ({ ltime := 1, id := 2 ^ 32 - 1, addr := some [127, 0, 0, 1], port := 65535, filters := some [none, some []],
             flags := 3, relayFactor := 255, timeout := -1, name := [113] } : Query).valid = true := by decide

theorem C32_message_roundtrip_queryResponse (t : UInt8) (m : QueryResp) (h : m.valid = true) :
    decodeBody QueryResp.ofMP (encodeMessage t m.toMP) = .ok m := by
  rw [decodeBody_encode _ _ _ (QueryResp.wf m h), QueryResp.rt m h]
example : ({ ltime := 1, id := 7, from_ := [97], flags := 1, payload := none } : QueryResp).valid = true := by decide

theorem C32_message_roundtrip_pushPull (t : UInt8) (m : PushPull) (h : m.valid = true) :
    decodeBody PushPull.ofMP (encodeMessage t m.toMP) = .ok m := by
  rw [decodeBody_encode _ _ _ (PushPull.wf m h), PushPull.rt m h]
example : ({ ltime := 1, statusLTimes := some [([97], 5), ([98], 6)], leftMembers := some [[108]], eventLTime := 2,
             events := some [some { ltime := 3, events := some [{ name := [101], payload := some [9] }] }, none],
             queryLTime := 4 } : PushPull).valid = true := by decide

theorem C32_message_roundtrip_filterNode (t : UInt8) (m : FilterNode) (h : FilterNode.valid m = true) :
    decodeBody FilterNode.ofMP (encodeMessage t (FilterNode.toMP m)) = .ok m := by
  rw [decodeBody_encode _ _ _ (FilterNode.wf m h), FilterNode.rt m]
example : FilterNode.valid (some [[97], []]) = true := by decide

theorem C32_message_roundtrip_filterTag (t : UInt8) (m : FilterTag) (h : m.valid = true) :
    decodeBody FilterTag.ofMP (encodeMessage t m.toMP) = .ok m := by
  rw [decodeBody_encode _ _ _ (FilterTag.wf m h), FilterTag.rt m]
example : ({ tag := [116], expr := [46, 42] } : FilterTag).valid = true := by decide

/-! #### relay: the header round-trips and the wrapped message is forwarded byte-for-byte -/

/-- delegate.go `case messageRelayType`: whatever bytes follow the header — the
encoded reply, or anything else — are forwarded unchanged, to the encoded destination. -/
theorem C32_relay_exact (hdr : RelayHdr) (h : hdr.valid = true) (raw : Bytes) :
    relayForward (9 :: (encode hdr.toMP ++ raw)) = .ok (hdr, raw) := by
  simp [relayForward, decode_encode _ (RelayHdr.wf hdr h) raw, RelayHdr.rt hdr h]

/-- `encodeRelayMessage` then the relay branch: the destination receives exactly `encodeMessage(t, msg)`. -/
theorem C32_relay_message (hdr : RelayHdr) (h : hdr.valid = true) (t : UInt8) (body : MP) :
    relayForward (encodeRelay hdr t body) = .ok (hdr, encodeMessage t body) :=
  C32_relay_exact hdr h _
example : ({ ip := some [127, 0, 0, 1], port := 7946, zone := [], destName := [100] } : RelayHdr).valid = true := by decide

/-! #### tags -/

/-- Protocol ≥ 3: the full tag map survives (any byte strings as keys and values;
`t` lists the map's entries in the iteration order Go happened to use). -/
theorem C32_tags_v3 (proto : Nat) (hp : 3 ≤ proto) (t : Tags) (h : tagsValid t = true) :
    decodeTags (encodeTags proto (some t)) = (t, true) :=
  tags_v3 proto hp t h
example : tagsValid [([114, 111, 108, 101], [255, 1]), ([], [])] = true := by decide

/-- a nil tag map decodes to the empty map -/
theorem C32_tags_v3_nil (proto : Nat) (hp : 3 ≤ proto) : decodeTags (encodeTags proto none) = ([], true) :=
  tags_v3_nil proto hp

/-- `RoleOK r`: the role does not start with the magic byte 0xFF. -/
def RoleOK (r : Bytes) : Prop := r.head? ≠ some 255

/-
FULL STATEMENT (not provable — the code violates it, finding `role-ff-proto2`):
  theorem C32_tags_v2 (proto) (hp : proto < 3) (tags) :
      decodeTags (encodeTags proto tags) = ([(kRole, tagLookup (tags.getD []) kRole)], true)
A protocol-2 node sends the bare role; `decodeTags` decides by the first byte, so a
role that starts with 0xFF is parsed as msgpack: the role is lost and arbitrary other
tags can appear.  `C32_tags_v2_partial` excludes exactly those roles;
`C32_tags_v2_counterexample` is the negation witness.
-/
theorem C32_tags_v2_partial (proto : Nat) (hp : proto < 3) (tags : Option Tags)
    (hr : RoleOK (tagLookup (tags.getD []) kRole)) :
    decodeTags (encodeTags proto tags) = ([(kRole, tagLookup (tags.getD []) kRole)], true) :=
  tags_v2 proto hp tags hr
example : RoleOK (tagLookup [(kRole, [119, 101, 98])] kRole) := by unfold RoleOK; decide

/-- role = FF 81 A1 'a' A1 'b' on protocol 2 is decoded as the tag map {a ↦ b}: no role at all. -/
theorem C32_tags_v2_counterexample :
    decodeTags (encodeTags 2 (some [(kRole, [255, 0x81, 0xa1, 97, 0xa1, 98])])) = ([([97], [98])], true) := by
  decide

/-- role = FF 'a' 'b' 'c' on protocol 2: msgpack decoding fails, the member gets no tags. -/
theorem C32_tags_v2_counterexample_lost :
    decodeTags (encodeTags 2 (some [(kRole, [255, 97, 98, 99])])) = ([], false) := by
  decide

/-! #### metadata limit (serf.go Create :278, SetTags :619) -/

/-- A tag set is accepted iff its encoding is at most `memberlist.MetaMaxSize` = 512 bytes. -/
theorem C32_meta_limit (proto : Nat) (tags : Option Tags) :
    tagsAccepted proto tags = true ↔ (encodeTags proto tags).length ≤ 512 := by
  unfold tagsAccepted metaMaxSize
  exact decide_eq_true_iff

/-- …and the verdict does not depend on the order in which Go iterates the map. -/
theorem C32_meta_limit_order_independent (proto : Nat) (hp : 3 ≤ proto) (t t' : Tags) (h : List.Perm t t') :
    tagsAccepted proto (some t) = tagsAccepted proto (some t') := by
  simp [tagsAccepted, encodeTags_length_perm proto hp t t' h]

end SerfProofs.C32
