/-
C14 — A restarted node never re-delivers old user events or queries.

`Create` on a snapshot sets `eventMinTime = LastEventClock + 1` and
`queryMinTime = LastQueryClock + 1` (serf/serf.go); `handleUserEvent` /
`handleQuery` drop everything below that cut-off, and the cut-off is only ever
raised afterwards (`MergeRemoteState` with join-ignore).  The theorems are over the
de-duplication buffer model `SerfModel.EventBuf` (the same one C05 and C08 use,
generic in the item type: user events and query ids), for every buffer size, every
restored clock value and every post-restart history (gossip, push/pull replays of
arbitrary buffer images, join replay with or without ignore-old).
-/
import SerfModel.Model.EventBuf
import SerfModel.Gen.RestartCutoff
import SerfModel.Gen.RestartText
import SerfModel.Gen.PushPullReplay
import SerfProofs.Props.C08
namespace SerfProofs.C14
open SerfModel.EventBuf
open SerfModel.Atomic (W)

variable {α : Type} [DecidableEq α]

/-- One `handle` step never lowers the cut-off and delivers only at or above it. -/
theorem handle_min (b : Buf α) (lt : W) (x : α) :
    (handle b lt x).1.minTime = b.minTime ∧ ((handle b lt x).2 = .delivered → b.minTime ≤ lt) := by
  unfold handle
  simp only
  by_cases h1 : lt < b.minTime
  · simp [h1]
  · have hle : b.minTime ≤ lt := by bv_omega
    simp only [h1, ↓reduceIte]
    split
    · simp
    · split
      · simp
      · exact ⟨rfl, fun _ => hle⟩

theorem handleAll_min (l : List (W × α)) : ∀ (b : Buf α),
    (handleAll b l).1.minTime = b.minTime ∧ ∀ d ∈ (handleAll b l).2, b.minTime ≤ d.1 := by
  induction l with
  | nil => intro b; simp [handleAll]
  | cons p rest ih =>
    intro b
    obtain ⟨t, x⟩ := p
    obtain ⟨h1, h2⟩ := handle_min b t x
    obtain ⟨h3, h4⟩ := ih (handle b t x).1
    simp only [handleAll]
    refine ⟨by rw [h3, h1], ?_⟩
    intro d hd
    by_cases hr : (handle b t x).2 = .delivered
    · simp only [hr, ↓reduceIte, List.mem_cons] at hd
      rcases hd with rfl | hd
      · exact h2 hr
      · have := h4 d hd; rw [h1] at this; exact this
    · simp only [hr, ↓reduceIte] at hd
      have := h4 d hd; rw [h1] at this; exact this

theorem stepIn_min (b : Buf α) (i : In α) :
    b.minTime ≤ (stepIn b i).1.minTime ∧ ∀ d ∈ (stepIn b i).2, b.minTime ≤ d.1 := by
  cases i with
  | gossip lt x =>
    obtain ⟨h1, h2⟩ := handleAll_min [(lt, x)] b
    simp only [stepIn]
    exact ⟨by rw [h1]; exact BitVec.le_refl _, h2⟩
  | pushPull e raise image =>
    simp only [stepIn]
    have hr : b.minTime ≤ (raiseMin (witnessRemote b e) raise e).minTime := by
      unfold raiseMin witnessRemote
      split <;> split <;> simp_all <;> bv_omega
    obtain ⟨h1, h2⟩ := handleAll_min (flatten image) (raiseMin (witnessRemote b e) raise e)
    refine ⟨by rw [h1]; exact hr, ?_⟩
    intro d hd
    exact BitVec.le_trans hr (h2 d hd)

theorem run_min (ins : List (In α)) : ∀ (b : Buf α), ∀ d ∈ (run b ins).2, b.minTime ≤ d.1 := by
  induction ins with
  | nil => intro b d hd; simp [run] at hd
  | cons i rest ih =>
    intro b d hd
    obtain ⟨h1, h2⟩ := stepIn_min b i
    simp only [run, List.mem_append] at hd
    rcases hd with hd | hd
    · exact h2 d hd
    · exact BitVec.le_trans h1 (ih _ d hd)

/-- **No re-delivery after a restart.** `last` is the newest event (query) time recorded
in the snapshot; the restarted node starts with cut-off `last + 1` and any restored
clock `c`.  Whatever reaches it afterwards, every delivery carries a time strictly
above `last` — provided `last` is not 2^64−1 (then `last + 1` wraps to 0: the clock-wrap
class of the C19 finding). -/
theorem C14_no_redelivery (N : Nat) (c last : W) (hlast : last ≠ BitVec.allOnes 64) (post : List (In α)) :
    ∀ d ∈ deliveries (Buf.start N c (last + 1#64)) post, last < d.1 := by
  intro d hd
  have h := run_min post (Buf.start (α := α) N c (last + 1#64)) d hd
  simp only [Buf.start] at h
  have : last.toNat ≠ 2 ^ 64 - 1 := by
    intro e; apply hlast; apply BitVec.eq_of_toNat_eq; simp [e]
  bv_omega

/-- In particular an event that was delivered before the restart (time ≤ `last`) is
never delivered again, however often it is replayed. -/
theorem C14_old_event_dropped (N : Nat) (c last : W) (hlast : last ≠ BitVec.allOnes 64) (post : List (In α))
    (t : W) (x : α) (ht : t ≤ last) : (t, x) ∉ deliveries (Buf.start N c (last + 1#64)) post := by
  intro h
  have := C14_no_redelivery N c last hlast post (t, x) h
  bv_omega

/-- The cut-off never goes down after the restart. -/
theorem C14_cutoff_monotone (ins : List (In α)) : ∀ (b : Buf α), b.minTime ≤ (run b ins).1.minTime := by
  induction ins with
  | nil => intro b; exact BitVec.le_refl _
  | cons i rest ih =>
    intro b
    simp only [run]
    exact BitVec.le_trans (stepIn_min b i).1 (ih _)

/-- Negation witness for the excluded value: with `last = 2^64−1` the cut-off wraps to 0
and an old event is delivered again after the restart. -/
theorem C14_wrap_counterexample :
    deliveries (α := Nat) (Buf.start 2 0#64 (BitVec.allOnes 64 + 1#64)) [.gossip 5#64 7] = [(5#64, 7)] := by decide

-- Non-vacuity: restart at last = 9 (cut-off 10); old times are dropped by gossip and by a
-- push/pull replay, new ones are delivered.
example : deliveries (α := Nat) (Buf.start 4 10#64 (9#64 + 1#64))
    [.gossip 9#64 1, .pushPull 12#64 false [some (8#64, [1, 2]), some (10#64, [3])], .gossip 11#64 4]
    = [(10#64, 3), (11#64, 4)] := by decide

/-- **The cut-off as written in `Create`.** For any offset `k ≥ 1` added to the recorded time (`Create` writes
`old…Clock + k`, regenerated below), nothing at or below `last` is delivered after the restart, provided
`last + k` does not wrap. -/
theorem C14_no_redelivery_offset (N : Nat) (c last : W) (k : Nat) (hk : 1 ≤ k) (hw : last.toNat + k < 2 ^ 64)
    (post : List (In α)) :
    ∀ d ∈ deliveries (Buf.start N c (last + BitVec.ofNat 64 k)) post, last < d.1 := by
  intro d hd
  have h := run_min post (Buf.start (α := α) N c (last + BitVec.ofNat 64 k)) d hd
  simp only [Buf.start] at h
  have h1 : (last + BitVec.ofNat 64 k).toNat = last.toNat + k := by
    rw [BitVec.toNat_add, BitVec.toNat_ofNat]
    have : k < 2 ^ 64 := by omega
    rw [Nat.mod_eq_of_lt this, Nat.mod_eq_of_lt hw]
  have h2 : (last + BitVec.ofNat 64 k).toNat ≤ d.1.toNat := BitVec.le_def.mp h
  exact BitVec.lt_def.mpr (by omega)

/-- The regenerated facts about `Create` (serf/serf.go): both cut-offs are computed from the snapshot's recorded
event / query clock plus a constant ≥ 1, and the same recorded value is witnessed on the matching clock. -/
theorem C14_restart_shape :
    SerfModel.Gen.RestartCutoff.event.minFrom = "LastEventClock" ∧ 1 ≤ SerfModel.Gen.RestartCutoff.event.minOffset ∧
    SerfModel.Gen.RestartCutoff.event.witnessFrom = "LastEventClock" ∧
    SerfModel.Gen.RestartCutoff.query.minFrom = "LastQueryClock" ∧ 1 ≤ SerfModel.Gen.RestartCutoff.query.minOffset ∧
    SerfModel.Gen.RestartCutoff.query.witnessFrom = "LastQueryClock" := by decide

/-- **No re-delivery after a restart, for the offsets the current source uses** (events and queries). -/
theorem C14_no_redelivery_current_tree (N : Nat) (c last : W) (post : List (In α))
    (hE : last.toNat + SerfModel.Gen.RestartCutoff.event.minOffset < 2 ^ 64)
    (hQ : last.toNat + SerfModel.Gen.RestartCutoff.query.minOffset < 2 ^ 64) :
    (∀ d ∈ deliveries (Buf.start N c (last + BitVec.ofNat 64 SerfModel.Gen.RestartCutoff.event.minOffset)) post, last < d.1) ∧
    (∀ d ∈ deliveries (Buf.start N c (last + BitVec.ofNat 64 SerfModel.Gen.RestartCutoff.query.minOffset)) post, last < d.1) :=
  ⟨C14_no_redelivery_offset N c last _ C14_restart_shape.2.1 hE post,
   C14_no_redelivery_offset N c last _ C14_restart_shape.2.2.2.2.1 hQ post⟩

/-- Why the offset must be at least 1: with offset 0 the newest recorded event is delivered again. -/
theorem C14_offset_zero_counterexample :
    deliveries (α := Nat) (Buf.start 4 10#64 (9#64 + BitVec.ofNat 64 0)) [.gossip 9#64 1] = [(9#64, 1)] := by decide
/-- **Across the restart, for every pre-restart history.**  Let the node run any
history `pre` (gossip, push/pull) from any state, let `last` be at least every
delivered time (the snapshot records the largest user-event time that went through
the pipeline; C10 covers the file), restart with cut-off `last + 1` and any restored
clock, and let any history `post` follow: nothing that was delivered before the
restart is delivered after it. -/
theorem C14_nothing_delivered_twice_across_restart (N N' : Nat) (c0 m0 c last : W)
    (hlast : last ≠ BitVec.allOnes 64) (pre post : List (In α))
    (hsnap : ∀ d ∈ deliveries (Buf.start N c0 m0) pre, d.1 ≤ last) :
    ∀ d ∈ deliveries (Buf.start N c0 m0) pre, d ∉ deliveries (Buf.start N' c (last + 1#64)) post := by
  intro d hd
  exact C14_old_event_dropped N' c last hlast post d.1 d.2 (hsnap d hd)

-- non-vacuity: event (5, 7) delivered before the restart, snapshot time 5, replayed afterwards
example : (5#64, 7) ∉ deliveries (α := Nat) (Buf.start 2 6#64 (5#64 + 1#64)) [.gossip 5#64 7, .pushPull 0#64 false [some (5#64, [7])]] :=
  C14_nothing_delivered_twice_across_restart 2 2 1#64 0#64 6#64 5#64 (by decide) [.gossip 5#64 7] _ (by decide) (5#64, 7) (by decide)

/-- **Queries.**  The restarted node's query handler (`handleQuery`, any node name,
tags, filters, flags and regex oracle) hands to the event channel, and re-broadcasts,
only queries with a time above the newest one recorded before the restart. -/
theorem C14_no_query_redelivery (re : SerfModel.QueryHandle.Oracle) (cfg : SerfModel.QueryHandle.NodeCfg)
    (N : Nat) (c last : W) (hlast : last ≠ BitVec.allOnes 64) (qs : List SerfModel.QueryHandle.QueryMsg) :
    (∀ d ∈ (SerfModel.QueryHandle.runQ re cfg (Buf.start N c (last + 1#64)) qs).2.1, last < d.1)
    ∧ (∀ d ∈ (SerfModel.QueryHandle.runQ re cfg (Buf.start N c (last + 1#64)) qs).2.2, last < d.1) := by
  obtain ⟨_, s1, s2⟩ := SerfProofs.C08.runQ_sublist re cfg qs (Buf.start N c (last + 1#64))
  exact ⟨fun d hd => C14_no_redelivery N c last hlast _ d (s1.subset hd),
         fun d hd => C14_no_redelivery N c last hlast _ d (s2.subset hd)⟩

-- non-vacuity: a restarted node (cut-off 10) drops the old query (9, id 1) and delivers (11, id 2)
example : (SerfModel.QueryHandle.runQ (fun _ _ => none) { name := "n", tags := [] } (Buf.start 4 10#64 (9#64 + 1#64))
    [{ lt := 9#64, id := 1, flags := 0, name := "q", filters := [] },
     { lt := 11#64, id := 2, flags := 0, name := "q", filters := [] }]).2.1 = [(11#64, 2)] := by decide

/-- **Source tie (regenerated on every run): the restart cut-offs in `Create`.**
`serf.eventMinTime = oldEventClock + 1`, `serf.queryMinTime = oldQueryClock + 1` with
`old*Clock` read from the snapshot, and the clocks restored by `Witness(old*Clock)`
after the initial `Increment()` — the start state `Buf.start N clock (last + 1)` of
the theorems above. -/
theorem C14_gen_restart_cutoff :
    -- local names do not occur: a local assigned once from a short expression is replaced by
    -- that expression, every other local (the node, the snapshotter) by `_`
    SerfModel.Gen.RestartText.eventMinTime = "(_.LastEventClock()) + 1"
    ∧ SerfModel.Gen.RestartText.queryMinTime = "(_.LastQueryClock()) + 1"
    ∧ SerfModel.Gen.RestartText.clockCalls =
        ["_.eventClock.Increment()", "_.queryClock.Increment()",
         "_.eventClock.Witness((_.LastEventClock()))", "_.queryClock.Witness((_.LastQueryClock()))"] := by decide

/-- **Source tie (regenerated on every run): the cut-off is only ever RAISED after the
restart.**  The only later write of `eventMinTime` (join with ignore-old in
`MergeRemoteState`) is guarded by `pp.EventLTime > d.serf.eventMinTime` — the test
`EventBuf.raiseMin` models and `C14_cutoff_monotone` relies on. -/
theorem C14_gen_cutoff_only_raised :
    SerfModel.Gen.PushPullReplay.shape.raiseTest = "pp.EventLTime > d.serf.eventMinTime"
    ∧ SerfModel.Gen.PushPullReplay.shape.raiseAssign = "d.serf.eventMinTime = pp.EventLTime"
    ∧ SerfModel.Gen.PushPullReplay.shape.raiseGuard = "isJoin && eventJoinIgnore"
    ∧ SerfModel.Gen.PushPullReplay.shape.order = ["witness", "raise", "replay"] := by decide

end SerfProofs.C14
