/-
C22 — Keyring changes are persisted and reload exactly.

Model: `SerfModel.Keyring` — memberlist's keyring operations transcribed, the three key
handlers of serf/internal_query.go followed by `writeKeyringFile`, and the agent's loader
`NewKeyring(keys, keys[0])`.  The file content is the key list written (base64/JSON round
trip assumed, exercised through the real loader by the harness).

All statements are for every ring, every request sequence (install / use / remove, with
valid keys, wrong lengths, absent keys, the primary, duplicates, undecodable payloads).
-/
import SerfProofs.Lemmas.Keyring
namespace SerfProofs.C22
open SerfModel.Keyring SerfProofs.Keyring

/-- **Reload exactness**: a well-formed ring written to the file loads, at the next start,
into exactly the same key list — same keys, same order, hence the same primary key. -/
theorem C22_reload_exact (r : Ring) (h : RingOK r) : load r = some r := by
  cases r with
  | nil => exact absurd rfl h.1
  | cons p rest =>
    have hv : validKey p = true := h.2.2 p (by simp)
    have hp : p ≠ [] := validKey_ne_nil hv
    have hpe : p.isEmpty = false := by cases p <;> simp_all
    unfold load newKeyring
    simp only [List.isEmpty_cons, Bool.false_and, Bool.false_eq_true, ↓reduceIte, hpe]
    -- NewKeyring adds the primary, then every key of the file (the primary again: a no-op)
    have h1 : addKey [] p = .ok [p] := by
      unfold addKey
      simp [hv, installKeys]
    have h2 : addKey [p] p = .ok [p] := addKey_existing [p] p hv (by simp)
    have h1' : addKey? [] p = some [p] := by unfold addKey?; rw [h1]; rfl
    have h2' : addKey? [p] p = some [p] := by unfold addKey?; rw [h2]; rfl
    rw [List.foldlM_cons, h1']
    simp only [Option.bind_eq_bind, Option.bind_some]
    rw [List.foldlM_cons, h2']
    simp only [Option.bind_eq_bind, Option.bind_some]
    have := foldlM_addKey rest [p] (by simp) (by simpa using h.2.1)
      (fun k hk => h.2.2 k (List.mem_cons_of_mem _ hk))
    simpa using this

example : RingOK [List.replicate 16 1, List.replicate 24 2] := by decide

/-- the primary key after a reload is the primary key before it -/
theorem C22_reload_primary (r : Ring) (h : RingOK r) : (load r).map List.head? = some r.head? := by
  rw [C22_reload_exact r h]; rfl

/-- every handler keeps the ring well-formed -/
theorem handle_RingOK (n : Node) (op : Op) (key : Option Key) (h : RingOK n.ring) :
    RingOK (handle n op key).1.ring := by
  unfold handle
  cases key with
  | none => exact h
  | some k =>
    have hne : n.ring.isEmpty = false := by
      cases hr : n.ring with
      | nil => exact absurd hr h.1
      | cons _ _ => rfl
    simp only [hne, Bool.false_eq_true, ↓reduceIte]
    cases op with
    | install =>
      simp only
      by_cases hv : validKey k = true
      · by_cases hk : k ∈ n.ring
        · rw [addKey_existing _ _ hv hk]
          simp only [writeKeyringFile]
          split <;> exact h
        · have hok := RingOK_append n.ring k h hk hv
          rw [addKey_new n.ring k h.1 hok.2.1 hv]
          simp only [writeKeyringFile]
          split <;> exact hok
      · have hv' : validKey k = false := by simpa using hv
        rw [addKey_invalid _ _ hv']
        exact h
    | use =>
      simp only [useKey]
      by_cases hk : k ∈ n.ring
      · have : n.ring.contains k = true := by simpa using hk
        simp only [this, ↓reduceIte, writeKeyringFile]
        split <;> exact RingOK_installKeys_use n.ring k h hk
      · have : n.ring.contains k = false := by simpa using hk
        simp only [this, Bool.false_eq_true, ↓reduceIte]
        exact h
    | remove =>
      simp only
      cases hr : n.ring with
      | nil => exact absurd hr h.1
      | cons p rest =>
        have h' : RingOK (p :: rest) := hr ▸ h
        by_cases hkp : k = p
        · subst hkp
          simp only [removeKey, BEq.rfl, ↓reduceIte]
          exact h
        · rw [removeKey_ok p rest k h' hkp]
          simp only [writeKeyringFile]
          split <;> exact RingOK_remove p rest k h'

/-- every handler keeps "the file holds the ring" (when a keyring file is configured) -/
theorem handle_file (n : Node) (op : Op) (key : Option Key) (hf : n.hasFile = true)
    (h : n.file = some n.ring) :
    (handle n op key).1.file = some (handle n op key).1.ring ∧ (handle n op key).1.hasFile = true := by
  unfold handle
  cases key with
  | none => exact ⟨h, hf⟩
  | some k =>
    simp only
    split
    · exact ⟨h, hf⟩
    · split
      · exact ⟨h, hf⟩
      · cases op <;> simp [writeKeyringFile, hf]

/-- **The file tracks the ring**: starting from a well-formed ring whose file holds it
(the agent was started from that file), after any sequence of requests — successful or
rejected — the file holds exactly the current ring, and the ring is still well-formed. -/
theorem C22_file_tracks (ops : List (Op × Option Key)) (n : Node) (hok : RingOK n.ring)
    (hf : n.hasFile = true) (h : n.file = some n.ring) :
    (run n ops).file = some (run n ops).ring ∧ RingOK (run n ops).ring := by
  induction ops generalizing n with
  | nil => exact ⟨h, hok⟩
  | cons o rest ih =>
    obtain ⟨op, key⟩ := o
    have h1 := handle_file n op key hf h
    exact ih _ (handle_RingOK n op key hok) h1.2 h1.1

/-- **The property**: after any sequence of key requests the keyring file loads at the next
start into exactly the node's current key list (same keys, same primary). -/
theorem C22_persisted (ops : List (Op × Option Key)) (n : Node) (hok : RingOK n.ring)
    (hf : n.hasFile = true) (h : n.file = some n.ring) :
    ((run n ops).file.bind load) = some (run n ops).ring := by
  have := C22_file_tracks ops n hok hf h
  rw [this.1]
  exact C22_reload_exact _ this.2

example : (⟨[List.replicate 16 1], some [List.replicate 16 1], true⟩ : Node).file
    = some (⟨[List.replicate 16 1], some [List.replicate 16 1], true⟩ : Node).ring := by decide

/-- **A rejected request changes neither the keyring nor the file** (any node state). -/
theorem C22_rejected_noop (n : Node) (op : Op) (key : Option Key)
    (h : (handle n op key).2 ≠ .ok) : (handle n op key).1 = n := by
  unfold handle at h ⊢
  cases key with
  | none => rfl
  | some k =>
    simp only at h ⊢
    split
    · rfl
    · rename_i hne
      simp only [hne, Bool.false_eq_true, ↓reduceIte] at h
      split
      · rfl
      · rename_i r' hres
        simp only [hres] at h
        cases op <;> simp at h

example : (handle ⟨[List.replicate 16 1], some [List.replicate 16 1], true⟩ .install (some [1, 2, 3])).2 ≠ .ok := by decide

/-- Without a configured keyring file nothing is ever written. -/
theorem C22_no_file (n : Node) (op : Op) (key : Option Key) (hf : n.hasFile = false) :
    (handle n op key).1.file = n.file := by
  unfold handle
  cases key with
  | none => rfl
  | some k =>
    simp only
    split
    · rfl
    · split
      · rfl
      · cases op <;> simp [writeKeyringFile, hf]

end SerfProofs.C22
