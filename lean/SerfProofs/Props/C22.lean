/-
C22 — Keyring changes are persisted and reload exactly.

Model: `SerfModel.Keyring` — memberlist's keyring operations transcribed, the three key
handlers of serf/internal_query.go followed by `writeKeyringFile`, and the agent's loader
`NewKeyring(keys, keys[0])`.  The file content is the key list written (base64/JSON round
trip assumed, exercised through the real loader by the harness).

All statements are for every ring, every request sequence (install / use / remove, with
valid keys, wrong lengths, absent keys, the primary, duplicates, undecodable payloads).
-/
import SerfProofs.Lemmas.Keyring
import SerfModel.Model.SourceShape
import SerfModel.Gen.KeyringPersist
namespace SerfProofs.C22
open SerfModel.Keyring SerfProofs.Keyring

/-- **Reload exactness**: a well-formed ring written to the file loads, at the next start,
into exactly the same key list — same keys, same order, hence the same primary key. -/
theorem C22_reload_exact (r : Ring) (h : RingOK r) : load r = some r := by
  cases r with
  | nil => exact absurd rfl h.1
  | cons p rest =>
    have hv : validKey p = true := h.2.2 p (by simp)
    have hp : p ≠ [] := validKey_ne_nil hv
    have hpe : p.isEmpty = false := by cases p <;> simp_all
    unfold load newKeyring
    simp only [List.isEmpty_cons, Bool.false_and, Bool.false_eq_true, ↓reduceIte, hpe]
    -- NewKeyring adds the primary, then every key of the file (the primary again: a no-op)
    have h1 : addKey [] p = .ok [p] := by
      unfold addKey
      simp [hv, installKeys]
    have h2 : addKey [p] p = .ok [p] := addKey_existing [p] p hv (by simp)
    have h1' : addKey? [] p = some [p] := by unfold addKey?; rw [h1]; rfl
    have h2' : addKey? [p] p = some [p] := by unfold addKey?; rw [h2]; rfl
    rw [List.foldlM_cons, h1']
    simp only [Option.bind_eq_bind, Option.bind_some]
    rw [List.foldlM_cons, h2']
    simp only [Option.bind_eq_bind, Option.bind_some]
    have := foldlM_addKey rest [p] (by simp) (by simpa using h.2.1)
      (fun k hk => h.2.2 k (List.mem_cons_of_mem _ hk))
    simpa using this

example : RingOK [List.replicate 16 1, List.replicate 24 2] := by decide

/-- the primary key after a reload is the primary key before it -/
theorem C22_reload_primary (r : Ring) (h : RingOK r) : (load r).map List.head? = some r.head? := by
  rw [C22_reload_exact r h]; rfl

/-- every handler keeps the ring well-formed -/
theorem handle_RingOK (n : Node) (op : Op) (key : Option Key) (h : RingOK n.ring) :
    RingOK (handle n op key).1.ring := by
  unfold handle
  cases key with
  | none => exact h
  | some k =>
    have hne : n.ring.isEmpty = false := by
      cases hr : n.ring with
      | nil => exact absurd hr h.1
      | cons _ _ => rfl
    simp only [hne, Bool.false_eq_true, ↓reduceIte]
    cases op with
    | install =>
      simp only
      by_cases hv : validKey k = true
      · by_cases hk : k ∈ n.ring
        · rw [addKey_existing _ _ hv hk]
          simp only [writeKeyringFile]
          split <;> exact h
        · have hok := RingOK_append n.ring k h hk hv
          rw [addKey_new n.ring k h.1 hok.2.1 hv]
          simp only [writeKeyringFile]
          split <;> exact hok
      · have hv' : validKey k = false := by simpa using hv
        rw [addKey_invalid _ _ hv']
        exact h
    | use =>
      simp only [useKey]
      by_cases hk : k ∈ n.ring
      · have : n.ring.contains k = true := by simpa using hk
        simp only [this, ↓reduceIte, writeKeyringFile]
        split <;> exact RingOK_installKeys_use n.ring k h hk
      · have : n.ring.contains k = false := by simpa using hk
        simp only [this, Bool.false_eq_true, ↓reduceIte]
        exact h
    | remove =>
      simp only
      cases hr : n.ring with
      | nil => exact absurd hr h.1
      | cons p rest =>
        have h' : RingOK (p :: rest) := hr ▸ h
        by_cases hkp : k = p
        · subst hkp
          simp only [removeKey, BEq.rfl, ↓reduceIte]
          exact h
        · rw [removeKey_ok p rest k h' hkp]
          simp only [writeKeyringFile]
          split <;> exact RingOK_remove p rest k h'

/-- every handler keeps "the file holds the ring" (when a keyring file is configured) -/
theorem handle_file (n : Node) (op : Op) (key : Option Key) (hf : n.hasFile = true)
    (h : n.file = some n.ring) :
    (handle n op key).1.file = some (handle n op key).1.ring ∧ (handle n op key).1.hasFile = true := by
  unfold handle
  cases key with
  | none => exact ⟨h, hf⟩
  | some k =>
    simp only
    split
    · exact ⟨h, hf⟩
    · split
      · exact ⟨h, hf⟩
      · cases op <;> simp [writeKeyringFile, hf]

/-- **The file tracks the ring**: starting from a well-formed ring whose file holds it
(the agent was started from that file), after any sequence of requests — successful or
rejected — the file holds exactly the current ring, and the ring is still well-formed. -/
theorem C22_file_tracks (ops : List (Op × Option Key)) (n : Node) (hok : RingOK n.ring)
    (hf : n.hasFile = true) (h : n.file = some n.ring) :
    (run n ops).file = some (run n ops).ring ∧ RingOK (run n ops).ring := by
  induction ops generalizing n with
  | nil => exact ⟨h, hok⟩
  | cons o rest ih =>
    obtain ⟨op, key⟩ := o
    have h1 := handle_file n op key hf h
    exact ih _ (handle_RingOK n op key hok) h1.2 h1.1

/-- **The property**: after any sequence of key requests the keyring file loads at the next
start into exactly the node's current key list (same keys, same primary). -/
theorem C22_persisted (ops : List (Op × Option Key)) (n : Node) (hok : RingOK n.ring)
    (hf : n.hasFile = true) (h : n.file = some n.ring) :
    ((run n ops).file.bind load) = some (run n ops).ring := by
  have := C22_file_tracks ops n hok hf h
  rw [this.1]
  exact C22_reload_exact _ this.2

example : (⟨[List.replicate 16 1], some [List.replicate 16 1], true⟩ : Node).file
    = some (⟨[List.replicate 16 1], some [List.replicate 16 1], true⟩ : Node).ring := by decide

/-- **A rejected request changes neither the keyring nor the file** (any node state). -/
theorem C22_rejected_noop (n : Node) (op : Op) (key : Option Key)
    (h : (handle n op key).2 ≠ .ok) : (handle n op key).1 = n := by
  unfold handle at h ⊢
  cases key with
  | none => rfl
  | some k =>
    simp only at h ⊢
    split
    · rfl
    · rename_i hne
      simp only [hne, Bool.false_eq_true, ↓reduceIte] at h
      split
      · rfl
      · rename_i r' hres
        simp only [hres] at h
        cases op <;> simp at h

example : (handle ⟨[List.replicate 16 1], some [List.replicate 16 1], true⟩ .install (some [1, 2, 3])).2 ≠ .ok := by decide

/-- **The first accepted request creates the file** — whatever the file held before, also when it did not exist
(`n.file = none`: the keyring was handed over in memory and the configured file is not yet written): a request
answered `ok`, a no-op one included (a key already on the ring, an absent key removed, the primary used again),
leaves a file that holds exactly the ring. -/
theorem C22_ok_writes_file (n : Node) (op : Op) (key : Option Key) (hf : n.hasFile = true)
    (hok : (handle n op key).2 = .ok) :
    (handle n op key).1.file = some (handle n op key).1.ring ∧ (handle n op key).1.hasFile = true := by
  unfold handle at hok ⊢
  cases key with
  | none => simp at hok
  | some k =>
    simp only at hok ⊢
    by_cases he : n.ring.isEmpty
    · simp [he] at hok
    · simp only [he, Bool.false_eq_true, ↓reduceIte] at hok ⊢
      cases op with
      | install =>
        simp only at hok ⊢
        cases hres : addKey n.ring k with
        | error e =>
          simp only [hres] at hok
          subst hok
          exfalso
          simp only [addKey] at hres
          split at hres
          · simp at hres
          · split at hres <;> simp at hres
        | ok r' => simp [writeKeyringFile, hf]
      | use =>
        simp only at hok ⊢
        cases hres : useKey n.ring k with
        | error e =>
          simp only [hres] at hok
          subst hok
          exfalso
          simp only [useKey] at hres
          split at hres <;> simp at hres
        | ok r' => simp [writeKeyringFile, hf]
      | remove =>
        simp only at hok ⊢
        cases hres : removeKey n.ring k with
        | error e =>
          simp only [hres] at hok
          subst hok
          exfalso
          simp only [removeKey] at hres
          split at hres
          · simp at hres
          · split at hres
            · simp at hres
            · split at hres <;> simp at hres
        | ok r' => simp [writeKeyringFile, hf]

/-- **…and from then on the file tracks the ring** (any later requests, accepted or rejected). -/
theorem C22_file_tracks_after_first_ok (n : Node) (op : Op) (key : Option Key) (hring : RingOK n.ring)
    (hf : n.hasFile = true) (hok : (handle n op key).2 = .ok) (ops : List (Op × Option Key)) :
    (run n ((op, key) :: ops)).file = some (run n ((op, key) :: ops)).ring := by
  have h1 := C22_ok_writes_file n op key hf hok
  exact (C22_file_tracks ops _ (handle_RingOK n op key hring) h1.2 h1.1).1

-- a no-op install on a node whose file does not exist yet is answered ok and writes the file
example : (handle ⟨[List.replicate 16 1], none, true⟩ .install (some (List.replicate 16 1))).2 = .ok ∧
    (handle ⟨[List.replicate 16 1], none, true⟩ .install (some (List.replicate 16 1))).1.file = some [List.replicate 16 1] := by decide

/-- Without a configured keyring file nothing is ever written. -/
theorem C22_no_file (n : Node) (op : Op) (key : Option Key) (hf : n.hasFile = false) :
    (handle n op key).1.file = n.file := by
  unfold handle
  cases key with
  | none => rfl
  | some k =>
    simp only
    split
    · rfl
    · split
      · rfl
      · cases op <;> simp [writeKeyringFile, hf]

/-! ## from the agent's start, without assumptions on the ring

`RingOK` is not an assumption about the node: it is what the loader produces, for every
file content (`C22_loader_wellformed`).  A node started from a keyring file `f` therefore
satisfies the invariant "the file loads to the ring" from the first moment — also when `f`
was edited by hand (duplicates: the file then differs from the ring as a list, but still
loads to it) — and every request, accepted or rejected, keeps it. -/

/-- **Whatever `loadKeyringFile` accepts is a well-formed ring**, for every file content. -/
theorem C22_loader_wellformed (f : List Key) (r : Ring) (h : load f = some r) : RingOK r := load_RingOK f r h

example : load [List.replicate 16 7, List.replicate 16 7, List.replicate 24 9] = some [List.replicate 16 7, List.replicate 24 9] := by decide

/-- The loader's acceptance rule: a file with an entry that is not 16, 24 or 32 bytes long is
refused as a whole (no entry is dropped silently), and so is an empty file. -/
theorem C22_loader_rejects_invalid (f : List Key) (k : Key) (hk : k ∈ f) (hv : validKey k = false) : load f = none := by
  cases h : load f with
  | none => rfl
  | some r =>
    exfalso
    -- every key of the file ends up in the ring, and the ring holds valid keys only
    have hok := load_RingOK f r h
    have hsub : ∀ (l : List Key) (acc r' : Ring), l.foldlM addKey? acc = some r' → (∀ x ∈ acc, x ∈ r') ∧ (∀ x ∈ l, x ∈ r') := by
      intro l
      induction l with
      | nil => intro acc r' h'; simp at h'; subst h'; exact ⟨fun x hx => hx, by simp⟩
      | cons a rest ih =>
        intro acc r' h'
        rw [List.foldlM_cons] at h'
        cases ha : addKey? acc a with
        | none => rw [ha] at h'; simp at h'
        | some acc' =>
          rw [ha] at h'
          simp only [Option.bind_eq_bind, Option.bind_some] at h'
          have hstep : (∀ x ∈ acc, x ∈ acc') ∧ a ∈ acc' := by
            unfold addKey? at ha
            cases hr : addKey acc a with
            | error e => rw [hr] at ha; simp [Except.toOption] at ha
            | ok r0 =>
              rw [hr] at ha
              simp only [Except.toOption, Option.some.injEq] at ha
              subst ha
              exact addKey_ok_mem acc a r0 hr
          have := ih acc' r' h'
          exact ⟨fun x hx => this.1 x (hstep.1 x hx), fun x hx => by
            rcases List.mem_cons.mp hx with e | e
            · subst e; exact this.1 _ hstep.2
            · exact this.2 x e⟩
    cases f with
    | nil => simp [load] at h
    | cons p rest =>
      unfold load newKeyring at h
      simp only [List.isEmpty_cons, Bool.false_and, Bool.false_eq_true, ↓reduceIte] at h
      split at h
      · cases h
      · have := (hsub _ _ _ h).2 k (List.mem_cons_of_mem _ hk)
        have := hok.2.2 k this
        simp [hv] at this

example : load [List.replicate 16 1, List.replicate 20 2] = none := by decide
example : load [] = none := by decide

/-- a 24-byte key is kept by the loader (it is a valid AES-192 key) -/
example : load [List.replicate 16 1, List.replicate 24 2, List.replicate 32 3]
    = some [List.replicate 16 1, List.replicate 24 2, List.replicate 32 3] := by decide

/-- The invariant of a running node: the keyring file loads to the node's ring. -/
def FileLoadsToRing (n : Node) : Prop := n.file.bind load = some n.ring

theorem handle_ok_file (n : Node) (op : Op) (key : Option Key) (hf : n.hasFile = true)
    (h : (handle n op key).2 = .ok) : (handle n op key).1.file = some (handle n op key).1.ring := by
  unfold handle at h ⊢
  cases key with
  | none => simp at h
  | some k =>
    simp only at h ⊢
    by_cases hne : n.ring.isEmpty = true
    · simp [hne] at h
    · simp only [hne, Bool.false_eq_true, ↓reduceIte] at h ⊢
      cases op with
      | install =>
        simp only at h ⊢
        unfold addKey at h ⊢
        by_cases hv : validKey k = true <;> by_cases hc : n.ring.contains k = true <;>
          simp_all [writeKeyringFile]
      | use =>
        simp only at h ⊢
        unfold useKey at h ⊢
        by_cases hc : n.ring.contains k = true <;> simp_all [writeKeyringFile]
      | remove =>
        simp only at h ⊢
        unfold removeKey at h ⊢
        cases hr : n.ring with
        | nil => simp [hr] at hne
        | cons p rest =>
          simp only [hr] at h ⊢
          by_cases hkp : (k == p) = true <;> by_cases hc : (p :: rest).contains k = true <;>
            simp_all [writeKeyringFile]

theorem handle_hasFile (n : Node) (op : Op) (key : Option Key) : (handle n op key).1.hasFile = n.hasFile := by
  unfold handle
  cases key with
  | none => rfl
  | some k =>
    simp only
    split
    · rfl
    · split
      · rfl
      · cases op <;> simp [writeKeyringFile] <;> split <;> rfl

theorem handle_inv (n : Node) (op : Op) (key : Option Key) (hf : n.hasFile = true)
    (hok : RingOK n.ring) (h : FileLoadsToRing n) :
    FileLoadsToRing (handle n op key).1 := by
  by_cases hs : (handle n op key).2 = .ok
  · unfold FileLoadsToRing
    rw [handle_ok_file n op key hf hs]
    exact C22_reload_exact _ (handle_RingOK n op key hok)
  · rw [C22_rejected_noop n op key hs]; exact h

theorem run_inv (ops : List (Op × Option Key)) (n : Node) (hf : n.hasFile = true)
    (hok : RingOK n.ring) (h : FileLoadsToRing n) : FileLoadsToRing (run n ops) ∧ RingOK (run n ops).ring := by
  induction ops generalizing n with
  | nil => exact ⟨h, hok⟩
  | cons o rest ih =>
    obtain ⟨op, key⟩ := o
    exact ih _ (by rw [handle_hasFile]; exact hf) (handle_RingOK n op key hok) (handle_inv n op key hf hok h)

/-- **C22, first sentence, from the agent's start.**  An agent started on ANY keyring file `f`
that its loader accepts (ring `r`), then handling ANY sequence of install / use / remove
requests — valid, wrong length, absent, primary, duplicate, undecodable; accepted or rejected —
always has a keyring file that loads, at the next start, into exactly its current ring: same
keys in the same order, hence the same primary key.  No assumption on `f`, `r` or the requests. -/
theorem C22_persisted_from_start (f : List Key) (r : Ring) (hload : load f = some r)
    (ops : List (Op × Option Key)) (n : Nat) :
    (run ⟨r, some f, true⟩ (ops.take n)).file.bind load = some (run ⟨r, some f, true⟩ (ops.take n)).ring ∧
    ((run ⟨r, some f, true⟩ (ops.take n)).file.bind load).map List.head? =
      some (run ⟨r, some f, true⟩ (ops.take n)).ring.head? := by
  have := run_inv (ops.take n) ⟨r, some f, true⟩ rfl (load_RingOK f r hload) (by simpa [FileLoadsToRing] using hload)
  exact ⟨this.1, by rw [this.1]; rfl⟩

example : load [List.replicate 16 1] = some [List.replicate 16 1] := by decide

/-- … and restarting (ring := what the file loads to) changes nothing, so the statement
extends over any number of restarts. -/
theorem C22_restart_same (n : Node) (h : FileLoadsToRing n) :
    ∃ f, n.file = some f ∧ load f = some n.ring := by
  unfold FileLoadsToRing at h
  cases hf : n.file with
  | none => rw [hf] at h; simp at h
  | some f => exact ⟨f, rfl, by rw [hf] at h; simpa using h⟩

/-! ### the hypotheses that remain are necessary -/

/-- Without "the file loads to the ring" at the start (e.g. the file was replaced behind the
node's back) a rejected request leaves the mismatch: the hypothesis of `C22_file_tracks` /
the start condition of `C22_persisted_from_start` cannot be dropped. -/
theorem C22_start_condition_needed :
    let n : Node := ⟨[List.replicate 16 1], some [List.replicate 16 2], true⟩
    (run n [(.use, some (List.replicate 16 3))]).file.bind load ≠ some (run n [(.use, some (List.replicate 16 3))]).ring := by
  decide

/-- `RingOK` in `C22_reload_exact` cannot be dropped: a list with a duplicate or with a key of
a wrong length does not reload to itself (memberlist never produces such a ring:
`C22_loader_wellformed`, `handle_RingOK`). -/
theorem C22_ringOK_needed :
    load [List.replicate 16 1, List.replicate 16 1] ≠ some [List.replicate 16 1, List.replicate 16 1] ∧
    load [List.replicate 16 1, List.replicate 5 2] ≠ some [List.replicate 16 1, List.replicate 5 2] := by decide

/-! ### which requests are rejected -/

/-- On a node with encryption enabled: install is rejected exactly for a wrong key length,
use exactly for a key not on the ring, remove exactly for the primary key; an undecodable
payload is always rejected. -/
theorem C22_rejection_classes (n : Node) (hok : RingOK n.ring) (k : Key) :
    ((handle n .install (some k)).2 = (if validKey k then .ok else .badlen)) ∧
    ((handle n .use (some k)).2 = (if n.ring.contains k then .ok else .absent)) ∧
    ((handle n .remove (some k)).2 = (if some k = n.ring.head? then .primary else .ok)) ∧
    (∀ op, (handle n op none).2 = .decode) := by
  have hne : n.ring.isEmpty = false := by
    cases hr : n.ring with
    | nil => exact absurd hr hok.1
    | cons _ _ => rfl
  refine ⟨?_, ?_, ?_, fun op => rfl⟩
  · unfold handle
    simp only [hne, Bool.false_eq_true, ↓reduceIte]
    by_cases hv : validKey k = true
    · by_cases hk : k ∈ n.ring
      · rw [addKey_existing _ _ hv hk]; simp [hv]
      · rw [addKey_new n.ring k hok.1 (RingOK_append n.ring k hok hk hv).2.1 hv]; simp [hv]
    · have hv' : validKey k = false := by simpa using hv
      rw [addKey_invalid _ _ hv']; simp [hv']
  · unfold handle useKey
    simp only [hne, Bool.false_eq_true, ↓reduceIte]
    cases n.ring.contains k <;> simp
  · unfold handle
    simp only [hne, Bool.false_eq_true, ↓reduceIte]
    cases hr : n.ring with
    | nil => exact absurd hr hok.1
    | cons p rest =>
      by_cases hkp : k = p
      · subst hkp; simp [removeKey]
      · rw [removeKey_ok p rest k (hr ▸ hok) hkp]
        have : ¬ (some k = some p) := fun e => hkp (Option.some.inj e)
        simp [this]

example : RingOK [List.replicate 16 1] := by decide

/-! ## the decisive shapes of the source (regenerated on every run)

`SerfModel.Gen.KeyringPersist` holds the statement skeletons of the three handlers, of
`writeKeyringFile`, of `loadKeyringFile` and of memberlist's keyring functions.  The
obligations below are the facts of those shapes that the model's `handle`,
`writeKeyringFile`, `load` and ring operations transcribe. -/

open SerfModel.SourceShape SerfModel.Gen.KeyringPersist

/-- (statements in the extractor's canonical form: locals renamed v0, v1, … in order of first
occurrence — v0 the receiver, v1 the query, v2 the response, v3 the keyring, v4 the request) -/
def opLine (op : String) : String := "if v6 := v3." ++ op ++ "(v4.Key); v6 != nil {"
def writeLine : String := "if v7 := v0.serf.writeKeyringFile(); v7 != nil {"

/-- a handler first applies the ring operation, leaves (goto SEND) when it failed, and only
then writes the file; success is reported only after the write; the operation is reached
only with a decoded payload and encryption enabled -/
def handlerShapeOK (op : String) (sk : List String) : Bool :=
  hasBlock [opLine op, "v2.Message = v6.Error()", "goto SEND", "}"] sk &&
  hasBlock [writeLine, "v2.Message = v7.Error()", "goto SEND", "}"] sk &&
  before (opLine op) writeLine sk &&
  before writeLine "v2.Result = true" sk &&
  before "if !v0.serf.EncryptionEnabled() {" (opLine op) sk &&
  before "v5 = decodeMessage(v1.Payload[1:], &v4)" "if !v0.serf.EncryptionEnabled() {" sk &&
  hasBlock ["if len(v1.Payload) < 1 {", "goto SEND", "}"] sk &&
  hasBlock ["if v5 != nil {", "goto SEND", "}"] sk &&
  hasBlock ["v2.Result = true", "SEND:", "v0.sendKeyResponse(v1, &v2)"] sk

/-- **ring operation, then file write** (seeded C22-a persisted before validating) -/
theorem C22_src_handlers_op_then_write :
    handlerShapeOK "AddKey" handleInstallKey = true ∧
    handlerShapeOK "UseKey" handleUseKey = true ∧
    handlerShapeOK "RemoveKey" handleRemoveKey = true := by decide

/-- install writes only when a keyring file is configured (`handle`'s `.install` branch) -/
theorem C22_src_install_file_condition :
    hasBlock ["if v0.serf.config.KeyringFile != \"\" {", writeLine, "v2.Message = v7.Error()", "goto SEND", "}", "}"]
      handleInstallKey = true := by decide

/-- nothing but the three handlers, through `writeKeyringFile`, touches the keyring file -/
theorem C22_src_only_writers :
    fileWriterCalls = ["handleInstallKey: serf.writeKeyringFile", "handleUseKey: serf.writeKeyringFile", "handleRemoveKey: serf.writeKeyringFile"] := by decide

/-- **the file is exactly `GetKeys()`, in ring order, primary first** (`writeKeyringFile` in
the model: `file := some ring`), and nothing is written without a configured file -/
theorem C22_src_writer_ring_order :
    hasBlock ["if len(v0.config.KeyringFile) == 0 {", "return nil", "}"] writeKeyringFile = true ∧
    hasBlock ["v2 := v1.GetKeys()", "v3 := make([]string, len(v2))", "for v4, v5 := range v2 {", "v3[v4] = base64.StdEncoding.EncodeToString(v5)", "}", "v6, v7 := json.MarshalIndent(v3, \"\", \" \")"] writeKeyringFile = true ∧
    once "if v7 = os.WriteFile(v0.config.KeyringFile, v6, 0600); v7 != nil {" writeKeyringFile = true ∧
    writeKeyringFile.length = 17 := by decide

/-- **the loader keeps every entry and takes the first as primary** (seeded C22-b dropped
24-byte keys): the decode loop stores each decoded entry at its index, has no `continue`
and no length test of its own; an empty list is an error; `NewKeyring(keys, keys[0])` -/
theorem C22_src_loader_keeps_all :
    hasBlock ["v7 := make([][]byte, len(v5))", "for v8, v9 := range v5 {", "v10, v11 := base64.StdEncoding.DecodeString(v9)", "if v11 != nil {", "return fmt.Errorf(\"Failed to decode key from keyring: %s\", v11)", "}", "v7[v8] = v10", "}", "if len(v7) == 0 {", "return fmt.Errorf(\"Keyring file contains no keys\")", "}", "v12, v4 := memberlist.NewKeyring(v7, v7[0])", "if v4 != nil {", "return fmt.Errorf(\"Failed to restore keyring: %s\", v4)", "}", "v0.conf.MemberlistConfig.Keyring = v12", "return nil"] loadKeyringFile = true ∧
    absent "continue" loadKeyringFile = true := by decide

/-- **the loader reads the WHOLE file** (seeded C22-d read through a 4 KiB LimitReader while the
writer has no bound): stat, `os.ReadFile`, `json.Unmarshal` of exactly those bytes, and nothing
else between them and the decode loop — the function has exactly these 31 statements -/
theorem C22_src_loader_reads_whole_file :
    hasBlock ["if _, v2 := os.Stat(v1); v2 != nil {", "return v2", "}", "v3, v4 := os.ReadFile(v1)", "if v4 != nil {", "return fmt.Errorf(\"Failed to read keyring file: %s\", v4)", "}", "v5 := make([]string, 0)", "if v6 := json.Unmarshal(v3, &v5); v6 != nil {", "return fmt.Errorf(\"Failed to decode keyring file: %s\", v6)", "}", "v7 := make([][]byte, len(v5))"] loadKeyringFile = true ∧
    loadKeyringFile.length = 31 ∧
    once "if v7 = os.WriteFile(v0.config.KeyringFile, v6, 0600); v7 != nil {" writeKeyringFile = true := by decide

/-- the accepted key lengths are memberlist's -/
theorem C22_src_valid_lens : validKeyLens = validLens := by decide

/-- memberlist's keyring functions, as transcribed by `newKeyring`, `addKey`, `useKey`,
`removeKey`, `installKeys` (version pinned in go.mod) -/
theorem C22_src_memberlist :
    mlNewKeyring = ["v2 := &Keyring{}", "v2.init()", "if len(v0) > 0 || len(v1) > 0 {", "if len(v1) == 0 {", "return nil, fmt.Errorf(\"empty primary key not allowed\")", "}", "if v3 := v2.AddKey(v1); v3 != nil {", "return nil, v3", "}", "for _, v4 := range v0 {", "if v5 := v2.AddKey(v4); v5 != nil {", "return nil, v5", "}", "}", "}", "return v2, nil"] ∧
    mlAddKey = ["if v2 := ValidateKey(v1); v2 != nil {", "return v2", "}", "for _, v3 := range v0.keys {", "if bytes.Equal(v3, v1) {", "return nil", "}", "}", "v4 := append(v0.keys, v1)", "v5 := v0.GetPrimaryKey()", "if v5 == nil {", "v5 = v1", "}", "v0.installKeys(v4, v5)", "return nil"] ∧
    mlUseKey = ["for _, v2 := range v0.keys {", "if bytes.Equal(v1, v2) {", "v0.installKeys(v0.keys, v1)", "return nil", "}", "}", "return fmt.Errorf(\"requested key is not in the keyring\")"] ∧
    mlRemoveKey = ["if bytes.Equal(v1, v0.keys[0]) {", "return fmt.Errorf(\"removing the primary key is not allowed\")", "}", "for v2, v3 := range v0.keys {", "if bytes.Equal(v1, v3) {", "v4 := append(v0.keys[:v2], v0.keys[v2+1:]...)", "v0.installKeys(v4, v0.keys[0])", "}", "}", "return nil"] ∧
    mlInstallKeys = ["v0.l.Lock()", "defer v0.l.Unlock()", "v3 := [][]byte{v2}", "for _, v4 := range v1 {", "if !bytes.Equal(v4, v2) {", "v3 = append(v3, v4)", "}", "}", "v0.keys = v3"] := by decide

end SerfProofs.C22
