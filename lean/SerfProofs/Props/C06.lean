/-
C06 — Locally issued events and queries get unique, causally later Lamport times.

`SerfModel.Gen.ClockUse` records, from serf/serf.go, how `UserEvent` and `Query`
obtain the time they put into the message.  When that is a single atomic
increment (`TakesAtomically`), an originate call is exactly the translated
`Increment` of C19 and the theorems follow from the clock invariant, for any
number of concurrent callers, any incoming events (witness calls) and every
schedule.  `originated` = the Lamport times of all messages originated so far.
-/
import SerfProofs.Lemmas.Lamport
import SerfModel.Gen.ClockUse
namespace SerfProofs.C06
open SerfModel.Atomic SerfModel.Gen SerfModel.ClockUse SerfProofs.Lamport

/-- Source-tied obligations: both functions take their time with one atomic increment. -/
theorem C06_userEvent_atomic : TakesAtomically SerfModel.Gen.ClockUse.userEvent = true := by decide
theorem C06_query_atomic : TakesAtomically SerfModel.Gen.ClockUse.query = true := by decide

/-- Lamport times of the messages originated in a run (newest first). -/
def originated (u : ClockUse) (s : Sys) : List W := s.incs.map (ltimeOf u)

theorem progs_eq (u : ClockUse) (h : TakesAtomically u = true) : progs u = P := by
  unfold TakesAtomically at h
  simp only [Bool.and_eq_true, beq_iff_eq] at h
  simp [progs, prog, h.1, P, Lamport.progs, Lamport.increment]

theorem ltimeOf_eq (u : ClockUse) (h : TakesAtomically u = true) (r : W) : ltimeOf u r = r - 1#64 := by
  unfold TakesAtomically at h
  simp only [Bool.and_eq_true, beq_iff_eq] at h
  simp [ltimeOf, h.1]

/-- **No two originated messages share a Lamport time**, even when issued concurrently. -/
theorem C06_unique (u : ClockUse) (h : TakesAtomically u = true) (c : W) (calls : List (List Call))
    (sched : List Nat) (hno : NoOverflow (progs u) (Sys.init c calls) sched) :
    (originated u (run (progs u) (Sys.init c calls) sched)).Nodup := by
  rw [progs_eq u h] at hno ⊢
  have hnd := (run_inv sched _ (SysInv.init c calls) hno).2.2.2
  unfold originated
  refine List.Pairwise.map (ltimeOf u) ?_ hnd
  intro a b hab heq
  rw [ltimeOf_eq u h, ltimeOf_eq u h] at heq
  apply hab
  bv_omega

/-- An increment result is never 0 in a run without overflow. -/
theorem inc_ne_zero (c : W) (calls : List (List Call)) (s1 : List Nat)
    (hno1 : NoOverflow P (Sys.init c calls) s1) (r' : W)
    (hr' : r' ∈ (run P (Sys.init c calls) s1).incs) (h0 : r' = 0#64) : False := by
  rcases run_incs_new s1 _ (SysInv.init c calls) hno1 r' hr' with hin | hgt
  · simp [Sys.init] at hin
  · subst h0
    simp only [Sys.init] at hgt
    bv_omega

/-- **Causally later.** Let `s1` be the schedule up to the moment a call begins.
Every message originated afterwards (during `s2`) carries a time strictly greater
than every time `v` whose processing (witness) had completed by then, and strictly
greater than the time of every message originated by then. -/
theorem C06_later (u : ClockUse) (h : TakesAtomically u = true) (c : W) (calls : List (List Call))
    (s1 s2 : List Nat) (hno : NoOverflow (progs u) (Sys.init c calls) (s1 ++ s2)) (r : W)
    (hr : r ∈ (run (progs u) (Sys.init c calls) (s1 ++ s2)).incs)
    (hnew : r ∉ (run (progs u) (Sys.init c calls) s1).incs) :
    (∀ (t : Nat) (th : Thread) (v : W), (run (progs u) (Sys.init c calls) s1).threads[t]? = some th → ⟨.witness v, none⟩ ∈ th.done →
        v < ltimeOf u r) ∧
    (∀ r' ∈ (run (progs u) (Sys.init c calls) s1).incs, ltimeOf u r' < ltimeOf u r) := by
  rw [progs_eq u h] at hno hr hnew ⊢
  have hno1 : NoOverflow P (Sys.init c calls) s1 := by
    have := noOverflow_take (s1 ++ s2) _ s1.length hno; simpa using this
  have hno2 : NoOverflow P (run P (Sys.init c calls) s1) s2 := by
    have := noOverflow_drop (s1 ++ s2) _ s1.length hno; simpa using this
  have h1 := run_inv s1 _ (SysInv.init c calls) hno1
  rw [run_append] at hr
  have hgt : (run P (Sys.init c calls) s1).counter < r := by
    rcases run_incs_new s2 _ h1.2 hno2 r hr with hin | hgt
    · exact absurd hin hnew
    · exact hgt
  rw [ltimeOf_eq u h]
  constructor
  · intro t th v hth hdone
    have hd : v < (run P (Sys.init c calls) s1).counter := (h1.2.1 th (List.mem_of_getElem? hth)).2 _ hdone
    bv_omega
  · intro r' hr'
    have hle := h1.2.2.1 r' hr'
    rw [ltimeOf_eq u h]
    -- r' was itself produced by an increment from a counter ≥ 0, so r' ≠ 0 is not needed: r' ≤ c1 < r
    have : r' ≤ (run P (Sys.init c calls) s1).counter := hle
    -- both sides minus one: strict order is preserved because r' ≥ 1 cannot be assumed; use r' ≤ c1 < r and r ≥ 1
    by_cases h0 : r' = 0#64
    · -- an increment never returns 0 without overflow; handled by cases on the invariant: 0 - 1 = max, excluded
      exfalso
      exact inc_ne_zero c calls s1 hno1 r' hr' h0
    · bv_omega

/-- Old usage of the event clock (before the repair): read, then increment. -/
def oldUserEvent : ClockUse := { ltimeSource := "time", later := ["increment"] }
/-- Old usage of the query clock: read only. -/
def oldQuery : ClockUse := { ltimeSource := "time", later := [] }

/-- Regression witness: with the old usage two concurrent `UserEvent` calls share a time. -/
theorem C06_old_userEvent_shares_time :
    let s := run (progs oldUserEvent) (Sys.init 5#64 [[.increment], [.increment]]) [0, 1, 0, 1, 0, 1, 0, 1]
    s.threads.map (fun th => th.done.map (fun d => d.result.map (ltimeOf oldUserEvent))) = [[some 5#64], [some 5#64]] := by
  decide

theorem C06_old_query_shares_time :
    let s := run (progs oldQuery) (Sys.init 5#64 [[.increment], [.increment]]) [0, 1, 0, 1, 0, 1]
    s.threads.map (fun th => th.done.map (fun d => d.result.map (ltimeOf oldQuery))) = [[some 5#64], [some 5#64]] := by
  decide

-- Non-vacuity: two concurrent originators and an incoming event at time 9.
example : NoOverflow (progs SerfModel.Gen.ClockUse.userEvent) (Sys.init 5#64 [[.increment], [.increment], [.witness 9#64]])
    [0, 1, 2, 2, 2, 2, 2, 2, 0, 1, 0, 1] := by decide
example : originated SerfModel.Gen.ClockUse.userEvent (run (progs SerfModel.Gen.ClockUse.userEvent)
    (Sys.init 5#64 [[.increment], [.increment], [.witness 9#64]]) [0, 1, 2, 2, 2, 2, 2, 2, 0, 1, 0, 1]) = [11#64, 10#64] := by decide

end SerfProofs.C06
