/-
C26 — Filtered member listings match whole names, statuses and tag values.

Formal side: `SerfModel.Regex` (AST, span semantics `ends`, `search` = Go's
`MatchString`, `fullMatch`).  `wrap r` is the AST of the template `^(?:%s)$` applied
to a pattern whose own AST is `r`.  `filterMembers` / `compileAnchored` (translations
of the Go functions as of 990828f: validate the pattern alone, then wrap and compile)
take the pattern engine as a parameter.

What is assumed about the engine (`EngineLaw`), for a parser `parse` of patterns:
  * `regexp.Compile(p)` succeeds exactly when `p` is a valid pattern (`parse p` is defined);
  * IF `p` is valid on its own, then `^(?:p)$` compiles and denotes `wrap (parse p)`.
NOTHING is assumed about `^(?:p)$` for a `p` that is not valid on its own — Go's `regexp`
happily compiles `^(?:a)|(?:b)$` for `p = a)|(?:b` — because the code now rejects such `p`
before wrapping.  `escapingEngine` below satisfies the law AND has that escaping behaviour;
`C26_escape_counterexample` keeps the witness for the pre-990828f shape (paste, then compile).
The formal semantics is validated against Go's `regexp` by the `rx` differential of the harness.
-/
import SerfProofs.Lemmas.Regex
import SerfProofs.Lemmas.RegexSem
import SerfModel.Gen.AnchorTemplate
namespace SerfProofs.C26
open SerfModel SerfModel.Regex SerfProofs.Regex

/-- **Anchoring is sound and complete**: for EVERY regex `r` and word `w`, searching for
`^(?:r)$` anywhere in `w` succeeds iff `r` matches the whole of `w`. -/
theorem C26_anchor_sound (r : Regex) (w : List Char) :
    search (.cat .bot (.cat (.group r) .eot)) w = true ↔ fullMatch r w = true := by
  show search (wrap r) w = true ↔ _
  unfold search fullMatch
  rw [any_range_succ_only_zero _ _ (fun i => by simp [ends_wrap_succ])]
  rw [ends_wrap_zero, flatMap_eot_isEmpty]
  simp

theorem search_wrap (r : Regex) (w : List Char) : search (wrap r) w = fullMatch r w := by
  have := C26_anchor_sound r w
  unfold wrap
  cases h1 : search (.cat .bot (.cat (.group r) .eot)) w <;> cases h2 : fullMatch r w <;> simp_all

/-! ## The formal matcher is the standard semantics

`Matches r w i j` (SerfProofs/Lemmas/RegexSem.lean) is the textbook inductive definition of
"`r` matches `w[i..j)`" with anchors; the executable `ends` — including the star's bounded
closure — computes exactly that relation.  So the anchoring theorem is a statement about the
standard semantics, not about an ad-hoc matcher. -/

theorem C26_matcher_correct (r : Regex) (w : List Char) (i j : Nat) (hi : i ≤ w.length) :
    j ∈ ends r w i ↔ Matches r w i j := mem_ends_iff r w i j hi

theorem C26_fullMatch_iff (r : Regex) (w : List Char) : fullMatch r w = true ↔ Matches r w 0 w.length := by
  unfold fullMatch
  rw [List.contains_iff_mem]
  exact mem_ends_iff r w 0 w.length (Nat.zero_le _)

theorem C26_search_iff (r : Regex) (w : List Char) :
    search r w = true ↔ ∃ i j, i ≤ w.length ∧ Matches r w i j := by
  unfold search
  rw [List.any_eq_true]
  constructor
  · rintro ⟨i, hi, hne⟩
    have hi' : i ≤ w.length := by have := List.mem_range.1 hi; omega
    cases he : ends r w i with
    | nil => simp [he] at hne
    | cons j js =>
      exact ⟨i, j, hi', (mem_ends_iff r w i j hi').1 (by rw [he]; simp)⟩
  · rintro ⟨i, j, hi, hm⟩
    refine ⟨i, List.mem_range.2 (by omega), ?_⟩
    have := (mem_ends_iff r w i j hi).2 hm
    cases he : ends r w i with
    | nil => rw [he] at this; simp at this
    | cons _ _ => simp

/-- **Anchoring, in the declarative semantics alone**: `^(?:r)$` matches somewhere in `w` iff
`r` matches all of `w`. -/
theorem C26_anchor_declarative (r : Regex) (w : List Char) :
    (∃ i j, i ≤ w.length ∧ Matches (.cat .bot (.cat (.group r) .eot)) w i j) ↔ Matches r w 0 w.length := by
  rw [← C26_search_iff, ← C26_fullMatch_iff]
  exact C26_anchor_sound r w

example : Matches (.alt (.char 'a') (.star (.char 'b'))) "bb".toList 0 2 ∧
    ¬ Matches (.alt (.char 'a') (.star (.char 'b'))) "ab".toList 0 2 := by
  constructor
  · exact (C26_fullMatch_iff _ _).1 (by decide)
  · intro h; have := (C26_fullMatch_iff _ _).2 h; revert this; decide

/-! ## The code's shape (regenerated) is the shape the theorems are about -/

/-- `compileAnchored` is: validate the pattern on its own, THEN compile it inside `^(?:%s)$`;
the member loop is: every requested tag read as `m.Tags[tag]` (missing = ""), the status filter
and the name filter each skipped when empty and matched against `m.Status.String()` / `m.Name`;
every requested tag value, the status and the name filter are compiled that way and every compile
error is returned at once with no list; `handleMembers` passes the request's Tags / Status / Name and
returns the filter's error right after the call.  (The translator works by meaning: names of locals,
parameters, receiver, label and helper, hoisted constants, Sprintf vs concatenation, loop forms,
nested vs `&&` guards, the order of the independent guards and error texts do not matter.) -/
theorem C26_shape :
    Gen.AnchorTemplate.shape = canonicalShape ∧
    Gen.AnchorTemplate.compilesAll = true ∧
    Gen.AnchorTemplate.handlerRequestFields = "Tags,Status,Name" ∧
    Gen.AnchorTemplate.handlerReturnsError = true := by
  decide

/-- What the members command documents (docs/commands/members.html.markdown, regenerated): the
`-status`, `-tag` (and deprecated `-role`) filters are "anchored at the start and end, and must be a
full match"; the `-name` paragraph only says "matching this regular expression" — the code (and the
property) anchor it like the others. -/
theorem C26_documented :
    Gen.AnchorTemplate.documentedFilters = [("-name", false), ("-role", true), ("-status", true), ("-tag", true)] := by
  decide

/-- the interpreter of shapes, at the canonical shape, is the hand-written translation -/
theorem filterMembersS_canonical (e : Engine) (ms : List Member) (tags : List (String × String)) (status name : String) :
    filterMembersS canonicalShape e ms tags status name = filterMembers e ms tags status name := by
  have hc : ∀ p, compileWith canonicalShape.compile e p = compileAnchored e p := by
    intro p
    simp only [compileWith, canonicalShape, compileAnchored, List.all_cons, List.all_nil, Bool.and_true]
    cases e.validAlone p <;> simp
  unfold filterMembersS filterMembers
  simp only [hc]
  have hp : ∀ m, (canonicalShape.guards.all (passes e tags status name m)) =
      ((tags.all fun tp => e.matchStr tp.2 (tagValue m tp.1)) &&
        (status == "" || e.matchStr status m.status) && (name == "" || e.matchStr name m.name)) := by
    intro m
    simp [canonicalShape, passes, Bool.and_assoc]
  simp only [hp]

/-- **the translated code is the model**: what `filterMembers` of ipc.go does, read through the
regenerated shape, is `filterMembers` of `SerfModel.Regex` — so every theorem below is about the
code as extracted -/
theorem C26_code_is_model (e : Engine) (ms : List Member) (tags : List (String × String)) (status name : String) :
    filterMembersS Gen.AnchorTemplate.shape e ms tags status name = filterMembers e ms tags status name := by
  rw [C26_shape.1]; exact filterMembersS_canonical e ms tags status name

/-- what a pattern means on its own -/
def fullMatchP (parse : String → Option Regex) (p v : String) : Bool :=
  match parse p with
  | some r => fullMatch r v.toList
  | none => false

/-- The law assumed of the engine for the patterns of one request (see the file header). -/
def EngineLaw (e : Engine) (parse : String → Option Regex) (pats : List String) : Prop :=
  ∀ p ∈ pats, e.validAlone p = (parse p).isSome ∧
    ∀ r, parse p = some r → e.compilesWrapped p = true ∧ ∀ v, e.matchStr p v = search (wrap r) v.toList

def requested (tags : List (String × String)) (status name : String) : List String :=
  status :: name :: tags.map (·.2)

/-- an engine that satisfies the law by construction (non-vacuity of `EngineLaw`) -/
def formalEngine (parse : String → Option Regex) : Engine where
  validAlone p := (parse p).isSome
  compilesWrapped p := (parse p).isSome
  matchStr p v := match parse p with
    | some r => search (wrap r) v.toList
    | none => false

theorem formalEngine_law (parse : String → Option Regex) (pats : List String) :
    EngineLaw (formalEngine parse) parse pats := by
  intro p _
  refine ⟨rfl, fun r hr => ⟨by simp [formalEngine, hr], fun v => by simp [formalEngine, hr]⟩⟩

/-- An engine behaving like Go's on the escaping pattern: `a)|(?:b` is not valid alone, yet its
wrapped form compiles (to `(^(?:a))|((?:b)$)`) and matches inside `ax`.  It satisfies the law
too: the law does not speak about wrapped forms of patterns that are invalid alone. -/
def escapingEngine : Engine where
  validAlone p := p == "a|b" || p == ""
  compilesWrapped p := p == "a|b" || p == "" || p == "a)|(?:b"
  matchStr p v :=
    if p == "a|b" then search (wrap (.alt (.char 'a') (.char 'b'))) v.toList
    else if p == "" then search (wrap .empty) v.toList
    else if p == "a)|(?:b" then
      search (.alt (.cat .bot (.group (.char 'a'))) (.cat (.group (.char 'b')) .eot)) v.toList
    else false

def tinyParse (p : String) : Option Regex :=
  if p = "a|b" then some (.alt (.char 'a') (.char 'b')) else if p = "" then some .empty else none

theorem escapingEngine_law (pats : List String) : EngineLaw escapingEngine tinyParse pats := by
  intro p _
  by_cases h : p = "a|b"
  · subst h
    refine ⟨by decide, fun r hr => ?_⟩
    have : r = .alt (.char 'a') (.char 'b') := by
      have h2 : tinyParse "a|b" = some (.alt (.char 'a') (.char 'b')) := by decide
      rw [h2] at hr; injection hr with hr; exact hr.symm
    subst this
    exact ⟨by decide, fun v => by simp [escapingEngine]⟩
  · by_cases h0 : p = ""
    · subst h0
      refine ⟨by decide, fun r hr => ?_⟩
      have : r = .empty := by
        have h2 : tinyParse "" = some .empty := by decide
        rw [h2] at hr; injection hr with hr; exact hr.symm
      subst this
      exact ⟨by decide, fun v => by simp [escapingEngine]⟩
    · refine ⟨by simp [escapingEngine, tinyParse, h, h0], fun r hr => ?_⟩
      simp [tinyParse, h, h0] at hr

/-- with that engine the repaired filter rejects the escaping pattern (and the wrapped form,
had it been used unvalidated, would have listed `ax`) -/
example :
    filterMembers escapingEngine [⟨"a", "alive", []⟩, ⟨"ax", "alive", []⟩] [] "a|b" "a)|(?:b" = none ∧
    escapingEngine.compilesWrapped "a)|(?:b" = true ∧ escapingEngine.matchStr "a)|(?:b" "ax" = true := by decide

theorem compileAnchored_eq (e : Engine) (parse : String → Option Regex) (pats : List String)
    (hl : EngineLaw e parse pats) (p : String) (hp : p ∈ pats) :
    compileAnchored e p = (parse p).isSome := by
  obtain ⟨h1, h2⟩ := hl p hp
  unfold compileAnchored
  cases hpp : parse p with
  | none => simp [h1, hpp]
  | some r => simp [h1, hpp, (h2 r hpp).1]

/-- **Exactness.**  All requested patterns valid ⇒ the list returned is exactly the members
whose name, status and every requested tag value (a missing tag counts as empty) are matched
over the WHOLE string; an empty status / name filter is "not requested". -/
theorem C26_filter_exact (e : Engine) (parse : String → Option Regex) (ms : List Member)
    (tags : List (String × String)) (status name : String)
    (hw : EngineLaw e parse (requested tags status name))
    (hvalid : ∀ p ∈ requested tags status name, (parse p).isSome = true) :
    filterMembers e ms tags status name = some (ms.filter fun m =>
      (tags.all fun tp => fullMatchP parse tp.2 (tagValue m tp.1)) &&
      (status == "" || fullMatchP parse status m.status) &&
      (name == "" || fullMatchP parse name m.name)) := by
  have hm : ∀ p ∈ requested tags status name, ∀ v, e.matchStr p v = fullMatchP parse p v := by
    intro p hp v
    obtain ⟨_, h2⟩ := hw p hp
    unfold fullMatchP
    cases hpp : parse p with
    | none => have := hvalid p hp; simp [hpp] at this
    | some r => simp only []; rw [(h2 r hpp).2 v, search_wrap]
  have hc : ∀ p ∈ requested tags status name, compileAnchored e p = true := by
    intro p hp; rw [compileAnchored_eq e parse _ hw p hp]; exact hvalid p hp
  have hs : status ∈ requested tags status name := by simp [requested]
  have hn : name ∈ requested tags status name := by simp [requested]
  have ht : ∀ tp ∈ tags, tp.2 ∈ requested tags status name := by
    intro tp htp; simp only [requested, List.mem_cons, List.mem_map]; right; right; exact ⟨tp, htp, rfl⟩
  have hct : (tags.all fun tp => compileAnchored e tp.2) = true := by
    rw [List.all_eq_true]; intro tp htp; exact hc _ (ht tp htp)
  unfold filterMembers
  simp only [hct, hc status hs, hc name hn, Bool.not_true, Bool.false_eq_true, if_false]
  congr 1
  apply List.filter_congr
  intro m _
  have hall : (tags.all fun tp => e.matchStr tp.2 (tagValue m tp.1)) =
      (tags.all fun tp => fullMatchP parse tp.2 (tagValue m tp.1)) := by
    apply Bool.eq_iff_iff.mpr
    simp only [List.all_eq_true]
    constructor
    · intro h tp htp; rw [← hm _ (ht tp htp)]; exact h tp htp
    · intro h tp htp; rw [hm _ (ht tp htp)]; exact h tp htp
  rw [hall, hm status hs, hm name hn]

/-- **An invalid pattern yields an error and no list** (whichever filter carries it, also an
invalid status/name) — including patterns whose wrapped form the engine would compile. -/
theorem C26_invalid_pattern (e : Engine) (parse : String → Option Regex) (ms : List Member)
    (tags : List (String × String)) (status name : String)
    (hw : EngineLaw e parse (requested tags status name))
    (hinv : ∃ p ∈ requested tags status name, parse p = none) :
    filterMembers e ms tags status name = none := by
  obtain ⟨p, hp, hnone⟩ := hinv
  have hcp : compileAnchored e p = false := by rw [compileAnchored_eq e parse _ hw p hp, hnone]; rfl
  unfold filterMembers
  simp only [requested, List.mem_cons, List.mem_map] at hp
  rcases hp with rfl | rfl | ⟨tp, htp, rfl⟩
  · by_cases h1 : (tags.all fun tp => compileAnchored e tp.2) = true <;> simp [h1, hcp]
  · by_cases h1 : (tags.all fun tp => compileAnchored e tp.2) = true <;>
      by_cases h2 : compileAnchored e status = true <;> simp [h1, h2, hcp]
  · have : (tags.all fun tp => compileAnchored e tp.2) = false := by
      rw [List.all_eq_false]; exact ⟨tp, htp, by simp [hcp]⟩
    simp [this]

/-- non-vacuity of `C26_invalid_pattern`'s hypotheses: the escaping request -/
example : EngineLaw escapingEngine tinyParse (requested [] "a|b" "a)|(?:b") ∧
    ∃ p ∈ requested [] "a|b" "a)|(?:b", tinyParse p = none :=
  ⟨escapingEngine_law _, "a)|(?:b", by simp [requested], by decide⟩

/-- non-vacuity: a request with an alternation, the formal engine, a two-symbol parser -/
example : filterMembers (formalEngine fun p => if p = "a|b" then some (.alt (.char 'a') (.char 'b')) else if p = "" then some .empty else none)
    [⟨"a", "alive", []⟩, ⟨"ax", "alive", []⟩, ⟨"b", "alive", []⟩] [] "" "a|b"
    = some [⟨"a", "alive", []⟩, ⟨"b", "alive", []⟩] := by decide

/-- **Complete specification** (exactness and the error case in one statement, for every member
list and every filter set): under the engine law, the filter returns an error iff some requested
pattern (status and name count even when empty: `""` is a valid pattern) is invalid, and otherwise
exactly the members fully matched by every requested filter. -/
theorem C26_filter_spec (e : Engine) (parse : String → Option Regex) (ms : List Member)
    (tags : List (String × String)) (status name : String)
    (hw : EngineLaw e parse (requested tags status name)) :
    filterMembersS Gen.AnchorTemplate.shape e ms tags status name =
      if (requested tags status name).all (fun p => (parse p).isSome) then
        some (ms.filter fun m =>
          (tags.all fun tp => fullMatchP parse tp.2 (tagValue m tp.1)) &&
          (status == "" || fullMatchP parse status m.status) &&
          (name == "" || fullMatchP parse name m.name))
      else none := by
  rw [C26_code_is_model]
  by_cases hall : (requested tags status name).all (fun p => (parse p).isSome) = true
  · rw [if_pos hall]
    exact C26_filter_exact e parse ms tags status name hw (fun p hp => List.all_eq_true.mp hall p hp)
  · rw [if_neg hall]
    apply C26_invalid_pattern e parse ms tags status name hw
    have : ∃ p ∈ requested tags status name, ¬ (parse p).isSome = true := by
      simpa [List.all_eq_true] using hall
    obtain ⟨p, hp, hn⟩ := this
    exact ⟨p, hp, by cases h : parse p <;> simp_all⟩

example : filterMembersS Gen.AnchorTemplate.shape escapingEngine [⟨"a", "alive", []⟩, ⟨"ax", "alive", []⟩] [] "" "a|b"
    = some [⟨"a", "alive", []⟩] := by decide

/-- whatever the engine does, the reply is a sub-list of the members in their original order
(no member is invented, duplicated or reordered) -/
theorem C26_result_sublist (e : Engine) (ms : List Member) (tags : List (String × String)) (status name : String)
    (l : List Member) (h : filterMembersS Gen.AnchorTemplate.shape e ms tags status name = some l) :
    l.Sublist ms := by
  rw [C26_code_is_model] at h
  unfold filterMembers at h
  split at h
  · cases h
  · split at h
    · cases h
    · split at h
      · cases h
      · injection h with h; rw [← h]; exact List.filter_sublist

/-- Regression witness (seeded mutation C26-b): with the two-value map read
(`val, ok := m.Tags[tag]; !ok ⇒ skip`) a member that lacks a requested tag is dropped even when
the pattern matches the empty string; the canonical shape keeps it. -/
theorem C26_missing_tag_counterexample :
    let e := formalEngine fun p => if p = "" then some .empty else none
    let ms : List Member := [⟨"n1", "alive", [("role", "")]⟩, ⟨"n2", "alive", []⟩]
    filterMembersS { canonicalShape with guards := [.tags .presentOnly, .field .status true, .field .name true] }
        e ms [("role", "")] "" "" = some [⟨"n1", "alive", [("role", "")]⟩] ∧
    filterMembersS canonicalShape e ms [("role", "")] "" "" = some ms := by decide

/-- Regression witness (repaired in 990828f) at the level of the filter: without the
validate-alone step, an engine with Go's behaviour on `a)|(?:b` makes the filter return a list
(containing `ax`) where the canonical shape returns the error. -/
theorem C26_no_validation_counterexample :
    filterMembersS { canonicalShape with compile := [.wrap "^(?:%s)$"] } escapingEngine
        [⟨"a", "alive", []⟩, ⟨"ax", "alive", []⟩] [] "" "a)|(?:b" = some [⟨"a", "alive", []⟩, ⟨"ax", "alive", []⟩] ∧
    filterMembersS canonicalShape escapingEngine [⟨"a", "alive", []⟩, ⟨"ax", "alive", []⟩] [] "" "a)|(?:b" = none := by
  decide

/-- The engine law is needed: with an engine whose wrapped expression is NOT anchored (it
searches for `r` anywhere — what the pre-29833e4 template did for alternations) the same filter
lists `ax` for the name filter `a|b`. -/
theorem C26_engine_law_needed :
    let e : Engine := { validAlone := fun _ => true, compilesWrapped := fun _ => true,
                        matchStr := fun p v => if p == "a|b" then search (.alt (.char 'a') (.char 'b')) v.toList else true }
    filterMembersS Gen.AnchorTemplate.shape e [⟨"a", "alive", []⟩, ⟨"ax", "alive", []⟩] [] "" "a|b"
      = some [⟨"a", "alive", []⟩, ⟨"ax", "alive", []⟩] := by decide

/-- Regression witness (repaired in 29833e4): the old template `^%s$` applied to `a|b` is, by
precedence, `(^a)|(b$)`; it finds a match in `ax`, which `a|b` does not match as a whole. -/
theorem C26_unanchored_alt :
    search (.alt (.cat .bot (.char 'a')) (.cat (.char 'b') .eot)) "ax".toList = true ∧
    fullMatch (.alt (.char 'a') (.char 'b')) "ax".toList = false ∧
    search (wrap (.alt (.char 'a') (.char 'b'))) "ax".toList = false := by decide

/-- Regression witness (repaired in 990828f) for the OLD shape — paste the pattern into the
template, then compile, without validating it alone: the template applied to `a)|(?:b` reads
`^(?:a)|(?:b)$`, i.e. `(^(?:a))|((?:b)$)`: Go compiles it (although `a)|(?:b` alone is not a
valid pattern) and it matches inside `ax` and `xb`. -/
theorem C26_escape_counterexample :
    search (.alt (.cat .bot (.group (.char 'a'))) (.cat (.group (.char 'b')) .eot)) "ax".toList = true ∧
    search (.alt (.cat .bot (.group (.char 'a'))) (.cat (.group (.char 'b')) .eot)) "xb".toList = true := by decide

end SerfProofs.C26
