/-
C16 — Applications see each member's events in the order they happened.

Model: `SerfModel.Pipeline` (the stages `serf.Create` stacks: snapshot tee →
internal-query filter → user coalescer → member coalescer → EventCh), built from
the loop model of serf/coalesce.go and the coalescer models of C17/C18.

`emitted` is the history of events the handlers sent (they send under the member
lock, hence in the order the status changes happened); `sched` is an arbitrary
interleaving of: a handler sending the next event, any stage taking one event
from its queue, any timer firing, the shutdown being seen, the tee dropping.
-/
import SerfProofs.Lemmas.Pipeline
import SerfProofs.Lemmas.PipelineLast
import SerfProofs.Lemmas.PipelineDrain
import SerfModel.Gen.MemberLocks
import SerfModel.Gen.NodeShapes
import SerfProofs.Props.C17
import SerfProofs.Props.C18
namespace SerfProofs.C16
open SerfModel SerfModel.MemberCoalesce SerfModel.Pipeline SerfProofs.Pipeline

/-- **Per-member order.** For every configuration (snapshot on/off, user and member
coalescing on/off), every emitted history and every schedule, the member events the
application has received about any one member form a subsequence (`List.Sublist`) of
the events emitted about that member: nothing invented, nothing duplicated, nothing
reordered — at every moment, through every stage. -/
theorem C16_subsequence (cfg : Cfg) (emitted : List PEv) (sched : List Step) (m : String) :
    (about m (runPipeline cfg emitted sched).recv).Sublist (about m emitted) := by
  have h := run_flat sched (initPipe cfg emitted) (stagesOf_ok cfg) m
  have h0 : flat m (initPipe cfg emitted) = about m emitted := by
    have hs : flatS m (stagesOf cfg) = [] := by
      cases cfg with
      | mk a b c => cases a <;> cases b <;> cases c <;> rfl
    simp [flat, initPipe, hs, about_nil]
  rw [h0] at h
  exact (List.sublist_append_left _ _).trans h

/-- The same holds for everything still in flight: received ++ in-flight (downstream
first, the member coalescer holding at most one event per member) ++ not yet emitted
is a subsequence of the emitted history, per member. -/
theorem C16_inflight_subsequence (cfg : Cfg) (emitted : List PEv) (sched : List Step) (m : String) :
    (flat m (runPipeline cfg emitted sched)).Sublist (about m emitted) := by
  have h := run_flat sched (initPipe cfg emitted) (stagesOf_ok cfg) m
  have h0 : flat m (initPipe cfg emitted) = about m emitted := by
    have hs : flatS m (stagesOf cfg) = [] := by
      cases cfg with
      | mk a b c => cases a <;> cases b <;> cases c <;> rfl
    simp [flat, initPipe, hs, about_nil]
  rw [h0] at h
  exact h

/-- **Last event matches.** When nothing was lost (the tee never dropped and no coalescer
goroutine returned) and the pipeline is drained (everything emitted was sent, every queue is
empty, the member coalescer holds nothing), then for every member the kind of the last event
the application received equals the kind of the last event emitted for it — in every
configuration and for every schedule, including every placement of the coalescers' flushes
(an event the member coalescer suppresses has the kind of the one delivered last). -/
theorem C16_last_matches (cfg : Cfg) (emitted : List PEv) (sched : List Step) (m : String)
    (hloss : sched.all (fun x => !x.isLoss) = true)
    (hdr : (runPipeline cfg emitted sched).drained = true) :
    lastKind m (runPipeline cfg emitted sched).recv = lastKind m emitted := by
  have h := inv_run m (about m emitted) sched (initPipe cfg emitted) (inv_init cfg emitted m) hloss
  have h1 := h.1
  have h2 := drained_flat _ hdr m
  simp only [runPipeline] at h2 ⊢
  rw [h2] at h1
  exact h1

/-- Without member coalescing nothing is ever held back or suppressed: drained and loss-free,
the application has received exactly the emitted events of every member, in order. -/
theorem C16_exact_without_coalescing (snap ucoal : Bool) (emitted : List PEv) (sched : List Step) (m : String)
    (hloss : sched.all (fun x => !x.isLoss) = true)
    (hdr : (runPipeline ⟨snap, ucoal, false⟩ emitted sched).drained = true) :
    about m (runPipeline ⟨snap, ucoal, false⟩ emitted sched).recv = about m emitted := by
  have key : ∀ (sched : List Step) (s : Pipe), AllPass s.stages → sched.all (fun x => !x.isLoss) = true →
      flat m (sched.foldl Pipe.step s) = flat m s ∧ AllPass (sched.foldl Pipe.step s).stages := by
    intro sched
    induction sched with
    | nil => intro s hp _; exact ⟨rfl, hp⟩
    | cons x xs ih =>
      intro s hp hl
      simp only [List.all_cons, Bool.and_eq_true, Bool.not_eq_eq_eq_not, Bool.not_true] at hl
      have hstep : flat m (s.step x) = flat m s ∧ AllPass (s.step x).stages := by
        cases x with
        | emit =>
          refine ⟨emit_flat s m, ?_⟩
          simp only [Pipe.step]
          cases ht : s.todo with
          | nil => simpa using hp
          | cons e t =>
            simp only
            by_cases hem : s.stages.isEmpty
            · simpa [hem] using hp
            · simp only [hem, Bool.false_eq_true, ↓reduceIte]; exact pushLast_pass _ _ hp
        | «at» k a =>
          have ha : lossless a = true := by cases a <;> simp_all [Step.isLoss, lossless]
          obtain ⟨h1, h2⟩ := stepAt_pass s.stages k a m hp ha
          refine ⟨?_, h2⟩
          simp only [Pipe.step, flat, about_append]
          rw [List.append_assoc, ← List.append_assoc (about m (stepAt s.stages k a).2), h1]
      obtain ⟨e1, e2⟩ := ih (s.step x) hstep.2 (by simpa using hl.2)
      exact ⟨e1.trans hstep.1, e2⟩
  have hp0 : AllPass (initPipe ⟨snap, ucoal, false⟩ emitted).stages := by
    have := passTail snap ucoal
    simpa [initPipe, stagesOf] using this
  obtain ⟨e1, _⟩ := key sched _ hp0 hloss
  have h0 : flat m (initPipe ⟨snap, ucoal, false⟩ emitted) = about m emitted := by
    have hs : flatS m (stagesOf ⟨snap, ucoal, false⟩) = [] := by cases snap <;> cases ucoal <;> rfl
    simp [flat, initPipe, hs, about_nil]
  have e2 := drained_flat _ hdr m
  simp only [runPipeline] at e2 ⊢
  rw [← e2, e1, h0]

/-! ### No stale last word: the hypotheses of `C16_last_matches` are always attainable -/

/-- **The pipeline can always be drained.** After ANY loss-free schedule (any interleaving, any
flush placement, anything still in flight) there is a loss-free continuation — the handlers send
what is left, every stage takes what is queued (upstream first) and its quiescent timer fires —
after which nothing is in flight. -/
theorem C16_can_always_drain (cfg : Cfg) (emitted : List PEv) (sched : List Step)
    (hloss : sched.all (fun x => !x.isLoss) = true) :
    ∃ more : List Step, more.all (fun x => !x.isLoss) = true ∧
      (runPipeline cfg emitted (sched ++ more)).drained = true := by
  have hr := run_ready sched (initPipe cfg emitted) (stagesOf_ready cfg) hloss
  refine ⟨drainSteps (runPipeline cfg emitted sched), drainSteps_lossless _, ?_⟩
  simp only [runPipeline, List.foldl_append]
  exact drainSteps_drained _ hr

/-- **No stale last word, end to end.** For every configuration, every history of events and every
loss-free schedule so far, letting the pipeline run dry leaves the application with, for EVERY
member, a last event whose kind is the kind of the latest event emitted for that member — through
tee, internal-query filter, user coalescer and member coalescer, whatever was suppressed or
merged on the way. -/
theorem C16_no_stale_last_word (cfg : Cfg) (emitted : List PEv) (sched : List Step)
    (hloss : sched.all (fun x => !x.isLoss) = true) :
    ∃ more : List Step, more.all (fun x => !x.isLoss) = true ∧
      ∀ m, lastKind m (runPipeline cfg emitted (sched ++ more)).recv = lastKind m emitted := by
  obtain ⟨more, h1, h2⟩ := C16_can_always_drain cfg emitted sched hloss
  refine ⟨more, h1, fun m => C16_last_matches cfg emitted (sched ++ more) m ?_ h2⟩
  simp only [List.all_append, Bool.and_eq_true]
  exact ⟨hloss, h1⟩

/-- **Every split into quanta.** Cut the history into consecutive quanta of ANY sizes `ns`
(`ns.sum = emitted.length`); per quantum the handlers send its events and the pipeline runs dry
(so the coalescers flush once per quantum).  Then for every member the last event delivered has
the kind of the latest event of the whole history. -/
theorem C16_quanta_last_word (cfg : Cfg) (emitted : List PEv) (ns : List Nat) (hsum : ns.sum = emitted.length)
    (m : String) :
    lastKind m (runPipeline cfg emitted (quantaSched (initPipe cfg emitted) ns)).recv = lastKind m emitted := by
  apply C16_last_matches cfg emitted _ m (quantaSched_lossless ns _)
  have hidle : (initPipe cfg emitted).stages.all stageIdle = true := by
    cases cfg with
    | mk a b c => cases a <;> cases b <;> cases c <;> rfl
  exact quantaSched_drained ns (initPipe cfg emitted) (stagesOf_ready cfg) hidle hsum

/-! ### Tie of the premise "emitted history = order of the status changes" to the source

The theorems above take the emitted history as given.  It is ordered like the status changes of
each member exactly when every handler applies the change and sends the event inside ONE
exclusive critical section of `memberLock`.  `SerfModel.Gen.MemberLocks.handlers` is regenerated
from serf/*.go on every run (extract/memberlocks.go): for every method of `*Serf` that sends a
MemberEvent on `s.config.EventCh`, and every method through which such a method is reached
without locking, how it uses memberLock. -/

/-- **Every MemberEvent is sent while memberLock is held exclusively**: by the sending method
itself (`Lock()` directly followed by `defer Unlock()`, memberLock not touched again, the send
after the lock and not in a `go`/closure), or — for `eraseNode`, reached through `handlePrune`
and `reap` — at every call site, inside the caller's section. -/
theorem C16_events_sent_under_member_lock :
    SerfModel.MemberLocks.allSendsUnderLock SerfModel.Gen.MemberLocks.handlers = true := by decide

/-- The four status handlers and `eraseNode` are the senders the fact is about (so a renamed or
split handler cannot make the previous theorem vacuous). -/
theorem C16_status_handlers_send_under_lock :
    (["handleNodeJoin", "handleNodeLeave", "handleNodeUpdate", "handleNodeLeaveIntent", "eraseNode"].all
      (SerfModel.MemberLocks.sendsUnderLock SerfModel.Gen.MemberLocks.handlers)) = true := by decide

-- the predicate is not vacuous: the shape of an early unlock before the send is rejected
example : SerfModel.MemberLocks.allSendsUnderLock
    [{ name := "handleNodeLeave", sends := 1, lockCall := "Lock", shape := "other", earlyUnlock := false,
       sendsInside := false, callSites := [] }] = false := by decide

/-- **Order of the events one handler call emits.**  A leave intent with the Prune flag that finds
the member `failed` makes two status changes in one call — failed→left, then erased — and so
emits two events.  In the source's `case StatusFailed` the `EventMemberLeave` send comes BEFORE
`s.handlePrune(member)` (whose last statement is `s.eraseNode(member)`, the sender of
`EventMemberReap`), and nothing but `return true` follows: the emitted history is
…, leave, reap — the order of the status changes, which is what the pipeline theorems take as
their input (the harness emits exactly this history for the `prune` / `forceprune` ops). -/
-- (Gen.NodeShapes is alpha-normalised: recv = s, p0 = leaveMsg (handlePrune: p0 = member), v1 = member)
theorem C16_leave_is_sent_before_prune_reaps :
    SerfModel.Gen.NodeShapes.leaveCaseFailed =
      ["v1.Status = StatusLeft",
       "recv.failedMembers = removeOldMember(recv.failedMembers, v1.Name)",
       "recv.leftMembers = append(recv.leftMembers, v1)",
       -- (1) the leave of the failed→left change …
       "if recv.config.EventCh != nil { recv.config.EventCh <- MemberEvent{Type: EventMemberLeave, Members: []Member{v1.Member}} }",
       -- (2) … then the prune, whose eraseNode sends the reap
       "if p0.Prune { recv.handlePrune(v1) }",
       "return true"] ∧
    SerfModel.Gen.NodeShapes.handlePruneStmts.getLast? = some "recv.eraseNode(p0)" ∧
    -- the other cases send nothing themselves: their only event is the reap of the prune
    SerfModel.Gen.NodeShapes.leaveCaseAlive =
      ["v1.Status = StatusLeaving", "if p0.Prune { recv.handlePrune(v1) }", "return true"] ∧
    SerfModel.Gen.NodeShapes.leaveCaseLeavingLeft = ["if p0.Prune { recv.handlePrune(v1) }", "return true"] :=
  ⟨rfl, rfl, rfl, rfl⟩

/-- The coalescer stages of the pipeline model are the source's: the member coalescer stores
unconditionally and suppresses by the source's guard (C17 ties), and both coalescer stages run
the source's `coalesceLoop` (C18 tie) — so an edit to serf/coalesce_member.go or serf/coalesce.go
reaches this property's obligations as well. -/
theorem C16_coalescer_stages_are_the_source :
    (∀ last out e, SerfModel.CoalesceShapes.runM SerfModel.Gen.Coalescers.memberFlushBody last out e =
        some (if suppressed last e then (last, out) else (ainsert last e.name e.kind, out ++ [e]))) ∧
    SerfModel.Gen.Coalescers.memberCoalesceBody = .act "store" .done ∧
    SerfModel.Gen.Coalescers.loopFlush = ["p5.Flush(p1)", "if !v2 { goto INGEST }"] :=
  ⟨SerfProofs.C17.C17_flush_body_is_source_program, SerfProofs.C17.C17_coalesce_stores_unconditionally.2,
   SerfProofs.C18.C18_loop_shape.2.2.2.2.1⟩

/-! ### Non-vacuity: a run through all four stages with coalescing, a drop and a suppression -/

example :
    (runPipeline ⟨true, true, true⟩
      [.member ⟨.join, "a", 1⟩, .member ⟨.join, "b", 2⟩, .query true 7, .member ⟨.failed, "a", 3⟩,
       .member ⟨.join, "a", 4⟩, .member ⟨.update, "b", 5⟩]
      [.emit, .emit, .emit, .at 3 .take, .at 3 .take, .at 3 .take, .at 2 .take, .at 2 .take, .at 2 .take,
       .at 1 .take, .at 1 .take, .at 0 .take, .at 0 .take, .at 0 .quiescent,
       .emit, .emit, .emit, .at 3 .take, .at 3 .take, .at 3 .drop, .at 2 .take, .at 2 .take, .at 1 .take, .at 1 .take,
       .at 0 .take, .at 0 .take, .at 0 .quantum]).recv
    = [.member ⟨.join, "a", 1⟩, .member ⟨.join, "b", 2⟩] := by decide

-- C16_last_matches: a loss-free schedule that drains, with a coalesced flap and a suppression
example :
    let sched : List Step :=
      [.emit, .emit, .at 2 .take, .at 2 .take, .at 1 .take, .at 1 .take, .at 0 .take, .at 0 .take, .at 0 .quantum,
       .emit, .emit, .emit, .at 2 .take, .at 2 .take, .at 2 .take, .at 1 .take, .at 1 .take, .at 1 .take,
       .at 0 .take, .at 0 .take, .at 0 .take, .at 0 .quiescent]
    let emitted : List PEv :=
      [.member ⟨.join, "a", 1⟩, .member ⟨.join, "b", 2⟩, .member ⟨.failed, "a", 3⟩, .member ⟨.join, "a", 4⟩,
       .member ⟨.leave, "b", 5⟩]
    sched.all (fun x => !x.isLoss) = true ∧ (runPipeline ⟨true, false, true⟩ emitted sched).drained = true ∧
      (runPipeline ⟨true, false, true⟩ emitted sched).recv =
        [.member ⟨.join, "a", 1⟩, .member ⟨.join, "b", 2⟩, .member ⟨.leave, "b", 5⟩] := by decide

-- the loss-freedom hypothesis is needed: one drop at the tee and the last events differ
example :
    lastKind "a" (runPipeline ⟨true, false, false⟩ [.member ⟨.join, "a", 1⟩, .member ⟨.failed, "a", 2⟩]
      [.emit, .emit, .at 1 .take, .at 1 .drop, .at 0 .take]).recv = some .join ∧
    (runPipeline ⟨true, false, false⟩ [.member ⟨.join, "a", 1⟩, .member ⟨.failed, "a", 2⟩]
      [.emit, .emit, .at 1 .take, .at 1 .drop, .at 0 .take]).drained = true := by decide

-- C16_quanta_last_word on a concrete history, split 2+0+3, all stages on: a flap merged, a repeat suppressed
example :
    (runPipeline ⟨true, true, true⟩
        [.member ⟨.join, "a", 1⟩, .member ⟨.join, "b", 2⟩, .member ⟨.failed, "a", 3⟩, .member ⟨.join, "a", 4⟩,
         .member ⟨.leave, "b", 5⟩]
        (quantaSched (initPipe ⟨true, true, true⟩
          [.member ⟨.join, "a", 1⟩, .member ⟨.join, "b", 2⟩, .member ⟨.failed, "a", 3⟩, .member ⟨.join, "a", 4⟩,
           .member ⟨.leave, "b", 5⟩]) [2, 0, 3])).recv
      = [.member ⟨.join, "a", 1⟩, .member ⟨.join, "b", 2⟩, .member ⟨.leave, "b", 5⟩] := by decide

-- "loss-free" cannot be dropped from C16_last_matches for the shutdown case either: a member
-- coalescer that returned (shutdown) swallows what is sent to it afterwards
example :
    let emitted : List PEv := [.member ⟨.join, "a", 1⟩, .member ⟨.failed, "a", 2⟩]
    let sched : List Step := [.emit, .at 1 .take, .at 0 .take, .at 0 .shutdown, .emit, .at 1 .take, .at 0 .take]
    (runPipeline ⟨false, false, true⟩ emitted sched).drained = true ∧
      lastKind "a" (runPipeline ⟨false, false, true⟩ emitted sched).recv = some .join ∧
      lastKind "a" emitted = some .failed := by decide

-- "drained" cannot be dropped: while the coalescer still holds the newer event the last word is old
example :
    let emitted : List PEv := [.member ⟨.join, "a", 1⟩, .member ⟨.failed, "a", 2⟩]
    let sched : List Step := [.emit, .at 1 .take, .at 0 .take, .at 0 .quantum, .emit, .at 1 .take, .at 0 .take]
    sched.all (fun x => !x.isLoss) = true ∧
      (runPipeline ⟨false, false, true⟩ emitted sched).drained = false ∧
      lastKind "a" (runPipeline ⟨false, false, true⟩ emitted sched).recv = some .join := by decide

end SerfProofs.C16
