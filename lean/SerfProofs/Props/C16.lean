/-
C16 — Applications see each member's events in the order they happened.

Model: `SerfModel.Pipeline` (the stages `serf.Create` stacks: snapshot tee →
internal-query filter → user coalescer → member coalescer → EventCh), built from
the loop model of serf/coalesce.go and the coalescer models of C17/C18.

`emitted` is the history of events the handlers sent (they send under the member
lock, hence in the order the status changes happened); `sched` is an arbitrary
interleaving of: a handler sending the next event, any stage taking one event
from its queue, any timer firing, the shutdown being seen, the tee dropping.
-/
import SerfProofs.Lemmas.Pipeline
namespace SerfProofs.C16
open SerfModel SerfModel.MemberCoalesce SerfModel.Pipeline SerfProofs.Pipeline

/-- **Per-member order.** For every configuration (snapshot on/off, user and member
coalescing on/off), every emitted history and every schedule, the member events the
application has received about any one member form a subsequence (`List.Sublist`) of
the events emitted about that member: nothing invented, nothing duplicated, nothing
reordered — at every moment, through every stage. -/
theorem C16_subsequence (cfg : Cfg) (emitted : List PEv) (sched : List Step) (m : String) :
    (about m (runPipeline cfg emitted sched).recv).Sublist (about m emitted) := by
  have h := run_flat sched (initPipe cfg emitted) (stagesOf_ok cfg) m
  have h0 : flat m (initPipe cfg emitted) = about m emitted := by
    have hs : flatS m (stagesOf cfg) = [] := by
      cases cfg with
      | mk a b c => cases a <;> cases b <;> cases c <;> rfl
    simp [flat, initPipe, hs, about_nil]
  rw [h0] at h
  exact (List.sublist_append_left _ _).trans h

/-- The same holds for everything still in flight: received ++ in-flight (downstream
first, the member coalescer holding at most one event per member) ++ not yet emitted
is a subsequence of the emitted history, per member. -/
theorem C16_inflight_subsequence (cfg : Cfg) (emitted : List PEv) (sched : List Step) (m : String) :
    (flat m (runPipeline cfg emitted sched)).Sublist (about m emitted) := by
  have h := run_flat sched (initPipe cfg emitted) (stagesOf_ok cfg) m
  have h0 : flat m (initPipe cfg emitted) = about m emitted := by
    have hs : flatS m (stagesOf cfg) = [] := by
      cases cfg with
      | mk a b c => cases a <;> cases b <;> cases c <;> rfl
    simp [flat, initPipe, hs, about_nil]
  rw [h0] at h
  exact h

/-! ### Non-vacuity: a run through all four stages with coalescing, a drop and a suppression -/

example :
    (runPipeline ⟨true, true, true⟩
      [.member ⟨.join, "a", 1⟩, .member ⟨.join, "b", 2⟩, .query true 7, .member ⟨.failed, "a", 3⟩,
       .member ⟨.join, "a", 4⟩, .member ⟨.update, "b", 5⟩]
      [.emit, .emit, .emit, .at 3 .take, .at 3 .take, .at 3 .take, .at 2 .take, .at 2 .take, .at 2 .take,
       .at 1 .take, .at 1 .take, .at 0 .take, .at 0 .take, .at 0 .quiescent,
       .emit, .emit, .emit, .at 3 .take, .at 3 .take, .at 3 .drop, .at 2 .take, .at 2 .take, .at 1 .take, .at 1 .take,
       .at 0 .take, .at 0 .take, .at 0 .quantum]).recv
    = [.member ⟨.join, "a", 1⟩, .member ⟨.join, "b", 2⟩] := by decide

end SerfProofs.C16
