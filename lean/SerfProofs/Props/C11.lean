/-
C11 — A crash at any point never loses snapshot state that was already written.

Model: `SerfModel.Snapshot` — the snapshotter emits its file-system operations
(`FsOp`, with the bufio behaviour), `FS.crashAt ops k cut` is the directory after a
process crash just before operation `k` (with `cut` bytes of a write already on
disk), `recover` is what NewSnapshotter reads at the next start: since 1e1bbff it moves
`path.compact` into place when `path` is missing, since 01e715c replay cuts an
unterminated last line off the file (`Snap.openOn` emits the `rename` / `truncate`).

PROVED (every history, threshold, flush timing, map-order oracle, crash point):
  * `C11_never_missing` — at EVERY crash point of EVERY life after the first open there is a
    snapshot to recover from: `path`, or — in compact()'s remove..rename window — `path.compact`,
    which the start-up recovery moves into place;
  * `C11_compaction_crash_points` — at every crash point of a compaction (window included) the
    restart reads the old file, the old file with the flushed buffer, or the COMPLETE compacted
    file; with C10's invariant these replay to an earlier and to the current in-memory state;
  * `C11_torn_tail_ignored`, `C11_cut_recovers_line_prefix_partial` — a write cut at ANY byte
    recovers the effect of a PREFIX of the lines being written;
  * `C11_torn_tail_truncated` — the next start cuts the fragment off, so the next life appends
    to a newline-terminated file (the C10 invariant's `endsNL` premise holds again).
Regression witnesses for the code BEFORE the two fixes (`Shape.old`), by `decide`:
`C11_window_counterexample_oldshape`, `C11_torn_tail_append_counterexample_oldshape`; the same
scenarios on the current shape: `C11_window_recovers`, `C11_torn_tail_append_fixed`.
  * `C11_crash_safe` (+ `C11_crash_safe_at`, `C11_crash_safe_flat`) — THE WHOLE-HISTORY STATEMENT:
    for every life without a graceful leave (hypothesis `WFEv`: names without newline — the open
    finding of C10), EVERY crash point — every prefix of the emitted operation list and every byte
    cut of the write in progress — the restart recovers, up to the order of the rejoin map, one of
    the in-memory states the node went through between the last point at which nothing was
    buffered (everything flushed, or a compaction completed) and the state it is recording at the
    moment of the crash: never older than what was flushed, never newer than what was written,
    never empty or corrupt.  The life is cut into pieces (`lifePieces`: the first open, the writes
    of each append, each compaction, the final flush) each carrying its window of states.
-/
import SerfProofs.Lemmas.SnapshotPieces
namespace SerfProofs.C11
open SerfModel SerfModel.Snapshot SerfProofs.Snapshot

/-- **An unterminated tail (torn write) is ignored by the restart.** -/
theorem C11_torn_tail_ignored (rj : Bool) (x p : Bytes) (hx : endsNL x = true) (hp : '\n' ∉ p) :
    replay rj (x ++ p) = replay rj x := replay_torn_tail rj x p hx hp

example : endsNL (printLine (.clock 3)) = true ∧ '\n' ∉ ['a', 'l', 'i'] := by decide

/-- **A write cut at any byte recovers a prefix of the lines being written.** -/
theorem C11_cut_recovers_line_prefix_partial (rj : Bool) (ls : List Line) (hls : ∀ l ∈ ls, WFLine l)
    (x : Bytes) (c : Nat) (hx : endsNL x = true) :
    ∃ j, j ≤ ls.length ∧
      replay rj (x ++ (ls.flatMap printLine).take c) = (ls.take j).foldl (applyLine rj) (replay rj x) :=
  replay_cut_prefix rj ls hls x c hx

example : ∀ l ∈ [Line.alive ['a'] ['1'], .clock 2], WFLine l := by decide

/-- **Never missing.** For every life (fresh directory, any events incl. leave, any
threshold/map order) and every crash point `k ≥ 1` (after the first open) of its operation
list: the snapshot file exists, or it does not and `path.compact` exists — which the start-up
recovery (`recover`, `Snap.openOn`) moves into place. -/
theorem C11_never_missing (ord : Order) (rj : Bool) (mc : Nat) (evs : List Ev) (clk : Nat) (k : Nat)
    (hk : 1 ≤ k) :
    CrashOK (FS.applyAll {} ((life ord rj mc {} evs clk).2.take k)) := by
  rw [life_fresh_snd]
  have hsafe : Safe ((run ord (Snap.init rj mc).1 evs).2 ++ (shutdown ord (run ord (Snap.init rj mc).1 evs).1 clk).2) :=
    Safe.append (safe_run ord evs _) (safe_shutdown ord _ clk)
  have hinit : (Snap.init rj mc).2 = [.openAppend .main] := rfl
  rw [hinit, List.append_assoc, List.take_append]
  have h1 : ([FsOp.openAppend .main] : List FsOp).take k = [FsOp.openAppend .main] := by
    cases k with
    | zero => omega
    | succ n => simp
  rw [h1, applyAll_append]
  have hfs : ((({} : FS).applyAll [FsOp.openAppend .main]).main).isSome = true := by decide
  exact (hsafe _ hfs).1 _

/-- **Every crash point of a compaction** (the window between remove and rename included):
the restart reads the old snapshot, the old snapshot with the flushed buffer, or the complete
compacted file. -/
theorem C11_compaction_crash_points (ord : Order) (s : Snap) (fs : FS) (d : Bytes) (hd : fs.main = some d) (k : Nat)
    (rj : Bool) :
    recover rj (fs.applyAll ((compact ord s).2.take k)) = replay rj d ∨
    recover rj (fs.applyAll ((compact ord s).2.take k)) = replay rj (d ++ s.buf) ∨
    recover rj (fs.applyAll ((compact ord s).2.take k)) = replay rj (compactLines ord s).flatten := by
  rw [recover_eq_recoverFile]
  rcases compact_crash_points ord s fs d hd k with h | h | h
  · left; rw [h]
  · right; left; rw [h]
  · right; right; rw [h]

/-- **A torn tail is cut off at the next start.** -/
theorem C11_torn_tail_truncated (rj : Bool) (mc : Nat) (x p : Bytes) (hx : endsNL x = true) (hp : '\n' ∉ p) (hne : p ≠ [])
    (fs : FS) (hfs : fs.main = some (x ++ p)) :
    (fs.applyAll (Snap.openOn rj mc fs).2).main = some x ∧ (Snap.openOn rj mc fs).1.offset = x.length :=
  openOn_truncates rj mc x p hx hp hne fs hfs

/-- **C11, whole histories.** The pieces of a life are exactly the operations the model emits,
and at every crash point `(k, cut)` of every piece the state a restart recovers from the
directory is (up to the order of the rejoin map) a state of that piece's window: the in-memory
states from the last quiescent point (nothing buffered) up to the state being recorded. -/
theorem C11_crash_safe (ord : Order) (hord : PermOrder ord) (rj : Bool) (mc : Nat) (evs : List Ev) (clk : Nat)
    (hwf : ∀ e ∈ evs, WFEv e) (hnl : Ev.leave ∉ evs) :
    opsOf (lifePieces ord rj mc evs clk) = (life ord rj mc {} evs clk).2 ∧
    PiecesSafe rj {} (lifePieces ord rj mc evs clk) :=
  life_pieces_safe ord hord rj mc evs clk hwf hnl

/-- the same, read by position: crash inside piece `i` (after all operations of the earlier
pieces), before its operation `k`, with `cut` bytes of that write on disk -/
theorem C11_crash_safe_at (ord : Order) (hord : PermOrder ord) (rj : Bool) (mc : Nat) (evs : List Ev) (clk : Nat)
    (hwf : ∀ e ∈ evs, WFEv e) (hnl : Ev.leave ∉ evs)
    (i : Nat) (hi : i < (lifePieces ord rj mc evs clk).length) (k cut : Nat) :
    ∃ m ∈ (lifePieces ord rj mc evs clk)[i].win,
      RecEq (recover rj (FS.crashAt (FS.applyAll {} (opsOf ((lifePieces ord rj mc evs clk).take i)))
        (lifePieces ord rj mc evs clk)[i].ops k cut)) m :=
  PiecesSafe_get rj _ _ (life_pieces_safe ord hord rj mc evs clk hwf hnl).2 i hi k cut

/-- the same for a crash point of the flat operation list of the life -/
theorem C11_crash_safe_flat (ord : Order) (hord : PermOrder ord) (rj : Bool) (mc : Nat) (evs : List Ev) (clk : Nat)
    (hwf : ∀ e ∈ evs, WFEv e) (hnl : Ev.leave ∉ evs) (k cut : Nat) :
    ∃ p ∈ lifePieces ord rj mc evs clk, ∃ m ∈ p.win,
      RecEq (recover rj (FS.crashAt {} (life ord rj mc {} evs clk).2 k cut)) m := by
  obtain ⟨hops, hsafe⟩ := life_pieces_safe ord hord rj mc evs clk hwf hnl
  have := PiecesSafe_flat rj _ _ hsafe (by simp [lifePieces]) k cut
  rw [hops] at this
  exact this

/-- non-vacuity: a history with a compaction; crash in the remove..rename window (operation 9 of
the flat list, see `cexOps`) -/
example : ∃ p ∈ lifePieces Order.id false 0 [.join [(['a'], ['1', ':', '2'])] 2, .forceCompact] 2, ∃ m ∈ p.win,
    RecEq (recover false (FS.crashAt {} (life Order.id false 0 {} [.join [(['a'], ['1', ':', '2'])] 2, .forceCompact] 2).2 9 0)) m :=
  C11_crash_safe_flat Order.id (fun _ m => List.Perm.refl m) false 0 _ 2
    (by
      intro e he
      simp only [List.mem_cons, List.mem_nil_iff, or_false] at he
      rcases he with rfl | rfl <;> simp [WFEv, WFName, WFAddr])
    (by decide) 9 0

/-! ### the former findings: witnesses for the old code, and the same scenarios now -/

/-- join of `a`, then a compaction; operations as they reach the OS -/
def cexOps : List FsOp := osOps (life Order.id false 0 {} [.join [(['a'], ['1', ':', '2'])] 2, .forceCompact] 2).2

/-- **Before 1e1bbff** (`Shape.old`: no start-up recovery of path.compact): a crash just before
operation 9 (the rename) recovers nothing although the member was written and synced. -/
theorem C11_window_counterexample_oldshape :
    (FS.crashAt {} cexOps 9 0).main = none ∧ (FS.crashAt {} cexOps 9 0).tmp.isSome = true ∧
    (recover false (FS.crashAt {} cexOps 9 0) Shape.old).alive = [] ∧
    (recover false (FS.crashAt {} cexOps 8 0) Shape.old).alive = [(['a'], ['1', ':', '2'])] := by decide

/-- **Now**: the same crash recovers the member, as does every other crash point after the join was written. -/
theorem C11_window_recovers :
    ∀ k ∈ [2, 3, 4, 5, 6, 7, 8, 9, 10, 11, 12, 13], (recover false (FS.crashAt {} cexOps k 0)).alive = [(['a'], ['1', ':', '2'])] := by decide

/-- the directory after a crash that cut the line of member `t` in the middle -/
def tornFS : FS := { main := some (printLine (.alive ['a'] ['1', ':', '2']) ++ (printLine (.alive ['t'] ['3', ':', '4'])).take 9) }

/-- one more life on it: join of `z`, shutdown (`sh` = which start-up repairs the code has) -/
def tornLife (sh : Shape) : Snap × List FsOp := life Order.id false 131072 tornFS [.join [(['z'], ['5', ':', '6'])] 1] 1 sh

/-- **Before 01e715c**: `z` is appended to the torn fragment and is not recovered by the next restart. -/
theorem C11_torn_tail_append_counterexample_oldshape :
    (tornLife Shape.old).1.alive = [(['a'], ['1', ':', '2']), (['z'], ['5', ':', '6'])] ∧
    alookup (recover false (tornFS.applyAll (tornLife Shape.old).2) Shape.old).alive ['z'] = none := by decide

/-- **Now**: the fragment is truncated at start-up and `z` is recovered. -/
theorem C11_torn_tail_append_fixed :
    (recover false (tornFS.applyAll (tornLife {}).2)).alive = [(['a'], ['1', ':', '2']), (['z'], ['5', ':', '6'])] := by decide

/-- **Only the compacted file survived** (a crash between the remove and the rename of a compaction): the restart
recovers from `<snapshot>.compact` exactly what it would recover if the same bytes were the snapshot itself — both
as the state `recover` reads and as the in-memory state `NewSnapshotter` starts with. (The harness op `createonly`
checks the same equality on real nodes started through `serf.Create`.) -/
theorem C11_compact_only_recovers (rj : Bool) (mc : Nat) (b : Bytes) :
    recover rj { main := none, tmp := some b } = recover rj { main := some b, tmp := none } ∧
    (Snap.openOn rj mc { main := none, tmp := some b }).1.mem = (Snap.openOn rj mc { main := some b, tmp := none }).1.mem := by
  constructor <;> simp [recover, Snap.openOn, Snap.mem]

end SerfProofs.C11
