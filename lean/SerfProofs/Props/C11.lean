/-
C11 — A crash at any point never loses snapshot state that was already written.

Model: `SerfModel.Snapshot` — the snapshotter emits its file-system operations
(`FsOp`, with the bufio behaviour), `FS.crashAt ops k cut` is the directory after a
process crash just before operation `k` (with `cut` bytes of a write already on
disk), `recover` is what NewSnapshotter's replay reads from it.

FULL STATEMENT (DESIGN 7 C11) — does NOT hold for the code, two recorded findings:

  theorem C11_crash_safe (ord) (mc) (evs) (k cut) :
      ∃ j, lastFullyWritten ops k ≤ j ∧ recover (FS.crashAt {} ops k cut) = memStateAfter evs j
  (a) `crash-between-remove-and-rename`: in `compact()` the old snapshot is removed before the
      new one is renamed into place; a crash in between leaves NO snapshot file, the restart
      creates an empty one (`C11_window_counterexample`, confirmed on the real code at every
      compaction of every generated life);
  (b) `torn-tail-append`: a crash inside a write leaves an unterminated last line; replay
      ignores it (fine: `C11_torn_tail_ignored`) but the next life appends right after it,
      so the first line it writes is glued to the fragment and lost at the following
      restart (`C11_torn_tail_append_counterexample`, confirmed on the real code).

PROVED (all for every history, threshold, flush timing and map-order oracle):
  * `C11_never_missing_partial` — at EVERY crash point of EVERY life after the first open, the
    snapshot file exists, EXCEPT in the remove..rename window, and there `path.compact`
    exists (so the repair "if path is missing and path.compact exists, rename it into place"
    is always applicable): the hypothesis-free form of the statement's "in particular a crash
    never leaves a node with no snapshot" with exactly the window excluded;
  * `C11_torn_tail_ignored`, `C11_cut_recovers_line_prefix_partial` — a write cut at ANY byte
    recovers the effect of a PREFIX of the lines being written (never garbage, never a
    later line without an earlier one);
  * together with C10's invariant (`C10_append_preserves_partial`, `C10_compact_restores_partial`):
    before a write the file replays to an earlier in-memory state, after it to the current one.
NOT PROVED: the single whole-history statement `C11_crash_safe_partial` that combines these
(recovered state = in-memory state after some event prefix j ≥ last fully written, outside the
window and without a later append on a torn tail).  The correspondence check compares, at every
operation index and cut of every generated life, what the real NewSnapshotter recovers with
`recover (FS.crashAt …)` of the model, and the monitor judges the real recoveries.
-/
import SerfProofs.Lemmas.SnapshotCrash
namespace SerfProofs.C11
open SerfModel SerfModel.Snapshot SerfProofs.Snapshot

/-- **An unterminated tail (torn write) is ignored by the restart.** -/
theorem C11_torn_tail_ignored (rj : Bool) (x p : Bytes) (hx : endsNL x = true) (hp : '\n' ∉ p) :
    replay rj (x ++ p) = replay rj x := replay_torn_tail rj x p hx hp

example : endsNL (printLine (.clock 3)) = true ∧ '\n' ∉ ['a', 'l', 'i'] := by decide

/-- **A write cut at any byte recovers a prefix of the lines being written.** -/
theorem C11_cut_recovers_line_prefix_partial (rj : Bool) (ls : List Line) (hls : ∀ l ∈ ls, WFLine l)
    (x : Bytes) (c : Nat) (hx : endsNL x = true) :
    ∃ j, j ≤ ls.length ∧
      replay rj (x ++ (ls.flatMap printLine).take c) = (ls.take j).foldl (applyLine rj) (replay rj x) :=
  replay_cut_prefix rj ls hls x c hx

example : ∀ l ∈ [Line.alive ['a'] ['1'], .clock 2], WFLine l := by decide

/-- **Never missing, except in the remove..rename window.** For every life (fresh directory,
any events incl. leave, any threshold/map order) and every crash point `k ≥ 1` (after the
first open) of its operation list: the snapshot file exists, or it does not and
`path.compact` exists. -/
theorem C11_never_missing_partial (ord : Order) (rj : Bool) (mc : Nat) (evs : List Ev) (clk : Nat) (k : Nat)
    (hk : 1 ≤ k) :
    CrashOK (FS.applyAll {} ((life ord rj mc {} evs clk).2.take k)) := by
  rw [life_fresh_snd]
  have hsafe : Safe ((run ord (Snap.init rj mc).1 evs).2 ++ (shutdown ord (run ord (Snap.init rj mc).1 evs).1 clk).2) :=
    Safe.append (safe_run ord evs _) (safe_shutdown ord _ clk)
  have hinit : (Snap.init rj mc).2 = [.openAppend .main] := rfl
  rw [hinit, List.append_assoc, List.take_append]
  have h1 : ([FsOp.openAppend .main] : List FsOp).take k = [FsOp.openAppend .main] := by
    cases k with
    | zero => omega
    | succ n => simp
  rw [h1, applyAll_append]
  have hfs : ((({} : FS).applyAll [FsOp.openAppend .main]).main).isSome = true := by decide
  exact (hsafe _ hfs).1 _

/-! ### the findings -/

/-- join of `a`, then a compaction; operations as they reach the OS -/
def cexOps : List FsOp := osOps (life Order.id false 0 {} [.join [(['a'], ['1', ':', '2'])] 2, .forceCompact] 2).2

/-- **Finding `crash-between-remove-and-rename`**: crash just before operation 9 (the rename):
the member had been written and synced (it is in `path.compact`), the snapshot file is gone,
the restart recovers nothing — while a crash one operation earlier or later recovers it. -/
theorem C11_window_counterexample :
    (FS.crashAt {} cexOps 9 0).main = none ∧ (FS.crashAt {} cexOps 9 0).tmp.isSome = true ∧
    (recover false (FS.crashAt {} cexOps 9 0)).alive = [] ∧
    (recover false (FS.crashAt {} cexOps 8 0)).alive = [(['a'], ['1', ':', '2'])] ∧
    (recover false (FS.crashAt {} cexOps 10 0)).alive = [(['a'], ['1', ':', '2'])] := by decide

/-- the directory after a crash that cut the line of member `t` in the middle -/
def tornFS : FS := { main := some (printLine (.alive ['a'] ['1', ':', '2']) ++ (printLine (.alive ['t'] ['3', ':', '4'])).take 9) }

/-- one more life on it: join of `z`, shutdown -/
def tornLife : Snap × List FsOp := life Order.id false 131072 tornFS [.join [(['z'], ['5', ':', '6'])] 1] 1

/-- **Finding `torn-tail-append`**: the restart after the crash recovers `a` (the torn line is
ignored), the node then learns `z` (in memory: `a` and `z`), but the next restart does not
recover `z`: its line was appended to the torn fragment. -/
theorem C11_torn_tail_append_counterexample :
    (recover false tornFS).alive = [(['a'], ['1', ':', '2'])] ∧
    tornLife.1.alive = [(['a'], ['1', ':', '2']), (['z'], ['5', ':', '6'])] ∧
    alookup (recover false (tornFS.applyAll tornLife.2)).alive ['z'] = none := by decide

end SerfProofs.C11
