/-
C07 — Query replies are routed to their query exactly once and never after close.

Model: `SerfModel.QueryRoute`.  A schedule is ANY list of actions: registrations
(also several with the same Lamport time — the later one overwrites the map entry,
as C06 shows can happen), reply arrivals split into the code's atomic steps
(lookup / id check / Finished / duplicate check / send), timer closures of any
object at any point (also twice, also between the steps of a reply), deadlines
passing, the client consuming from the channels.  `q.ackLog` / `q.respLog` are the
result streams of query object `q`: everything ever sent on its channels, with the
step at which it was sent; `q.closedAt` is the step at which the channels were closed.
-/
import SerfProofs.Lemmas.QueryRoute
import SerfModel.Gen.QueryLocks
import SerfModel.Gen.ClockUse
namespace SerfProofs.C07
open SerfModel SerfModel.QueryRoute SerfProofs.QueryRoute

/-- **The lock shapes of the source** (regenerated from serf/query.go on every run): in `sendAck` and
`sendResponse` the test of `closed` and the channel send sit in one closeLock critical section (Lock first,
deferred Unlock, `if r.closed` inside, send inside, no call that re-locks), `Close` tests, sets `closed`
and closes both channels under the same lock, `Finished` reads under it.  The atomic actions of the model
are the code's critical sections only under these shapes; every theorem below assumes `sh.good`. -/
theorem C07_lock_shapes : Gen.QueryLocks.shapes.good = true := by decide

/-- also regenerated and part of `good`: `registerQueryResponse` stores the object under its Lamport time while
holding `queryLock`, the timer closure (fired after `timeout`) holds `queryLock` and does `delete` + `resp.Close()`
UNCONDITIONALLY; `handleQueryResponse` does lookup (under RLock) → id check → `Finished()` → duplicate check
on `acks`/`responses` → `sendAck`/`sendResponse`, the stages of the in-flight reply. -/
theorem C07_timer_and_handle_shapes :
    Gen.QueryLocks.shapes.timer.good = true ∧ Gen.QueryLocks.shapes.handle.asModelled = true := by decide

theorem inv_foldl (sh : Shapes) (hg : sh.good = true) (sched : List Action) :
    ∀ s, QueryRoute.Inv s → QueryRoute.Inv (sched.foldl (act sh) s) := by
  induction sched with
  | nil => intro s h; exact h
  | cons a as ih => intro s h; exact ih _ (inv_act sh hg s a h)

theorem inv_run (sh : Shapes) (hg : sh.good = true) (sched : List Action) : QueryRoute.Inv (run sh sched) :=
  inv_foldl sh hg sched {} inv_init

/-- **Routing.** After every schedule, for every query object:
at most one ack and one response per sender; only replies carrying this query's
Lamport time and id, acks on the ack stream and responses on the response stream;
nothing was sent at or after the step at which the streams were closed; the streams
were closed at most once, and exactly once if the query's timer has fired; no ack is
ever delivered for a query that did not request acks. -/
theorem C07_routing (sh : Shapes) (hg : sh.good = true) (sched : List Action) :
    ∀ q ∈ (run sh sched).objs,
      (q.ackLog.map (·.r.sender)).Nodup ∧ (q.respLog.map (·.r.sender)).Nodup ∧
      (∀ x ∈ q.ackLog ++ q.respLog, x.r.lt = q.lt ∧ x.r.id = q.id) ∧
      (∀ x ∈ q.ackLog, x.r.isAck = true) ∧ (∀ x ∈ q.respLog, x.r.isAck = false) ∧
      (∀ c, q.closedAt = some c → ∀ x ∈ q.ackLog ++ q.respLog, x.time < c) ∧
      q.closeCount ≤ 1 ∧ (q.timedOut = true → q.closeCount = 1) ∧
      (q.closed = true ↔ q.closeCount = 1) ∧ (q.closed = true ↔ q.closedAt.isSome) ∧
      (q.ackWanted = false → q.ackLog = []) := by
  intro q hq
  have h := (inv_run sh hg sched).objs q hq
  refine ⟨by rw [← h.acks_eq]; exact h.acks_nodup, by rw [← h.resps_eq]; exact h.resps_nodup, ?_, ?_, ?_, ?_, ?_, ?_, ?_,
    h.closed_iff, h.ack_nil⟩
  · intro x hx
    rcases List.mem_append.mp hx with hx | hx
    · exact ⟨(h.ack_match x hx).1, (h.ack_match x hx).2.1⟩
    · exact ⟨(h.resp_match x hx).1, (h.resp_match x hx).2.1⟩
  · exact fun x hx => (h.ack_match x hx).2.2.1
  · exact fun x hx => (h.resp_match x hx).2.2.1
  · intro c hc x hx
    obtain ⟨_, ha, hr⟩ := h.closed_at c hc
    rcases List.mem_append.mp hx with hx | hx
    · exact ha x hx
    · exact hr x hx
  · rw [h.count]; split <;> omega
  · intro ht; rw [h.count, h.timed ht]; rfl
  · rw [h.count]
    cases q.closed <;> simp

/-- The timer closure closes its query and deregisters its Lamport time, whatever else is going on. -/
theorem C07_timeout_closes (sh : Shapes) (hg : sh.good = true) (s : Sys) (i : Nat) (q : QR)
    (hq : s.objs[i]? = some q) :
    ∃ q', (act sh s (.timeout i)).objs[i]? = some q' ∧ q'.closed = true ∧ q'.timedOut = true ∧
      alookup (act sh s (.timeout i)).map q.lt = none := by
  simp only [act, hq, timerUncond_of_good hg, Bool.true_or, if_true]
  refine ⟨{ close s.now q with timedOut := true }, by rw [getElem?_modAt]; simp [hq], ?_, rfl,
    alookup_aerase_self _ _⟩
  show (close s.now q).closed = true
  unfold QueryRoute.close
  split
  · assumption
  · rfl

/-- Once closed, a query's streams never change again — under any action. -/
theorem C07_closed_is_final (sh : Shapes) (hg : sh.good = true) (s : Sys) (a : Action) (i : Nat) (q : QR)
    (hq : s.objs[i]? = some q) (hc : q.closed = true) :
    ∃ q', (act sh s a).objs[i]? = some q' ∧ q'.ackLog = q.ackLog ∧ q'.respLog = q.respLog ∧ q'.closed = true ∧
      q'.closeCount = q.closeCount := by
  have hi : i < s.objs.length := (List.getElem?_eq_some_iff.mp hq).1
  cases a with
  | register lt id ack cap =>
    exact ⟨q, by simp only [act]; rw [List.getElem?_append_left hi]; exact hq, rfl, rfl, hc, rfl⟩
  | deadline j =>
    simp only [act]; rw [getElem?_modAt]
    by_cases hj : i = j
    · subst hj; simp [hq, hc]
    · simp [hj, hq, hc]
  | timeout j =>
    simp only [act]
    cases hj' : s.objs[j]? with
    | none => exact ⟨q, hq, rfl, rfl, hc, rfl⟩
    | some q0 =>
      simp only [timerUncond_of_good hg, Bool.true_or, if_true]; rw [getElem?_modAt]
      by_cases hj : i = j
      · subst hj
        simp only [if_true, hq, Option.map_some]
        refine ⟨_, rfl, ?_⟩
        unfold QueryRoute.close
        simp [hc]
      · simp [hj, hq, hc]
  | query id ack cap =>
    exact ⟨q, by simp only [act]; rw [List.getElem?_append_left hi]; exact hq, rfl, rfl, hc, rfl⟩
  | witness t => exact ⟨q, hq, rfl, rfl, hc, rfl⟩
  | arrive r =>
    simp only [act]
    cases s.inflight with
    | some f => exact ⟨q, hq, rfl, rfl, hc, rfl⟩
    | none =>
      simp only
      cases alookup s.map r.lt with
      | none => exact ⟨q, hq, rfl, rfl, hc, rfl⟩
      | some k => exact ⟨q, hq, rfl, rfl, hc, rfl⟩
  | replyStep =>
    simp only [act, QueryRoute.replyStep]
    cases s.inflight with
    | none => exact ⟨q, hq, rfl, rfl, hc, rfl⟩
    | some f =>
      simp only
      cases hf : s.objs[f.ref]? with
      | none => exact ⟨q, hq, rfl, rfl, hc, rfl⟩
      | some q1 =>
        simp only
        by_cases h2 : f.stage ≤ 2
        · simp only [h2, if_true]; split <;> exact ⟨q, hq, rfl, rfl, hc, rfl⟩
        · simp only [h2, if_false]
          by_cases h3 : f.stage = 3
          · simp only [h3, if_true]; split <;> exact ⟨q, hq, rfl, rfl, hc, rfl⟩
          · simp only [h3, if_false]
            by_cases h4 : f.stage = 4
            · simp only [h4, if_true]; split <;> split <;> exact ⟨q, hq, rfl, rfl, hc, rfl⟩
            · simp only [h4, if_false]
              rw [if_pos (sendAtomic_of_good hg f.r.isAck)]
              rw [getElem?_modAt]
              by_cases hj : i = f.ref
              · subst hj
                simp only [if_true, hq, Option.map_some]
                refine ⟨_, rfl, ?_⟩
                unfold QueryRoute.send
                simp [hc]
              · simp [hj, hq, hc]
  | consumeAck j =>
    simp only [act]; rw [getElem?_modAt]
    by_cases hj : i = j
    · subst hj; simp [hq, hc]
    · simp [hj, hq, hc]
  | consumeResp j =>
    simp only [act]; rw [getElem?_modAt]
    by_cases hj : i = j
    · subst hj; simp [hq, hc]
    · simp [hj, hq, hc]

-- Non-vacuity: two queries share Lamport time 7 (the second overwrites the map entry); replies for
-- both ids, a duplicate, a wrong time, an ack for a query without acks; the timer of the FIRST object
-- fires between the duplicate check and the send of a reply and deregisters time 7 altogether.
private def rA : Reply := ⟨7, 100, "a", false, 1⟩
private def rB : Reply := ⟨7, 200, "b", false, 2⟩
private def sched1 : List Action :=
  [.register 7 100 false 2, .register 7 200 true 2,
   .arrive rA, .replyStep, .replyStep, .replyStep, .replyStep,          -- id 100 ≠ 200: dropped at stage 2
   .arrive rB, .replyStep, .replyStep, .replyStep, .replyStep,          -- delivered to object 1
   .arrive rB, .replyStep, .replyStep, .replyStep, .replyStep,          -- duplicate: dropped
   .arrive ⟨7, 200, "c", true, 3⟩, .replyStep, .replyStep, .replyStep,   -- ack from c at stage 5 …
   .timeout 0,                                                          -- … timer of object 0: closes 0, deletes time 7
   .replyStep,                                                          -- … still sent to object 1 (it is open)
   .arrive ⟨7, 200, "d", false, 4⟩,                                      -- time 7 no longer registered: lost
   .timeout 1, .timeout 1]
example : ((run Gen.QueryLocks.shapes sched1).objs.map fun q =>
    (q.respLog.map (·.r.sender), q.ackLog.map (·.r.sender), q.closeCount, q.closedAt)) =
    [([], [], 1, some 21), (["b"], ["c"], 1, some 24)] := by decide

/-! ### The timer closure and the Lamport time of `Serf.Query` (regenerated) -/

/-- `Serf.Query` takes its Lamport time as `queryClock.Increment() - 1` and does nothing else with the clock
(regenerated from serf/serf.go): taking the time and advancing the clock are one atomic step — the
action `.query` of the model. -/
theorem C07_query_clock_gen :
    Gen.ClockUse.query.ltimeSource = "incrementMinus1" ∧ Gen.ClockUse.query.later = [] := by decide

theorem inv2_foldl (sh : Shapes) (hg : sh.good = true) (sched : List Action)
    (hq : ∀ a ∈ sched, a.isRegister = false) : ∀ s, Inv2 s → Inv2 (sched.foldl (act sh) s) := by
  induction sched with
  | nil => intro s h; exact h
  | cons a as ih =>
    intro s h
    exact ih (fun x hx => hq x (List.mem_cons_of_mem _ hx)) _
      (inv2_act sh hg s a (hq a List.mem_cons_self) h)

/-- **Concurrent `Query` calls sharing the table.** In every schedule whose queries are all issued through
`Serf.Query` (any number, interleaved in any way with replies, timers, deadlines, `Witness` steps of the
clock and client reads): the queries have pairwise distinct Lamport times, and every query whose timer has
not fired is still registered under its own time — no `Query` call overwrites another's table entry and
no timer removes another query's entry, so no reply is lost that way. -/
theorem C07_queries_keep_their_entry (sh : Shapes) (hg : sh.good = true) (sched : List Action)
    (hq : ∀ a ∈ sched, a.isRegister = false) :
    ((run sh sched).objs.map (·.lt)).Nodup ∧
    ∀ i q, (run sh sched).objs[i]? = some q → q.timedOut = false → alookup (run sh sched).map q.lt = some i := by
  have h := inv2_foldl sh hg sched hq {} inv2_init
  exact ⟨h.nodup, h.own⟩

/-- The hypothesis is needed: two raw registrations under one Lamport time (what two overlapping `Query` calls
did when the time was read with `Time()` and the clock advanced later) — the second overwrites the entry, the
first query is no longer reachable, and its timer then removes the second's entry. -/
theorem C07_shared_time_loses_entry :
    let s := run Gen.QueryLocks.shapes [.register 7 100 false 2, .register 7 200 false 2]
    alookup s.map 7 = some 1 ∧
    alookup (act Gen.QueryLocks.shapes s (.timeout 0)).map 7 = none := by decide

-- non-vacuity: three Query calls, a Witness jump in between, the first timer fires
example : ((run Gen.QueryLocks.shapes [.query 1 false 2, .witness 9, .query 2 true 2, .query 3 false 2, .timeout 0]).objs.map (·.lt),
    (run Gen.QueryLocks.shapes [.query 1 false 2, .witness 9, .query 2 true 2, .query 3 false 2, .timeout 0]).map)
    = ([0, 10, 11], [(10, 1), (11, 2)]) := by decide

/-- **Every query's streams are closed exactly once when it times out, after which nothing is sent** — over
every schedule, for the timer closure as it is in the source (delete + Close, unconditional): once the
timer of object `i` has fired, the object is closed, was closed exactly once, every reply on its streams was
sent strictly before the close, and (`C07_closed_is_final`) its streams never change again. -/
theorem C07_closed_once_after_timeout (sh : Shapes) (hg : sh.good = true) (sched : List Action) :
    ∀ q ∈ (run sh sched).objs, q.timedOut = true →
      q.closed = true ∧ q.closeCount = 1 ∧
      ∃ c, q.closedAt = some c ∧ ∀ x ∈ q.ackLog ++ q.respLog, x.time < c := by
  intro q hq ht
  obtain ⟨_, _, _, _, _, hafter, _, hto, hci, hat, _⟩ := C07_routing sh hg sched q hq
  have hc : q.closed = true := hci.mpr (hto ht)
  have hs : q.closedAt.isSome = true := hat.mp hc
  cases hca : q.closedAt with
  | none => rw [hca] at hs; cases hs
  | some c => exact ⟨hc, hto ht, c, rfl, hafter c hca⟩

/-- Regression witness: a "defensive" timer closure that deregisters and closes only if its table entry is
still present.  Two queries share Lamport time 7; the first timer removes the shared entry and closes its
own object; the second timer finds no entry and returns: the second query has timed out but its streams
are never closed. -/
def conditionalTimer : Shapes :=
  { Gen.QueryLocks.shapes with timer := { Gen.QueryLocks.shapes.timer with unconditional := false } }

theorem C07_conditional_timer_counterexample :
    conditionalTimer.good = false ∧
    ((run conditionalTimer [.register 7 100 false 2, .register 7 200 false 2, .timeout 0, .timeout 1]).objs.map
      fun q => (q.timedOut, q.closed, q.closeCount)) = [(true, true, 1), (true, false, 0)] := by decide

/-- Regression witness: the shape in which `sendResponse`/`sendAck` test through `Finished()` (its own
critical section) and lock only afterwards.  `Close()` (the timer closure here) lands between the test and
the send: the reply is sent at step 7 on streams closed at step 6 — `C07_routing` fails for this shape. -/
def splitShapes : Shapes :=
  { Gen.QueryLocks.shapes with
    sendAck := { lockFirst := false, deferred := false, earlyUnlock := true, closedTestInside := false, sendInside := false, callsOwnMethods := true },
    sendResponse := { lockFirst := false, deferred := false, earlyUnlock := true, closedTestInside := false, sendInside := false, callsOwnMethods := true } }

theorem C07_split_send_counterexample :
    splitShapes.good = false ∧
    ((run splitShapes [.register 7 100 false 2, .arrive rA, .replyStep, .replyStep, .replyStep, .replyStep,
        .timeout 0, .replyStep]).objs.map fun q => (q.respLog.map (·.time), q.closedAt)) = [([7], some 6)] := by
  decide

end SerfProofs.C07
