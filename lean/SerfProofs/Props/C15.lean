import SerfProofs.Lemmas.NodeLists
namespace SerfProofs.C15
open SerfModel SerfModel.Node

theorem C15_placeholder : True := trivial

end SerfProofs.C15
