/-
C15 — Member bookkeeping stays consistent and reaping is exact.

Model: `SerfModel.Node` (serf/serf.go, serf/delegate.go): one node's membership state machine.
`members` is the Go map `s.members` (an association list), `failed` / `left` are the Go slices
`s.failedMembers` / `s.leftMembers` kept as lists of names, with the literal slice idioms of the
Go code (`removeOldMember`, the swap-delete loop of `reap`).  `step n op` applies one input
(memberlist notification, gossip intent, push/pull merge, Leave / force-leave / Shutdown, one
reaper tick with an explicit `now` and per-member timeout override); `run` folds `step`.

The bookkeeping invariant `BookInv` (`SerfProofs.NodeBook`): member names are unique, the two
lists have no duplicates, and a name is in `failed` (`left`) iff the member record stored under
that name has status failed (left).  It holds for a new node and is kept by every input, hence in
every reachable state (`C15_inv_init`, `C15_inv_step`, `C15_inv_run`).  Consequences proved here:
  * names are unique (`C15_names_unique`) and the failed / left counts of `Stats()` equal the
    numbers of listed members with that status (`C15_stats`);
  * one reaper tick removes exactly the members that are past their (overridden) timeout,
    leaves every other record as it was, and emits exactly one reap event per removed member and
    nothing else (`C15_reap_exact`); the literal loop is a filter up to order
    (`C15_reap_loop_is_filter`);
  * a newer prune claim about a known member other than the running local node makes the member
    disappear, with a reap event (`C15_prune_disappears`).

`handlePrune` alone does not keep the invariant for a member still recorded as failed (the Go
code only takes the name out of the left list); `handleNodeLeaveIntent` moves a failed member to
left before calling it, which is what `inv_handlePrune` / `inv_handleLeaveIntent` use.
-/
import SerfProofs.Lemmas.NodeBook
namespace SerfProofs.C15
open SerfModel SerfModel.Node SerfProofs.NodeBook SerfProofs.NodeLists

/-! ### the invariant holds in every reachable state -/

theorem C15_inv_init (name : Name) (cfg : Config) : BookInv (Node.init name cfg) :=
  inv_init name cfg

theorem C15_inv_step (n : Node) (op : Op) : BookInv n → BookInv (step n op).1 :=
  inv_step n op

theorem C15_inv_run (n : Node) (ops : List Op) : BookInv n → BookInv (run n ops) :=
  inv_run ops n

/-- A run used by the witnesses below: "b" joins and fails at time 3, "c" joins, announces its
leave and leaves at time 4. -/
def demo : Node :=
  run (Node.init "self" {})
    [.nodeJoin "b", .nodeLeave "b" 3, .nodeJoin "c", .leaveMsg "c" 1 false 0, .nodeLeave "c" 4]

theorem demo_inv : BookInv demo := C15_inv_run _ _ (C15_inv_init _ _)

example : demo.failed = ["b"] ∧ demo.left = ["c"] := by decide

/-- reachable states: names unique -/
theorem C15_names_unique (n : Node) (h : BookInv n) : (n.members.map (·.1)).Nodup := h.keys

example : (demo.members.map (·.1)).Nodup := C15_names_unique demo demo_inv
example : demo.members.map (·.1) = ["self", "b", "c"] := by decide

/-- A duplicate-free list holding exactly the names with stored status `s` is as long as the
number of listed members with that status. -/
theorem length_eq_countStatus (n : Node) (h : BookInv n) (s : Status) (l : List Name) (hnd : l.Nodup)
    (hiff : ∀ x, x ∈ l ↔ statusOf n x = some s) : l.length = countStatus n s := by
  have hnd2 : ((n.members.filter (fun p => p.2.status = s)).map (·.1)).Nodup :=
    (List.Sublist.map _ List.filter_sublist).nodup h.keys
  have hp : l.Perm ((n.members.filter (fun p => p.2.status = s)).map (·.1)) := by
    rw [List.perm_ext_iff_of_nodup hnd hnd2]
    intro x
    rw [hiff]
    constructor
    · intro hs
      unfold statusOf at hs
      cases hm : alookup n.members x with
      | none => simp [hm] at hs
      | some m =>
        simp [hm] at hs
        refine List.mem_map.mpr ⟨(x, m), List.mem_filter.mpr ⟨mem_of_alookup hm, by simpa using hs⟩, rfl⟩
    · intro hx
      obtain ⟨p, hp, rfl⟩ := List.mem_map.mp hx
      obtain ⟨hp1, hp2⟩ := List.mem_filter.mp hp
      have hl : alookup n.members p.1 = some p.2 := alookup_of_mem_nodup h.keys hp1
      rw [statusOf_of_lookup hl]
      simpa using hp2
  rw [hp.length_eq]
  simp [countStatus]

/-- the failed / left counts the node reports equal the numbers of members it lists as failed / left -/
theorem C15_stats (n : Node) (h : BookInv n) :
    statsFailed n = countStatus n .failed ∧ statsLeft n = countStatus n .left :=
  ⟨length_eq_countStatus n h .failed n.failed h.failedNodup h.failedIff,
   length_eq_countStatus n h .left n.left h.leftNodup h.leftIff⟩

example : statsFailed demo = 1 ∧ countStatus demo .failed = 1 ∧ statsLeft demo = 1 ∧ countStatus demo .left = 1 := by
  decide

/-! ### reaping is exact -/

def leaveTimeOf (n : Node) (x : Name) : Nat := ((alookup n.members x).map (·.leaveTime)).getD 0

/-- x is past its (overridden) timeout at `now` -/
def Due (n : Node) (now : Nat) (ov : Name → Nat → Nat) (x : Name) : Prop :=
  (statusOf n x = some .failed ∧ now - leaveTimeOf n x > ov x n.cfg.reconnect) ∨
  (statusOf n x = some .left ∧ now - leaveTimeOf n x > ov x n.cfg.tombstone)

instance (n : Node) (now : Nat) (ov : Name → Nat → Nat) (x : Name) : Decidable (Due n now ov x) := by
  unfold Due
  exact inferInstance

theorem expired_iff (n : Node) (now : Nat) (ov : Name → Nat → Nat) (t : Nat) (x : Name) :
    expired n.members now ov t x = true ↔ now - leaveTimeOf n x > ov x t := by
  simp [expired, leaveTimeOf]

/-- The members a reaper tick erases are the due ones. -/
theorem due_iff_reaped (n : Node) (now : Nat) (ov : Name → Nat → Nat) (h : BookInv n) (x : Name) :
    Due n now ov x ↔ x ∈ reapedFailed n now ov ++ reapedLeft n now ov := by
  rw [List.mem_append, mem_reapedFailed h, mem_reapedLeft h, expired_iff, expired_iff]
  exact Iff.rfl

theorem reap_event_names (n : Node) (now : Nat) (ov : Name → Nat → Nat) :
    (reap n now ov).2.events.map (·.2) = reapedFailed n now ov ++ reapedLeft n now ov := by
  rw [reap_events_eq, List.map_map]
  simp [Function.comp_def]

theorem C15_reap_exact (n : Node) (now : Nat) (ov : Name → Nat → Nat) (h : BookInv n) :
    -- exactly the due members are removed, everything else is untouched
    (∀ x, alookup (reap n now ov).1.members x = if Due n now ov x then none else alookup n.members x) ∧
    -- exactly one reap event per removed member, and nothing else
    (∀ e ∈ (reap n now ov).2.events, e.1 = EvKind.reap) ∧
    ((reap n now ov).2.events.map (·.2)).Nodup ∧
    (∀ x, x ∈ (reap n now ov).2.events.map (·.2) ↔ Due n now ov x) := by
  refine ⟨?_, ?_, ?_, ?_⟩
  · intro x
    rw [reap_members_eq, alookup_eraseAll, alookup_eraseAll]
    have hd := due_iff_reaped n now ov h x
    rw [List.mem_append] at hd
    by_cases h2 : x ∈ reapedLeft n now ov
    · simp [h2, hd.mpr (Or.inr h2)]
    · by_cases h1 : x ∈ reapedFailed n now ov
      · simp [h1, hd.mpr (Or.inl h1)]
      · have : ¬ Due n now ov x := fun hdue => (hd.mp hdue).elim h1 h2
        simp [h1, h2, this]
  · intro e he
    rw [reap_events_eq] at he
    obtain ⟨x, _, rfl⟩ := List.mem_map.mp he
    rfl
  · rw [reap_event_names]
    exact reaped_nodup h now ov
  · intro x
    rw [reap_event_names]
    exact (due_iff_reaped n now ov h x).symm

-- Witness: at time 14 with the default timeouts (10 / 20) "b" (failed at 3) is due, "c" (left at 4) and "self" are not.
example : Due demo 14 (fun _ t => t) "b" ∧ ¬ Due demo 14 (fun _ t => t) "c" ∧ ¬ Due demo 14 (fun _ t => t) "self" := by
  decide
example : (reap demo 14 (fun _ t => t)).2.events = [(.reap, "b")] ∧
    (reap demo 14 (fun _ t => t)).1.members.map (·.1) = ["self", "c"] := by decide
-- an override that keeps "b" longer
example : (reap demo 14 (fun x t => if x = "b" then 100 else t)).2.events = [] := by decide

/-- the literal loop of `reap` (scan with swap-delete) equals a filter up to permutation, for any
list and any member map — in particular for `n.failed` / `n.left` with `n.members`; the erased
names are the expired entries -/
theorem C15_reap_loop_is_filter (ms : List (Name × Member)) (old : List Name) (now : Nat)
    (ov : Name → Nat → Nat) (t : Nat) :
    (reapList ms old now ov t).1.Perm (old.filter (fun x => !expired ms now ov t x)) ∧
    (reapList ms old now ov t).2.Perm (old.filter (expired ms now ov t)) :=
  reapLoop_spec _ _

theorem C15_reap_loop_is_filter_failed (n : Node) (now : Nat) (ov : Name → Nat → Nat) (t : Nat) :
    (reapList n.members n.failed now ov t).1.Perm (n.failed.filter (fun x => !expired n.members now ov t x)) :=
  (C15_reap_loop_is_filter _ _ _ _ _).1

theorem C15_reap_loop_is_filter_left (n : Node) (now : Nat) (ov : Name → Nat → Nat) (t : Nat) :
    (reapList n.members n.left now ov t).1.Perm (n.left.filter (fun x => !expired n.members now ov t x)) :=
  (C15_reap_loop_is_filter _ _ _ _ _).1

/-! ### prune -/

/-- a newer prune claim about a known member that is not the running local node makes it disappear, with a reap event -/
theorem C15_prune_disappears (n : Node) (x : Name) (lt wall t : Nat) (_h : BookInv n)
    (hk : ltimeOf n x = some t) (hnew : t < lt) (hself : ¬ (x = n.name ∧ n.life = .alive)) :
    statusOf (handleLeaveIntent n x lt true wall).1 x = none ∧
    (EvKind.reap, x) ∈ (handleLeaveIntent n x lt true wall).2.events := by
  unfold ltimeOf at hk
  cases hm : alookup n.members x with
  | none => simp [hm] at hk
  | some m =>
    simp [hm] at hk
    have hlt : ¬ lt ≤ m.ltime := by omega
    unfold handleLeaveIntent
    dsimp only
    split
    · next hnone => rw [hm] at hnone; cases hnone
    · next m' hsome =>
      rw [hm] at hsome
      cases hsome
      rw [if_neg hlt, if_neg hself]
      split
      · exact ⟨statusOf_handlePrune_self _ _, by simp [handlePrune_events]⟩
      · exact ⟨statusOf_handlePrune_self _ _, by simp [handlePrune_events]⟩
      · exact ⟨statusOf_handlePrune_self _ _, by simp [handlePrune_events]⟩

-- Witness: a prune claim at Lamport time 5 about the failed member "b" (stored time 0).
example : ltimeOf demo "b" = some 0 ∧ (0 : Nat) < 5 ∧ ¬ ("b" = demo.name ∧ demo.life = .alive) := by decide
example : statusOf (handleLeaveIntent demo "b" 5 true 0).1 "b" = none ∧
    (handleLeaveIntent demo "b" 5 true 0).2.events = [(.leave, "b"), (.reap, "b")] := by decide
example : BookInv (handleLeaveIntent demo "b" 5 true 0).1 := inv_handleLeaveIntent _ _ _ _ _ demo_inv

/-! ### the property over whole histories (no hypothesis left)

Every sentence of the property, quantified over EVERY history from a freshly created node (any
name, any configuration, any sequence of the 13 inputs of the model): the invariant is discharged
by `C15_inv_run`, so nothing is assumed about the state. -/

/-- **At every point of every membership history** the failed / left counts the node reports equal the
numbers of members it lists as failed / left, and member names are unique. -/
theorem C15_history_consistent (name : Name) (cfg : Config) (ops : List Op) :
    statsFailed (run (Node.init name cfg) ops) = countStatus (run (Node.init name cfg) ops) .failed ∧
    statsLeft (run (Node.init name cfg) ops) = countStatus (run (Node.init name cfg) ops) .left ∧
    ((run (Node.init name cfg) ops).members.map (·.1)).Nodup :=
  have h := C15_inv_run _ ops (C15_inv_init name cfg)
  ⟨(C15_stats _ h).1, (C15_stats _ h).2, C15_names_unique _ h⟩

/-- … and at every PREFIX of the history ("at every point"). -/
theorem C15_history_consistent_prefix (name : Name) (cfg : Config) (ops : List Op) (k : Nat) :
    statsFailed (run (Node.init name cfg) (ops.take k)) = countStatus (run (Node.init name cfg) (ops.take k)) .failed ∧
    statsLeft (run (Node.init name cfg) (ops.take k)) = countStatus (run (Node.init name cfg) (ops.take k)) .left ∧
    ((run (Node.init name cfg) (ops.take k)).members.map (·.1)).Nodup :=
  C15_history_consistent name cfg (ops.take k)

/-- **Reaping is exact after every history**, for every `now` and every per-member override. -/
theorem C15_history_reap_exact (name : Name) (cfg : Config) (ops : List Op) (now : Nat) (ov : Name → Nat → Nat) :
    let n := run (Node.init name cfg) ops
    (∀ x, alookup (reap n now ov).1.members x = if Due n now ov x then none else alookup n.members x) ∧
    (∀ e ∈ (reap n now ov).2.events, e.1 = EvKind.reap) ∧
    ((reap n now ov).2.events.map (·.2)).Nodup ∧
    (∀ x, x ∈ (reap n now ov).2.events.map (·.2) ↔ Due n now ov x) :=
  C15_reap_exact _ now ov (C15_inv_run _ ops (C15_inv_init name cfg))

/-- **A pruned member disappears**, through both entry points (gossip `leaveMsg … prune`, local
`forceLeave … prune`), after every history.  For the local call the claim time is the clock. -/
theorem C15_prune_disappears_gossip (n : Node) (x : Name) (lt wall t : Nat) (h : BookInv n)
    (hk : ltimeOf n x = some t) (hnew : t < lt) (hself : ¬ (x = n.name ∧ n.life = .alive)) :
    statusOf (step n (.leaveMsg x lt true wall)).1 x = none ∧
    (EvKind.reap, x) ∈ (step n (.leaveMsg x lt true wall)).2.events :=
  C15_prune_disappears n x lt wall t h hk hnew hself

example : statusOf (step demo (.leaveMsg "b" 9 true 0)).1 "b" = none := by decide

/-- An alive or leaving member is never touched by the reaper (it is on neither list): after every
history, for every reaper time and override.  (Seeded change C01-a breaks exactly this: a member
that went failed → left → alive stayed on a reaper list and was erased while alive.) -/
theorem C15_reaper_spares_unlisted (n : Node) (now : Nat) (ov : Name → Nat → Nat) (h : BookInv n) (x : Name)
    (hs : statusOf n x = some .alive ∨ statusOf n x = some .leaving) :
    alookup (reap n now ov).1.members x = alookup n.members x := by
  have := (C15_reap_exact n now ov h).1 x
  have hd : ¬ Due n now ov x := by
    unfold Due
    rcases hs with hs | hs <;> simp [hs]
  rw [this, if_neg hd]

end SerfProofs.C15
