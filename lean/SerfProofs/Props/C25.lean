/-
C25 — RPC replies and stream records stay correlated and well-formed.

(a) Reply headers: `SerfModel.Gen.IpcHeaders` is regenerated from
    cmd/serf/command/agent/ipc*.go on every run; the obligations below are decided on it.
(b) Event stream: `SerfModel.IpcStreams.esRun` (ipc_event_stream.go), for every filter
    list, buffer capacity and schedule of arrivals and stream-goroutine iterations.
(c) Query stream: `SerfModel.IpcStreams.qRun` (ipc_query_response_stream.go, the repaired
    select loop), for every schedule of Serf deliveries, channel close, deadline and
    select choices, including failing client sends.
-/
import SerfProofs.Lemmas.IpcStreams
import SerfModel.Gen.IpcHeaders
import SerfModel.Gen.EventStreamStop
import SerfModel.Gen.IpcStreamShape
namespace SerfProofs.C25
open SerfModel SerfModel.IpcStreams SerfProofs.IpcStreams SerfModel.IpcHeaders

/-! ### (a) reply headers (obligations on the regenerated source shapes) -/

/-- Every `responseHeader{Seq: …}` in ipc*.go uses the handler's own `seq` (parameter; in
`handleRequest` the local read from the request header), never reassigned, or — in a
stream method — the stream's stored `seq` field. -/
theorem C25_header_seq_sites : Gen.IpcHeaders.headerSites.all HeaderSite.ok = true := by decide

/-- Every stream constructor stores the `seq` it was given. -/
theorem C25_stream_ctor_stores_seq : Gen.IpcHeaders.ctors.all CtorSite.ok = true := by decide

/-- `handleRequest` hands its `seq` to every handler, and the handlers hand theirs to the
stream constructors; no stream's `seq` field is written after construction. -/
theorem C25_seq_passed_on :
    Gen.IpcHeaders.seqCalls.all CallSite.ok = true ∧ Gen.IpcHeaders.seqFieldWrites = 0 := by decide

/-- all three stream types and the request dispatcher are covered by the extraction -/
theorem C25_header_sites_cover :
    (streamTypes.all fun t => Gen.IpcHeaders.ctors.any (·.typ == t) &&
        Gen.IpcHeaders.headerSites.any (·.recvType == t)) = true ∧
    Gen.IpcHeaders.headerSites.any (·.func == "handleRequest") = true := by decide

/-- What a stream object stores and what its send methods put into the header, read off the
extracted shapes: the constructor stores its `seq` argument iff the field is initialised with the
parameter `seq`; a send method uses the stored value iff the literal's Seq is `<recv>.seq`. -/
def storedSeq (c : CtorSite) (arg : Nat) : Option Nat :=
  if c.seqFieldExpr == "seq" && c.hasSeqParam && c.seqWrites == 0 then some arg else none

def headerSeqOf (h : HeaderSite) (stored : Option Nat) : Option Nat :=
  if h.recv != "" && h.seqExpr == h.recv ++ ".seq" then stored else none

/-- **Every record on a stream carries the stream's seq**: for each stream type, whatever
sequence number `n` the stream command / query command carried and handed to the constructor,
every header built by a send method of that stream type has `Seq = n` (and by
`C25_seq_passed_on` the stream's `seq` field is never written again). -/
theorem C25_records_carry_stream_seq (n : Nat) :
    ∀ c ∈ Gen.IpcHeaders.ctors, ∀ h ∈ Gen.IpcHeaders.headerSites, h.recvType = c.typ →
      headerSeqOf h (storedSeq c n) = some n := by
  have hc : ∀ c ∈ Gen.IpcHeaders.ctors, ∀ m, storedSeq c m = some m := by
    have : Gen.IpcHeaders.ctors.all (fun c => c.seqFieldExpr == "seq" && c.hasSeqParam && c.seqWrites == 0) = true := by decide
    intro c hcm m
    have := List.all_eq_true.mp this c hcm
    simp only [storedSeq, this, if_true]
  have hh : ∀ h ∈ Gen.IpcHeaders.headerSites, streamTypes.contains h.recvType = true →
      (h.recv != "" && h.seqExpr == h.recv ++ ".seq") = true := by
    have : Gen.IpcHeaders.headerSites.all (fun h => !streamTypes.contains h.recvType || (h.recv != "" && h.seqExpr == h.recv ++ ".seq")) = true := by decide
    intro h hm hst
    have := List.all_eq_true.mp this h hm
    rw [hst] at this
    simpa using this
  have hct : ∀ c ∈ Gen.IpcHeaders.ctors, streamTypes.contains c.typ = true := by
    have : Gen.IpcHeaders.ctors.all (fun c => streamTypes.contains c.typ) = true := by decide
    exact fun c hcm => List.all_eq_true.mp this c hcm
  intro c hcm h hhm heq
  have h1 := hh h hhm (by rw [heq]; exact hct c hcm)
  simp only [headerSeqOf, h1, if_true]
  exact hc c hcm n

example : ∃ c ∈ Gen.IpcHeaders.ctors, ∃ h ∈ Gen.IpcHeaders.headerSites, h.recvType = c.typ := by decide

/-! ### (b) event stream -/

/-- **Event stream.**  For every filter list, capacity and schedule of events dispatched to the
stream, iterations of the stream goroutine (with succeeding or failing client sends) and `Stop()`
calls: the wanted events (those some filter accepts) dispatched while the stream is open are exactly
the logged ones, in arrival order; what was sent, then the one event lost to a failed send (if any),
then what is still buffered, is exactly those of them that found room, in order; nothing is lost
while the goroutine lives; the buffer never exceeds its capacity. -/
theorem C25_event_stream (fs : List Filter) (cap : Nat) (sched : List Act) :
    (esRun fs cap sched).log.map (·.1) = (liveArrivals sched).filter (wanted fs) ∧
    (esRun fs cap sched).sent ++ (esRun fs cap sched).lost ++ (esRun fs cap sched).buf = accepted (esRun fs cap sched).log ∧
    ((esRun fs cap sched).dead = false → (esRun fs cap sched).lost = []) ∧
    (esRun fs cap sched).buf.length ≤ cap := by
  have hacc := es_acc fs cap sched {} (by simp [AccInv, accepted])
  refine ⟨?_, hacc.1, hacc.2, ?_⟩
  · simpa [esRun] using es_log fs cap sched {}
  · exact es_cap fs cap sched {} (by simp)

/-- **In order, only matching, nothing invented**: at every moment and whatever fails, the records
sent are a prefix of the accepted arrivals (the matching events dispatched to the open stream that
found room), in arrival order. -/
theorem C25_event_sent_prefix (fs : List Filter) (cap : Nat) (sched : List Act) :
    (esRun fs cap sched).sent <+: accepted (esRun fs cap sched).log := by
  obtain ⟨_, h2, _, _⟩ := C25_event_stream fs cap sched
  exact ⟨(esRun fs cap sched).lost ++ (esRun fs cap sched).buf, by rw [← h2, List.append_assoc]⟩

/-- An event dispatched to an open stream is dropped only if it is unwanted or the buffer is full
at that moment. -/
theorem C25_event_drop_iff_full (fs : List Filter) (cap : Nat) (pre : List Act) (e : Ev)
    (hw : wanted fs e = true) (hopen : (esRun fs cap pre).stopped = false) :
    ((esRun fs cap pre).buf.length < cap →
        (esRun fs cap (pre ++ [.arrive e])).log = (esRun fs cap pre).log ++ [(e, true)]) ∧
    (¬ (esRun fs cap pre).buf.length < cap →
        (esRun fs cap (pre ++ [.arrive e])).log = (esRun fs cap pre).log ++ [(e, false)]) := by
  simp only [esRun] at hopen
  constructor <;> intro h <;> simp only [esRun] at h <;> simp [esRun, List.foldl_append, esStep, hw, h, hopen]

/-- Nothing enters a stopped stream: after a `Stop()` no later dispatch changes the log (and by
`C25_event_stream` sent ++ lost ++ buffered stays the accepted list: the goroutine only moves
buffered events to the client). -/
theorem C25_event_nothing_after_stop (fs : List Filter) (cap : Nat) (pre post : List Act) :
    (esRun fs cap (pre ++ [.stop] ++ post)).log = (esRun fs cap (pre ++ [.stop])).log := by
  have hs : (esRun fs cap (pre ++ [.stop])).stopped = true := by simp [esRun, List.foldl_append, esStep]
  obtain ⟨h1, _⟩ := es_after_stop fs cap post _ hs
  simp only [esRun, List.foldl_append] at *
  exact h1

/-- Only wanted events are ever sent. -/
theorem C25_event_only_matching (fs : List Filter) (cap : Nat) (sched : List Act) (e : Ev)
    (h : e ∈ (esRun fs cap sched).sent) : wanted fs e = true := by
  obtain ⟨h1, _, _, _⟩ := C25_event_stream fs cap sched
  have hp := C25_event_sent_prefix fs cap sched
  have : e ∈ accepted (esRun fs cap sched).log := hp.subset h
  have : e ∈ (esRun fs cap sched).log.map (·.1) := by
    simp only [accepted, List.mem_map, List.mem_filter] at this ⊢
    obtain ⟨p, ⟨hp, _⟩, rfl⟩ := this
    exact ⟨p, hp, rfl⟩
  rw [h1] at this
  exact (List.mem_filter.mp this).2

/-- **Every matching event unless the buffer overflowed**: once the stream goroutine — alive, no
failed send — has caught up, `sent` is exactly the matching events dispatched to the open stream
minus those dropped on a full buffer, in order. -/
theorem C25_event_stream_drained (fs : List Filter) (cap : Nat) (sched : List Act) (n : Nat)
    (hn : (esRun fs cap sched).buf.length ≤ n) (halive : (esRun fs cap sched).dead = false) :
    (esRun fs cap (sched ++ List.replicate n .consume)).sent = accepted (esRun fs cap sched).log ∧
    (esRun fs cap (sched ++ List.replicate n .consume)).buf = [] := by
  obtain ⟨_, h2, h3, _⟩ := C25_event_stream fs cap sched
  obtain ⟨d1, d2, _⟩ := es_drain fs cap n (esRun fs cap sched) hn halive
  have hl := h3 halive
  simp only [esRun, List.foldl_append] at *
  refine ⟨?_, d1⟩
  rw [d2, ← h2, hl]; simp

/-- non-vacuity: capacity 1, the second matching event is dropped, the non-matching one ignored -/
example : (esRun [⟨"user", "a"⟩] 1 [.arrive ⟨"user", "a", 1⟩, .arrive ⟨"user", "b", 2⟩, .arrive ⟨"user", "a", 3⟩,
      .consume, .arrive ⟨"user", "a", 4⟩, .consume]).sent = [⟨"user", "a", 1⟩, ⟨"user", "a", 4⟩] := by decide

/-- **Each matching event once**: an event dispatched to an open stream with room enters the buffer
exactly once however many of the filters it matches (the filter loop stops at the first match). -/
theorem C25_event_once (fs : List Filter) (cap : Nat) (pre : List Act) (e : Ev)
    (hw : wanted fs e = true) (hopen : (esRun fs cap pre).stopped = false) (hroom : (esRun fs cap pre).buf.length < cap) :
    (esRun fs cap (pre ++ [.arrive e])).buf = (esRun fs cap pre).buf ++ [e] := by
  simp only [esRun] at hopen hroom
  simp [esRun, List.foldl_append, esStep, hw, hopen, hroom]

example : wanted [⟨"user", ""⟩, ⟨"user", "deploy"⟩] ⟨"user", "deploy", 1⟩ = true ∧
    (esRun [⟨"user", ""⟩, ⟨"user", "deploy"⟩] 4 [.arrive ⟨"user", "deploy", 1⟩, .consume, .consume]).sent = [⟨"user", "deploy", 1⟩] := by
  decide

/-- **Regression witness (seeded C25-e)**: with one enqueue per matching filter, a stream opened with
the overlapping filters `user,user:deploy` carries the event twice. -/
theorem C25_enqueue_per_filter_counterexample :
    (esRunPerFilter [⟨"user", ""⟩, ⟨"user", "deploy"⟩] 4 [.arrive ⟨"user", "deploy", 1⟩, .consume, .consume]).sent =
      [⟨"user", "deploy", 1⟩, ⟨"user", "deploy", 1⟩] ∧
    (liveArrivals [Act.arrive ⟨"user", "deploy", 1⟩, .consume, .consume]).filter (wanted [⟨"user", ""⟩, ⟨"user", "deploy"⟩]) =
      [⟨"user", "deploy", 1⟩] := by decide

/-- non-vacuity with a failing send and a stop: event 1 sent, event 3's send fails (lost), event 4
stays buffered, event 5 arrives after Stop and is ignored -/
example : let s := esRun [⟨"user", "a"⟩] 4 [.arrive ⟨"user", "a", 1⟩, .consume, .arrive ⟨"user", "a", 3⟩,
      .arrive ⟨"user", "a", 4⟩, .consumeFail, .consume, .stop, .arrive ⟨"user", "a", 5⟩]
    s.sent = [⟨"user", "a", 1⟩] ∧ s.lost = [⟨"user", "a", 3⟩] ∧ s.buf = [⟨"user", "a", 4⟩] ∧ s.dead = true ∧
    s.log.length = 3 := by decide

example : wanted [⟨"user", "a"⟩] ⟨"user", "a", 3⟩ = true ∧
    ¬ (esRun [⟨"user", "a"⟩] 1 [.arrive ⟨"user", "a", 1⟩]).buf.length < 1 := by decide

/-! #### HandleEvent versus Stop (repaired by 393d7a7; formerly finding `event-after-stop-panic`)

The agent's `eventLoop` copies the handler list, releases the lock and then calls
`HandleEvent` on every copied handler — possibly after, or concurrently with, `Stop()`
(stop request, client disconnect).  The extracted shape (`Gen/EventStreamStop.lean`) says
both methods hold `es.stopLock`, `HandleEvent` tests `es.stopped` before the send and `Stop`
tests and sets it before the close; with both methods under one mutex every concurrent
execution is a sequence of whole calls, and the statements below hold for EVERY such
sequence, every filter list and capacity — no hypothesis about when `Stop` happens. -/

/-- obligation on the regenerated source shape -/
theorem C25_stop_shape : Gen.EventStreamStop.shape.ok = true := by decide

/-- invariant of the good shape: the flag and the channel state agree, nothing has panicked,
the channel was closed at most once -/
def StopInv (s : SS) : Prop := s.stopped = s.closed ∧ s.panicked = false ∧ s.closes ≤ 1 ∧ (s.closed = false → s.closes = 0)

theorem callStep_inv (sh : StopShape) (hok : sh.ok = true) (fs : List Filter) (cap : Nat) (s : SS) (c : Call)
    (h : StopInv s) : StopInv (callStep sh fs cap s c) := by
  obtain ⟨h1, h2, h3, h4⟩ := h
  simp only [StopShape.ok, Bool.and_eq_true, beq_iff_eq] at hok
  obtain ⟨⟨⟨⟨⟨a1, a2⟩, a3⟩, a4⟩, a5⟩, a6⟩ := hok
  cases c with
  | handle e =>
    simp only [callStep, a2, Bool.true_and]
    split
    · exact ⟨h1, h2, h3, h4⟩
    · split
      · exact ⟨h1, h2, h3, h4⟩
      · rename_i hns
        split
        · rename_i hc
          rw [← h1] at hc
          exact absurd hc hns
        · split <;> exact ⟨h1, h2, h3, h4⟩
  | stop =>
    simp only [callStep, a4, a5, Bool.true_and, Bool.or_true]
    split
    · exact ⟨h1, h2, h3, h4⟩
    · rename_i hns
      split
      · rename_i hc
        rw [← h1] at hc
        exact absurd hc hns
      · rename_i hnc
        have hc : s.closed = false := by simpa using hnc
        refine ⟨rfl, h2, ?_, fun h => by cases h⟩
        show s.closes + 1 ≤ 1
        rw [h4 hc]
        exact Nat.le_refl 1

theorem callRun_inv (sh : StopShape) (hok : sh.ok = true) (fs : List Filter) (cap : Nat) (calls : List Call) (s : SS)
    (h : StopInv s) : StopInv (callRun sh fs cap s calls) := by
  induction calls generalizing s with
  | nil => simpa [callRun] using h
  | cons c r ih => simp only [callRun, List.foldl_cons]; exact ih _ (callStep_inv sh hok fs cap s c h)

/-- **HandleEvent/Stop never panic** (full strength: every sequence of `HandleEvent` and
`Stop` calls, whatever their order): no send on and no second close of the closed channel,
and the channel is closed at most once. -/
theorem C25_event_after_stop (sh : StopShape) (hok : sh.ok = true) (fs : List Filter) (cap : Nat) (calls : List Call) :
    (callRun sh fs cap {} calls).panicked = false ∧ (callRun sh fs cap {} calls).closes ≤ 1 := by
  have h := callRun_inv sh hok fs cap calls {} (by simp [StopInv])
  exact ⟨h.2.1, h.2.2.1⟩

/-- **Stop is idempotent.** -/
theorem C25_stop_idempotent (sh : StopShape) (hok : sh.ok = true) (fs : List Filter) (cap : Nat) (s : SS) :
    callStep sh fs cap (callStep sh fs cap s .stop) .stop = callStep sh fs cap s .stop := by
  simp only [StopShape.ok, Bool.and_eq_true, beq_iff_eq] at hok
  obtain ⟨⟨⟨⟨⟨_, _⟩, _⟩, a4⟩, a5⟩, _⟩ := hok
  simp only [callStep, a4, a5, Bool.true_and, Bool.or_true]
  by_cases hs : s.stopped = true
  · simp [hs]
  · simp at hs
    by_cases hc : s.closed = true <;> simp [hs, hc]

/-- **Nothing enters the channel after Stop**: once a `Stop` has run, no later call changes
the buffer (and, by `C25_event_after_stop`, none panics). -/
theorem C25_nothing_sent_after_stop (sh : StopShape) (hok : sh.ok = true) (fs : List Filter) (cap : Nat)
    (pre post : List Call) :
    (callRun sh fs cap {} (pre ++ [.stop] ++ post)).buf = (callRun sh fs cap {} (pre ++ [.stop])).buf := by
  have hst : ∀ (s : SS), s.stopped = true → ∀ c, (callStep sh fs cap s c).buf = s.buf ∧ (callStep sh fs cap s c).stopped = true := by
    intro s hs c
    simp only [StopShape.ok, Bool.and_eq_true, beq_iff_eq] at hok
    obtain ⟨⟨⟨⟨⟨_, a2⟩, _⟩, a4⟩, _⟩, _⟩ := hok
    cases c with
    | handle e =>
      simp only [callStep, a2, Bool.true_and, hs]
      by_cases hw : wanted fs e = true <;> simp [hw, hs]
    | stop => simp [callStep, a4, hs]
  have hrun : ∀ (l : List Call) (s : SS), s.stopped = true → (callRun sh fs cap s l).buf = s.buf := by
    intro l
    induction l with
    | nil => intro s _; simp [callRun]
    | cons c r ih =>
      intro s hs
      simp only [callRun, List.foldl_cons]
      obtain ⟨hb, hs'⟩ := hst s hs c
      have := ih _ hs'
      simp only [callRun] at this
      rw [this, hb]
  have hstopped : (callRun sh fs cap {} (pre ++ [.stop])).stopped = true := by
    simp only [StopShape.ok, Bool.and_eq_true, beq_iff_eq] at hok
    obtain ⟨⟨⟨⟨⟨_, _⟩, _⟩, a4⟩, a5⟩, _⟩ := hok
    simp only [callRun, List.foldl_append, List.foldl_cons, List.foldl_nil, callStep, a4, a5, Bool.true_and, Bool.or_true]
    generalize List.foldl (callStep sh fs cap) {} pre = s
    by_cases hs : s.stopped = true
    · simp [hs]
    · simp at hs
      by_cases hc : s.closed = true <;> simp [hs, hc]
  have := hrun post _ hstopped
  simpa [callRun, List.foldl_append] using this

/-- non-vacuity: the extracted shape satisfies the hypothesis; an event after Stop is ignored -/
example : goodShape.ok = true ∧
    callRun goodShape [⟨"*", ""⟩] 512 {} [.handle ⟨"user", "a", 1⟩, .stop, .stop, .handle ⟨"user", "b", 2⟩] =
      { stopped := true, closed := true, buf := [⟨"user", "a", 1⟩], panicked := false, closes := 1 } := by decide

/-- **Regression witness** (the shape before 393d7a7: HandleEvent just sends, Stop just
closes): a matching event after `Stop()` is a send on a closed channel, and a second `Stop()`
closes a closed channel — either panic kills the agent. -/
theorem C25_event_after_stop_old_counterexample :
    (callRun oldShape [⟨"*", ""⟩] 512 {} [.stop, .handle ⟨"user", "deploy", 1⟩]).panicked = true ∧
    (callRun oldShape [⟨"*", ""⟩] 512 {} [.stop, .stop]).panicked = true := by decide

/-! ### (c) query stream -/

/-- **Query stream.**  For every schedule (Serf deliveries, close, deadline, select choices,
failing sends), starting with or without an ack channel and whether or not the query's deadline
has already passed when the stream goroutine starts: the acks sent are a prefix of the acks Serf
delivered and the responses sent a prefix of the responses Serf delivered (so every record is a
real one, in order, none twice); while `Stream` runs no `done` has been sent; and once it has
returned — unless a client send failed — the records are acks/responses followed by exactly one
`done`. -/
theorem C25_query_stream (ackNil expired : Bool) (sched : List QAct) :
    let s := qRun (qStart goodQ ackNil expired) sched
    acksOf s.out <+: s.pushedAcks ∧ respsOf s.out <+: s.pushedResps ∧
    (s.stopped = false → s.out.all (!·.isDone) = true) ∧
    (s.stopped = true → s.failed = true ∨ ∃ pre, s.out = pre ++ [.done] ∧ pre.all (!·.isDone) = true) := by
  have hst : qStart goodQ ackNil expired = { ackNil := ackNil, fired := expired } := by simp [qStart, goodQ]
  rw [hst]
  have h := qRun_inv sched _ (qinv_fresh ackNil expired)
  exact ⟨h.acks_pre, h.resps_pre, h.no_done_live, h.done_last⟩

/-- **The completion record is always sent**: whenever the deadline has fired — in particular
when it had already passed before the stream started (`qStart … expired = true`: a timeout of 1 ns,
a negative one, a slow start) — and the select takes the `done` case, `done` is appended and
`Stream` returns; there is no way out of the loop without it other than a failed send. -/
theorem C25_query_done_is_sent (ackNil expired : Bool) (sched : List QAct)
    (hrun : (qRun (qStart goodQ ackNil expired) sched).stopped = false)
    (hfired : (qRun (qStart goodQ ackNil expired) sched).fired = true) :
    (qStep (qRun (qStart goodQ ackNil expired) sched) (.selDone true)).out =
      (qRun (qStart goodQ ackNil expired) sched).out ++ [.done] ∧
    (qStep (qRun (qStart goodQ ackNil expired) sched) (.selDone true)).stopped = true := by
  simp [qStep, hrun, hfired]

/-- an expired query: the first thing the select can do is send `done` -/
example : (qRun (qStart goodQ false true) [.selDone true]).out = [.done] ∧
    (qRun (qStart goodQ false true) []).stopped = false ∧ (qRun (qStart goodQ false true) []).fired = true := by decide

/-- Every ack/response record is a real one. -/
theorem C25_query_records_real (ackNil expired : Bool) (sched : List QAct) (r : Rec)
    (hr : r ∈ (qRun (qStart goodQ ackNil expired) sched).out) :
    match r with
    | .ack a => a ∈ (qRun (qStart goodQ ackNil expired) sched).pushedAcks
    | .response f p => (f, p) ∈ (qRun (qStart goodQ ackNil expired) sched).pushedResps
    | .done => True := by
  obtain ⟨h1, h2, _, _⟩ := C25_query_stream ackNil expired sched
  have memA : ∀ (l : List Rec) a, Rec.ack a ∈ l → a ∈ acksOf l := by
    intro l a h
    induction l with
    | nil => cases h
    | cons x l ih =>
      cases x <;> simp [acksOf] at h ⊢
      · rcases h with h | h
        · exact Or.inl h
        · exact Or.inr (ih h)
      · exact ih h
      · exact ih h
  have memR : ∀ (l : List Rec) f p, Rec.response f p ∈ l → (f, p) ∈ respsOf l := by
    intro l f p h
    induction l with
    | nil => cases h
    | cons x l ih =>
      cases x <;> simp [respsOf] at h ⊢
      · exact ih h
      · rcases h with h | h
        · exact Or.inl h
        · exact Or.inr (ih h)
      · exact ih h
  cases r with
  | ack a => exact h1.subset (memA _ a hr)
  | response f p => exact h2.subset (memR _ f p hr)
  | done => trivial

/-- Nothing is sent after `Stream` has returned (in particular nothing after `done`). -/
theorem C25_query_nothing_after_done (s : QS) (sched : List QAct) (h : s.stopped = true) :
    (qRun s sched).out = s.out :=
  (qRun_stopped sched s h).1

/-- non-vacuity: an ack, a response, close, both channels found closed, deadline, done -/
example : (qRun {} [.pushAck "n1", .selAck true, .pushResp "n1" "pong", .close, .selResp true, .selAck true,
      .selResp true, .selAck true, .fire, .selDone true, .selAck true]).out =
    [.ack "n1", .response "n1" "pong", .done] := by decide

example : (qRun {} [.fire, .selDone true]).stopped = true ∧ (qRun {} [.fire, .selDone true]).failed = false := by decide

/-! #### Tie to the source: regenerated shapes (`Gen/IpcStreamShape.lean`) -/

/-- `handleStream` hands the client's filter string verbatim to `ParseEventFilter` (one call,
argument `req.Type`, neither `req` nor `filters` written afterwards) and the parsed filters to
`newEventStream` — seeded C25-b lower-cased the string first. -/
theorem C25_src_filter_verbatim : Gen.IpcStreamShape.streamRequest.ok = true := by decide

/-- `HandleEvent` consults every filter (`range es.filters`, `f.Invoke(e)`), returns when none
matched; `eventCh` has the model's capacity; `stream` ranges over `eventCh`. -/
theorem C25_src_event_stream : Gen.IpcStreamShape.eventStream.ok = true := by decide

/-- The select loop of `Stream` denotes the model's variant: both receives use the ok flag with
`ch = nil; continue`, failing sends return, `sendDone` is called at exactly one place — the
`<-done` case, which returns — there is no `break` (seeded C25-a), and before the loop there are
only the four definitions: the deadline timer is armed unconditionally from `resp.Deadline()`, no
early return (seeded C25-d). -/
theorem C25_src_query_loop : qVariantOf Gen.IpcStreamShape.queryLoop = goodQ := by decide

theorem qStepV_good (s : QS) (a : QAct) : qStepV goodQ s a = qStep s a := by
  cases a <;> simp [qStepV, qStep, goodQ]

theorem qRunV_good (s : QS) (sched : List QAct) : qRunV goodQ s sched = qRun s sched := by
  induction sched generalizing s with
  | nil => simp [qRunV, qRun]
  | cons a r ih =>
    simp only [qRunV, qRun, List.foldl_cons, qStepV_good] at *
    exact ih _

/-- **Query stream, for the shape the source has** (prologue and loop). -/
theorem C25_query_stream_for_source_shape (ackNil expired : Bool) (sched : List QAct) :
    let v := qVariantOf Gen.IpcStreamShape.queryLoop
    let s := qRunV v (qStart v ackNil expired) sched
    acksOf s.out <+: s.pushedAcks ∧ respsOf s.out <+: s.pushedResps ∧
    (s.stopped = false → s.out.all (!·.isDone) = true) ∧
    (s.stopped = true → s.failed = true ∨ ∃ pre, s.out = pre ++ [.done] ∧ pre.all (!·.isDone) = true) := by
  simp only [C25_src_query_loop, qRunV_good]
  exact C25_query_stream ackNil expired sched

/-- **Regression witness (seeded C25-d)**: if `Stream` returns before the loop when the deadline
has already passed, such a query gets no completion record at all: the stream has returned, no
send failed, and the records do not end with `done`. -/
theorem C25_return_if_expired_counterexample :
    let v : QVariant := { returnIfExpired := true }
    (qRunV v (qStart v false true) [.selDone true]).stopped = true ∧
    (qRunV v (qStart v false true) [.selDone true]).failed = false ∧
    (qRunV v (qStart v false true) [.selDone true]).out = [] ∧
    wellFormed (qRunV v (qStart v false true) [.selDone true]).out = false := by decide

/-- **Regression witness (seeded C25-a)**: a completion record sent when the response channel is
found closed, with the loop going on (`break` leaves only the select): the deadline then sends a
second `done`, and acks still buffered follow the first one. -/
theorem C25_done_on_close_counterexample :
    (qRunV { doneOnRespClose := true } {} [.pushAck "n1", .close, .selResp true, .selAck true, .fire, .selDone true]).out =
      [.done, .ack "n1", .done] ∧
    wellFormed (qRunV { doneOnRespClose := true } {} [.pushAck "n1", .close, .selResp true, .selAck true, .fire, .selDone true]).out = false := by
  decide

/-- the source's shape on the same schedule -/
example : (qRunV goodQ {} [.pushAck "n1", .close, .selResp true, .selAck true, .fire, .selDone true]).out =
    [.ack "n1", .done] := by decide

/-- **Regression witness**: the loop before the repair (receive without the `ok` flag) sends
zero-value records once Serf has closed the channels — records that are no real ack. -/
theorem C25_query_stream_old_counterexample :
    (qRunOld {} [.close, .selAck true, .selResp true, .fire, .selDone true]).out =
      [.ack "", .response "" "", .done] ∧
    (qRunOld {} [.close, .selAck true, .selResp true, .fire, .selDone true]).pushedAcks = [] := by decide

/-- the repaired loop on the same schedule -/
example : (qRun {} [.close, .selAck true, .selResp true, .fire, .selDone true]).out = [.done] := by decide

end SerfProofs.C25
