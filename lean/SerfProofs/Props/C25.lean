/-
C25 — RPC replies and stream records stay correlated and well-formed.

(a) Reply headers: `SerfModel.Gen.IpcHeaders` is regenerated from
    cmd/serf/command/agent/ipc*.go on every run; the obligations below are decided on it.
(b) Event stream: `SerfModel.IpcStreams.esRun` (ipc_event_stream.go), for every filter
    list, buffer capacity and schedule of arrivals and stream-goroutine iterations.
(c) Query stream: `SerfModel.IpcStreams.qRun` (ipc_query_response_stream.go, the repaired
    select loop), for every schedule of Serf deliveries, channel close, deadline and
    select choices, including failing client sends.
-/
import SerfProofs.Lemmas.IpcStreams
import SerfModel.Gen.IpcHeaders
namespace SerfProofs.C25
open SerfModel SerfModel.IpcStreams SerfProofs.IpcStreams SerfModel.IpcHeaders

/-! ### (a) reply headers (obligations on the regenerated source shapes) -/

/-- Every `responseHeader{Seq: …}` in ipc*.go uses the handler's own `seq` (parameter; in
`handleRequest` the local read from the request header), never reassigned, or — in a
stream method — the stream's stored `seq` field. -/
theorem C25_header_seq_sites : Gen.IpcHeaders.headerSites.all HeaderSite.ok = true := by decide

/-- Every stream constructor stores the `seq` it was given. -/
theorem C25_stream_ctor_stores_seq : Gen.IpcHeaders.ctors.all CtorSite.ok = true := by decide

/-- `handleRequest` hands its `seq` to every handler, and the handlers hand theirs to the
stream constructors; no stream's `seq` field is written after construction. -/
theorem C25_seq_passed_on :
    Gen.IpcHeaders.seqCalls.all CallSite.ok = true ∧ Gen.IpcHeaders.seqFieldWrites = 0 := by decide

/-- all three stream types and the request dispatcher are covered by the extraction -/
theorem C25_header_sites_cover :
    (streamTypes.all fun t => Gen.IpcHeaders.ctors.any (·.typ == t) &&
        Gen.IpcHeaders.headerSites.any (·.recvType == t)) = true ∧
    Gen.IpcHeaders.headerSites.any (·.func == "handleRequest") = true := by decide

/-! ### (b) event stream -/

/-- **Event stream.**  For every filter list, capacity and schedule: the wanted arrivals
(those some filter accepts) are exactly the logged ones, in arrival order; what was sent
followed by what is still buffered is exactly the wanted arrivals that found room, in
order; the buffer never exceeds its capacity. -/
theorem C25_event_stream (fs : List Filter) (cap : Nat) (sched : List Act) :
    (esRun fs cap sched).log.map (·.1) = (arrivals sched).filter (wanted fs) ∧
    (esRun fs cap sched).sent ++ (esRun fs cap sched).buf = accepted (esRun fs cap sched).log ∧
    (esRun fs cap sched).buf.length ≤ cap := by
  refine ⟨?_, ?_, ?_⟩
  · simpa [esRun] using es_log fs cap sched {}
  · exact es_acc fs cap sched {} (by simp [accepted])
  · exact es_cap fs cap sched {} (by simp)

/-- An arrival is dropped only if it is unwanted or the buffer is full at that moment. -/
theorem C25_event_drop_iff_full (fs : List Filter) (cap : Nat) (pre : List Act) (e : Ev)
    (hw : wanted fs e = true) :
    ((esRun fs cap pre).buf.length < cap →
        (esRun fs cap (pre ++ [.arrive e])).log = (esRun fs cap pre).log ++ [(e, true)]) ∧
    (¬ (esRun fs cap pre).buf.length < cap →
        (esRun fs cap (pre ++ [.arrive e])).log = (esRun fs cap pre).log ++ [(e, false)]) := by
  constructor <;> intro h <;> simp only [esRun] at h <;> simp [esRun, List.foldl_append, esStep, hw, h]

/-- Only wanted events are ever sent. -/
theorem C25_event_only_matching (fs : List Filter) (cap : Nat) (sched : List Act) (e : Ev)
    (h : e ∈ (esRun fs cap sched).sent) : wanted fs e = true := by
  obtain ⟨h1, h2, _⟩ := C25_event_stream fs cap sched
  have : e ∈ accepted (esRun fs cap sched).log := by rw [← h2]; simp [h]
  have : e ∈ (esRun fs cap sched).log.map (·.1) := by
    simp only [accepted, List.mem_map, List.mem_filter] at this ⊢
    obtain ⟨p, ⟨hp, _⟩, rfl⟩ := this
    exact ⟨p, hp, rfl⟩
  rw [h1] at this
  exact (List.mem_filter.mp this).2

/-- Once the stream goroutine has caught up, `sent` is exactly: the matching events minus
those dropped on a full buffer, in order. -/
theorem C25_event_stream_drained (fs : List Filter) (cap : Nat) (sched : List Act) (n : Nat)
    (hn : (esRun fs cap sched).buf.length ≤ n) :
    (esRun fs cap (sched ++ List.replicate n .consume)).sent = accepted (esRun fs cap sched).log ∧
    (esRun fs cap (sched ++ List.replicate n .consume)).buf = [] := by
  obtain ⟨_, h2, _⟩ := C25_event_stream fs cap sched
  obtain ⟨d1, d2, _⟩ := es_drain fs cap n (esRun fs cap sched) hn
  simp only [esRun, List.foldl_append] at *
  exact ⟨by rw [d2, h2], d1⟩

/-- non-vacuity: capacity 1, the second matching event is dropped, the non-matching one ignored -/
example : (esRun [⟨"user", "a"⟩] 1 [.arrive ⟨"user", "a", 1⟩, .arrive ⟨"user", "b", 2⟩, .arrive ⟨"user", "a", 3⟩,
      .consume, .arrive ⟨"user", "a", 4⟩, .consume]).sent = [⟨"user", "a", 1⟩, ⟨"user", "a", 4⟩] := by decide

example : wanted [⟨"user", "a"⟩] ⟨"user", "a", 3⟩ = true ∧
    ¬ (esRun [⟨"user", "a"⟩] 1 [.arrive ⟨"user", "a", 1⟩]).buf.length < 1 := by decide

/-! #### Finding `event-after-stop-panic`

The full statement would also cover a stream that is stopped (`stop` request or client
disconnect → `DeregisterEventHandler(es); es.Stop()`) while the agent's `eventLoop` is
dispatching: `eventLoop` copies the handler list, releases the lock and then calls
`HandleEvent` on every copied handler — possibly after `Stop()` closed `eventCh`.  A matching
event then executes `es.eventCh <- e` on a closed channel, which panics and kills the agent
process (observed on the real agent over the socket: `panic: send on closed channel`,
ipc_event_stream.go:51 ← agent.go:262).  The theorems above are therefore about a stream that
is not stopped while events are dispatched to it (`C25_event_stream…`: schedules of `arrive`
and `consume`); for a stopped stream only the following partial statement holds. -/

/-- partial: an event the filters reject, or any event before `Stop`, is handled without a panic -/
theorem C25_event_after_stop_partial (fs : List Filter) (stopped : Bool) (e : Ev)
    (h : stopped = false ∨ wanted fs e = false) : handleEventOn fs stopped e = .ok := by
  unfold handleEventOn
  rcases h with h | h <;> simp [h]

/-- counterexample: a matching event dispatched after `Stop()` panics -/
theorem C25_event_after_stop_counterexample :
    handleEventOn [⟨"*", ""⟩] true ⟨"user", "deploy", 1⟩ = .panic := by decide

example : (false = false ∨ wanted [⟨"user", "a"⟩] ⟨"user", "b", 1⟩ = false) := Or.inl rfl

/-! ### (c) query stream -/

/-- **Query stream.**  For every schedule (Serf deliveries, close, deadline, select choices,
failing sends), starting with or without an ack channel: the acks sent are a prefix of the
acks Serf delivered and the responses sent a prefix of the responses Serf delivered (so
every record is a real one, in order, none twice); while `Stream` runs no `done` has been
sent; and once it has returned — unless a client send failed — the records are
acks/responses followed by exactly one `done`. -/
theorem C25_query_stream (ackNil : Bool) (sched : List QAct) :
    let s := qRun { ackNil := ackNil } sched
    acksOf s.out <+: s.pushedAcks ∧ respsOf s.out <+: s.pushedResps ∧
    (s.stopped = false → s.out.all (!·.isDone) = true) ∧
    (s.stopped = true → s.failed = true ∨ ∃ pre, s.out = pre ++ [.done] ∧ pre.all (!·.isDone) = true) := by
  have h := qRun_inv sched _ (qinv_fresh ackNil)
  exact ⟨h.acks_pre, h.resps_pre, h.no_done_live, h.done_last⟩

/-- Every ack/response record is a real one. -/
theorem C25_query_records_real (ackNil : Bool) (sched : List QAct) (r : Rec)
    (hr : r ∈ (qRun { ackNil := ackNil } sched).out) :
    match r with
    | .ack a => a ∈ (qRun { ackNil := ackNil } sched).pushedAcks
    | .response f p => (f, p) ∈ (qRun { ackNil := ackNil } sched).pushedResps
    | .done => True := by
  obtain ⟨h1, h2, _, _⟩ := C25_query_stream ackNil sched
  have memA : ∀ (l : List Rec) a, Rec.ack a ∈ l → a ∈ acksOf l := by
    intro l a h
    induction l with
    | nil => cases h
    | cons x l ih =>
      cases x <;> simp [acksOf] at h ⊢
      · rcases h with h | h
        · exact Or.inl h
        · exact Or.inr (ih h)
      · exact ih h
      · exact ih h
  have memR : ∀ (l : List Rec) f p, Rec.response f p ∈ l → (f, p) ∈ respsOf l := by
    intro l f p h
    induction l with
    | nil => cases h
    | cons x l ih =>
      cases x <;> simp [respsOf] at h ⊢
      · exact ih h
      · rcases h with h | h
        · exact Or.inl h
        · exact Or.inr (ih h)
      · exact ih h
  cases r with
  | ack a => exact h1.subset (memA _ a hr)
  | response f p => exact h2.subset (memR _ f p hr)
  | done => trivial

/-- Nothing is sent after `Stream` has returned (in particular nothing after `done`). -/
theorem C25_query_nothing_after_done (s : QS) (sched : List QAct) (h : s.stopped = true) :
    (qRun s sched).out = s.out :=
  (qRun_stopped sched s h).1

/-- non-vacuity: an ack, a response, close, both channels found closed, deadline, done -/
example : (qRun {} [.pushAck "n1", .selAck true, .pushResp "n1" "pong", .close, .selResp true, .selAck true,
      .selResp true, .selAck true, .fire, .selDone true, .selAck true]).out =
    [.ack "n1", .response "n1" "pong", .done] := by decide

example : (qRun {} [.fire, .selDone true]).stopped = true ∧ (qRun {} [.fire, .selDone true]).failed = false := by decide

/-- **Regression witness**: the loop before the repair (receive without the `ok` flag) sends
zero-value records once Serf has closed the channels — records that are no real ack. -/
theorem C25_query_stream_old_counterexample :
    (qRunOld {} [.close, .selAck true, .selResp true, .fire, .selDone true]).out =
      [.ack "", .response "" "", .done] ∧
    (qRunOld {} [.close, .selAck true, .selResp true, .fire, .selDone true]).pushedAcks = [] := by decide

/-- the repaired loop on the same schedule -/
example : (qRun {} [.close, .selAck true, .selResp true, .fire, .selDone true]).out = [.done] := by decide

end SerfProofs.C25
