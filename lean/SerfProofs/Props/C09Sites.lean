import SerfModel.Gen.PanicSites
/-!
C09, part 1: the generated panic-site obligations (`SerfModel.Gen.PanicSites`, regenerated from
/repo/serf and /repo/coordinate on every run) are discharged AUTOMATICALLY: `C09_all_sites` splits the
regenerated conjunction `allSites` and proves every conjunct with one generic tactic (`site_tac`:
introduce the path condition; linear arithmetic, or `Nat.mod_lt` for the `x % len(buffer)` indices).
Nothing here names a site, a local variable or a statement position, so a behaviour-preserving rewrite
whose sites are all still guarded re-proves by itself; what fails is exactly an undischargeable site: a
guard that disappeared from the source, or a new unguarded index/slice/map write/send/… in any
function reachable from the memberlist delegates.
-/
namespace SerfProofs.C09
open SerfModel.Gen.PanicSites

/-- the generic discharge of one site obligation -/
macro "site_tac" : tactic => `(tactic| ((repeat intro _); first
  | omega
  | (subst_vars; exact Nat.mod_lt _ (by assumption))
  | (subst_vars; (repeat' (apply And.intro)) <;>
      first | omega | exact Nat.mod_lt _ (by omega) | (intro _; exact Nat.mod_lt _ (by omega)))))

/-- `site! n`: the proof of the generated site obligation `n`, by the generic tactic -/
macro "site! " n:ident : term => `((by unfold $n; site_tac : $n))

/-- every panic site the extractor lists — whatever the current inventory is — is safe under its path condition -/
theorem C09_all_sites : allSites := by
  unfold allSites
  repeat' (apply And.intro)
  all_goals site_tac

end SerfProofs.C09
