import SerfModel.Gen.PanicSites
/-!
C09, part 1: one theorem per generated panic site (`SerfModel.Gen.PanicSites`, regenerated from
/repo/serf and /repo/coordinate on every run).  A site is `∀ lengths/indices, path condition → the
index/slice/division/dereference/contract is in bounds`.  If a guard disappears from the source the
regenerated proposition loses its hypothesis and the theorem below no longer builds; if a new
panic-capable expression appears, `allSites` gains a conjunct and `C09_all_sites` no longer builds.
-/
namespace SerfProofs.C09
open SerfModel.Gen.PanicSites

/-- the generic discharge: introduce the path condition, linear arithmetic. -/
macro "site_omega" : tactic => `(tactic| (intros; omega))

theorem C09_site_delegate_NodeMeta_panic_ : site_delegate_NodeMeta_panic_ := by
  unfold site_delegate_NodeMeta_panic_; site_omega

theorem C09_site_delegate_NotifyMsg_index_buf_0 : site_delegate_NotifyMsg_index_buf_0 := by
  unfold site_delegate_NotifyMsg_index_buf_0; site_omega

theorem C09_site_delegate_NotifyMsg_slice_buf_1 : site_delegate_NotifyMsg_slice_buf_1 := by
  unfold site_delegate_NotifyMsg_slice_buf_1; site_omega

theorem C09_site_delegate_NotifyMsg_slice_buf_1_2 : site_delegate_NotifyMsg_slice_buf_1_2 := by
  unfold site_delegate_NotifyMsg_slice_buf_1_2; site_omega

theorem C09_site_delegate_NotifyMsg_slice_buf_1_3 : site_delegate_NotifyMsg_slice_buf_1_3 := by
  unfold site_delegate_NotifyMsg_slice_buf_1_3; site_omega

theorem C09_site_delegate_NotifyMsg_slice_buf_1_4 : site_delegate_NotifyMsg_slice_buf_1_4 := by
  unfold site_delegate_NotifyMsg_slice_buf_1_4; site_omega

theorem C09_site_delegate_NotifyMsg_slice_buf_1_5 : site_delegate_NotifyMsg_slice_buf_1_5 := by
  unfold site_delegate_NotifyMsg_slice_buf_1_5; site_omega

theorem C09_site_delegate_NotifyMsg_slice_buf_1_6 : site_delegate_NotifyMsg_slice_buf_1_6 := by
  unfold site_delegate_NotifyMsg_slice_buf_1_6; site_omega

theorem C09_site_delegate_LocalState_mapwrite_pp_StatusLTimes : site_delegate_LocalState_mapwrite_pp_StatusLTimes := by
  unfold site_delegate_LocalState_mapwrite_pp_StatusLTimes; site_omega

theorem C09_site_delegate_MergeRemoteState_index_buf_0 : site_delegate_MergeRemoteState_index_buf_0 := by
  unfold site_delegate_MergeRemoteState_index_buf_0; site_omega

theorem C09_site_delegate_MergeRemoteState_index_buf_0_2 : site_delegate_MergeRemoteState_index_buf_0_2 := by
  unfold site_delegate_MergeRemoteState_index_buf_0_2; site_omega

theorem C09_site_delegate_MergeRemoteState_slice_buf_1 : site_delegate_MergeRemoteState_slice_buf_1 := by
  unfold site_delegate_MergeRemoteState_slice_buf_1; site_omega

theorem C09_site_delegate_MergeRemoteState_mapwrite_leftMap : site_delegate_MergeRemoteState_mapwrite_leftMap := by
  unfold site_delegate_MergeRemoteState_mapwrite_leftMap; site_omega

theorem C09_site_delegate_MergeRemoteState_assert_d_serf_eventJoinIgnore_Load : site_delegate_MergeRemoteState_assert_d_serf_eventJoinIgnore_Load := by
  unfold site_delegate_MergeRemoteState_assert_d_serf_eventJoinIgnore_Load; site_omega

theorem C09_site_delegate_MergeRemoteState_deref_events : site_delegate_MergeRemoteState_deref_events := by
  unfold site_delegate_MergeRemoteState_deref_events; site_omega

theorem C09_site_Serf_handleNodeLeaveIntent_call_upsertIntent : site_Serf_handleNodeLeaveIntent_call_upsertIntent := by
  unfold site_Serf_handleNodeLeaveIntent_call_upsertIntent; site_omega

theorem C09_site_Serf_handleNodeLeaveIntent_deref_member : site_Serf_handleNodeLeaveIntent_deref_member := by
  unfold site_Serf_handleNodeLeaveIntent_deref_member; site_omega

theorem C09_site_Serf_handleNodeJoinIntent_call_upsertIntent : site_Serf_handleNodeJoinIntent_call_upsertIntent := by
  unfold site_Serf_handleNodeJoinIntent_call_upsertIntent; site_omega

theorem C09_site_Serf_handleNodeJoinIntent_deref_member : site_Serf_handleNodeJoinIntent_deref_member := by
  unfold site_Serf_handleNodeJoinIntent_deref_member; site_omega

theorem C09_site_Serf_handleUserEvent_div_LamportTime_len_s_eventBuffer : site_Serf_handleUserEvent_div_LamportTime_len_s_eventBuffer := by
  unfold site_Serf_handleUserEvent_div_LamportTime_len_s_eventBuffer; site_omega

theorem C09_site_Serf_handleUserEvent_index_s_eventBuffer_idx : site_Serf_handleUserEvent_index_s_eventBuffer_idx := by
  unfold site_Serf_handleUserEvent_index_s_eventBuffer_idx
  intro n _ t idx _ _ _ h hpos
  subst h; exact Nat.mod_lt _ hpos

theorem C09_site_Serf_handleUserEvent_deref_seen : site_Serf_handleUserEvent_deref_seen := by
  unfold site_Serf_handleUserEvent_deref_seen; site_omega

theorem C09_site_Serf_handleUserEvent_deref_seen_2 : site_Serf_handleUserEvent_deref_seen_2 := by
  unfold site_Serf_handleUserEvent_deref_seen_2; site_omega

theorem C09_site_Serf_handleUserEvent_index_s_eventBuffer_idx_2 : site_Serf_handleUserEvent_index_s_eventBuffer_idx_2 := by
  unfold site_Serf_handleUserEvent_index_s_eventBuffer_idx_2
  intro n _ _ t idx _ _ _ _ h _ hpos
  subst h; exact Nat.mod_lt _ hpos

theorem C09_site_Serf_handleUserEvent_deref_seen_3 : site_Serf_handleUserEvent_deref_seen_3 := by
  unfold site_Serf_handleUserEvent_deref_seen_3; site_omega

theorem C09_site_Serf_handleQuery_div_LamportTime_len_s_queryBuffer : site_Serf_handleQuery_div_LamportTime_len_s_queryBuffer := by
  unfold site_Serf_handleQuery_div_LamportTime_len_s_queryBuffer; site_omega

theorem C09_site_Serf_handleQuery_index_s_queryBuffer_idx : site_Serf_handleQuery_index_s_queryBuffer_idx := by
  unfold site_Serf_handleQuery_index_s_queryBuffer_idx
  intro n _ idx t _ _ _ h hpos
  subst h; exact Nat.mod_lt _ hpos

theorem C09_site_Serf_handleQuery_deref_seen : site_Serf_handleQuery_deref_seen := by
  unfold site_Serf_handleQuery_deref_seen; site_omega

theorem C09_site_Serf_handleQuery_deref_seen_2 : site_Serf_handleQuery_deref_seen_2 := by
  unfold site_Serf_handleQuery_deref_seen_2; site_omega

theorem C09_site_Serf_handleQuery_index_s_queryBuffer_idx_2 : site_Serf_handleQuery_index_s_queryBuffer_idx_2 := by
  unfold site_Serf_handleQuery_index_s_queryBuffer_idx_2
  intro n _ _ idx t _ _ _ _ h _ hpos
  subst h; exact Nat.mod_lt _ hpos

theorem C09_site_Serf_handleQuery_deref_seen_3 : site_Serf_handleQuery_deref_seen_3 := by
  unfold site_Serf_handleQuery_deref_seen_3; site_omega

theorem C09_site_Serf_handleQueryResponse_deref_query : site_Serf_handleQueryResponse_deref_query := by
  unfold site_Serf_handleQueryResponse_deref_query; site_omega

theorem C09_site_Serf_handleNodeJoin_deref_member : site_Serf_handleNodeJoin_deref_member := by
  unfold site_Serf_handleNodeJoin_deref_member; site_omega

theorem C09_site_Serf_handleNodeJoin_deref_member_2 : site_Serf_handleNodeJoin_deref_member_2 := by
  unfold site_Serf_handleNodeJoin_deref_member_2; site_omega

theorem C09_site_Serf_handleNodeJoin_mapwrite_s_members : site_Serf_handleNodeJoin_mapwrite_s_members := by
  unfold site_Serf_handleNodeJoin_mapwrite_s_members; site_omega

theorem C09_site_Serf_handleNodeJoin_deref_member_3 : site_Serf_handleNodeJoin_deref_member_3 := by
  unfold site_Serf_handleNodeJoin_deref_member_3; site_omega

theorem C09_site_Serf_handleNodeJoin_deref_member_4 : site_Serf_handleNodeJoin_deref_member_4 := by
  unfold site_Serf_handleNodeJoin_deref_member_4; site_omega

theorem C09_site_Serf_handleNodeLeave_deref_member : site_Serf_handleNodeLeave_deref_member := by
  unfold site_Serf_handleNodeLeave_deref_member; site_omega

theorem C09_site_Serf_handleNodeLeave_call_MemberStatus_String : site_Serf_handleNodeLeave_call_MemberStatus_String := by
  unfold site_Serf_handleNodeLeave_call_MemberStatus_String; site_omega

theorem C09_site_Serf_handleNodeUpdate_deref_member : site_Serf_handleNodeUpdate_deref_member := by
  unfold site_Serf_handleNodeUpdate_deref_member; site_omega

theorem C09_site_Serf_resolveNodeConflict_index_r_Payload_0 : site_Serf_resolveNodeConflict_index_r_Payload_0 := by
  unfold site_Serf_resolveNodeConflict_index_r_Payload_0; site_omega

theorem C09_site_Serf_resolveNodeConflict_slice_r_Payload_1 : site_Serf_resolveNodeConflict_slice_r_Payload_1 := by
  unfold site_Serf_resolveNodeConflict_slice_r_Payload_1; site_omega

theorem C09_site_Serf_decodeTags_index_buf_0 : site_Serf_decodeTags_index_buf_0 := by
  unfold site_Serf_decodeTags_index_buf_0; site_omega

theorem C09_site_Serf_decodeTags_mapwrite_tags : site_Serf_decodeTags_mapwrite_tags := by
  unfold site_Serf_decodeTags_mapwrite_tags; site_omega

theorem C09_site_Serf_decodeTags_slice_buf_1 : site_Serf_decodeTags_slice_buf_1 := by
  unfold site_Serf_decodeTags_slice_buf_1; site_omega

theorem C09_site_Serf_encodeTags_panic_ : site_Serf_encodeTags_panic_ := by
  unfold site_Serf_encodeTags_panic_; site_omega

theorem C09_site_serf_removeOldMember_index_old_n_1 : site_serf_removeOldMember_index_old_n_1 := by
  unfold site_serf_removeOldMember_index_old_n_1; site_omega

theorem C09_site_serf_removeOldMember_index_old_i : site_serf_removeOldMember_index_old_i := by
  unfold site_serf_removeOldMember_index_old_i; site_omega

theorem C09_site_serf_removeOldMember_index_old_n_1_2 : site_serf_removeOldMember_index_old_n_1_2 := by
  unfold site_serf_removeOldMember_index_old_n_1_2; site_omega

theorem C09_site_serf_removeOldMember_slice_old_n_1 : site_serf_removeOldMember_slice_old_n_1 := by
  unfold site_serf_removeOldMember_slice_old_n_1; site_omega

theorem C09_site_serf_upsertIntent_mapwrite_intents : site_serf_upsertIntent_mapwrite_intents := by
  unfold site_serf_upsertIntent_mapwrite_intents; site_omega

theorem C09_site_Serf_shouldProcessQuery_index_filter_0 : site_Serf_shouldProcessQuery_index_filter_0 := by
  unfold site_Serf_shouldProcessQuery_index_filter_0; site_omega

theorem C09_site_Serf_shouldProcessQuery_slice_filter_1 : site_Serf_shouldProcessQuery_slice_filter_1 := by
  unfold site_Serf_shouldProcessQuery_slice_filter_1; site_omega

theorem C09_site_Serf_shouldProcessQuery_slice_filter_1_2 : site_Serf_shouldProcessQuery_slice_filter_1_2 := by
  unfold site_Serf_shouldProcessQuery_slice_filter_1_2; site_omega

theorem C09_site_Serf_shouldProcessQuery_index_filter_0_2 : site_Serf_shouldProcessQuery_index_filter_0_2 := by
  unfold site_Serf_shouldProcessQuery_index_filter_0_2; site_omega

theorem C09_site_serf_kRandomMembers_call_rand_Intn : site_serf_kRandomMembers_call_rand_Intn := by
  unfold site_serf_kRandomMembers_call_rand_Intn; site_omega

theorem C09_site_serf_kRandomMembers_index_members_idx : site_serf_kRandomMembers_index_members_idx := by
  unfold site_serf_kRandomMembers_index_members_idx; site_omega

theorem C09_site_serf_kRandomMembers_index_kMembers_j : site_serf_kRandomMembers_index_kMembers_j := by
  unfold site_serf_kRandomMembers_index_kMembers_j; site_omega

theorem C09_site_QueryResponse_sendAck_mapwrite_r_acks : site_QueryResponse_sendAck_mapwrite_r_acks := by
  unfold site_QueryResponse_sendAck_mapwrite_r_acks; site_omega

theorem C09_site_QueryResponse_sendResponse_mapwrite_r_responses : site_QueryResponse_sendResponse_mapwrite_r_responses := by
  unfold site_QueryResponse_sendResponse_mapwrite_r_responses; site_omega

theorem C09_site_serfQueries_handleQuery_slice_q_Name_len_InternalQueryPrefix : site_serfQueries_handleQuery_slice_q_Name_len_InternalQueryPrefix := by
  unfold site_serfQueries_handleQuery_slice_q_Name_len_InternalQueryPrefix; site_omega

theorem C09_site_serfQueries_handleConflict_deref_member : site_serfQueries_handleConflict_deref_member := by
  unfold site_serfQueries_handleConflict_deref_member; site_omega

theorem C09_site_serfQueries_keyListResponseWithCorrectSize_loopinv_init_resp_Keys : site_serfQueries_keyListResponseWithCorrectSize_loopinv_init_resp_Keys := by
  unfold site_serfQueries_keyListResponseWithCorrectSize_loopinv_init_resp_Keys; site_omega

theorem C09_site_serfQueries_keyListResponseWithCorrectSize_loopinv_step_resp_Keys : site_serfQueries_keyListResponseWithCorrectSize_loopinv_step_resp_Keys := by
  unfold site_serfQueries_keyListResponseWithCorrectSize_loopinv_step_resp_Keys; site_omega

theorem C09_site_serfQueries_keyListResponseWithCorrectSize_slice_resp_Keys_0_i : site_serfQueries_keyListResponseWithCorrectSize_slice_resp_Keys_0_i := by
  unfold site_serfQueries_keyListResponseWithCorrectSize_slice_resp_Keys_0_i; site_omega

theorem C09_site_serfQueries_handleInstallKey_slice_q_Payload_1 : site_serfQueries_handleInstallKey_slice_q_Payload_1 := by
  unfold site_serfQueries_handleInstallKey_slice_q_Payload_1; site_omega

theorem C09_site_serfQueries_handleUseKey_slice_q_Payload_1 : site_serfQueries_handleUseKey_slice_q_Payload_1 := by
  unfold site_serfQueries_handleUseKey_slice_q_Payload_1; site_omega

theorem C09_site_serfQueries_handleRemoveKey_slice_q_Payload_1 : site_serfQueries_handleRemoveKey_slice_q_Payload_1 := by
  unfold site_serfQueries_handleRemoveKey_slice_q_Payload_1; site_omega

theorem C09_site_KeyManager_streamKeyResp_index_r_Payload_0 : site_KeyManager_streamKeyResp_index_r_Payload_0 := by
  unfold site_KeyManager_streamKeyResp_index_r_Payload_0; site_omega

theorem C09_site_KeyManager_streamKeyResp_mapwrite_resp_Messages : site_KeyManager_streamKeyResp_mapwrite_resp_Messages := by
  unfold site_KeyManager_streamKeyResp_mapwrite_resp_Messages; site_omega

theorem C09_site_KeyManager_streamKeyResp_slice_r_Payload_1 : site_KeyManager_streamKeyResp_slice_r_Payload_1 := by
  unfold site_KeyManager_streamKeyResp_slice_r_Payload_1; site_omega

theorem C09_site_KeyManager_streamKeyResp_mapwrite_resp_Messages_2 : site_KeyManager_streamKeyResp_mapwrite_resp_Messages_2 := by
  unfold site_KeyManager_streamKeyResp_mapwrite_resp_Messages_2; site_omega

theorem C09_site_KeyManager_streamKeyResp_mapwrite_resp_Messages_3 : site_KeyManager_streamKeyResp_mapwrite_resp_Messages_3 := by
  unfold site_KeyManager_streamKeyResp_mapwrite_resp_Messages_3; site_omega

theorem C09_site_KeyManager_streamKeyResp_mapwrite_resp_Messages_4 : site_KeyManager_streamKeyResp_mapwrite_resp_Messages_4 := by
  unfold site_KeyManager_streamKeyResp_mapwrite_resp_Messages_4; site_omega

theorem C09_site_pingDelegate_NotifyPingComplete_index_payload_0 : site_pingDelegate_NotifyPingComplete_index_payload_0 := by
  unfold site_pingDelegate_NotifyPingComplete_index_payload_0; site_omega

theorem C09_site_pingDelegate_NotifyPingComplete_slice_payload_1 : site_pingDelegate_NotifyPingComplete_slice_payload_1 := by
  unfold site_pingDelegate_NotifyPingComplete_slice_payload_1; site_omega

theorem C09_site_pingDelegate_NotifyPingComplete_call_Client_Update : site_pingDelegate_NotifyPingComplete_call_Client_Update := by
  unfold site_pingDelegate_NotifyPingComplete_call_Client_Update; site_omega

theorem C09_site_pingDelegate_NotifyPingComplete_call_Coordinate_DistanceTo : site_pingDelegate_NotifyPingComplete_call_Coordinate_DistanceTo := by
  unfold site_pingDelegate_NotifyPingComplete_call_Coordinate_DistanceTo; site_omega

theorem C09_site_pingDelegate_NotifyPingComplete_mapwrite_p_serf_coordCache : site_pingDelegate_NotifyPingComplete_mapwrite_p_serf_coordCache := by
  unfold site_pingDelegate_NotifyPingComplete_mapwrite_p_serf_coordCache; site_omega

theorem C09_site_pingDelegate_NotifyPingComplete_mapwrite_p_serf_coordCache_2 : site_pingDelegate_NotifyPingComplete_mapwrite_p_serf_coordCache_2 := by
  unfold site_pingDelegate_NotifyPingComplete_mapwrite_p_serf_coordCache_2; site_omega

theorem C09_site_mergeDelegate_NotifyMerge_index_members_idx : site_mergeDelegate_NotifyMerge_index_members_idx := by
  unfold site_mergeDelegate_NotifyMerge_index_members_idx; site_omega

theorem C09_site_Client_Update_inv_exit : site_Client_Update_inv_exit := by
  unfold site_Client_Update_inv_exit; site_omega

theorem C09_site_Client_Update_inv_exit_2 : site_Client_Update_inv_exit_2 := by
  unfold site_Client_Update_inv_exit_2; site_omega

theorem C09_site_Client_Update_call_Client_latencyFilter : site_Client_Update_call_Client_latencyFilter := by
  unfold site_Client_Update_call_Client_latencyFilter; site_omega

theorem C09_site_Client_Update_call_Client_updateVivaldi : site_Client_Update_call_Client_updateVivaldi := by
  unfold site_Client_Update_call_Client_updateVivaldi; site_omega

theorem C09_site_Client_Update_call_Client_updateAdjustment : site_Client_Update_call_Client_updateAdjustment := by
  unfold site_Client_Update_call_Client_updateAdjustment; site_omega

theorem C09_site_Client_Update_inv_exit_3 : site_Client_Update_inv_exit_3 := by
  unfold site_Client_Update_inv_exit_3; site_omega

theorem C09_site_Client_Update_ensures_vec : site_Client_Update_ensures_vec := by
  unfold site_Client_Update_ensures_vec; site_omega

theorem C09_site_Client_checkCoordinate_inv_exit : site_Client_checkCoordinate_inv_exit := by
  unfold site_Client_checkCoordinate_inv_exit; site_omega

theorem C09_site_Client_checkCoordinate_inv_exit_2 : site_Client_checkCoordinate_inv_exit_2 := by
  unfold site_Client_checkCoordinate_inv_exit_2; site_omega

theorem C09_site_Client_checkCoordinate_inv_exit_3 : site_Client_checkCoordinate_inv_exit_3 := by
  unfold site_Client_checkCoordinate_inv_exit_3; site_omega

theorem C09_site_Client_checkCoordinate_ensures_ok : site_Client_checkCoordinate_ensures_ok := by
  unfold site_Client_checkCoordinate_ensures_ok; site_omega

theorem C09_site_Client_latencyFilter_slice_samples_1 : site_Client_latencyFilter_slice_samples_1 := by
  unfold site_Client_latencyFilter_slice_samples_1; site_omega

theorem C09_site_Client_latencyFilter_mapwrite_c_latencyFilterSamples : site_Client_latencyFilter_mapwrite_c_latencyFilterSamples := by
  unfold site_Client_latencyFilter_mapwrite_c_latencyFilterSamples; site_omega

theorem C09_site_Client_latencyFilter_index_sorted_len_sorted_2 : site_Client_latencyFilter_index_sorted_len_sorted_2 := by
  unfold site_Client_latencyFilter_index_sorted_len_sorted_2; site_omega

theorem C09_site_Client_latencyFilter_inv_exit : site_Client_latencyFilter_inv_exit := by
  unfold site_Client_latencyFilter_inv_exit; site_omega

theorem C09_site_Client_updateVivaldi_call_Coordinate_DistanceTo : site_Client_updateVivaldi_call_Coordinate_DistanceTo := by
  unfold site_Client_updateVivaldi_call_Coordinate_DistanceTo; site_omega

theorem C09_site_Client_updateVivaldi_call_Coordinate_ApplyForce : site_Client_updateVivaldi_call_Coordinate_ApplyForce := by
  unfold site_Client_updateVivaldi_call_Coordinate_ApplyForce; site_omega

theorem C09_site_Client_updateVivaldi_inv_exit : site_Client_updateVivaldi_inv_exit := by
  unfold site_Client_updateVivaldi_inv_exit; site_omega

theorem C09_site_Client_updateAdjustment_inv_exit : site_Client_updateAdjustment_inv_exit := by
  unfold site_Client_updateAdjustment_inv_exit; site_omega

theorem C09_site_Client_updateAdjustment_call_Coordinate_rawDistanceTo : site_Client_updateAdjustment_call_Coordinate_rawDistanceTo := by
  unfold site_Client_updateAdjustment_call_Coordinate_rawDistanceTo; site_omega

theorem C09_site_Client_updateAdjustment_index_c_adjustmentSamples_c_adjustmentIndex : site_Client_updateAdjustment_index_c_adjustmentSamples_c_adjustmentIndex := by
  unfold site_Client_updateAdjustment_index_c_adjustmentSamples_c_adjustmentIndex; site_omega

theorem C09_site_Client_updateAdjustment_div_c_config_AdjustmentWindowSize : site_Client_updateAdjustment_div_c_config_AdjustmentWindowSize := by
  unfold site_Client_updateAdjustment_div_c_config_AdjustmentWindowSize; site_omega

theorem C09_site_Client_updateAdjustment_inv_exit_2 : site_Client_updateAdjustment_inv_exit_2 := by
  unfold site_Client_updateAdjustment_inv_exit_2
  intro a b c d e i i1 w dim _ hinv hw hi
  have hm : (i + 1) % w < w := Nat.mod_lt _ (by omega)
  refine ⟨hinv.1, hinv.2.1, hinv.2.2.1, hinv.2.2.2.1, hinv.2.2.2.2.1, ?_⟩
  intro _; omega

theorem C09_site_Client_updateGravity_call_Coordinate_DistanceTo : site_Client_updateGravity_call_Coordinate_DistanceTo := by
  unfold site_Client_updateGravity_call_Coordinate_DistanceTo; site_omega

theorem C09_site_Client_updateGravity_call_Coordinate_ApplyForce : site_Client_updateGravity_call_Coordinate_ApplyForce := by
  unfold site_Client_updateGravity_call_Coordinate_ApplyForce; site_omega

theorem C09_site_Client_updateGravity_inv_exit : site_Client_updateGravity_inv_exit := by
  unfold site_Client_updateGravity_inv_exit; site_omega

theorem C09_site_Client_GetCoordinate_inv_exit : site_Client_GetCoordinate_inv_exit := by
  unfold site_Client_GetCoordinate_inv_exit; site_omega

theorem C09_site_Client_GetCoordinate_ensures_vec : site_Client_GetCoordinate_ensures_vec := by
  unfold site_Client_GetCoordinate_ensures_vec; site_omega

theorem C09_site_Coordinate_DistanceTo_panic_ : site_Coordinate_DistanceTo_panic_ := by
  unfold site_Coordinate_DistanceTo_panic_; site_omega

theorem C09_site_Coordinate_DistanceTo_call_Coordinate_rawDistanceTo : site_Coordinate_DistanceTo_call_Coordinate_rawDistanceTo := by
  unfold site_Coordinate_DistanceTo_call_Coordinate_rawDistanceTo; site_omega

theorem C09_site_Coordinate_IsValid_index_c_Vec_i : site_Coordinate_IsValid_index_c_Vec_i := by
  unfold site_Coordinate_IsValid_index_c_Vec_i; site_omega

theorem C09_site_Coordinate_ApplyForce_panic_ : site_Coordinate_ApplyForce_panic_ := by
  unfold site_Coordinate_ApplyForce_panic_; site_omega

theorem C09_site_Coordinate_ApplyForce_call_unitVectorAt : site_Coordinate_ApplyForce_call_unitVectorAt := by
  unfold site_Coordinate_ApplyForce_call_unitVectorAt; site_omega

theorem C09_site_Coordinate_ApplyForce_call_add : site_Coordinate_ApplyForce_call_add := by
  unfold site_Coordinate_ApplyForce_call_add; site_omega

theorem C09_site_Coordinate_ApplyForce_ensures_vec : site_Coordinate_ApplyForce_ensures_vec := by
  unfold site_Coordinate_ApplyForce_ensures_vec; site_omega

theorem C09_site_Coordinate_rawDistanceTo_call_diff : site_Coordinate_rawDistanceTo_call_diff := by
  unfold site_Coordinate_rawDistanceTo_call_diff; site_omega

theorem C09_site_Coordinate_Clone_ensures_vec : site_Coordinate_Clone_ensures_vec := by
  unfold site_Coordinate_Clone_ensures_vec; site_omega

theorem C09_site_coordinate_NewCoordinate_ensures_vec : site_coordinate_NewCoordinate_ensures_vec := by
  unfold site_coordinate_NewCoordinate_ensures_vec; site_omega

theorem C09_site_coordinate_add_index_vec1_i : site_coordinate_add_index_vec1_i := by
  unfold site_coordinate_add_index_vec1_i; site_omega

theorem C09_site_coordinate_add_index_vec2_i : site_coordinate_add_index_vec2_i := by
  unfold site_coordinate_add_index_vec2_i; site_omega

theorem C09_site_coordinate_add_index_ret_i : site_coordinate_add_index_ret_i := by
  unfold site_coordinate_add_index_ret_i; site_omega

theorem C09_site_coordinate_add_ensures_len : site_coordinate_add_ensures_len := by
  unfold site_coordinate_add_ensures_len; site_omega

theorem C09_site_coordinate_diff_index_vec1_i : site_coordinate_diff_index_vec1_i := by
  unfold site_coordinate_diff_index_vec1_i; site_omega

theorem C09_site_coordinate_diff_index_vec2_i : site_coordinate_diff_index_vec2_i := by
  unfold site_coordinate_diff_index_vec2_i; site_omega

theorem C09_site_coordinate_diff_index_ret_i : site_coordinate_diff_index_ret_i := by
  unfold site_coordinate_diff_index_ret_i; site_omega

theorem C09_site_coordinate_diff_ensures_len : site_coordinate_diff_ensures_len := by
  unfold site_coordinate_diff_ensures_len; site_omega

theorem C09_site_coordinate_mul_index_vec_i : site_coordinate_mul_index_vec_i := by
  unfold site_coordinate_mul_index_vec_i; site_omega

theorem C09_site_coordinate_mul_index_ret_i : site_coordinate_mul_index_ret_i := by
  unfold site_coordinate_mul_index_ret_i; site_omega

theorem C09_site_coordinate_mul_ensures_len : site_coordinate_mul_ensures_len := by
  unfold site_coordinate_mul_ensures_len; site_omega

theorem C09_site_coordinate_magnitude_index_vec_i : site_coordinate_magnitude_index_vec_i := by
  unfold site_coordinate_magnitude_index_vec_i; site_omega

theorem C09_site_coordinate_magnitude_index_vec_i_2 : site_coordinate_magnitude_index_vec_i_2 := by
  unfold site_coordinate_magnitude_index_vec_i_2; site_omega

theorem C09_site_coordinate_unitVectorAt_call_diff : site_coordinate_unitVectorAt_call_diff := by
  unfold site_coordinate_unitVectorAt_call_diff; site_omega

theorem C09_site_coordinate_unitVectorAt_ensures_len : site_coordinate_unitVectorAt_ensures_len := by
  unfold site_coordinate_unitVectorAt_ensures_len; site_omega

theorem C09_site_coordinate_unitVectorAt_index_ret_i : site_coordinate_unitVectorAt_index_ret_i := by
  unfold site_coordinate_unitVectorAt_index_ret_i; site_omega

theorem C09_site_coordinate_unitVectorAt_index_ret_i_2 : site_coordinate_unitVectorAt_index_ret_i_2 := by
  unfold site_coordinate_unitVectorAt_index_ret_i_2; site_omega

theorem C09_site_coordinate_unitVectorAt_ensures_len_2 : site_coordinate_unitVectorAt_ensures_len_2 := by
  unfold site_coordinate_unitVectorAt_ensures_len_2; site_omega

theorem C09_site_coordinate_unitVectorAt_index_ret_0 : site_coordinate_unitVectorAt_index_ret_0 := by
  unfold site_coordinate_unitVectorAt_index_ret_0; site_omega

theorem C09_site_coordinate_unitVectorAt_ensures_len_3 : site_coordinate_unitVectorAt_ensures_len_3 := by
  unfold site_coordinate_unitVectorAt_ensures_len_3; site_omega

/-- every panic site the extractor lists is safe under its path condition -/
theorem C09_all_sites : allSites :=
  ⟨C09_site_delegate_NodeMeta_panic_,
   C09_site_delegate_NotifyMsg_index_buf_0,
   C09_site_delegate_NotifyMsg_slice_buf_1,
   C09_site_delegate_NotifyMsg_slice_buf_1_2,
   C09_site_delegate_NotifyMsg_slice_buf_1_3,
   C09_site_delegate_NotifyMsg_slice_buf_1_4,
   C09_site_delegate_NotifyMsg_slice_buf_1_5,
   C09_site_delegate_NotifyMsg_slice_buf_1_6,
   C09_site_delegate_LocalState_mapwrite_pp_StatusLTimes,
   C09_site_delegate_MergeRemoteState_index_buf_0,
   C09_site_delegate_MergeRemoteState_index_buf_0_2,
   C09_site_delegate_MergeRemoteState_slice_buf_1,
   C09_site_delegate_MergeRemoteState_mapwrite_leftMap,
   C09_site_delegate_MergeRemoteState_assert_d_serf_eventJoinIgnore_Load,
   C09_site_delegate_MergeRemoteState_deref_events,
   C09_site_Serf_handleNodeLeaveIntent_call_upsertIntent,
   C09_site_Serf_handleNodeLeaveIntent_deref_member,
   C09_site_Serf_handleNodeJoinIntent_call_upsertIntent,
   C09_site_Serf_handleNodeJoinIntent_deref_member,
   C09_site_Serf_handleUserEvent_div_LamportTime_len_s_eventBuffer,
   C09_site_Serf_handleUserEvent_index_s_eventBuffer_idx,
   C09_site_Serf_handleUserEvent_deref_seen,
   C09_site_Serf_handleUserEvent_deref_seen_2,
   C09_site_Serf_handleUserEvent_index_s_eventBuffer_idx_2,
   C09_site_Serf_handleUserEvent_deref_seen_3,
   C09_site_Serf_handleQuery_div_LamportTime_len_s_queryBuffer,
   C09_site_Serf_handleQuery_index_s_queryBuffer_idx,
   C09_site_Serf_handleQuery_deref_seen,
   C09_site_Serf_handleQuery_deref_seen_2,
   C09_site_Serf_handleQuery_index_s_queryBuffer_idx_2,
   C09_site_Serf_handleQuery_deref_seen_3,
   C09_site_Serf_handleQueryResponse_deref_query,
   C09_site_Serf_handleNodeJoin_deref_member,
   C09_site_Serf_handleNodeJoin_deref_member_2,
   C09_site_Serf_handleNodeJoin_mapwrite_s_members,
   C09_site_Serf_handleNodeJoin_deref_member_3,
   C09_site_Serf_handleNodeJoin_deref_member_4,
   C09_site_Serf_handleNodeLeave_deref_member,
   C09_site_Serf_handleNodeLeave_call_MemberStatus_String,
   C09_site_Serf_handleNodeUpdate_deref_member,
   C09_site_Serf_resolveNodeConflict_index_r_Payload_0,
   C09_site_Serf_resolveNodeConflict_slice_r_Payload_1,
   C09_site_Serf_decodeTags_index_buf_0,
   C09_site_Serf_decodeTags_mapwrite_tags,
   C09_site_Serf_decodeTags_slice_buf_1,
   C09_site_Serf_encodeTags_panic_,
   C09_site_serf_removeOldMember_index_old_n_1,
   C09_site_serf_removeOldMember_index_old_i,
   C09_site_serf_removeOldMember_index_old_n_1_2,
   C09_site_serf_removeOldMember_slice_old_n_1,
   C09_site_serf_upsertIntent_mapwrite_intents,
   C09_site_Serf_shouldProcessQuery_index_filter_0,
   C09_site_Serf_shouldProcessQuery_slice_filter_1,
   C09_site_Serf_shouldProcessQuery_slice_filter_1_2,
   C09_site_Serf_shouldProcessQuery_index_filter_0_2,
   C09_site_serf_kRandomMembers_call_rand_Intn,
   C09_site_serf_kRandomMembers_index_members_idx,
   C09_site_serf_kRandomMembers_index_kMembers_j,
   C09_site_QueryResponse_sendAck_mapwrite_r_acks,
   C09_site_QueryResponse_sendResponse_mapwrite_r_responses,
   C09_site_serfQueries_handleQuery_slice_q_Name_len_InternalQueryPrefix,
   C09_site_serfQueries_handleConflict_deref_member,
   C09_site_serfQueries_keyListResponseWithCorrectSize_loopinv_init_resp_Keys,
   C09_site_serfQueries_keyListResponseWithCorrectSize_loopinv_step_resp_Keys,
   C09_site_serfQueries_keyListResponseWithCorrectSize_slice_resp_Keys_0_i,
   C09_site_serfQueries_handleInstallKey_slice_q_Payload_1,
   C09_site_serfQueries_handleUseKey_slice_q_Payload_1,
   C09_site_serfQueries_handleRemoveKey_slice_q_Payload_1,
   C09_site_KeyManager_streamKeyResp_index_r_Payload_0,
   C09_site_KeyManager_streamKeyResp_mapwrite_resp_Messages,
   C09_site_KeyManager_streamKeyResp_slice_r_Payload_1,
   C09_site_KeyManager_streamKeyResp_mapwrite_resp_Messages_2,
   C09_site_KeyManager_streamKeyResp_mapwrite_resp_Messages_3,
   C09_site_KeyManager_streamKeyResp_mapwrite_resp_Messages_4,
   C09_site_pingDelegate_NotifyPingComplete_index_payload_0,
   C09_site_pingDelegate_NotifyPingComplete_slice_payload_1,
   C09_site_pingDelegate_NotifyPingComplete_call_Client_Update,
   C09_site_pingDelegate_NotifyPingComplete_call_Coordinate_DistanceTo,
   C09_site_pingDelegate_NotifyPingComplete_mapwrite_p_serf_coordCache,
   C09_site_pingDelegate_NotifyPingComplete_mapwrite_p_serf_coordCache_2,
   C09_site_mergeDelegate_NotifyMerge_index_members_idx,
   C09_site_Client_Update_inv_exit,
   C09_site_Client_Update_inv_exit_2,
   C09_site_Client_Update_call_Client_latencyFilter,
   C09_site_Client_Update_call_Client_updateVivaldi,
   C09_site_Client_Update_call_Client_updateAdjustment,
   C09_site_Client_Update_inv_exit_3,
   C09_site_Client_Update_ensures_vec,
   C09_site_Client_checkCoordinate_inv_exit,
   C09_site_Client_checkCoordinate_inv_exit_2,
   C09_site_Client_checkCoordinate_inv_exit_3,
   C09_site_Client_checkCoordinate_ensures_ok,
   C09_site_Client_latencyFilter_slice_samples_1,
   C09_site_Client_latencyFilter_mapwrite_c_latencyFilterSamples,
   C09_site_Client_latencyFilter_index_sorted_len_sorted_2,
   C09_site_Client_latencyFilter_inv_exit,
   C09_site_Client_updateVivaldi_call_Coordinate_DistanceTo,
   C09_site_Client_updateVivaldi_call_Coordinate_ApplyForce,
   C09_site_Client_updateVivaldi_inv_exit,
   C09_site_Client_updateAdjustment_inv_exit,
   C09_site_Client_updateAdjustment_call_Coordinate_rawDistanceTo,
   C09_site_Client_updateAdjustment_index_c_adjustmentSamples_c_adjustmentIndex,
   C09_site_Client_updateAdjustment_div_c_config_AdjustmentWindowSize,
   C09_site_Client_updateAdjustment_inv_exit_2,
   C09_site_Client_updateGravity_call_Coordinate_DistanceTo,
   C09_site_Client_updateGravity_call_Coordinate_ApplyForce,
   C09_site_Client_updateGravity_inv_exit,
   C09_site_Client_GetCoordinate_inv_exit,
   C09_site_Client_GetCoordinate_ensures_vec,
   C09_site_Coordinate_DistanceTo_panic_,
   C09_site_Coordinate_DistanceTo_call_Coordinate_rawDistanceTo,
   C09_site_Coordinate_IsValid_index_c_Vec_i,
   C09_site_Coordinate_ApplyForce_panic_,
   C09_site_Coordinate_ApplyForce_call_unitVectorAt,
   C09_site_Coordinate_ApplyForce_call_add,
   C09_site_Coordinate_ApplyForce_ensures_vec,
   C09_site_Coordinate_rawDistanceTo_call_diff,
   C09_site_Coordinate_Clone_ensures_vec,
   C09_site_coordinate_NewCoordinate_ensures_vec,
   C09_site_coordinate_add_index_vec1_i,
   C09_site_coordinate_add_index_vec2_i,
   C09_site_coordinate_add_index_ret_i,
   C09_site_coordinate_add_ensures_len,
   C09_site_coordinate_diff_index_vec1_i,
   C09_site_coordinate_diff_index_vec2_i,
   C09_site_coordinate_diff_index_ret_i,
   C09_site_coordinate_diff_ensures_len,
   C09_site_coordinate_mul_index_vec_i,
   C09_site_coordinate_mul_index_ret_i,
   C09_site_coordinate_mul_ensures_len,
   C09_site_coordinate_magnitude_index_vec_i,
   C09_site_coordinate_magnitude_index_vec_i_2,
   C09_site_coordinate_unitVectorAt_call_diff,
   C09_site_coordinate_unitVectorAt_ensures_len,
   C09_site_coordinate_unitVectorAt_index_ret_i,
   C09_site_coordinate_unitVectorAt_index_ret_i_2,
   C09_site_coordinate_unitVectorAt_ensures_len_2,
   C09_site_coordinate_unitVectorAt_index_ret_0,
   C09_site_coordinate_unitVectorAt_ensures_len_3⟩

end SerfProofs.C09
