/-
C03 — A running member always lists itself as alive and refutes every newer leave claim.

Model: `SerfModel.Node` (serf/serf.go: `handleNodeLeaveIntent`, `handleNodeJoinIntent`,
`broadcastJoin`, `forceLeave`; serf/delegate.go: `MergeRemoteState`): one node's membership state
machine.  `step n op` applies one input; `run` folds `step`.  A refuting join is the goroutine
`go s.broadcastJoin(s.clock.Time())`: the Lamport time is evaluated when the goroutine is spawned
(after the claim's time was witnessed), so the model records it in `pending` at that point and the
input `runPending` is the scheduler running the oldest spawned goroutine.

Proved here
  * `C03_self_alive`: from a state in which the node is running (`life = alive`) and lists itself
    as alive, after ANY sequence of inputs that contains no start of a leave (`Leave()`,
    `Shutdown()`, memberlist reporting the local node dead, which memberlist only does from inside
    `Leave`), the node is still running and still lists itself as alive.  The inputs include every
    gossip join / leave / prune claim about any name (the own one too), push/pull merges that list
    the node as left, force-leaves of the own name, own joins, reaper ticks, scheduler steps.
    The invariant is `SelfInv` (`SerfProofs.NodeSelf`) next to the bookkeeping invariant `BookInv`
    (C15); the latter is what keeps the reaper away: an alive member is on neither list.
  * `C03_refutes_gossip` / `C03_refutes_forceLeave` / `C03_refutes_merge` (+ `_single`): a leave
    claim about the running local node with a Lamport time newer than its stored own time - by
    gossip (with or without prune), by a local force-leave of the own name, by a merge listing the
    node as left - leaves the member map as it is, is not re-queued, and spawns a join whose time
    is strictly greater than the claim's time (claim time `< 2^64 - 1`).
  * `C03_pending_runs`, `C03_pending_kept`: the spawned join, when run, queues exactly
    `join self t`; no other input removes or changes a spawned join.
  * `C03_refutes`: claim, then scheduler: `join self t` with `t` greater than the claim is queued.
  * `C03_claim_max_wraps` (`_any`): the excluded input `lt = 2^64 - 1`: the uint64 clock wraps and the
    refuting join carries time 0 (this belongs to the C19 clock-wrap finding).
-/
import SerfProofs.Lemmas.NodeSelf
namespace SerfProofs.C03
open SerfModel SerfModel.Node SerfProofs.NodeBook SerfProofs.NodeSelf

/-- what the node lists about itself -/
def selfStatus (n : Node) : Option Status := statusOf n n.name

/-- the operations by which the member begins leaving: `Leave()`, `Shutdown()`, and memberlist
reporting the local node dead (memberlist does that only from inside `Leave`) -/
def departs (self : Name) : Op → Bool
  | .leaveBegin _ => true
  | .shutdown => true
  | .nodeLeave x _ => x == self
  | _ => false

theorem departs_eq (self : Name) (op : Op) : departs self op = NodeSelf.departs self op := by
  cases op <;> rfl

/-! ### the member always lists itself as alive -/

/-- one input that is not the start of a leave keeps "running, own name kept, lists itself alive" -/
theorem C03_self_alive_step (n : Node) (op : Op) (hb : BookInv n) (hl : n.life = .alive)
    (hs : selfStatus n = some .alive) (hop : departs n.name op = false) :
    (step n op).1.name = n.name ∧ selfStatus (step n op).1 = some .alive ∧ (step n op).1.life = .alive := by
  have h := self_step n.name n op hb ⟨rfl, hl, hs⟩ (by rw [← departs_eq]; exact hop)
  refine ⟨h.name, ?_, h.life⟩
  unfold selfStatus
  rw [h.name]
  exact h.status

-- Witness: a prune claim about the own name with a newer time is such an input.
example : BookInv (Node.init "self" {}) ∧ (Node.init "self" {}).life = .alive ∧
    selfStatus (Node.init "self" {}) = some .alive ∧
    departs (Node.init "self" {}).name (.leaveMsg "self" 7 true 0) = false :=
  ⟨inv_init _ _, by decide, by decide, by decide⟩

/-- while the member has not begun leaving it lists itself as alive, whatever it receives -/
theorem C03_self_alive (n : Node) (ops : List Op) (hb : BookInv n) (hl : n.life = .alive)
    (hs : selfStatus n = some .alive) (hops : ∀ op ∈ ops, departs n.name op = false) :
    selfStatus (run n ops) = some .alive ∧ (run n ops).life = .alive := by
  have h := self_run n.name ops n hb ⟨rfl, hl, hs⟩ (fun op ho => by rw [← departs_eq]; exact hops op ho)
  refine ⟨?_, h.life⟩
  unfold selfStatus
  rw [h.name]
  exact h.status

/-- A hostile run used by the witnesses: leave and prune claims about "self" by gossip, a merge
that lists "self" as left, force-leaves of "self", a reaper tick far in the future, and the
scheduler running the refutations in between. -/
def attack : List Op :=
  [.nodeJoin "b", .leaveMsg "self" 5 false 0, .leaveMsg "self" 9 true 0, .runPending 0,
   .merge 3 [("self", 20), ("b", 1)] ["self", "b"] 0, .forceLeave "self" true 0, .forceLeave "self" false 0,
   .reap 1000 (fun _ t => t), .runPending 0, .runPending 0, .nodeLeave "b" 7, .runPending 0, .leaveEnd]

example : ∀ op ∈ attack, departs (Node.init "self" {}).name op = false := by decide
example : selfStatus (run (Node.init "self" {}) attack) = some .alive ∧
    (run (Node.init "self" {}) attack).life = .alive :=
  C03_self_alive _ attack (inv_init _ _) (by decide) (by decide) (by decide)
-- the hypothesis is needed: after Leave() the own leave intent is applied
example : selfStatus (run (Node.init "self" {}) [.leaveBegin 0]) = some .leaving := by decide

/-! ### newer claims are refuted -/

/-- a gossip leave claim (with or without prune) about the running local node with a newer time:
status untouched, not re-queued, and a refuting join is spawned whose time is fixed now and is
strictly greater than the claim -/
theorem C03_refutes_gossip (n : Node) (lt wall t0 : Nat) (prune : Bool) (hl : n.life = .alive)
    (h0 : ltimeOf n n.name = some t0) (hnew : t0 < lt) (hmax : lt < two64 - 1) :
    ∃ t, (handleLeaveIntent n n.name lt prune wall).1.pending = n.pending ++ [t] ∧ lt < t ∧
      (handleLeaveIntent n n.name lt prune wall).1.members = n.members ∧
      (handleLeaveIntent n n.name lt prune wall).2.rebroadcast = false := by
  rw [hli_self_newer n lt wall t0 prune hl h0 hnew]
  exact ⟨witness n.clock lt, rfl, lt_witness _ _ hmax, rfl, rfl⟩

example : (Node.init "self" {}).life = .alive ∧ ltimeOf (Node.init "self" {}) (Node.init "self" {}).name = some 0 ∧
    (0 : Nat) < 7 ∧ 7 < two64 - 1 := by decide
example : (handleLeaveIntent (Node.init "self" {}) "self" 7 true 0).1.pending = [8] ∧
    (handleLeaveIntent (Node.init "self" {}) "self" 7 true 0).1.members = (Node.init "self" {}).members := by decide

/-- the same for a local force-leave (with or without prune) of the own name; the claim time is
the clock value `forceLeave` reads -/
theorem C03_refutes_forceLeave (n : Node) (wall t0 : Nat) (prune : Bool) (hl : n.life = .alive)
    (h0 : ltimeOf n n.name = some t0) (hnew : t0 < n.clock) (hmax : n.clock < two64 - 1) :
    ∃ t, (forceLeave n n.name prune wall).1.pending = n.pending ++ [t] ∧ n.clock < t ∧
      (forceLeave n n.name prune wall).1.members = n.members := by
  unfold forceLeave
  dsimp only
  have h := hli_self_newer { n with clock := (n.clock + 1) % two64 } n.clock wall t0 prune hl h0 hnew
  dsimp only at h
  rw [h]
  exact ⟨witness ((n.clock + 1) % two64) n.clock, rfl, lt_witness _ _ hmax, rfl⟩

example : ltimeOf (Node.init "self" {}) (Node.init "self" {}).name = some 0 ∧
    (0 : Nat) < (Node.init "self" {}).clock ∧ (Node.init "self" {}).clock < two64 - 1 := by decide
example : (forceLeave (Node.init "self" {}) "self" true 0).1.pending = [2] ∧
    (Node.init "self" {}).clock = 1 ∧ (forceLeave (Node.init "self" {}) "self" true 0).2.queued = [] := by decide

/-- the same when a push/pull merge lists the local node among the left members (together with
any other names): the claim time is `mergeClaim status self = StatusLTimes[self] + 1`; after the
whole merge a join with a greater time is pending and the own record is what it was -/
theorem C03_refutes_merge (n : Node) (lt wall t0 : Nat) (status : List (Name × Nat)) (left : List Name)
    (hl : n.life = .alive) (hmem : n.name ∈ left) (h0 : ltimeOf n n.name = some t0)
    (hnew : t0 < mergeClaim status n.name) (hmax : mergeClaim status n.name < two64 - 1) :
    (∃ t ∈ (merge n lt status left wall).1.pending, mergeClaim status n.name < t) ∧
    (∃ extra, (merge n lt status left wall).1.pending = n.pending ++ extra) ∧
    alookup (merge n lt status left wall).1.members n.name = alookup n.members n.name := by
  rw [merge_eq]
  dsimp only
  rw [mergeJoins_pending]
  have hn := mergeStart_name n lt
  have hlk : alookup (mergeStart n lt).members n.name = alookup n.members n.name := by
    rw [mergeStart_members]
  refine ⟨?_, ?_, ?_⟩
  · have := mergeLefts_refutes status wall t0 left (mergeStart n lt)
      (by rw [mergeStart_life]; exact hl) (by rw [hn]; exact hmem)
      (by rw [hn]; unfold ltimeOf; rw [hlk]; exact h0) (by rw [hn]; exact hnew) (by rw [hn]; exact hmax)
    rw [hn] at this
    exact this
  · have := mergeLefts_pending status wall left (mergeStart n lt)
    rw [mergeStart_pending] at this
    exact this
  · rw [mergeJoins_lookup_of_mem_left left wall status n.name hmem]
    have := mergeLefts_self_lookup status wall left (mergeStart n lt) (by rw [mergeStart_life]; exact hl)
    rw [hn] at this
    rw [this, hlk]

example : (Node.init "self" {}).name ∈ ["b", "self"] ∧ mergeClaim [("self", 20), ("b", 1)] "self" = 21 := by decide
example : (merge (Node.init "self" {}) 3 [("self", 20), ("b", 1)] ["b", "self"] 0).1.pending = [22] ∧
    statusOf (merge (Node.init "self" {}) 3 [("self", 20), ("b", 1)] ["b", "self"] 0).1 "self" = some .alive := by
  decide

/-- the merge lists exactly the local node as left: exactly one join is spawned -/
theorem C03_refutes_merge_single (n : Node) (lt wall t0 : Nat) (status : List (Name × Nat))
    (hl : n.life = .alive) (h0 : ltimeOf n n.name = some t0)
    (hnew : t0 < mergeClaim status n.name) (hmax : mergeClaim status n.name < two64 - 1) :
    ∃ t, (merge n lt status [n.name] wall).1.pending = n.pending ++ [t] ∧ mergeClaim status n.name < t := by
  rw [merge_eq]
  dsimp only
  rw [mergeJoins_pending]
  have hn := mergeStart_name n lt
  have h := hli_self_newer (mergeStart n lt) (mergeClaim status n.name) wall t0 false
    (by rw [mergeStart_life]; exact hl)
    (by rw [hn]; unfold ltimeOf; rw [mergeStart_members]; exact h0) hnew
  rw [hn] at h
  unfold mergeClaim at h hmax ⊢
  simp only [mergeLefts]
  rw [h]
  dsimp only
  rw [mergeStart_pending]
  exact ⟨_, rfl, lt_witness _ _ hmax⟩

example : (merge (Node.init "self" {}) 3 [("self", 20)] ["self"] 0).1.pending = [22] := by decide

/-! ### the spawned join is broadcast -/

/-- the spawned join, when the scheduler runs it, queues exactly `join self t` -/
theorem C03_pending_runs (n : Node) (t : Nat) (rest : List Nat) (wall : Nat) (hp : n.pending = t :: rest) :
    (runPending n wall).2.queued = [Msg.join n.name t] ∧ (runPending n wall).1.pending = rest :=
  runPending_cons n t rest wall hp

example : (runPending (handleLeaveIntent (Node.init "self" {}) "self" 7 true 0).1 0).2.queued = [Msg.join "self" 8] := by
  decide

/-- nothing that happens in between can cancel or change a spawned refutation: every other input
keeps the pending list as a prefix -/
theorem C03_pending_kept (n : Node) (op : Op) (h : ∀ w, op ≠ .runPending w) :
    ∃ extra, (step n op).1.pending = n.pending ++ extra :=
  pending_step n op h

example : ∀ w, Op.shutdown ≠ .runPending w := by intro w h; cases h

/-- end to end: claim, then the scheduler runs the goroutine: a join of the local node with a time
greater than the claim is queued -/
theorem C03_refutes (n : Node) (lt wall w2 t0 : Nat) (prune : Bool) (hl : n.life = .alive) (hp : n.pending = [])
    (h0 : ltimeOf n n.name = some t0) (hnew : t0 < lt) (hmax : lt < two64 - 1) :
    ∃ t, lt < t ∧ (runPending (handleLeaveIntent n n.name lt prune wall).1 w2).2.queued = [Msg.join n.name t] := by
  obtain ⟨t, hpend, hlt, _, _⟩ := C03_refutes_gossip n lt wall t0 prune hl h0 hnew hmax
  rw [hp] at hpend
  have h := (C03_pending_runs (handleLeaveIntent n n.name lt prune wall).1 t [] w2 hpend).1
  rw [hli_name] at h
  exact ⟨t, hlt, h⟩

example : (Node.init "self" {}).pending = [] := by decide

/-- the boundary: a claim at the largest uint64 wraps the clock; the refuting join carries time 0,
which is NOT newer than the claim (recorded with the C19 clock-wrap finding) -/
theorem C03_claim_max_wraps :
    (handleLeaveIntent (Node.init "self" {}) "self" (two64 - 1) false 0).1.pending = [0] := by decide

/-- the same on any running node whose clock has not passed the claim: the spawned join has time 0 -/
theorem C03_claim_max_wraps_any (n : Node) (wall t0 : Nat) (prune : Bool) (hl : n.life = .alive)
    (h0 : ltimeOf n n.name = some t0) (hnew : t0 < two64 - 1) (hc : n.clock ≤ two64 - 1) :
    (handleLeaveIntent n n.name (two64 - 1) prune wall).1.pending = n.pending ++ [0] := by
  rw [hli_self_newer n (two64 - 1) wall t0 prune hl h0 hnew]
  have hw : witness n.clock (two64 - 1) = 0 := by
    unfold witness
    rw [if_neg (by omega)]
    decide
  dsimp only
  rw [hw]

/-! ### over whole histories of a freshly created node (no invariant hypothesis left) -/

/-- **While a member has not begun leaving it always lists itself as alive** — for every history
from `Create` (any name, configuration) that contains no Leave, Shutdown or memberlist death notice of
the local node; every gossip / merge / force-leave / prune claim about it, every reaper tick and
every scheduling of the refuting goroutine is allowed.  `BookInv` is discharged by C15. -/
theorem C03_history_self_alive (name : Name) (cfg : Config) (ops : List Op)
    (hops : ∀ op ∈ ops, departs name op = false) :
    selfStatus (run (Node.init name cfg) ops) = some .alive ∧ (run (Node.init name cfg) ops).life = .alive := by
  apply C03_self_alive (Node.init name cfg) ops (SerfProofs.NodeBook.inv_init name cfg) rfl _ hops
  simp [selfStatus, statusOf, Node.init, alookup_cons]

/-- at every point of such a history (every prefix) -/
theorem C03_history_self_alive_prefix (name : Name) (cfg : Config) (ops : List Op) (k : Nat)
    (hops : ∀ op ∈ ops, departs name op = false) :
    selfStatus (run (Node.init name cfg) (ops.take k)) = some .alive :=
  (C03_history_self_alive name cfg (ops.take k) (fun op ho => hops op (List.mem_of_mem_take ho))).1

example : selfStatus (run (Node.init "self" {}) [.leaveMsg "self" 7 true 0, .runPending 0, .forceLeave "self" true 0,
    .merge 3 [("self", 40)] ["self"] 0, .reap 1000 (fun _ t => t), .runPending 0, .runPending 0]) = some .alive := by decide

end SerfProofs.C03
