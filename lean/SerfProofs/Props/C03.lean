import SerfProofs.Lemmas.Assoc
import SerfModel.Model.Node
namespace SerfProofs.C03
theorem C03_placeholder : True := trivial
end SerfProofs.C03
