/-
C20 — The network coordinate stays valid whatever peers report.

Model: SerfModel/Model/Coord.lean (coordinate/client.go, coordinate/coordinate.go, serf/ping_delegate.go),
polymorphic over `FloatLike F`.  All theorems hold for EVERY `FloatLike` instance that satisfies the listed
laws; `C20_valid_and_dimension`, `C20_reject_unchanged`, `C20_acceptable_iff` and the cache theorems need only
"0.0 is finite" — the invariant does not depend on what the arithmetic produced, because every Update ends in
`IsValid` or a reset.  The height bound needs `math.Max`'s contract, the error bound the sign / unit-interval laws
(`LawfulFloatLike`, all proved for the exact instance `ERat` in Lemmas/ERatLaws.lean, assumed for IEEE doubles).

Histories: arbitrary lists of operations (Update with arbitrary peer coordinates, round-trip times and random
oracle, SetCoordinate, ForgetNode) from a freshly created client.  Randomness is the oracle argument `rnd`.
-/
import SerfProofs.Lemmas.Coord
import SerfProofs.Lemmas.ERatLaws
import SerfModel.Gen.CoordGuards
namespace SerfProofs.C20
open SerfModel SerfModel.Coord FloatLike

variable {F : Type} [FloatLike F]

/-- one round-trip observation: who, the coordinate the peer reported, the measured rtt (ns), and the values the
random source would return -/
structure Obs (F : Type) where
  node : String
  other : Coordinate F
  rttNs : Int
  rnd : List F

inductive Op (F : Type) where
  | observe (o : Obs F)
  | set (c : Coordinate F)
  | forget (node : String)

def applyOp (cfg : Config F) (cl : Client F) : Op F → Client F
  | .observe o => (update cfg cl o.node o.other o.rttNs o.rnd).1
  | .set c => (setCoordinate cl c).1
  | .forget n => forgetNode cl n

def run (cfg : Config F) (cl : Client F) (ops : List (Op F)) : Client F := ops.foldl (applyOp cfg) cl

/-- the configuration is sane: this is the application's choice (serf uses `DefaultConfig`), not a peer's -/
structure CfgOK (cfg : Config F) : Prop where
  errorMax_finite : finite cfg.errorMax = true
  heightMin_finite : finite cfg.heightMin = true
  errorMax_nonneg : le (zero : F) cfg.errorMax = true
  ce_nonneg : le (zero : F) cfg.ce = true
  ce_le_one : le cfg.ce (one : F) = true
  filter_pos : 0 < cfg.latencyFilterSize

/-- the observation is well-formed: same dimension, all components finite, 0 ≤ rtt ≤ 10 s -/
def acceptable (cl : Client F) (o : Coordinate F) (rttNs : Int) : Prop :=
  cl.coord.vec.length = o.vec.length ∧ isValid o = true ∧ 0 ≤ rttNs ∧ rttNs ≤ 10000000000

/-! ## 1. finite and of the configured dimension, for all histories (no arithmetic laws) -/

def Inv (cfg : Config F) (cl : Client F) : Prop := isValid cl.coord = true ∧ cl.coord.vec.length = cfg.dim

theorem inv_applyOp [LawfulFloatLike F] (cfg : Config F) (hc : CfgOK cfg) (cl : Client F) (h : Inv cfg cl)
    (op : Op F) : Inv cfg (applyOp cfg cl op) := by
  cases op with
  | observe o =>
    simp only [applyOp]
    rcases update_cases cfg cl o.node o.other o.rttNs o.rnd with ⟨r, _, hu⟩ | ⟨_, _, hu, _⟩ | ⟨hr, _, rtt, _, hu⟩
    · rw [hu]; exact h
    · unfold Inv; rw [hu]; exact h
    · have hcomp := (rejection_none_compat hr).1
      rcases hu with ⟨hu, hv⟩ | ⟨hu, _⟩
      · unfold Inv; rw [hu]
        exact ⟨hv, stepped_vec_length cfg cl o.node o.other o.rttNs o.rnd rtt hcomp h.2⟩
      · unfold Inv; rw [hu]
        exact ⟨isValid_newCoordinate cfg hc.errorMax_finite hc.heightMin_finite, newCoordinate_length cfg⟩
  | set c =>
    simp only [applyOp, setCoordinate]
    cases hk : checkCoordinate cl c with
    | some r => exact h
    | none =>
      simp only [Inv]
      unfold checkCoordinate isCompatibleWith at hk
      by_cases h1 : cl.coord.vec.length = c.vec.length
      · by_cases h2 : isValid c = true
        · exact ⟨h2, by rw [← h1]; exact h.2⟩
        · simp [h1, h2] at hk
      · simp [h1] at hk
  | forget n => exact h

/-- **C20 (validity, dimension).** After any history of operations on a fresh client — whatever coordinates, round-trip
times and random draws — the coordinate has only finite components and the configured number of dimensions. -/
theorem C20_valid_and_dimension [LawfulFloatLike F] (cfg : Config F) (hc : CfgOK cfg) (cl0 : Client F)
    (h0 : newClient cfg = some cl0) (ops : List (Op F)) :
    isValid (run cfg cl0 ops).coord = true ∧ (run cfg cl0 ops).coord.vec.length = cfg.dim := by
  have hinit : Inv cfg cl0 := by
    unfold newClient at h0
    split at h0
    · cases h0
    · cases h0
      exact ⟨isValid_newCoordinate cfg hc.errorMax_finite hc.heightMin_finite, newCoordinate_length cfg⟩
  suffices ∀ cl, Inv cfg cl → Inv cfg (run cfg cl ops) from this cl0 hinit
  induction ops with
  | nil => intro cl h; exact h
  | cons op ops ih => intro cl h; exact ih _ (inv_applyOp cfg hc cl h op)

/-! ## 2. height ≥ HeightMin and 0 ≤ error ≤ ErrorMax -/

/-- peers report non-negative errors; coordinates installed by the application (SetCoordinate) respect the bounds -/
def OpOK (cfg : Config F) : Op F → Prop
  | .observe o => le (zero : F) o.other.error = true
  | .set c => le cfg.heightMin c.height = true ∧ le (zero : F) c.error = true ∧ le c.error cfg.errorMax = true
  | .forget _ => True

def Bounds (cfg : Config F) (cl : Client F) : Prop :=
  le cfg.heightMin cl.coord.height = true ∧ le (zero : F) cl.coord.error = true ∧
    le cl.coord.error cfg.errorMax = true

theorem nn_clampedRtt [LawfulFloatLike F] (rtt : F) :
    NN (if lt rtt (zeroThreshold : F) then (zeroThreshold : F) else rtt) := by
  cases hl : lt rtt (zeroThreshold : F) with
  | true => simp only [if_true]; exact NN_thr
  | false =>
    simp only [Bool.false_eq_true, if_false]
    cases hn : isNaN rtt with
    | true => exact Or.inl hn
    | false =>
      have hthr : isNaN (zeroThreshold : F) = false := (LawfulFloatLike.lt_not_nan _ _ (LawfulFloatLike.thr_pos (F := F))).2
      have h1 : le (zeroThreshold : F) rtt = true := LawfulFloatLike.le_of_not_lt _ _ hthr hn hl
      exact Or.inr (LawfulFloatLike.le_trans _ _ _ (LawfulFloatLike.le_of_lt _ _ LawfulFloatLike.thr_pos) h1)

theorem bounds_newCoordinate [LawfulFloatLike F] (cfg : Config F) (hc : CfgOK cfg) :
    le cfg.heightMin (newCoordinate cfg).height = true ∧ le (zero : F) (newCoordinate cfg).error = true ∧
      le (newCoordinate cfg).error cfg.errorMax = true :=
  ⟨LawfulFloatLike.le_refl _ (finite_not_nan hc.heightMin_finite), hc.errorMax_nonneg,
    LawfulFloatLike.le_refl _ (finite_not_nan hc.errorMax_finite)⟩

theorem bounds_applyOp [LawfulFloatLike F] (cfg : Config F) (hc : CfgOK cfg) (cl : Client F)
    (hb : Bounds cfg cl) (op : Op F) (hop : OpOK cfg op) : Bounds cfg (applyOp cfg cl op) := by
  cases op with
  | observe o =>
    simp only [applyOp]
    rcases update_cases cfg cl o.node o.other o.rttNs o.rnd with ⟨r, _, hu⟩ | ⟨_, _, hu, _⟩ | ⟨hr, _, rtt, _, hu⟩
    · rw [hu]; exact hb
    · unfold Bounds; rw [hu]; exact hb
    · rcases hu with ⟨hu, hv⟩ | ⟨hu, _⟩
      · unfold Bounds; rw [hu]
        have hh := stepped_height cfg cl o.node o.other o.rttNs o.rnd rtt (finite_not_nan hc.heightMin_finite) (Or.inr hb.1)
        have hhn := isValid_height hv
        have hen := isValid_error hv
        have he := vivaldiError_bounds cfg cl.coord.error o.other.error (durSeconds (distanceNs cl.coord o.other))
          (if lt rtt (zeroThreshold : F) then (zeroThreshold : F) else rtt)
          hc.ce_nonneg hc.ce_le_one hc.errorMax_nonneg hb.2.1 hop (nn_clampedRtt rtt)
        rw [← stepped_error cfg cl o.node o.other o.rttNs o.rnd rtt] at he
        refine ⟨?_, ?_⟩
        · rcases hh with h | h
          · rw [hhn] at h; cases h
          · exact h
        · rcases he with h | h
          · rw [hen] at h; cases h
          · exact h
      · unfold Bounds; rw [hu]; exact bounds_newCoordinate cfg hc
  | set c =>
    simp only [applyOp, setCoordinate]
    cases hk : checkCoordinate cl c with
    | some r => exact hb
    | none => exact hop
  | forget n => exact hb

/-- **C20 (height and error bounds).** After any history in which peers report non-negative errors (and the
application only installs in-range coordinates), the height is at least HeightMin and the error estimate lies in
[0, VivaldiErrorMax] — for every arithmetic satisfying the listed IEEE-754 laws. -/
theorem C20_height_and_error_bounds [LawfulFloatLike F] (cfg : Config F) (hc : CfgOK cfg) (cl0 : Client F)
    (h0 : newClient cfg = some cl0) (ops : List (Op F)) (hops : ∀ op ∈ ops, OpOK cfg op) :
    le cfg.heightMin (run cfg cl0 ops).coord.height = true ∧
    le (zero : F) (run cfg cl0 ops).coord.error = true ∧
    le (run cfg cl0 ops).coord.error cfg.errorMax = true := by
  have hinit : Bounds cfg cl0 := by
    unfold newClient at h0
    split at h0
    · cases h0
    · cases h0; exact bounds_newCoordinate cfg hc
  suffices ∀ cl, Bounds cfg cl → Bounds cfg (run cfg cl ops) from this cl0 hinit
  induction ops with
  | nil => intro cl h; exact h
  | cons op ops ih =>
    intro cl h
    exact ih (fun o ho => hops o (List.mem_cons_of_mem _ ho)) _
      (bounds_applyOp cfg hc cl h op (hops op (List.mem_cons_self ..)))

/-- The height bound alone does not need the peers' errors to be non-negative. -/
theorem C20_height_min [LawfulFloatLike F] (cfg : Config F) (hc : CfgOK cfg) (cl0 : Client F)
    (h0 : newClient cfg = some cl0) (obs : List (Obs F)) :
    le cfg.heightMin (run cfg cl0 (obs.map Op.observe)).coord.height = true := by
  have hinit : le cfg.heightMin cl0.coord.height = true := by
    unfold newClient at h0
    split at h0
    · cases h0
    · cases h0; exact (bounds_newCoordinate cfg hc).1
  suffices ∀ cl, le cfg.heightMin cl.coord.height = true →
      le cfg.heightMin (run cfg cl (obs.map Op.observe)).coord.height = true from this cl0 hinit
  induction obs with
  | nil => intro cl h; exact h
  | cons o obs ih =>
    intro cl hb
    apply ih
    simp only [applyOp]
    rcases update_cases cfg cl o.node o.other o.rttNs o.rnd with ⟨r, _, hu⟩ | ⟨_, _, hu, _⟩ | ⟨hr, _, rtt, _, hu⟩
    · rw [hu]; exact hb
    · rw [hu]; exact hb
    · rcases hu with ⟨hu, hv⟩ | ⟨hu, _⟩
      · rw [hu]
        rcases stepped_height cfg cl o.node o.other o.rttNs o.rnd rtt (finite_not_nan hc.heightMin_finite) (Or.inr hb) with h | h
        · rw [isValid_height hv] at h; cases h
        · exact h
      · rw [hu]; exact (bounds_newCoordinate cfg hc).1

/-! ## 2b. the HeightMin floor is unconditional

Peers are validated for finiteness only: a peer may report a NEGATIVE height.  Then the height delta
`(own.Height + other.Height) * force / mag` of ApplyForce can be negative for a POSITIVE force (a push), so the floor
`math.Max(ret.Height, config.HeightMin)` is needed on pushes as well as on pulls.  `C20_height_min` above already
quantifies over such peers; the two statements below isolate the mechanism. -/

/-- **C20 (height floor).** Whatever the force (either sign), the other coordinate (any height, negative included)
and the random draws, ApplyForce leaves the height NaN-or-at-least-HeightMin, provided it was so before. -/
theorem C20_height_floor_unconditional [LawfulFloatLike F] (cfg : Config F) (hm : isNaN cfg.heightMin = false)
    (rnd : List F) (c : Coordinate F) (force : F) (other : Coordinate F)
    (h : isNaN c.height = true ∨ le cfg.heightMin c.height = true) :
    isNaN (applyForce cfg rnd c force other).1.height = true ∨
      le cfg.heightMin (applyForce cfg rnd c force other).1.height = true :=
  applyForce_height cfg rnd c force other hm h

/-- ApplyForce with the floor enforced for pulls only (`if force < 0 { … math.Max … }`) — NOT what the code does -/
def applyForceOneSided (cfg : Config F) (rnd : List F) (c : Coordinate F) (force : F) (other : Coordinate F) :
    Coordinate F :=
  let u := unitVectorAt rnd c.vec other.vec
  { c with
    vec := addv c.vec (mulv u.1.1 force),
    height :=
      if gt u.1.2 zeroThreshold then
        (if lt force (zero : F) then
          FloatLike.max (add (div (mul (add c.height other.height) force) u.1.2) c.height) cfg.heightMin
         else add (div (mul (add c.height other.height) force) u.1.2) c.height)
      else c.height }

/-- dim 1, ErrorMax 2, CE = CC = 1/4, HeightMin 10^-5 -/
def hfCfg : Config ERat :=
  { dim := 1, errorMax := .fin 2, ce := .fin (1 / 4), cc := .fin (1 / 4), adjWindow := 0,
    heightMin := .fin (1 / 100000), latencyFilterSize := 1, gravityRho := .fin 150 }

/-- The one-sided floor is wrong: a fresh coordinate (height = HeightMin = 1/100000) pushed with force 10^-6 away from a
valid peer 0.01 s away whose height is -0.005 ends with height 1/100000 - 499/10^9 < HeightMin, a finite value
(no reset); the real ApplyForce returns exactly HeightMin.  float64 instance on the real client:
corpus/C20/negative-peer-height-push.case. -/
theorem C20_one_sided_floor_counterexample :
    let cfg : Config ERat := hfCfg
    let peer : Coordinate ERat := ⟨[.fin (1 / 100)], .fin 1, .fin 0, .fin (-(5 / 1000))⟩
    isValid peer = true ∧
    (applyForceOneSided cfg [] (newCoordinate cfg) (.fin (1 / 1000000)) peer).height = .fin (1 / 100000 - 499 / 1000000000) ∧
    le cfg.heightMin (applyForceOneSided cfg [] (newCoordinate cfg) (.fin (1 / 1000000)) peer).height = false ∧
    (applyForce cfg [] (newCoordinate cfg) (.fin (1 / 1000000)) peer).1.height = cfg.heightMin := by
  decide +kernel

/-! ## 3. rejected observations change nothing -/

/-- an observation is rejected exactly when it is not acceptable -/
theorem C20_acceptable_iff (cl : Client F) (o : Coordinate F) (rttNs : Int) :
    rejection cl o rttNs = none ↔ acceptable cl o rttNs := by
  constructor
  · exact rejection_none_compat
  · intro ⟨h1, h2, h3, h4⟩
    unfold rejection checkCoordinate isCompatibleWith
    simp [h1, h2]
    omega

/-- **C20 (rejection).** An observation with an incompatible dimension, a non-finite component or a round-trip time
outside [0, 10 s] is answered with an error and leaves the whole client state (coordinate, adjustment window,
latency filter, reset counter) unchanged. -/
theorem C20_reject_unchanged (cfg : Config F) (cl : Client F) (o : Obs F) (h : ¬ acceptable cl o.other o.rttNs) :
    ∃ r, update cfg cl o.node o.other o.rttNs o.rnd = (cl, .rejected r) := by
  rcases update_cases cfg cl o.node o.other o.rttNs o.rnd with ⟨r, _, hu⟩ | ⟨hr, _⟩ | ⟨hr, _⟩
  · exact ⟨r, hu⟩
  · exact absurd ((C20_acceptable_iff _ _ _).1 hr) h
  · exact absurd ((C20_acceptable_iff _ _ _).1 hr) h

/-! ## 4. an acceptable observation is accepted (no panic) when the latency filter keeps ≥ 1 sample -/

theorem sortAsc_length (l : List F) : (sortAsc l).length = l.length := by
  have hins : ∀ (x : F) (l : List F), (insertAsc x l).length = l.length + 1 := by
    intro x l
    induction l with
    | nil => rfl
    | cons y ys ih => simp only [insertAsc]; split <;> simp [ih]
  induction l with
  | nil => rfl
  | cons x xs ih => simp [sortAsc, List.foldr] at *; rw [hins]; simp [ih]

theorem latencyFilter_some (cfg : Config F) (hpos : 0 < cfg.latencyFilterSize) (cl : Client F) (node : String)
    (rtt : F) : ∃ m, (latencyFilter cfg cl node rtt).2 = some m := by
  simp only [latencyFilter]
  generalize hs : (alookup cl.latency node).getD [] = s
  have hlen : 0 < (sortAsc (if (s ++ [rtt]).length > cfg.latencyFilterSize then (s ++ [rtt]).drop 1 else s ++ [rtt])).length := by
    rw [sortAsc_length]
    split
    · rename_i hgt; simp at hgt ⊢; omega
    · simp
  refine ⟨(sortAsc _)[(sortAsc _).length / 2]'(Nat.div_lt_self hlen (by decide)), ?_⟩
  exact List.getElem?_eq_getElem _

theorem C20_accept (cfg : Config F) (hpos : 0 < cfg.latencyFilterSize) (cl : Client F) (o : Obs F)
    (h : acceptable cl o.other o.rttNs) : (update cfg cl o.node o.other o.rttNs o.rnd).2 = .ok := by
  rcases update_cases cfg cl o.node o.other o.rttNs o.rnd with ⟨r, hr, _⟩ | ⟨_, _, _, hl⟩ | ⟨_, hu, _⟩
  · rw [(C20_acceptable_iff _ _ _).2 h] at hr; cases hr
  · obtain ⟨m, hm⟩ := latencyFilter_some cfg hpos cl o.node (rttSeconds o.rttNs)
    rw [hm] at hl; cases hl
  · exact hu

/-! ## 4b. one Update, from ANY client state -/

/-- **C20 (single step, full strength).** For every client state — including one whose coordinate is already invalid
or of a foreign dimension —, every peer coordinate, round-trip time and random draws, `Update` does exactly one of:
* reject (the observation is not acceptable) and leave the WHOLE client unchanged;
* accept (the observation is acceptable) and end with a coordinate all of whose components are finite: either the
  computed one, or — when the computation produced a non-finite component — a fresh coordinate, counted in `resets`;
* panic, which happens only with `LatencyFilterSize = 0` (an application misconfiguration) and leaves the coordinate alone.
No arithmetic law is used except "0.0 is finite". -/
theorem C20_update_valid_or_reset [LawfulFloatLike F] (cfg : Config F)
    (he : finite cfg.errorMax = true) (hh : finite cfg.heightMin = true) (cl : Client F) (o : Obs F) :
    (¬ acceptable cl o.other o.rttNs ∧ ∃ r, update cfg cl o.node o.other o.rttNs o.rnd = (cl, .rejected r)) ∨
    (acceptable cl o.other o.rttNs ∧ (update cfg cl o.node o.other o.rttNs o.rnd).2 = .ok ∧
      isValid (update cfg cl o.node o.other o.rttNs o.rnd).1.coord = true) ∨
    ((update cfg cl o.node o.other o.rttNs o.rnd).2 = .panic ∧ cfg.latencyFilterSize = 0 ∧
      (update cfg cl o.node o.other o.rttNs o.rnd).1.coord = cl.coord) := by
  rcases update_cases cfg cl o.node o.other o.rttNs o.rnd with ⟨r, hr, hu⟩ | ⟨_, hp, hu, hl⟩ | ⟨hr, hok, rtt, _, hu⟩
  · left
    refine ⟨fun hacc => ?_, r, hu⟩
    rw [(C20_acceptable_iff _ _ _).2 hacc] at hr; cases hr
  · right; right
    refine ⟨hp, ?_, hu⟩
    rcases Nat.eq_zero_or_pos cfg.latencyFilterSize with h0 | hpos
    · exact h0
    · obtain ⟨m, hm⟩ := latencyFilter_some cfg hpos cl o.node (rttSeconds o.rttNs)
      rw [hm] at hl; cases hl
  · right; left
    refine ⟨(C20_acceptable_iff _ _ _).1 hr, hok, ?_⟩
    rcases hu with ⟨hu, hv⟩ | ⟨hu, _⟩
    · rw [hu]; exact hv
    · rw [hu]; exact isValid_newCoordinate cfg he hh

/-! ## 5. the ping delegate caches a peer's coordinate iff it accepted the observation -/

/-- **C20 (cache).** `NotifyPingComplete` caches the peer's coordinate exactly when the payload decodes to a
coordinate and the observation is acceptable; then the cache holds that coordinate for the peer and the node's own
fresh coordinate; otherwise cache and client are untouched. -/
theorem C20_cache_iff_accepted (cfg : Config F) (hpos : 0 < cfg.latencyFilterSize) (n : Node F) (peer : String)
    (rttNs : Int) (p : Payload F) (rnd : List F) :
    ((notifyPingComplete cfg n peer rttNs p rnd).2 = true ↔ ∃ c, p = .coord c ∧ acceptable n.client c rttNs) ∧
    ((notifyPingComplete cfg n peer rttNs p rnd).2 = false → notifyPingComplete cfg n peer rttNs p rnd = (n, false)) ∧
    (∀ c, p = .coord c → acceptable n.client c rttNs →
        (notifyPingComplete cfg n peer rttNs p rnd).1.cache =
          ainsert (ainsert n.cache peer c) n.name (update cfg n.client peer c rttNs rnd).1.coord) := by
  cases p with
  | empty => simp [notifyPingComplete]
  | badVersion => simp [notifyPingComplete]
  | undecodable => simp [notifyPingComplete]
  | coord c =>
    by_cases hacc : acceptable n.client c rttNs
    · have hok := C20_accept cfg hpos n.client ⟨peer, c, rttNs, rnd⟩ hacc
      simp only at hok
      simp only [notifyPingComplete]
      generalize hu : update cfg n.client peer c rttNs rnd = u at hok
      obtain ⟨cl', r⟩ := u
      simp only at hok
      subst hok
      simp [hacc, hu]
    · obtain ⟨r, hr⟩ := C20_reject_unchanged cfg n.client ⟨peer, c, rttNs, rnd⟩ hacc
      simp only at hr
      simp only [notifyPingComplete, hr]
      simp [hacc]

/-! ## 6. regenerated ties: the model's guards and statement orders ARE the ones in the source

`SerfModel.Gen.CoordGuards` is regenerated on every check from coordinate/coordinate.go, coordinate/client.go and
serf/ping_delegate.go.  The obligations below say that the generated shapes, interpreted with the model's component
functions, are the hand-written model — for every arithmetic and every input.  An edit of componentIsValid (e.g. a
one-sided infinity test), of the fields IsValid looks at, of the order of the two checks in checkCoordinate, of the
rtt bounds or their strictness, of the order of the statements of Update (the final validity check in particular)
or of NotifyPingComplete (cache writes before the error return) changes a generated value and breaks one of them. -/

section gen
open SerfModel.Gen

/-- the generated shape of Client.Update -/
def genShape : UpdShape :=
  { comp := CoordGuards.componentIsValid, valid := CoordGuards.isValid, checks := CoordGuards.checkCoordinate,
    guard := CoordGuards.rttGuard, steps := CoordGuards.update }

/-- componentIsValid is the model's `finite`: neither infinity (BOTH signs) nor NaN — the FloatLike validity
parameter of every theorem above -/
theorem C20_gen_componentIsValid (x : F) : CoordGuards.componentIsValid.eval x = finite x := by
  simp [CoordGuards.componentIsValid, CompExpr.eval, finite]

theorem C20_gen_isValid (c : Coordinate F) :
    CoordGuards.isValid.eval CoordGuards.componentIsValid c = SerfModel.Coord.isValid c := by
  simp [CoordGuards.isValid, ValidShape.eval, SerfModel.Coord.isValid, CoordField.get,
    C20_gen_componentIsValid, Bool.and_assoc]

theorem C20_gen_checkCoordinate (cl : Client F) (c : Coordinate F) :
    interpCheck CoordGuards.componentIsValid CoordGuards.isValid CoordGuards.checkCoordinate cl c =
      SerfModel.Coord.checkCoordinate cl c := by
  simp only [CoordGuards.checkCoordinate, interpCheck, C20_gen_isValid, SerfModel.Coord.checkCoordinate]

theorem C20_gen_rttGuard (rttNs : Int) :
    CoordGuards.rttGuard.rejects rttNs = (decide (rttNs < 0) || decide (rttNs > 10000000000)) := by
  rfl

/-- **Regenerated tie (Update).** The statements of Client.Update, in source order, interpreted with the model's
component functions, compute exactly the model's `update`. -/
theorem C20_gen_update (cfg : Config F) (cl : Client F) (node : String) (other : Coordinate F) (rttNs : Int)
    (rnd : List F) :
    interpUpdate genShape cfg cl node other rttNs rnd = SerfModel.Coord.update cfg cl node other rttNs rnd := by
  unfold SerfModel.Coord.update rejection
  simp only [interpUpdate, genShape, CoordGuards.update]
  cases hk : SerfModel.Coord.checkCoordinate cl other with
  | some r => simp [runUpdateSteps, stepUpdate, C20_gen_checkCoordinate, hk]
  | none =>
    by_cases hr : (decide (rttNs < 0) || decide (rttNs > 10000000000)) = true
    · simp [runUpdateSteps, stepUpdate, C20_gen_checkCoordinate, hk, C20_gen_rttGuard, hr]
    · cases hl : (latencyFilter cfg cl node (rttSeconds rttNs)).2 with
      | none => simp [runUpdateSteps, stepUpdate, C20_gen_checkCoordinate, hk, C20_gen_rttGuard, hr, hl]
      | some rtt =>
        by_cases hv : SerfModel.Coord.isValid (updateGravity cfg (updateVivaldi cfg rnd (latencyFilter cfg cl node (rttSeconds rttNs)).1 other rtt).2
            (updateAdjustment cfg (updateVivaldi cfg rnd (latencyFilter cfg cl node (rttSeconds rttNs)).1 other rtt).1 other rtt)).1.coord = true
        · simp [runUpdateSteps, stepUpdate, C20_gen_checkCoordinate, hk, C20_gen_rttGuard, hr, hl, C20_gen_isValid, hv]
        · simp [runUpdateSteps, stepUpdate, C20_gen_checkCoordinate, hk, C20_gen_rttGuard, hr, hl, C20_gen_isValid, hv]

/-- **Regenerated tie (ping delegate).** The statements of NotifyPingComplete in source order compute the model's
`notifyPingComplete`; in particular the error return precedes both cache writes. -/
theorem C20_gen_ping (cfg : Config F) (n : Node F) (peer : String) (rttNs : Int) (p : Payload F) (rnd : List F) :
    interpPing CoordGuards.notifyPingComplete cfg n peer rttNs p rnd =
      SerfModel.Coord.notifyPingComplete cfg n peer rttNs p rnd := by
  cases p with
  | empty => simp [interpPing, CoordGuards.notifyPingComplete, runPingSteps, stepPing, SerfModel.Coord.notifyPingComplete]
  | badVersion => simp [interpPing, CoordGuards.notifyPingComplete, runPingSteps, stepPing, SerfModel.Coord.notifyPingComplete]
  | undecodable => simp [interpPing, CoordGuards.notifyPingComplete, runPingSteps, stepPing, SerfModel.Coord.notifyPingComplete]
  | coord c =>
    rcases hu : SerfModel.Coord.update cfg n.client peer c rttNs rnd with ⟨cl', r⟩
    cases r <;>
      simp [interpPing, CoordGuards.notifyPingComplete, runPingSteps, stepPing, SerfModel.Coord.notifyPingComplete, hu]

/-- **Regenerated tie (arithmetic bodies).** The statements of the functions the model transcribes by hand
(latencyFilter, updateVivaldi with the error clamp, updateAdjustment, updateGravity, ApplyForce with the height
clamp, unitVectorAt, NewCoordinate), in the CANONICAL form of extract/canon.go (locals, parameters and receivers
renamed v0, v1, …; constants resolved to their values and literals normalised; index-only range loops as value
loops; `>`/`>=` oriented as `<`/`<=`; `op=` spelled out; comments and layout dropped), are the ones the model was
written against.  Renaming, hoisting a literal into a constant, an index loop versus a value loop or a flipped
comparison change nothing here; a change of an expression, an operator, a constant's VALUE or the order of two
statements breaks this obligation; the
differential run then finds the input on which the behaviour differs. -/
theorem C20_gen_pinned_sources : CoordGuards.pinned = [
  ("latencyFilter", [
    "v3, v4 := v0.latencyFilterSamples[v1]",
    "if !v4 { v3 = make([]float64, 0, v0.config.LatencyFilterSize) }",
    "v3 = append(v3, v2)",
    "if int(v0.config.LatencyFilterSize) < len(v3) { v3 = v3[1:] }",
    "v0.latencyFilterSamples[v1] = v3",
    "v5 := make([]float64, len(v3))",
    "copy(v5, v3)",
    "sort.Float64s(v5)",
    "return v5[len(v5)/2]"]),
  ("updateVivaldi", [
    "v3 := v0.coord.DistanceTo(v1).Seconds()",
    "if v2 < 1e-06 { v2 = 1e-06 }",
    "v4 := math.Abs(v3-v2) / v2",
    "v5 := v0.coord.Error + v1.Error",
    "if v5 < 1e-06 { v5 = 1e-06 }",
    "v6 := v0.coord.Error / v5",
    "v0.coord.Error = v0.config.VivaldiCE*v6*v4 + v0.coord.Error*(1-v0.config.VivaldiCE*v6)",
    "if v0.config.VivaldiErrorMax < v0.coord.Error { v0.coord.Error = v0.config.VivaldiErrorMax }",
    "v7 := v0.config.VivaldiCC * v6",
    "v8 := v7 * (v2 - v3)",
    "v0.coord = v0.coord.ApplyForce(v0.config, v8, v1)"]),
  ("updateAdjustment", [
    "if v0.config.AdjustmentWindowSize == 0 { return }",
    "v3 := v0.coord.rawDistanceTo(v1)",
    "v0.adjustmentSamples[v0.adjustmentIndex] = v2 - v3",
    "v0.adjustmentIndex = (v0.adjustmentIndex + 1) % v0.config.AdjustmentWindowSize",
    "v4 := 0",
    "for _, v5 := range v0.adjustmentSamples { v4 = v4 + v5 }",
    "v0.coord.Adjustment = v4 / (2 * float64(v0.config.AdjustmentWindowSize))"]),
  ("updateGravity", [
    "v1 := v0.origin.DistanceTo(v0.coord).Seconds()",
    "v2 := -1 * math.Pow(v1/v0.config.GravityRho, 2)",
    "v0.coord = v0.coord.ApplyForce(v0.config, v2, v0.origin)"]),
  ("ApplyForce", [
    "if !v0.IsCompatibleWith(v3) { panic(DimensionalityConflictError{}) }",
    "v4 := v0.Clone()",
    "v5, v6 := unitVectorAt(v1.rand, v0.Vec, v3.Vec)",
    "v4.Vec = add(v4.Vec, mul(v5, v2))",
    "if 1e-06 < v6 { v4.Height = (v4.Height+v3.Height)*v2/v6 + v4.Height v4.Height = math.Max(v4.Height, v1.HeightMin) }",
    "return v4"]),
  ("unitVectorAt", [
    "v3 := diff(v1, v2)",
    "if v4 := magnitude(v3); 1e-06 < v4 { return mul(v3, 1/v4), v4 }",
    "for v5 := range v3 { if v0 != nil { v3[v5] = v0.Float64() - 0.5 } else { v3[v5] = rand.Float64() - 0.5 } }",
    "if v4 := magnitude(v3); 1e-06 < v4 { return mul(v3, 1/v4), 0 }",
    "v3 = make([]float64, len(v3))",
    "v3[0] = 1",
    "return v3, 0"]),
  ("NewCoordinate", [
    "return &Coordinate{Vec: make([]float64, v0.Dimensionality), Error: v0.VivaldiErrorMax, Adjustment: 0, Height: v0.HeightMin}"])] := rfl

end gen

/-! ## 7. every hypothesis is necessary (exact arithmetic, so none of this is a rounding artefact)

Each counterexample is also a corpus case (corpus/C20/necessity-*.case) run on the real client every time: model and
implementation agree bit for bit on the offending value. -/

/-- a sane configuration: dim 1, ErrorMax 2, CE = CC = 1/4, no adjustment window, HeightMin 0, filter 1, rho 150 -/
def ncCfg : Config ERat :=
  { dim := 1, errorMax := .fin 2, ce := .fin (1 / 4), cc := .fin (1 / 4), adjWindow := 0, heightMin := .fin 0,
    latencyFilterSize := 1, gravityRho := .fin 150 }

/-- a peer exactly 1 s away whose measured round trip is exactly 1 s (so the "wrongness" is 0) -/
def ncPeer (err : ERat) : Coordinate ERat := ⟨[.fin 1], err, .fin 0, .fin 0⟩

def ncRun (cfg : Config ERat) (peerErr : ERat) : Option (Coordinate ERat × UpdateResult) :=
  (newClient cfg).map fun cl => ((update cfg cl "a" (ncPeer peerErr) 1000000000 []).1.coord,
    (update cfg cl "a" (ncPeer peerErr) 1000000000 []).2)

/-- with the sane configuration and a non-negative peer error the step is accepted and the error stays in range -/
example : CfgOK ncCfg ∧ (ncRun ncCfg (.fin 0)).map (fun r => (r.2, r.1.error)) = some (.ok, .fin (3 / 2)) := by
  refine ⟨by constructor <;> decide +kernel, by decide +kernel⟩

/-- `VivaldiCE ≤ 1` is necessary: with CE = 2 one accepted observation from a peer with error 0 drives the error
estimate to -2 (the coordinate is finite, so it is not reset). -/
theorem C20_ce_le_one_necessary :
    (ncRun { ncCfg with ce := .fin 2 } (.fin 0)).map (fun r => (r.2, r.1.error, isValid r.1)) =
      some (.ok, .fin (-2), true) := by decide +kernel

/-- "peers report non-negative errors" is necessary: a peer reporting error -2 drives the error estimate to -999998
(weight 2/10^-6, CE = 1/4). -/
theorem C20_peer_nonneg_error_necessary :
    (ncRun ncCfg (.fin (-2))).map (fun r => (r.2, r.1.error, isValid r.1)) =
      some (.ok, .fin (-999998), true) := by decide +kernel

/-- `0 ≤ VivaldiErrorMax` is necessary: a fresh client starts with error = ErrorMax. -/
theorem C20_errorMax_nonneg_necessary :
    (newClient { ncCfg with errorMax := .fin (-1) }).map (fun cl => le (zero : ERat) cl.coord.error) = some false := by
  decide +kernel

/-- finiteness of ErrorMax / HeightMin is necessary: otherwise even the fresh coordinate is invalid -/
theorem C20_cfg_finite_necessary :
    (newClient { ncCfg with errorMax := .pinf }).map (fun cl => isValid cl.coord) = some false ∧
    (newClient { ncCfg with heightMin := .nan }).map (fun cl => isValid cl.coord) = some false := by
  decide +kernel

/-- `LatencyFilterSize ≥ 1` is necessary for `C20_accept`: with 0 an acceptable observation panics
(`sorted[len(sorted)/2]` on an empty slice, client.go:144) -/
theorem C20_filter_pos_necessary :
    (ncRun { ncCfg with latencyFilterSize := 0 } (.fin 0)).map (·.2) = some .panic := by decide +kernel

/-! ## Non-vacuity: the hypotheses are satisfiable (exact instance), and the bounds are attained there -/

def exCfg : Config ERat :=
  { dim := 2, errorMax := .fin 2, ce := .fin 1, cc := .fin 1, adjWindow := 2, heightMin := .fin 0,
    latencyFilterSize := 3, gravityRho := .fin 150 }

example : CfgOK exCfg := by constructor <;> decide
example : ∃ cl0, newClient exCfg = some cl0 := ⟨_, rfl⟩
example : OpOK exCfg (.observe ⟨"a", ⟨[.fin 3, .fin 0], .fin 1, .fin 0, .fin 1⟩, 20000000, []⟩) := by
  show FloatLike.le _ _ = true; decide
example : acceptable (F := ERat) ⟨newCoordinate exCfg, 0, [], [], 0⟩
    ⟨[.fin 3, .fin 0], .fin 1, .fin 0, .fin 1⟩ 20000000 := by
  refine ⟨rfl, by decide, by decide, by decide⟩
example : ¬ acceptable (F := ERat) ⟨newCoordinate exCfg, 0, [], [], 0⟩
    ⟨[.fin 3, .nan], .fin 1, .fin 0, .fin 1⟩ 20000000 := by
  intro h; exact absurd h.2.1 (by decide)

end SerfProofs.C20
