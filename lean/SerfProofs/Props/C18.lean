/-
C18 — User event coalescing keeps exactly the newest events per name.

Models: `SerfModel.UserCoalesce` (serf/coalesce_user.go) and `SerfModel.CoalesceLoop`
(serf/coalesce.go, `coalesceLoop`).  A *quantum* `q` is the list of coalescable
user events received since the previous flush, in arrival order.

`newest q nm` = the events of `q` named `nm` whose Lamport time is the highest one
received for `nm` in `q`, in arrival order (`SerfModel.UserCoalesce.newest`).
-/
import SerfProofs.Lemmas.UserCoalesce
import SerfProofs.Lemmas.CoalesceLoop
import SerfModel.Gen.Coalescers
namespace SerfProofs.C18
open SerfModel SerfModel.UserCoalesce SerfProofs.UserCoalesce
open SerfModel.CoalesceLoop SerfProofs.CoalesceLoop

/-- **Flush is exact, per name.** For every sequence of coalescable user events
(arbitrary names, times incl. ties and 0) a flush emits, for each name, exactly
the events carrying the highest Lamport time received for that name since the
previous flush, in arrival order — and nothing else for that name. -/
theorem C18_flush_exact (q : List UserEv) (nm : String) :
    (runQuantum [] q).2.filter (·.name == nm) = newest q nm := by
  have h := Rep.fold q [] [] Rep.nil
  simp only [List.nil_append] at h
  exact h.flush_filter nm

/-- Membership form: an event is emitted by the flush iff it was received in the
quantum and carries the highest time received for its name. -/
theorem C18_flush_mem (q : List UserEv) (e : UserEv) :
    e ∈ (runQuantum [] q).2 ↔ e ∈ q ∧ e.lt = maxLt q e.name := by
  have h := C18_flush_exact q e.name
  constructor
  · intro he
    have : e ∈ (runQuantum [] q).2.filter (·.name == e.name) := List.mem_filter.mpr ⟨he, by simp⟩
    rw [h] at this
    unfold newest at this
    have := List.mem_filter.mp this
    simpa using this
  · rintro ⟨he, hlt⟩
    have : e ∈ newest q e.name := by
      unfold newest
      exact List.mem_filter.mpr ⟨he, by simp [hlt]⟩
    rw [← h] at this
    exact (List.mem_filter.mp this).1

/-- **Multiplicity.** Events are never merged, however alike: an event (name, time, flag,
payload) is emitted by the flush exactly as many times as it was received in the quantum if it
carries the highest time received for its name, and not at all otherwise.  In particular two
events equal in every field are both delivered. -/
theorem C18_flush_count (q : List UserEv) (e : UserEv) :
    (runQuantum [] q).2.count e = if e.lt = maxLt q e.name then q.count e else 0 := by
  have hx := C18_flush_exact q e.name
  have h1 : (runQuantum [] q).2.count e = ((runQuantum [] q).2.filter (·.name == e.name)).count e := by
    rw [List.count_filter]; simp
  rw [h1, hx]
  unfold newest
  by_cases h : e.lt = maxLt q e.name
  · rw [List.count_filter (by simp [h])]; simp [h]
  · simp only [h, ↓reduceIte]
    rw [List.count_eq_zero]
    intro hm
    have := (List.mem_filter.mp hm).2
    simp at this
    exact h this

-- two events equal in every field, and the nil / empty payload pair (ids 2^64, 2^64+1): all are kept
example : (runQuantum [] [⟨"a", 2, true, 7⟩, ⟨"a", 2, true, 7⟩, ⟨"a", 2, true, 18446744073709551616⟩,
    ⟨"a", 2, true, 18446744073709551617⟩, ⟨"a", 1, true, 7⟩]).2
    = [⟨"a", 2, true, 7⟩, ⟨"a", 2, true, 7⟩, ⟨"a", 2, true, 18446744073709551616⟩, ⟨"a", 2, true, 18446744073709551617⟩] := by
  decide

/-- The broken shape — skip an event of the same age when the entry already holds one with an equal
payload — is a different function: it loses the second of two equal events. -/
def coalesceSkippingEqualPayload (c : UC) (e : UserEv) : UC :=
  match alookup c e.name with
  | none => ainsert c e.name (e.lt, [e])
  | some (lt, evs) =>
    if lt < e.lt then ainsert c e.name (e.lt, [e])
    else if lt = e.lt then (if evs.any (·.id == e.id) then c else ainsert c e.name (lt, evs ++ [e]))
    else c

theorem C18_skipping_equal_payloads_counterexample :
    (flush ([⟨"a", 2, true, 7⟩, ⟨"a", 2, true, 7⟩].foldl coalesceSkippingEqualPayload [])).2 = [⟨"a", 2, true, 7⟩] ∧
    (runQuantum [] [⟨"a", 2, true, 7⟩, ⟨"a", 2, true, 7⟩]).2 = [⟨"a", 2, true, 7⟩, ⟨"a", 2, true, 7⟩] := by decide

/-- **Flush resets**: the next quantum starts from the empty coalescer. -/
theorem C18_flush_resets (c : UC) : (flush c).1 = [] := rfl

theorem C18_quantum_resets (c : UC) (q : List UserEv) : (runQuantum c q).1 = [] := rfl

/-- **Every flush of a history, split at any flush points**: the i-th flush emits
per name exactly the newest events of the i-th quantum. -/
theorem C18_quanta_exact (quanta : List (List UserEv)) (nm : String) :
    (runQuanta [] quanta).2.map (·.filter (·.name == nm)) = quanta.map (newest · nm) := by
  induction quanta with
  | nil => simp [runQuanta]
  | cons q qs ih =>
    simp only [runQuanta, List.map_cons, C18_quantum_resets]
    rw [ih, C18_flush_exact]

/-! ### The coalesce loop: pass-through and what a flush trigger emits -/

/-- The coalescable user events among a run of loop inputs. -/
def handledUsers : List Ev → List UserEv
  | [] => []
  | .user u :: r => if u.coalesce then u :: handledUsers r else handledUsers r
  | .other _ :: r => handledUsers r

theorem fold_handled (evs : List Ev) : ∀ c : UC,
    (evs.filter handles).foldl userCoalescer.coalesce c = (handledUsers evs).foldl coalesce c := by
  induction evs with
  | nil => intro c; rfl
  | cons e evs ih =>
    intro c
    cases e with
    | user u =>
      by_cases hu : u.coalesce
      · simp only [List.filter_cons, handles, hu, ↓reduceIte, List.foldl_cons, handledUsers]
        exact ih _
      · simp only [List.filter_cons, handles, hu, Bool.false_eq_true, ↓reduceIte, handledUsers]
        exact ih _
    | other i =>
      simp only [List.filter_cons, handles, Bool.false_eq_true, ↓reduceIte, handledUsers]
      exact ih _

/-- **Pass-through, one step.** A user event not marked coalescable, or an event of
any other kind, is sent on by the step that received it — alone, unchanged, with
the coalescer state and timers untouched — whatever the loop state (while the loop
runs). -/
theorem C18_passthrough_step (s : St userCoalescer) (hs : s.done = false) (e : Ev) (h : handles e = false) :
    step userCoalescer s (.ev e) = (s, [e]) :=
  step_unhandled userCoalescer s hs e h

/-- **Pass-through, any history.** In every run of the loop from its start, over any
sequence of inputs (events, timer firings), an unhandled event at position
`pre.length` produces exactly itself as that step's output, provided the loop has
not been shut down before. It is not held back until a flush. -/
theorem C18_passthrough (pre post : List (In Ev)) (e : Ev) (h : handles e = false)
    (hns : pre.any isShutdown = false) :
    (run userCoalescer (init userCoalescer) (pre ++ .ev e :: post)).2[pre.length]? = some [e] := by
  rw [run_append]
  simp only
  have hd : (run userCoalescer (init userCoalescer) pre).1.done = false := by
    rw [run_done]; simp [init, hns]
  have hl := run_length userCoalescer pre (init userCoalescer)
  rw [List.getElem?_append_right (by omega)]
  simp only [hl, Nat.sub_self, run]
  rw [C18_passthrough_step _ hd e h]
  simp

/-- Unhandled events are never part of a flush. -/
theorem C18_flush_only_handled (c : UC) (e : Ev) (he : e ∈ (userCoalescer.flush c).2) :
    ∃ u, e = .user u := by
  simp only [userCoalescer, List.mem_map] at he
  obtain ⟨u, _, rfl⟩ := he
  exact ⟨u, rfl⟩

/-- **The loop's flush is the coalescer's flush of the quantum.** Starting from the
beginning of a quantum (the loop's initial state, which is also its state after
every non-shutdown flush, `C18_loop_flush_restarts`), after any run of events the
next enabled trigger `t` (quantum timer, quiescent timer or shutdown) emits
exactly `Flush` of the coalescable user events of the run; every other event of
the run was passed through at its own step. -/
theorem C18_loop_flush (evs : List Ev) (t : In Ev)
    (ht : t = .shutdown ∨ ((t = .quantum ∨ t = .quiescent) ∧ evs.any handles = true)) :
    (run userCoalescer (init userCoalescer) (evs.map .ev ++ [t])).2 =
      evs.map (fun e => if handles e then [] else [e]) ++
        [(runQuantum [] (handledUsers evs)).2.map Ev.user] := by
  rw [run_append]
  obtain ⟨h1, h2, h3, h4, h5⟩ := run_events userCoalescer evs (init userCoalescer) rfl
  simp only [run]
  rw [h1]
  congr 1
  have hc : (run userCoalescer (init userCoalescer) (evs.map .ev)).1.c = (handledUsers evs).foldl coalesce [] := by
    rw [h2]; exact fold_handled evs []
  rcases ht with rfl | ⟨rfl | rfl, ha⟩
  · rw [step_shutdown _ _ h3]; simp only [hc]; rfl
  · rw [step_quantum _ _ h3 (by rw [h4]; simp [userCoalescer, ha])]; simp only [hc]; rfl
  · rw [step_quiescent _ _ h3 (by rw [h5]; simp [userCoalescer, ha])]; simp only [hc]; rfl

/-- Per name, what the loop's flush trigger emits is exactly the newest events. -/
theorem C18_loop_flush_exact (evs : List Ev) (nm : String) :
    ((runQuantum [] (handledUsers evs)).2.filter (·.name == nm)) = newest (handledUsers evs) nm :=
  C18_flush_exact _ nm

/-- After a timer-triggered flush the loop is back in its initial state: the next
quantum starts empty with both timers off. -/
theorem C18_loop_flush_restarts (s : St userCoalescer) (hs : s.done = false) :
    (s.quantum = true → (step userCoalescer s .quantum).1 = init userCoalescer) ∧
    (s.quiescent = true → (step userCoalescer s .quiescent).1 = init userCoalescer) := by
  constructor
  · intro ha; rw [step_quantum _ _ hs ha]; rfl
  · intro ha; rw [step_quiescent _ _ hs ha]; rfl

/-- A timer that is not armed does nothing (nothing is flushed spuriously). -/
theorem C18_timer_disarmed (s : St userCoalescer) :
    (s.quantum = false → step userCoalescer s .quantum = (s, [])) ∧
    (s.quiescent = false → step userCoalescer s .quiescent = (s, [])) := by
  constructor <;> intro h <;> simp [step, h]

/-! ### The whole loop, every interleaving of events, timer firings and names/times -/

/-- The coalescable user events the loop has taken since its last flush, after a sequence of
inputs (an armed timer or a shutdown flushes; a timer that is not armed finds nothing pending). -/
def pendAfter : List UserEv → List (In Ev) → List UserEv
  | p, [] => p
  | p, .ev (.user u) :: r => if u.coalesce then pendAfter (p ++ [u]) r else pendAfter p r
  | p, .ev (.other _) :: r => pendAfter p r
  | _, .quantum :: r => pendAfter [] r
  | _, .quiescent :: r => pendAfter [] r
  | _, .shutdown :: r => pendAfter [] r

/-- Invariant of the running loop: the coalescer represents exactly the pending events, and both
timers are armed iff something is pending. -/
def LoopInv (s : St userCoalescer) (p : List UserEv) : Prop :=
  s.done = false ∧ Rep s.c p ∧ s.quantum = !p.isEmpty ∧ s.quiescent = !p.isEmpty

theorem loopInv_init : LoopInv (init userCoalescer) [] := ⟨rfl, Rep.nil, rfl, rfl⟩

theorem loopInv_step (s : St userCoalescer) (p : List UserEv) (h : LoopInv s p) (i : In Ev)
    (hi : isShutdown i = false) : LoopInv (step userCoalescer s i).1 (pendAfter p [i]) := by
  obtain ⟨hd, hrep, hq, hqs⟩ := h
  have hflush : LoopInv (flushNow userCoalescer s false).1 [] := ⟨rfl, Rep.nil, rfl, rfl⟩
  cases i with
  | ev e =>
    cases e with
    | user u =>
      by_cases hu : u.coalesce
      · rw [step_handled _ _ hd _ (by simpa [userCoalescer, handles] using hu)]
        simp only [pendAfter, hu, ↓reduceIte]
        exact ⟨hd, hrep.step u, by simp, by simp⟩
      · rw [step_unhandled _ _ hd _ (by simpa [userCoalescer, handles] using hu)]
        simp only [pendAfter, hu, Bool.false_eq_true, ↓reduceIte]
        exact ⟨hd, hrep, hq, hqs⟩
    | other k =>
      rw [step_unhandled _ _ hd _ rfl]
      exact ⟨hd, hrep, hq, hqs⟩
  | quantum =>
    simp only [step, pendAfter]
    split
    · rename_i hc
      simp only [hd, Bool.false_or, Bool.not_eq_eq_eq_not, Bool.not_true] at hc
      rw [hq] at hc
      have hp : p = [] := by simpa using hc
      subst hp
      exact ⟨hd, hrep, hq, hqs⟩
    · exact hflush
  | quiescent =>
    simp only [step, pendAfter]
    split
    · rename_i hc
      simp only [hd, Bool.false_or, Bool.not_eq_eq_eq_not, Bool.not_true] at hc
      rw [hqs] at hc
      have hp : p = [] := by simpa using hc
      subst hp
      exact ⟨hd, hrep, hq, hqs⟩
    · exact hflush
  | shutdown => simp [isShutdown] at hi

theorem pendAfter_append (a : List (In Ev)) : ∀ (p : List UserEv) (b : List (In Ev)),
    pendAfter p (a ++ b) = pendAfter (pendAfter p a) b := by
  induction a with
  | nil => intro p b; rfl
  | cons i a ih =>
    intro p b
    cases i with
    | ev e =>
      cases e with
      | user u => by_cases hu : u.coalesce <;> simp [pendAfter, hu, ih]
      | other k => simp [pendAfter, ih]
    | quantum => simp [pendAfter, ih]
    | quiescent => simp [pendAfter, ih]
    | shutdown => simp [pendAfter, ih]

theorem loopInv_run (pre : List (In Ev)) : ∀ (s : St userCoalescer) (p : List UserEv), LoopInv s p →
    pre.any isShutdown = false → LoopInv (run userCoalescer s pre).1 (pendAfter p pre) := by
  induction pre with
  | nil => intro s p h _; exact h
  | cons i pre ih =>
    intro s p h hns
    simp only [List.any_cons, Bool.or_eq_false_iff] at hns
    have h1 := loopInv_step s p h i hns.1
    have := ih _ _ h1 hns.2
    simp only [run]
    have hp : pendAfter p (i :: pre) = pendAfter (pendAfter p [i]) pre := pendAfter_append [i] p pre
    rw [hp]
    exact this

/-- **Every interleaving, events.** After ANY sequence of inputs (events of any names, Lamport
times and flags, timer firings at any points; no shutdown yet), the next event is absorbed
silently iff it is a coalescable user event, and is otherwise the step's whole output, unchanged. -/
theorem C18_loop_history_event (pre : List (In Ev)) (hns : pre.any isShutdown = false) (e : Ev) :
    (step userCoalescer (run userCoalescer (init userCoalescer) pre).1 (.ev e)).2 =
      if handles e then [] else [e] := by
  have hd := (loopInv_run pre _ _ loopInv_init hns).1
  by_cases h : handles e
  · rw [step_handled _ _ hd _ h]; simp [h]
  · have h' : handles e = false := by simpa using h
    rw [step_unhandled _ _ hd _ h']; simp [h']

/-- **Every interleaving, flushes.** After ANY sequence of inputs, a quantum timer, quiescent timer
or shutdown emits only user events, and for EVERY name exactly the events carrying the highest
Lamport time received for that name since the previous flush, in arrival order (`newest`), where
"since the previous flush" is `pendAfter [] pre`; in particular a timer with nothing pending
emits nothing. -/
theorem C18_loop_history_flush (pre : List (In Ev)) (hns : pre.any isShutdown = false) (t : In Ev)
    (ht : t = .quantum ∨ t = .quiescent ∨ t = .shutdown) :
    ∃ out : List UserEv,
      (step userCoalescer (run userCoalescer (init userCoalescer) pre).1 t).2 = out.map Ev.user ∧
      ∀ nm, out.filter (·.name == nm) = newest (pendAfter [] pre) nm := by
  obtain ⟨hd, hrep, hq, hqs⟩ := loopInv_run pre _ _ loopInv_init hns
  have hfl : ∀ b, ∃ out : List UserEv,
      (flushNow userCoalescer (run userCoalescer (init userCoalescer) pre).1 b).2 = out.map Ev.user ∧
      ∀ nm, out.filter (·.name == nm) = newest (pendAfter [] pre) nm :=
    fun b => ⟨_, rfl, fun nm => hrep.flush_filter nm⟩
  have hnone : pendAfter [] pre = [] → ∃ out : List UserEv, ([] : List Ev) = out.map Ev.user ∧
      ∀ nm, out.filter (·.name == nm) = newest (pendAfter [] pre) nm := by
    intro hp; exact ⟨[], rfl, fun nm => by rw [hp]; rfl⟩
  rcases ht with rfl | rfl | rfl
  · simp only [step]
    split
    · rename_i hc
      simp only [hd, Bool.false_or, Bool.not_eq_eq_eq_not, Bool.not_true] at hc
      rw [hq] at hc
      exact hnone (by simpa using hc)
    · exact hfl false
  · simp only [step]
    split
    · rename_i hc
      simp only [hd, Bool.false_or, Bool.not_eq_eq_eq_not, Bool.not_true] at hc
      rw [hqs] at hc
      exact hnone (by simpa using hc)
    · exact hfl false
  · simp only [step, hd, Bool.false_eq_true, ↓reduceIte]
    exact hfl true

/-- A timer is armed exactly while something is pending: nothing is held without a flush being
scheduled, and no flush fires on an empty coalescer. -/
theorem C18_timers_armed_iff_pending (pre : List (In Ev)) (hns : pre.any isShutdown = false) :
    (run userCoalescer (init userCoalescer) pre).1.quantum = !(pendAfter [] pre).isEmpty ∧
    (run userCoalescer (init userCoalescer) pre).1.quiescent = !(pendAfter [] pre).isEmpty := by
  obtain ⟨_, _, hq, hqs⟩ := loopInv_run pre _ _ loopInv_init hns
  exact ⟨hq, hqs⟩

/-- After the shutdown flush the goroutine has returned: nothing is emitted any more, whatever
arrives (this is why `C18_passthrough` and the theorems above need "no shutdown before"). -/
theorem C18_after_shutdown_silent (pre post : List (In Ev)) (i : In Ev) :
    (step userCoalescer (run userCoalescer (init userCoalescer) (pre ++ .shutdown :: post)).1 i).2 = [] := by
  have hd : (run userCoalescer (init userCoalescer) (pre ++ .shutdown :: post)).1.done = true := by
    rw [run_done]; simp [isShutdown]
  rw [step_after_done _ _ hd]

/-! ### Ties to serf/coalesce_user.go and serf/coalesce.go (regenerated on every run) -/

section SourceTies
open SerfModel.CoalesceShapes SerfModel.Gen.Coalescers

/-- **`Coalesce`, interpreted.**  The body of `userEventCoalescer.Coalesce` — its guards translated
from the source and evaluated (with Go's short-circuit, so the entry is never dereferenced when
absent), its two actions (a fresh one-element entry stored under the name; append to the entry) —
computes exactly the model's `coalesce`, on every state and event: no entry or strictly newer ⇒
replace the whole slice; equal time ⇒ append; older ⇒ nothing.  Independent of variable names,
of early-return vs if/else, of the orientation of the guards. -/
theorem C18_coalesce_is_source_program (c : UC) (e : UserEv) :
    runU userCoalesceProg c e = some (coalesce c e) := by
  unfold coalesce
  cases h : alookup c e.name with
  | none =>
    simp [userCoalesceProg, runU, Cond.eval, natOps, userEnvB, userEnvV, h]
  | some v =>
    obtain ⟨lt, evs⟩ := v
    -- the three ages, each with every comparison the source might have written
    rcases Nat.lt_trichotomy lt e.lt with h1 | h1 | h1
    · have a1 : ¬ e.lt < lt := by omega
      have a2 : lt ≤ e.lt := by omega
      have a3 : ¬ e.lt ≤ lt := by omega
      have a4 : ¬ lt = e.lt := by omega
      have a5 : ¬ e.lt = lt := by omega
      have b1 : (lt == e.lt) = false := by simpa using a4
      have b2 : (e.lt == lt) = false := by simpa using a5
      have b3 : (lt != e.lt) = true := by simp [bne, b1]
      have b4 : (e.lt != lt) = true := by simp [bne, b2]
      simp [userCoalesceProg, runU, Cond.eval, natOps, userEnvB, userEnvV, h, h1, a1, a2, a3, a4, a5, b1, b2, b3, b4]
    · subst h1
      simp [userCoalesceProg, runU, Cond.eval, natOps, userEnvB, userEnvV, h]
    · have a1 : ¬ lt < e.lt := by omega
      have a2 : ¬ lt ≤ e.lt := by omega
      have a3 : e.lt ≤ lt := by omega
      have a4 : ¬ lt = e.lt := by omega
      have a5 : ¬ e.lt = lt := by omega
      have b1 : (lt == e.lt) = false := by simpa using a4
      have b2 : (e.lt == lt) = false := by simpa using a5
      have b3 : (lt != e.lt) = true := by simp [bne, b1]
      have b4 : (e.lt != lt) = true := by simp [bne, b2]
      simp [userCoalesceProg, runU, Cond.eval, natOps, userEnvB, userEnvV, h, h1, a1, a2, a3, a4, a5, b1, b2, b3, b4]

/-- `Flush` sends every stored event, name by name, each name's slice front to back, and then
replaces the map by an empty one (`flush c = ([], c.flatMap (·.2.2))`): nothing — not even a
Lamport time — survives a flush. -/
theorem C18_flush_shape :
    userFlushStmts =
      ["range r.events { range r.events[*].Events { p0 <- r.events[*].Events[*] } }",
       "r.events = make(map[string]*latestUserEvents)"] := by decide

/-- **`Handle`, interpreted**: for a user event the result is its Coalesce flag, for any other event
type it is false — and the type assertion is never evaluated on a non-user event (`handles`). -/
theorem C18_handle_is_source_program :
    (∀ flag : Bool, userHandleProg.evalBool natOps (handleEnvB (some flag)) (handleEnvV 5) = some flag) ∧
    (∀ k : MemberCoalesce.Kind, userHandleProg.evalBool natOps (handleEnvB none) (handleEnvV (kindCode k)) = some false) ∧
    userHandleProg.evalBool natOps (handleEnvB none) (handleEnvV 6) = some false := by
  refine ⟨fun f => by cases f <;> rfl, fun k => by cases k <;> rfl, rfl⟩

/-- **`coalesceLoop`, case by case** — what `SerfModel.CoalesceLoop.step` mirrors, in canonical
names (p0 inCh, p1 outCh, p2 shutdownCh, p3 coalescePeriod, p4 quiescentPeriod, p5 the coalescer;
v0 quiescent, v1 quantum, v2 shutdown, v3 the event): an unhandled event is sent on and the loop
continues; a handled one arms the quantum timer only if it is not running, re-arms the quiescent
timer always, and is coalesced; either timer and the shutdown jump to FLUSH (the shutdown setting
the flag first); INGEST clears both timers; FLUSH calls `Flush` on the output channel and restarts
unless shutting down.  The event case is INTERPRETED (`runL`): whatever its shape (early `continue`,
if/else, flipped test), an unhandled event is only forwarded, a handled one only arms, re-arms and
is coalesced. -/
theorem C18_loop_shape :
    runL loopEventProg false = some ["forward"] ∧
    runL loopEventProg true = some ["armQuantumIfIdle", "rearmQuiescent", "coalesce"] ∧
    loopCases =
      [("v3 := <-p0", ["EVENT"]),
       ("<-v1", ["goto FLUSH"]), ("<-v0", ["goto FLUSH"]), ("<-p2", ["v2 = true", "goto FLUSH"])] ∧
    loopIngest = ["v1 = nil", "v0 = nil", "for { select }"] ∧
    loopFlush = ["p5.Flush(p1)", "if !v2 { goto INGEST }"] ∧
    loopPrologue = ["var v0 <-chan time.Time", "var v1 <-chan time.Time", "v2 := false"] := by decide

end SourceTies

/-! ### Non-vacuity -/

-- ties are kept in arrival order, older ones dropped, names independent, time 0 works
example : (runQuanta [] [[⟨"a", 1, true, 1⟩, ⟨"b", 0, true, 2⟩, ⟨"a", 2, true, 3⟩, ⟨"a", 1, true, 4⟩, ⟨"a", 2, true, 5⟩,
    ⟨"b", 0, true, 6⟩], [], [⟨"a", 1, true, 7⟩]]).2
    = [[⟨"a", 2, true, 3⟩, ⟨"a", 2, true, 5⟩, ⟨"b", 0, true, 2⟩, ⟨"b", 0, true, 6⟩], [], [⟨"a", 1, true, 7⟩]] := by decide

example : newest [⟨"a", 1, true, 1⟩, ⟨"a", 2, true, 3⟩, ⟨"a", 1, true, 4⟩, ⟨"a", 2, true, 5⟩] "a"
    = [⟨"a", 2, true, 3⟩, ⟨"a", 2, true, 5⟩] := by decide

-- C18_passthrough: hypotheses satisfiable, with a pending coalesced event in front
example : handles (.user ⟨"a", 5, false, 9⟩) = false ∧
    ([In.ev (.user ⟨"a", 1, true, 1⟩), .quiescent, .ev (.other 3)] : List (In Ev)).any isShutdown = false := by decide

example : (run userCoalescer (init userCoalescer)
    [.ev (.user ⟨"a", 1, true, 1⟩), .ev (.user ⟨"a", 5, false, 9⟩), .ev (.other 3), .quantum, .quantum, .shutdown, .ev (.other 4)]).2
    = [[], [.user ⟨"a", 5, false, 9⟩], [.other 3], [.user ⟨"a", 1, true, 1⟩], [], [], []] := by decide

-- C18_loop_flush: both shapes of the trigger hypothesis are satisfiable
example : ([Ev.user ⟨"a", 1, true, 1⟩, .other 2]).any handles = true := by decide

-- C18_loop_history_*: timers between events, two names, ties, an older event, an unarmed timer
example : pendAfter [] [.ev (.user ⟨"a", 1, true, 1⟩), .quiescent, .ev (.user ⟨"a", 3, true, 2⟩), .ev (.other 9),
    .ev (.user ⟨"b", 0, true, 3⟩), .ev (.user ⟨"a", 2, true, 4⟩), .ev (.user ⟨"a", 3, true, 5⟩), .ev (.user ⟨"a", 9, false, 6⟩)]
    = [⟨"a", 3, true, 2⟩, ⟨"b", 0, true, 3⟩, ⟨"a", 2, true, 4⟩, ⟨"a", 3, true, 5⟩] := by decide

example : (run userCoalescer (init userCoalescer)
    [.quantum, .ev (.user ⟨"a", 1, true, 1⟩), .quiescent, .ev (.user ⟨"a", 3, true, 2⟩), .ev (.other 9),
     .ev (.user ⟨"b", 0, true, 3⟩), .ev (.user ⟨"a", 2, true, 4⟩), .ev (.user ⟨"a", 3, true, 5⟩),
     .ev (.user ⟨"a", 9, false, 6⟩), .quantum, .quiescent]).2
    = [[], [], [.user ⟨"a", 1, true, 1⟩], [], [.other 9], [], [], [], [.user ⟨"a", 9, false, 6⟩],
       [.user ⟨"a", 3, true, 2⟩, .user ⟨"a", 3, true, 5⟩, .user ⟨"b", 0, true, 3⟩], []] := by decide

end SerfProofs.C18
