import SerfProofs.Lemmas.Assoc
import SerfModel.Model.Node
namespace SerfProofs.C04
theorem C04_placeholder : True := trivial
end SerfProofs.C04
