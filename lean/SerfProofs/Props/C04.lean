/-
C04 — Intent gossip is re-queued at most once inside the retention window; merges are silent
(membership part).

Model: `SerfModel.Node` (serf/serf.go `handleNodeJoinIntent`, `handleNodeLeaveIntent`,
`upsertIntent`, `handleNodeJoin`, serf/delegate.go `NotifyMsg`, `MergeRemoteState`).  `NotifyMsg`
re-queues a received messageJoin / messageLeave iff the handler returned true; in the model that
is `(step n op).2.rebroadcast` for `op = .joinMsg … / .leaveMsg …`, and `rebroadcasts n ops` lists
the messages re-queued along a run, in order.

Definitions (in `SerfProofs.Lemmas.NodeGossip`):
  covered n m    the node already holds a Lamport time ≥ `m.ltime` for `m.node`, in the member record
                 if the member is known, else in the buffered intent.
  Keeps n op x   `op` keeps the retention window of `x` open: a known `x` stays known; for an
                 unknown `x` with buffered intent `i`, afterwards `x` is known or still has an
                 intent with time ≥ `i.ltime` (the reaper / `reapIntents` did not drop it).
  Retained n ops m   every input of the run is a delivery of `m` itself or `Keeps … m.node`.
                 Deliveries of `m` always count as inside the window (strong reading: the erase
                 done by a prune leave does not end the window of that very message).
  NoRejoin ops x memberlist does not announce `x` (NotifyJoin) during the run.

Results.
  * `C04_at_most_once_partial`: a join intent or a non-prune leave intent is re-queued at most
    once along any retained run — all 13 inputs of the model are allowed in between (memberlist
    events, other gossip, merges, Leave / force-leave, reaper ticks, refutations).
  * The full statement
        theorem C04_at_most_once (n) (ops) (m) : Retained n ops m → (rebroadcasts n ops).count m ≤ 1
    is FALSE: a prune leave about a known member is re-queued on its 1st delivery (which erases
    the member) and again on its 2nd (the member is now unknown and `upsertIntent` reports a new
    intent); the 3rd is dropped.  `C04_at_most_once_counterexample` is that run; the same
    behaviour was observed on the real node.  `C04_at_most_twice` is what does hold for every
    message when the member is not announced anew in between; `C04_rejoin_third` shows that a
    rejoin between the deliveries allows a third re-queue of a prune leave.
  * Outside the window the bound fails, as it should (`C04_window_needed`: the reaper drops the
    buffered intent, the next copy is new again).
  * `C04_merge_silent`, `C04_merges_never_requeue`: MergeRemoteState never re-queues and queues
    nothing (it ignores the handlers' results).
  * `C04_covered_not_requeued`, `C04_requeue_effect`: a covered message is never re-queued; a
    re-queued delivery was not covered and makes the message covered, or is a prune leave that
    erases the known member.
  * User events and queries (section "user events and queries" at the end; models
    `SerfModel.EventBuf` / `SerfModel.QueryHandle`, theorems of C05 / C08): `handleUserEvent`
    returns true — NotifyMsg re-queues — exactly when the event is delivered, so
    `C04_user_event_at_most_once_partial` (no (time, name, payload) is re-queued twice, for every
    buffer size, start state and history of gossip and push/pull replays without the time 2^64−1)
    is a corollary of C05; `C04_query_at_most_once_partial` is C08's re-broadcast half;
    `C04_pushpull_events_never_requeue`: the event replay of MergeRemoteState ignores
    `handleUserEvent`'s result.  The full statements without `NoWrap` are false
    (`C04_user_event_at_most_once_counterexample`: C19's clock wrap, recorded under C05/C19).
The proof is by the potential `rank` (0 covered / 2 uncovered prune about a known member / 1
otherwise): see `SerfProofs.Lemmas.NodeGossip`.
-/
import SerfProofs.Lemmas.NodeGossip
import SerfProofs.Props.C05
import SerfProofs.Props.C08
namespace SerfProofs.C04
open SerfModel SerfModel.Node SerfProofs.NodeGossip

/-! ### at most once (join intents, non-prune leave intents) -/

/-- a join intent or non-prune leave intent is re-queued at most once while the node retains what it recorded about the member -/
theorem C04_at_most_once_partial (n : Node) (ops : List Op) (m : Msg) (hr : Retained n ops m)
    (hp : m.isPrune = false) : (rebroadcasts n ops).count m ≤ 1 :=
  count_le_one n ops m hr hp

/-- A run used as witness: the join intent of "a" at time 3 arrives before memberlist announces
"a", again after, and again after "a" failed; in between a merge and an unrelated leave. -/
def demoOps : List Op :=
  [.joinMsg "a" 3 0, .nodeJoin "a", .joinMsg "a" 3 1, .merge 9 [("b", 2)] [] 1, .nodeLeave "a" 7,
   .joinMsg "a" 3 2, .leaveMsg "b" 4 false 2, .joinMsg "a" 3 3]

def demoNode : Node := Node.init "self" {}

theorem demo_retained : Retained demoNode demoOps (.join "a" 3) :=
  ⟨Or.inl rfl,
   Or.inr ⟨fun _ => by decide, fun _ _ _ => Or.inl (by decide)⟩,
   Or.inl rfl,
   Or.inr ⟨fun _ => by decide, fun _ h _ => absurd h (by decide)⟩,
   Or.inr ⟨fun _ => by decide, fun _ h _ => absurd h (by decide)⟩,
   Or.inl rfl,
   Or.inr ⟨fun _ => by decide, fun _ h _ => absurd h (by decide)⟩,
   Or.inl rfl,
   trivial⟩

-- four copies delivered, one re-queued
example : (rebroadcasts demoNode demoOps).count (.join "a" 3) = 1 := by decide
example : (rebroadcasts demoNode demoOps).count (.join "a" 3) ≤ 1 :=
  C04_at_most_once_partial _ _ _ demo_retained rfl
example : rebroadcasts demoNode demoOps = [.join "a" 3, .leave "b" 4 false] := by decide

/-! ### at most twice (every message), and the run that needs two -/

/-- any intent is re-queued at most twice inside the retention window if the member is not announced anew -/
theorem C04_at_most_twice (n : Node) (ops : List Op) (m : Msg) (hr : Retained n ops m)
    (hj : NoRejoin ops m.node) : (rebroadcasts n ops).count m ≤ 2 :=
  count_le_two n ops m hr hj

/-- "at most once" fails for prune leaves: known member, three copies, two re-queued -/
theorem C04_at_most_once_counterexample :
    ∃ (n : Node) (ops : List Op) (m : Msg),
      Retained n ops m ∧ NoRejoin ops m.node ∧ (rebroadcasts n ops).count m = 2 :=
  ⟨(step (Node.init "self" {}) (.nodeJoin "a")).1,
   [.leaveMsg "a" 5 true 0, .leaveMsg "a" 5 true 0, .leaveMsg "a" 5 true 0],
   .leave "a" 5 true,
   ⟨Or.inl rfl, Or.inl rfl, Or.inl rfl, trivial⟩,
   (by intro op hop; simp only [List.mem_cons, List.not_mem_nil, or_false, or_self] at hop; subst hop; intro h; cases h),
   by decide⟩

-- the three deliveries one by one: re-queued, re-queued, dropped
example :
    let n0 := (step (Node.init "self" {}) (.nodeJoin "a")).1
    let r1 := step n0 (.leaveMsg "a" 5 true 0)
    let r2 := step r1.1 (.leaveMsg "a" 5 true 0)
    let r3 := step r2.1 (.leaveMsg "a" 5 true 0)
    (r1.2.rebroadcast, known r1.1 "a", r2.2.rebroadcast, r3.2.rebroadcast) = (true, false, true, false) := by
  decide

/-- a rejoin between the copies allows a third re-queue of a prune leave: `NoRejoin` is needed -/
theorem C04_rejoin_third :
    ∃ (n : Node) (ops : List Op) (m : Msg), Retained n ops m ∧ (rebroadcasts n ops).count m = 3 :=
  ⟨(step (Node.init "self" {}) (.nodeJoin "a")).1,
   [.leaveMsg "a" 5 true 0, .nodeJoin "a", .leaveMsg "a" 5 true 0, .leaveMsg "a" 5 true 0],
   .leave "a" 5 true,
   ⟨Or.inl rfl,
    Or.inr ⟨fun h => absurd h (by decide), fun _ _ _ => Or.inl (by decide)⟩,
    Or.inl rfl, Or.inl rfl, trivial⟩,
   by decide⟩

/-- outside the retention window a message is new again: the reaper drops the buffered intent -/
theorem C04_window_needed :
    (rebroadcasts (Node.init "self" {}) [.joinMsg "a" 3 0, .reap 100 (fun _ t => t), .joinMsg "a" 3 100]).count
      (.join "a" 3) = 2 := by
  decide

-- and that reaper tick does not keep the window open
example : ¬ Keeps (step (Node.init "self" {}) (.joinMsg "a" 3 0)).1 (.reap 100 (fun _ t => t)) "a" := by
  intro h
  rcases h.2 ⟨false, 3, 0⟩ (by decide) (by decide) with hk | ⟨i', hi', _⟩
  · exact absurd hk (by decide)
  · have : intentOf (step (step (Node.init "self" {}) (.joinMsg "a" 3 0)).1 (.reap 100 (fun _ t => t))).1 "a" = none := by
      decide
    rw [this] at hi'; cases hi'

/-! ### state-sync merges never trigger re-broadcasts -/

theorem C04_merge_silent (n : Node) (lt : Nat) (st : List (Name × Nat)) (lf : List Name) (w : Nat) :
    (step n (.merge lt st lf w)).2.rebroadcast = false ∧ (step n (.merge lt st lf w)).2.queued = [] :=
  merge_silent n lt st lf w

theorem C04_merges_never_requeue (n : Node) (ops : List Op)
    (h : ∀ op ∈ ops, ∃ lt st lf w, op = .merge lt st lf w) : rebroadcasts n ops = [] :=
  merges_never_requeue ops n h

-- a merge that does change the state (a new intent for "a", "b" marked leaving) and stays silent
example :
    let r := step (step (Node.init "self" {}) (.nodeJoin "b")).1 (.merge 9 [("a", 4), ("b", 2)] ["b"] 1)
    (intentOf r.1 "a", statusOf r.1 "b", r.2.rebroadcast, r.2.queued) =
      (some ⟨false, 4, 1⟩, some .leaving, false, []) := by
  decide
example : rebroadcasts (Node.init "self" {}) [.merge 9 [("a", 4)] [] 1, .merge 9 [("a", 6)] ["c"] 2] = [] :=
  C04_merges_never_requeue _ _ (by
    intro op hop
    simp only [List.mem_cons, List.not_mem_nil, or_false] at hop
    rcases hop with rfl | rfl <;> exact ⟨_, _, _, _, rfl⟩)

/-! ### what a re-queue means -/

/-- a covered message is never re-queued -/
theorem C04_covered_not_requeued (n : Node) (op : Op) (m : Msg) (hm : op.msg? = some m)
    (hc : covered n m = true) : (step n op).2.rebroadcast = false :=
  (outcome_deliver n op m hm).covered_silent hc

/-- a delivery that is re-queued was not covered, and makes the message covered or (prune leave about a known member) erases the member; one that is not re-queued leaves members and intents as they were -/
theorem C04_requeue_effect (n : Node) (op : Op) (m : Msg) (hm : op.msg? = some m) :
    ((step n op).2.rebroadcast = true →
      covered n m = false ∧
      (covered (step n op).1 m = true ∨
       (m.isPrune = true ∧ known n m.node = true ∧ known (step n op).1 m.node = false))) ∧
    ((step n op).2.rebroadcast = false →
      (step n op).1.members = n.members ∧ (step n op).1.intents = n.intents) := by
  have ho := outcome_deliver n op m hm
  constructor
  · intro hr
    rcases ho with ⟨h, _, _⟩ | ⟨_, hc, hc'⟩ | ⟨_, hc, hp, hk, hk'⟩
    · rw [hr] at h; cases h
    · exact ⟨hc, Or.inl hc'⟩
    · exact ⟨hc, Or.inr ⟨hp, hk, hk'⟩⟩
  · intro hr
    rcases ho with ⟨_, hm', hi'⟩ | ⟨h, _, _⟩ | ⟨h, _, _⟩
    · exact ⟨hm', hi'⟩
    · rw [hr] at h; cases h
    · rw [hr] at h; cases h

-- Witness: after the first copy the message is covered, the second copy is dropped.
example : covered (step demoNode (.joinMsg "a" 3 0)).1 (.join "a" 3) = true ∧
    (step (step demoNode (.joinMsg "a" 3 0)).1 (.joinMsg "a" 3 1)).2.rebroadcast = false := by decide
example : (step demoNode (.joinMsg "a" 3 0)).2.rebroadcast = true ∧ covered demoNode (.join "a" 3) = false := by
  decide

/-! ### user events and queries

`delegate.NotifyMsg` re-queues a messageUserEvent iff `handleUserEvent` returned true, and that
function returns true only on the path that appends the event to its slot and hands it to the
application (`Res.delivered` in `SerfModel.EventBuf.handle`); every other path (below the
cut-off, too old, duplicate) returns false.  `delegate.MergeRemoteState` calls
`handleUserEvent` for every event of the remote buffer image and ignores the result. -/

section Events
open SerfModel.Atomic SerfModel.EventBuf SerfProofs.EventBuf
variable {α : Type} [DecidableEq α]

/-- The user events re-queued by NotifyMsg along a history of one node's event buffer: a gossip
delivery is re-queued iff it was delivered; a push/pull replay re-queues nothing. -/
def eventRequeues (b : Buf α) : List (In α) → List (W × α)
  | [] => []
  | .gossip lt x :: rest =>
    (if (handle b lt x).2 = .delivered then [(lt, x)] else []) ++ eventRequeues (handle b lt x).1 rest
  | .pushPull e raise image :: rest => eventRequeues (stepIn b (.pushPull e raise image)).1 rest

theorem eventRequeues_sublist (ins : List (In α)) : ∀ b : Buf α,
    (eventRequeues b ins).Sublist (deliveries b ins) := by
  induction ins with
  | nil => intro b; simp [eventRequeues, deliveries, SerfModel.EventBuf.run]
  | cons i rest ih =>
    intro b
    cases i with
    | gossip lt x =>
      have hstep : stepIn b (.gossip lt x) =
          ((handle b lt x).1, if (handle b lt x).2 = .delivered then [(lt, x)] else []) := by
        simp [stepIn, handleAll]
      have := ih (handle b lt x).1
      simp only [eventRequeues, deliveries, SerfModel.EventBuf.run, hstep] at this ⊢
      exact List.Sublist.append (List.Sublist.refl _) this
    | pushPull e raise image =>
      have := ih (stepIn b (.pushPull e raise image)).1
      simp only [eventRequeues, deliveries, SerfModel.EventBuf.run] at this ⊢
      exact List.Sublist.trans this (List.sublist_append_right _ _)

/-- **A user event is re-queued at most once per node**: for every buffer size, start state
(fresh or restored from a snapshot) and every history of gossip deliveries and push/pull
replays that does not carry the time 2^64−1. -/
theorem C04_user_event_at_most_once_partial (N : Nat) (hN : 0 < N) (hN2 : N < 2 ^ 64) (c m : W)
    (ins : List (In α)) (hnw : NoWrap ins) : (eventRequeues (Buf.start N c m) ins).Nodup :=
  List.Nodup.sublist (eventRequeues_sublist ins _) (C05.C05_at_most_once_partial N hN hN2 c m ins hnw)

/-- re-queued ⇔ delivered, for one gossip delivery -/
theorem C04_user_event_requeue_iff (b : Buf α) (lt : W) (x : α) :
    (lt, x) ∈ (if (handle b lt x).2 = .delivered then [(lt, x)] else []) ↔ (handle b lt x).2 = .delivered := by
  by_cases h : (handle b lt x).2 = .delivered <;> simp [h]

/-- **State-sync merges never re-queue user events.** -/
theorem C04_pushpull_events_never_requeue (b : Buf α) (ins : List (In α))
    (h : ∀ i ∈ ins, ∃ e raise image, i = .pushPull e raise image) : eventRequeues b ins = [] := by
  induction ins generalizing b with
  | nil => rfl
  | cons i rest ih =>
    obtain ⟨e, raise, image, rfl⟩ := h i (List.mem_cons_self ..)
    simp only [eventRequeues]
    exact ih _ (fun j hj => h j (List.mem_cons_of_mem _ hj))

-- non-vacuity: a history with a duplicate, a replay that delivers, and a copy after the replay
example : eventRequeues (α := Nat) (Buf.init 2) [.gossip 1#64 7, .gossip 1#64 7, .gossip 3#64 8,
    .pushPull 9#64 false [some (1#64, [7, 9]), none, some (8#64, [7])], .gossip 8#64 7, .gossip 1#64 9]
    = [(1#64, 7), (3#64, 8)] := by decide
example : eventRequeues (α := Nat) (Buf.init 2)
    [.pushPull 9#64 false [some (1#64, [7, 9])], .pushPull 3#64 true [some (2#64, [1])]] = [] :=
  C04_pushpull_events_never_requeue _ _ (by
    intro i hi
    simp only [List.mem_cons, List.not_mem_nil, or_false] at hi
    rcases hi with rfl | rfl <;> exact ⟨_, _, _, rfl⟩)

/-- The full statement (without `NoWrap`) is false: C05's wrap witness is re-queued twice as well
(buffer of 2: (1, 7) re-queued; (2^64−1, 8) wraps the event clock to 0 and evicts it; the copy of
(1, 7) is delivered and re-queued again). -/
theorem C04_user_event_at_most_once_counterexample :
    ¬ (eventRequeues (α := Nat) (Buf.init 2)
        [.gossip 1#64 7, .gossip (BitVec.allOnes 64) 8, .gossip 1#64 7]).Nodup := by decide

end Events

section Queries
open SerfModel.Atomic SerfModel.EventBuf SerfModel.QueryHandle SerfProofs.EventBuf

/-- **A query is re-queued at most once per node** (`handleQuery` returns true iff the query is
first seen in the window and re-broadcast is not disabled — `C08_rebroadcast_iff`): for every
buffer size, start state, node configuration, regex oracle and every history of query messages
without the time 2^64−1, no (time, id) is re-broadcast twice.  Push/pull does not carry queries. -/
theorem C04_query_at_most_once_partial (re : Oracle) (cfg : NodeCfg) (N : Nat) (hN : 0 < N)
    (hN2 : N < 2 ^ 64) (c m : W) (qs : List QueryMsg) (hnw : NoWrap (C08.asIns qs)) :
    (runQ re cfg (Buf.start N c m) qs).2.2.Nodup :=
  (C08.C08_once_partial re cfg N hN hN2 c m qs hnw).2

example : (runQ C08.exRe C08.exCfg (Buf.init 4) [C08.exQ1, C08.exQ1, C08.exQ2]).2.2 = [(5#64, 9)] := by decide

end Queries

end SerfProofs.C04
